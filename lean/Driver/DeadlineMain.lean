import NbioVerif.Model.Deadline
import NbioVerif.DrvCommon
/-!
dldrv — runs the Deadline model M8 on the annotated op lines of `hdeadline`.

The harness executes every op at a real time and annotates it with what it observed:
  `at=<µs>`   monotonic time just before the call, `at2=<µs>` just after it (µs since the case started),
  `st=open | <kind>:<µs>`    state of the conn just before the call (kind and time from the close notification),
  `post=open | <kind>:<µs>`  state just after it.
Times are *inputs* (the environment's nondeterminism); the outputs compared are only kinds and their order.

The driver resolves the model's nondeterminism in favour of possibility: an observed timeout close is accepted
iff some schedule of `tick/fire/cb` consistent with the observed times produces it (deadlines are taken at their
earliest possible value `at + d`, observations at the time the close notification ran, so an accepted close is
never a false alarm and a refused one is early/stale in every schedule). Before an op that touches a direction
whose timer is already due, `fire` is inserted (the runtime may have started the callback: two-step fire).
-/
open Deadline

structure DS where
  g    : Cfg
  s    : St
  ka   : Nat     -- µs
  wt   : Nat     -- µs
  wska : Nat := 0 -- µs: the Upgrader's KeepaliveTime (0 = none: the upgrade clears the read deadline)
  dialT : Bool := false   -- the write timer in force was armed by DialAsyncTimeout: its closure carries ErrDialTimeout
  virt : Bool := false    -- virtual-descriptor case: timer handles and backlog are printed and compared


def kindOf : Option Cause → String
  | none => "open"
  | some .user => "user"
  | some .ioerr => "io"
  | some (.timeout .r) => "rt"
  | some (.timeout .w) => "wt"

/-- `c.rTimer != nil`, `c.wTimer != nil`, `len(c.writeList) > 0` as the model has them -/
def handles (virt : Bool) (s : St) : String :=
  if !virt then "" else
  let b (x : Bool) : String := if x then "1" else "0"
  s!" rt={b (s.t .r).h} wt={b (s.t .w).h} bl={b (!s.closed && s.backlog)}"

def tickTo (s : St) (t : Nat) : St := if t > s.now then s.withNow t else s

/-- `rd=` (annotation): the expiry the implementation's read deadline timer is armed for right after the op (µs of case
    time, read from the timer object — no waiting), `none` = no timer, `na` = not observable. The model judges it: the
    deadline in force after the op (`a`) is the earliest value the op can have set; a timer armed for an earlier expiry
    has NOT been renewed by this op (`early`), a timer still armed for the future without a deadline in force is `stale`,
    no timer although a deadline is ahead is `unarmed`. Renewals are thus compared at the op itself, independent of how
    long the harness can afford to wait. -/
def rdl (s : St) (ws : List String) (at2 : Nat) : String :=
  match Drv.field ws "rd" with
  | none => ""
  | some v =>
    if s.closed || v == "na" then " rdl=ok"
    else
      let a := (s.t .r).a
      if v == "none" then
        match a with
        | some w => if w > at2 + 2000 then " rdl=unarmed" else " rdl=ok"
        | none => " rdl=ok"
      else
        let x := v.toNat?.getD 0
        match a with
        | some w => if w ≤ x + 2000 then " rdl=ok" else " rdl=early"
        | none => if x > at2 + 2000 then " rdl=stale" else " rdl=ok"

/-- index of the first started callback of direction d -/
def pendIdx (s : St) (d : Dir) : Option Nat :=
  let rec go : List Rec → Nat → Option Nat
    | [], _ => none
    | r :: rs, i => if r.dir == d then some i else go rs (i + 1)
  go s.pend 0

/-- try to close by d's timeout at time t: started callback, else fire-then-callback -/
def tryTimeout (g : Cfg) (s : St) (d : Dir) (t : Nat) : Option St :=
  let s := tickTo s t
  match pendIdx s d with
  | some i => step g s (.cb i)
  | none =>
    match step g s (.fire d) with
    | some s' =>
      match pendIdx s' d with
      | some i => step g s' (.cb i)
      | none => none
    | none => none

inductive Obs | open | closed (kind : String) (t : Nat)

def parseObs (o : Option String) : Obs :=
  match o with
  | none => .open
  | some v =>
    match v.splitOn ":" with
    | [k, t] => .closed (if k == "dt" then "wt" else k) t.toNat!   -- the dial timeout is the write timer's
    | _ => .open

/-- reconcile the model with an observation; returns the new state and the kind the model reports -/
def reconcile (g : Cfg) (s : St) (o : Obs) : St × String :=
  match o with
  | .open => (s, kindOf s.cause)
  | .closed k t =>
    if s.closed then (s, kindOf s.cause)
    else
      let dir? : Option Dir := if k == "rt" then some .r else if k == "wt" then some .w else none
      match dir? with
      | some d =>
        match tryTimeout g s d t with
        | some s' => (s', kindOf s'.cause)
        | none =>
          let why := match (s.t d).a with
            | some _ => "REFUSED-early"
            | none => "REFUSED-stale"
          (closeWith s .user none, why)
      | none => (closeWith s .user none, "REFUSED-unexpected")

/-- the runtime may already have started the callback of a due timer of `d` when an op touching `d` runs -/
def mayFire (g : Cfg) (s : St) (d : Dir) : St :=
  match step g s (.fire d) with
  | some s' => s'
  | none => s

def touched : Op → List Dir
  | .set d _ => [d]
  | .clear d => [d]
  | .setBoth _ => [.r, .w]
  | .clearBoth => [.r, .w]
  | .ka _ => [.r]
  | .wto _ => [.w]
  | .write _ => [.w]
  | .flush _ => [.w]
  | .close => [.r, .w]
  | _ => []

def applyOp (g : Cfg) (s : St) (o : Op) : St :=
  let s := (touched o).foldl (mayFire g) s
  match step g s o with
  | some s' => s'
  | none => s

def isTimeoutObs : Obs → Bool
  | .closed k _ => k == "rt" || k == "wt"
  | .open => false

/-- st / op at `at` / post, with the "timeout won the race against the op" order tried first -/
def runOp (g : Cfg) (s : St) (ops : List Op) (at_ : Nat) (st post : Obs) : St × String × String :=
  let (s, k1) := reconcile g s st
  let s := tickTo s at_
  let early : Option (St × String) :=
    if !s.closed && isTimeoutObs post then
      match post with
      | .closed k t =>
        let d := if k == "rt" then Dir.r else Dir.w
        match tryTimeout g s d t with
        | some s' => some (ops.foldl (applyOp g) s', kindOf s'.cause)
        | none => none
      | .open => none
    else none
  match early with
  | some (s', k2) => (s', k1, k2)
  | none =>
    let s := ops.foldl (applyOp g) s
    let (s, k2) := reconcile g s post
    (s, k1, k2)

def kOf (s : String) : Option K :=
  if s == "full" then some .full else if s == "short" then some .short else if s == "err" then some .err else none

def dOf (s : String) : Option Dir := if s == "r" then some .r else if s == "w" then some .w else none

def num (ws : List String) (k : String) : Nat := ((Drv.field ws k).map String.toNat!).getD 0

/-- model ops of one harness line (durations in ms on the line, µs in the model) -/
def opsOf (ds : DS) (ws : List String) (at_ : Nat) : Option (List Op) :=
  match ws with
  | "O" :: "set" :: d :: ms :: _ => (dOf d).map fun d => [.set d (at_ + ms.toNat! * 1000)]
  | "O" :: "setpast" :: d :: _ => (dOf d).map fun d => [.set d (at_ - 1000)]
  | "O" :: "both" :: ms :: _ => some [.setBoth (at_ + ms.toNat! * 1000)]
  | "O" :: "clear" :: d :: _ => (dOf d).map fun d => [.clear d]
  | "O" :: "clearboth" :: _ => some [.clearBoth]
  | "O" :: "write" :: k :: _ => (kOf k).map fun k => [.write k]
  | "O" :: "writev" :: k :: _ => (kOf k).map fun k => [.write k]   -- Conn.Writev: the same step (queue + write deadline)
  | "O" :: "flush" :: k :: _ => (kOf k).map fun k => [.flush k]
  | "O" :: "close" :: _ => some [.close]
  | "O" :: "wait" :: _ => some []
  | "O" :: "dial" :: ms :: rest =>
    let res := (Drv.field rest "res").getD "none"
    some ([.dial (ms.toNat! * 1000)] ++
      (if res == "ok" then [Op.connected] else if res == "err" then [Op.write .err] else []))
  -- end-to-end tiers: what the server does, at its earliest possible time
  | "O" :: "conn" :: _ => some [.set .r (at_ + ds.ka)]
  | "O" :: "tconn" :: _ => some []                     -- std http.Server: no nbio deadline before the transfer
  -- Upgrade: `KeepaliveTime > 0 ⇒ SetReadDeadline(now + KeepaliveTime)`, else `SetReadDeadline(time.Time{})`: the HTTP
  -- engine's keep-alive deadline does not survive the upgrade
  | "O" :: "wsup" :: _ => some (if ds.wska == 0 then [.clear .r] else [.set .r (at_ + ds.wska)])
  | "O" :: "msg" :: _ => some (if ds.wska == 0 then [] else [.set .r (at_ + ds.wska)])
  | "O" :: "ping" :: _ => some (if ds.wska == 0 then [] else [.set .r (at_ + ds.wska)])   -- heartbeats renew like data messages
  | "O" :: "pong" :: _ => some (if ds.wska == 0 then [] else [.set .r (at_ + ds.wska)])
  | _ => none

partial def loop (h : IO.FS.Stream) (ds : DS) : IO Unit := do
  let line ← h.getLine
  if line.isEmpty then return ()
  let ws := (line.trimAscii.toString.splitOn " ").filter (· ≠ "")
  let at_ := num ws "at"
  let st := parseObs ((Drv.field ws "st").bind fun v => if v == "open" then none else some v)
  let post := parseObs ((Drv.field ws "post").bind fun v => if v == "open" then none else some v)
  match ws with
  | "C" :: _ =>
    let tree := (Drv.field ws "tree").getD "fixed"
    let g := if tree == "pinned" then pinned else fixed
    IO.println "ok"
    let wska := match Drv.field ws "wska" with
      | some v => v.toNat! * 1000
      | none => num ws "ka" * 1000
    loop h { g, s := init, ka := num ws "ka" * 1000, wt := num ws "wt" * 1000, wska, virt := ws.contains "virt" }
  | "O" :: "req" :: rq =>
    -- HTTP exchange: OnComplete (request arrival) arms the write deadline (WriteTimeout) and nothing else; the
    -- response is written; the keep-alive read deadline is renewed by the RESPONSE FLUSH (flushResponse), i.e. not
    -- before the handler has returned — `req slow <ms>`: not before at + ms. Once the client holds the whole response
    -- (at2) the server's queue is empty
    let at2 := num ws "at2"
    let slow := match rq with
      | "slow" :: ms :: _ => ms.toNat! * 1000
      | _ => 0
    let (s, k1) := reconcile ds.g ds.s st
    let s := tickTo s at_
    let s := if ds.wt > 0 then applyOp ds.g s (.set .w (at_ + ds.wt)) else s
    match post with
    | .closed _ _ =>
      let (s, k2) := reconcile ds.g s post
      IO.println s!"R st={k1} post={k2}"
      loop h { ds with s }
    | .open =>
      let s := tickTo s at2
      -- the backlog (if any) has been flushed: a write that leaves a backlog followed by the draining flush
      let s := [Op.write .short, Op.flush .full, Op.set .r (at_ + slow + ds.ka)].foldl (applyOp ds.g) s
      IO.println s!"R st={k1} post={kindOf s.cause}{rdl s ws at2}"
      loop h { ds with s }
  | "O" :: _ =>
    match opsOf ds ws at_ with
    | some ops =>
      let isDial := ws.getD 1 "" == "dial"
      let dialT := ds.dialT || isDial
      let (s, k1, k2) := runOp ds.g ds.s ops at_ st post
      let nm (k : String) : String := if k == "wt" && dialT then "dt" else k
      IO.println s!"R st={nm k1} post={nm k2}{handles ds.virt s}{rdl s ws (num ws "at2")}"
      -- the dial closure lives as long as that timer object: until the handle is dropped on an open conn
      let dialT := if !s.closed && !(s.t .w).h then false else dialT
      loop h { ds with s, dialT }
    | none => IO.println "bad-op"; loop h ds
  | "Q" :: _ =>
    let gbound := num ws "g" * 1000
    let (s, k1) := reconcile ds.g ds.s st
    let s := tickTo s at_
    let od (d : Dir) : Bool := !s.closed && (match (s.t d).a with | some w => w + gbound ≤ s.now | none => false)
    let overdue := if od .r then "r" else if od .w then "w" else "-"
    let k1 := if k1 == "wt" && ds.dialT then "dt" else k1
    IO.println s!"R st={k1} overdue={overdue}{handles ds.virt s}"
    loop h { ds with s }
  | _ => IO.println "bad-op"; loop h ds

def main : IO Unit := do
  loop (← IO.getStdin) { g := fixed, s := init, ka := 0, wt := 0 }
