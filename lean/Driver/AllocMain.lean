import NbioVerif.DrvCommon
import NbioVerif.Model.Alloc
/-! allocdrv: runs the allocator model (M10) on the annotated ops of `halloc`.

    C kind=<pool|aligned|std> buf=<n> free=<n>
    M h size get=<fresh|tag> grow=<cap>
    W h pat
    A|S h payload get=.. grow=.. put=<tag>
    R h size get=.. grow=.. put=<tag>
    F h put=<tag>
    P ...                      (concurrent supporting program: not modelled, answers "ok")
    G h cap len                the client brings a foreign buffer (make([]byte, len, cap))
    K lo hi                    fingerprint of the size-class table classOf lo..hi
-/
open Alloc

def choiceOf (ws : List String) : Choice :=
  match Drv.field ws "get" with
  | some "fresh" => .fresh
  | some t => .reuse t.toNat!
  | none => .fresh

def natField (ws : List String) (k : String) : Nat := ((Drv.field ws k).getD "0").toNat!

def showHandle (s : St) (h : Nat) : String :=
  match s.lookup h with
  | none => "gone"
  | some x =>
    let r := s.region x.rid
    let d := r.bytes.take x.len
    s!"len={x.len} cap={r.cap} d={d.length}:{Drv.fnv d} full={Drv.fnv r.bytes}"

def apply (g : Cfg) (s : St) (o : Op) (h : Nat) (quiet : Bool) : IO St := do
  match step g s o with
  | .ok s' =>
    IO.println (if quiet then "ok" else showHandle s' h)
    pure s'
  | .error .bad => IO.println "rejected"; pure s
  | .error .panic => IO.println "panic"; pure s

partial def loop (h : IO.FS.Stream) (g : Cfg) (s : St) (poisoned : Bool) : IO Unit := do
  let line ← h.getLine
  if line.isEmpty then return ()
  let ws := (line.trimAscii.toString.splitOn " ").filter (· ≠ "")
  match ws with
  | "C" :: rest =>
    let kind := match Drv.field rest "kind" with
      | some "pool" => some Kind.pool | some "aligned" => some Kind.aligned | some "std" => some Kind.std | _ => none
    match kind with
    | none => IO.println "bad-op"; loop h g s poisoned
    | some k =>
      IO.println "ok"
      let g : Cfg := match k with
        | .pool => newPoolCfg (natField rest "buf") (natField rest "free")
        | k => { kind := k }
      loop h g {} false
  | "M" :: hn :: sz :: rest =>
    if poisoned then IO.println "rejected"; loop h g s poisoned else
    let s ← apply g s (.malloc hn.toNat! sz.toNat! (choiceOf rest) (natField rest "grow")) hn.toNat! false
    loop h g s poisoned
  | "W" :: hn :: pat :: _ =>
    match s.lookup hn.toNat! with
    | none => IO.println "rejected"; loop h g s poisoned
    | some x =>
      let s ← apply g s (.write hn.toNat! 0 (Drv.pattern x.len pat.toNat!)) hn.toNat! true
      loop h g s poisoned
  | "A" :: hn :: pl :: rest | "S" :: hn :: pl :: rest =>
    let s ← apply g s (.append hn.toNat! (Drv.payload pl) (choiceOf rest) (natField rest "grow") (natField rest "put")) hn.toNat! false
    loop h g s poisoned
  | "R" :: hn :: sz :: rest =>
    let s ← apply g s (.realloc hn.toNat! sz.toNat! (choiceOf rest) (natField rest "grow") (natField rest "put")) hn.toNat! false
    loop h g s poisoned
  | "F" :: hn :: rest =>
    let s ← apply g s (.free hn.toNat! (natField rest "put")) hn.toNat! true
    loop h g s poisoned
  | "G" :: hn :: cp :: ln :: _ =>
    if poisoned then IO.println "rejected"; loop h g s poisoned else
    let s ← apply g s (.foreign hn.toNat! cp.toNat! ln.toNat!) hn.toNat! false
    loop h g s poisoned
  | "K" :: lo :: hi :: _ =>
    let tab := (List.range (hi.toNat! + 1 - lo.toNat!)).map fun i => UInt8.ofNat (classOf (lo.toNat! + i))
    IO.println s!"cls={Drv.fnv tab}"
    loop h g s poisoned
  | "P" :: _ => IO.println "ok"; loop h g s true
  | _ => IO.println "bad-op"; loop h g s poisoned

def main : IO Unit := do loop (← IO.getStdin) { kind := .std } {} false
