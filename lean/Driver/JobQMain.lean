import NbioVerif.DrvCommon
import NbioVerif.Model.ExecQ
/-! jobqdrv: runs the job-queue model (M2, `ExecQ`) on the annotated ops of `hjobq`.

Each harness op is a *composite* of model steps: the harness action itself (`submit`, `close`,
`finish`, the executor starting a closure = `spawn`) followed by every step the implementation takes
by itself until it is stable again (`start` of a held job, `finish` of an ungated job, `next`).
The executor (inline / go / tp: starts a closure at once; park: on `W`; pool: `slots` workers and a
FIFO backlog) is part of the driver, not of the model: in the model it is the scheduler. -/
open ExecQ

structure DS where
  kind   : Kind := .conn
  exec   : String := "go"
  slots  : Nat := 1
  busy   : Nat := 0
  parked : List Nat := []                 -- conns whose drainer closure is held by the executor
  conns  : List St := []
  gated  : List (Nat × Bool) := []        -- job ↦ waits for its gate
  owner  : List (Nat × Nat) := []         -- conn ↦ job whose submitting call runs the drainer inline
  evs    : List String := []
  rets   : List (Nat × Nat) := []
  known  : List Nat := []                 -- job ids used so far
  big    : Bool := false                  -- Timer.Async: the backing array shrank during this op (cap > 1024 branch)
  quiet  : Bool := false                  -- bursts: the event list is not printed, do not build it

def DS.conn (d : DS) (c : Nat) : St := d.conns.getD c {}
def DS.setConn (d : DS) (c : Nat) (s : St) : DS := { d with conns := d.conns.set c s }
def DS.isGated (d : DS) (j : Nat) : Bool := ((d.gated.find? (·.1 == j)).map (·.2)).getD true
def DS.emit (d : DS) (c : Nat) (k : String) (j : Nat) : DS :=
  if d.quiet then d else { d with evs := d.evs ++ [s!"{c}.{k}{j}"] }

/-- the histories (`log`, `done`, `acc`) are ghost state: no step reads them.  During bursts of thousands
    of jobs the driver drops them so that appending stays cheap. -/
def trim (d : DS) (s : St) : St := if d.quiet then { s with log := [], done := [] } else s

def tryStep (d : DS) (c : Nat) (a : Act) : Option DS := (step d.kind (d.conn c) a).map fun s => d.setConn c (trim d s)

mutual
/-- let conn `c` run until it is stable: a held job is entered, an ungated job returns, the locked
    hand-over is taken; stops at a gated running job, at a closure the executor has not started, or
    when the drainer has exited -/
partial def settle (d : DS) (c : Nat) : DS :=
  match (d.conn c).drs with
  | [] => d
  | x :: _ =>
    match x.ph with
    | .spawned => d
    | .ready =>
      match tryStep d c (.start 0) with
      | some d' => settle (d'.emit c "s" x.job) c
      | none => d
    | .running =>
      if d.isGated x.job then d
      else match tryStep d c (.finish 0 false) with
        | some d' => settle (d'.emit c "e" x.job) c
        | none => d
    | .finished =>
      match tryStep d c (.next 0 d.big) with
      | some d' => if (d'.conn c).drs.isEmpty then onExit d' c else settle d' c
      | none => d

/-- the drainer of conn `c` has returned: an inline submitter's call returns, a pool worker takes the
    next closure of the backlog -/
partial def onExit (d : DS) (c : Nat) : DS :=
  let d := match d.owner.find? (·.1 == c) with
    | some (_, j) => { d with rets := d.rets ++ [(j, 1)], owner := d.owner.filter (·.1 != c) }
    | none => d
  if d.exec == "pool" then
    match d.parked with
    | n :: rest => spawnStart { d with parked := rest } n
    | [] => { d with busy := d.busy - 1 }
  else d

partial def spawnStart (d : DS) (c : Nat) : DS :=
  match tryStep d c (.spawn 0 d.big) with
  | some d' => if (d'.conn c).drs.isEmpty then onExit d' c else settle d' c
  | none => d
end

/-- a submission (Execute / MustExecute / Async) and everything it triggers -/
def submit (d : DS) (c j : Nat) (must gated nested report : Bool) : DS :=
  let s := d.conn c
  match step d.kind s (.submit j must) with
  | none => d
  | some s' =>
    let accepted := s'.acc.length > s.acc.length
    let newDrainer := s'.drs.length > s.drs.length
    let s' := if d.quiet then { s' with acc := [] } else s'
    let d := { d.setConn c s' with gated := (j, gated) :: d.gated }
    let inlineOwner := newDrainer && d.exec == "inline" && !nested
    let d := if !report then d
             else if inlineOwner then { d with owner := (c, j) :: d.owner }
             else { d with rets := d.rets ++ [(j, if accepted then 1 else 0)] }
    if !newDrainer then d
    else if d.exec == "park" then { d with parked := d.parked ++ [c] }
    else if d.exec == "pool" then
      if d.busy < d.slots then spawnStart { d with busy := d.busy + 1 } c
      else { d with parked := d.parked ++ [c] }
    else spawnStart d c

def showJobs (d : DS) : String := ",".intercalate (d.conns.map fun s => toString s.list.length)

def insertSorted (x : Nat × Nat) : List (Nat × Nat) → List (Nat × Nat)
  | [] => [x]
  | y :: ys => if x.1 ≤ y.1 then x :: y :: ys else y :: insertSorted x ys

def result (d : DS) : String :=
  let rets := (d.rets.foldl (fun acc x => insertSorted x acc) []).map fun (j, r) => s!"{j}:{r}"
  s!"ev={",".intercalate d.evs} ret={",".intercalate rets} jobs={showJobs d}"

def DS.clear (d : DS) : DS := { d with evs := [], rets := [] }

def runningJob (d : DS) (c : Nat) : Option Nat :=
  match (d.conn c).drs with
  | x :: _ => if x.ph == .running then some x.job else none
  | [] => none

/-- is `order` an admissible run order of a burst: every id belongs to exactly one submitter, no
    repetition, each submitter's ids ascending, `want` ids in total -/
def admissible (base n k : Nat) (order : List Nat) (want : Nat) : Bool :=
  let rec go (xs : List Nat) (nexts : List Nat) : Bool :=
    match xs with
    | [] => true
    | x :: r =>
      if x < base then false else
      let i := (x - base) / n
      if i ≥ k then false else
      if nexts.getD i 0 != (x - base) % n then false
      else go r (nexts.set i ((x - base) % n + 1))
  order.length == want && go order (List.replicate k 0)

partial def loop (h : IO.FS.Stream) (d : DS) : IO Unit := do
  let line ← h.getLine
  if line.isEmpty then return ()
  let ws := (line.trimAscii.toString.splitOn " ").filter (· ≠ "")
  let fld := fun k => (Drv.field ws k).getD ""
  let nums := (ws.drop 1).filter (fun w => !w.contains '=') |>.map String.toNat!
  let d := { d with big := fld "big" == "1" }
  match ws.head? with
  | some "C" =>
    let kind := if fld "kind" == "async" then Kind.async else Kind.conn
    let n := (fld "nconn").toNat!
    IO.println "ok"
    loop h { kind, exec := fld "exec", slots := (fld "slots").toNat!, conns := List.replicate n {} }
  | some "S" =>
    match nums with
    | c :: j :: _ =>
      let from_ := fld "from"
      let nested := from_ != "-" && from_ != ""
      let hostOk := !nested || (runningJob d c == some from_.toNat! && d.isGated from_.toNat!)
      if d.known.contains j || j ≥ 1000 || !hostOk then IO.println "rejected"; loop h d
      else
        let must := fld "must" == "1" || d.kind == .async
        let d := submit { d.clear with known := j :: d.known } c j must (fld "g" != "0") nested true
        IO.println (result d)
        loop h d
    | _ => IO.println "bad-op"; loop h d
  | some "W" =>
    match d.parked with
    | c :: rest =>
      if d.exec != "park" then IO.println "rejected"; loop h d
      else
        let d := spawnStart { d.clear with parked := rest } c
        IO.println (result d)
        loop h d
    | [] => IO.println "rejected"; loop h d
  | some "F" =>
    match nums with
    | c :: j :: _ =>
      if runningJob d c != some j || !d.isGated j then IO.println "rejected"; loop h d
      else
        match tryStep d.clear c (.finish 0 (fld "p" == "1")) with
        | some d' =>
          let d' := settle (d'.emit c "e" j) c
          IO.println (result d')
          loop h d'
        | none => IO.println "rejected"; loop h d
    | _ => IO.println "bad-op"; loop h d
  | some "X" =>
    match nums with
    | c :: _ =>
      let d := d.clear
      if (d.conn c).closed then IO.println (result d); loop h d
      else
        match tryStep d c .close with
        | some d' =>
          -- the engine's close handler routes through MustExecute
          let d' := submit d' c (1000 + c) true false false true
          IO.println (result d')
          loop h d'
        | none => IO.println "rejected"; loop h d
    | _ => IO.println "bad-op"; loop h d
  | some "B" =>
    match nums with
    | c :: n :: k :: _ =>
      let idle := d.conns.all (fun s => s.list.isEmpty)
      if d.exec == "park" || d.exec == "pool" || !idle then IO.println "rejected"; loop h d
      else
        let base := (fld "base").toNat!
        let order := ((fld "order").splitOn ",").filter (· ≠ "") |>.map String.toNat!
        let closed := (d.conn c).closed && d.kind == .conn
        let want := if closed then 0 else n * k
        if !admissible base n k order want then
          IO.println s!"model: run order of the burst is not an admissible merge of {k} submitters x {n} jobs"
          loop h d
        else
          let hold := fld "hold" == "1"
          let must := d.kind == .async
          let d := { d.clear with quiet := true }
          let d := if hold then submit d c (base + 9999) must true false false else d
          let d := order.foldl (fun d j => submit d c j must false false false) d
          let d := if hold then
              match tryStep d c (.finish 0 false) with
              | some d' => settle d' c
              | none => d
            else d
          IO.println s!"acc={want} ran={order.length} jobs={showJobs d}"
          loop h { d.clear with quiet := false }
    | _ => IO.println "bad-op"; loop h d
  | some "D" =>
    -- drain hammer: k submitters x n tiny ungated jobs, free running.  Whatever the interleaving, every submission is
    -- accepted (or every one refused: closed conn), everything accepted runs, the queue ends empty (c05_completes /
    -- c19_async_completes); the driver runs one interleaving (submitter after submitter) through the model
    match nums with
    | c :: n :: k :: _ =>
      let idle := d.conns.all (fun s => s.list.isEmpty)
      if d.exec == "park" || d.exec == "pool" || !idle then IO.println "rejected"; loop h d
      else
        let closed := (d.conn c).closed && d.kind == .conn
        let must := d.kind == .async
        let d := { d.clear with quiet := true }
        let d := (List.range (n * k)).foldl (fun d j => submit d c (200000 + j) must false false false) d
        let drained := (d.conn c).list.isEmpty && (d.conn c).drs.isEmpty
        let want := if closed then 0 else n * k
        if !drained then IO.println "MODEL the model's queue did not drain"
        else IO.println s!"acc={want} ran={want} jobs={showJobs d}"
        loop h { d.clear with quiet := false, gated := [] }
    | _ => IO.println "bad-op"; loop h d
  | some "H" =>
    -- hammer: k goroutines call Execute n times each while another one calls Close
    match nums with
    | c :: n :: k :: _ =>
      let idle := d.conns.all (fun s => s.list.isEmpty)
      if d.exec == "park" || d.exec == "pool" || !idle || d.kind != .conn || (d.conn c).closed then
        IO.println "rejected"; loop h d
      else
        let base := (fld "base").toNat!
        let order := ((fld "order").splitOn ",").filter (· ≠ "") |>.map String.toNat!
        let closeId := 1000 + c
        let body := order.filter (· != closeId)
        if order.length != body.length + 1 || !admissible base n k body body.length then
          IO.println s!"MODEL the jobs that ran are not a merge of prefixes of the {k} submitters' sequences plus the close handler"
          loop h d
        else if order.getLast? != some closeId then
          IO.println "MODEL a job accepted by Execute ran after the close handler (close; submit is refused in the model)"
          loop h d
        else
          let d := { d.clear with quiet := true }
          let d := body.foldl (fun d j => submit d c j false false false false) d
          let d := match tryStep d c .close with
            | some d' => submit d' c closeId true false false false
            | none => d
          IO.println s!"acc={body.length} ran={order.length} jobs={showJobs d}"
          loop h { d.clear with quiet := false }
    | _ => IO.println "bad-op"; loop h d
  | _ => IO.println "bad-op"; loop h d

def main : IO Unit := do loop (← IO.getStdin) {}
