import NbioVerif.Model.ReadPath
import NbioVerif.Model.FdTable
import NbioVerif.Model.UdpSess
import NbioVerif.DrvCommon
/-! gatedrv: runs the ReadPath model on the annotated ops of `hread` (see harness/cmd/hread/main.go) -/
open ReadPath

def b2s (b : Bool) : String := if b then "1" else "0"

def parseAddr (s : String) : Option Addr :=
  match s.splitOn ":" with
  | ["4", ip, port] =>
    match Drv.unhex ip with
    | [a, b, c, d] => some (.v4 a b c d port.toNat!)
    | _ => none
  | ["6", ip, port, zone] =>
    let b := Drv.unhex ip
    if b.length == 16 then some (.v6 b port.toNat! zone.toNat!) else none
  | _ => none

structure Want where
  inn : Bool := false
  out : Bool := false
  rdhup : Bool := false
  err : Bool := false

def parseFlags (s : String) : Option Want :=
  (s.splitOn "+").foldl (fun acc t => acc.bind fun w =>
    if t == "in" then some { w with inn := true } else if t == "out" then some { w with out := true }
    else if t == "rdhup" then some { w with rdhup := true }
    else if t == "err" || t == "hup" then some { w with err := true } else none) (some {})

def flagStr (inn out rdhup err : Bool) : String :=
  let p := (if inn then ["in"] else []) ++ (if out then ["out"] else []) ++ (if rdhup then ["rdhup"] else []) ++
           (if err then ["hup", "err"] else [])
  if p.isEmpty then "none" else String.intercalate "+" p

structure DS where
  g : Cfg
  s : St
  exec : String := "def"
  nOpen : Nat := 0
  nDlv : Nat := 0
  intrTotal : Nat := 0
  dead : Bool := false
  ft : FdTable.T := {}                 -- the side conns of the engine (fd table model)
  us : Option UdpSess.St := none        -- timed UDP cases: sessions in logical time (ms)
  remotes : List String := []
  client : Bool := false               -- a dialed UDP conn: the UDP model with one remote, the session identified with the conn
  wadded : Bool := false               -- the writing event was armed (write backlog): one EPOLL_CTL_MOD in LT mode


def ctlStr (g : Cfg) (s : St) (wadded : Bool := false) : String :=
  let a := match g.mode with | .lt => "Ar" | .et => "Arwe" | .os => "Areo"
  -- a write backlog arms the writing event once: EPOLL_CTL_MOD in LT mode (plain ET has it in the interest set already)
  let w := if wadded && g.mode == .lt then ["Mrw"] else []
  String.intercalate "," (a :: w ++ List.replicate s.mods "Mreo")

def taskStr : TS → String
  | .none => "none" | .queued => "queued" | .rd _ _ => "read" | .dec _ => "dec"

def ansStr : Ans → String
  | .data _ b => if b.isEmpty then "zero" else toString b.length
  | .zero => "zero" | .eagain => "eagain" | .eintr => "eintr" | .err => "err" | .closed => "closed"

def stepDesc (s : St) : String :=
  match s.task with
  | .none => "exit" | .queued => "queued" | .rd a _ => "read=" ++ ansStr a | .dec v => s!"dec={v}"

def cerrStr : CErr → String
  | .nil => "nil" | .eof => "eof" | .rderr => "rderr" | .closed => "closed"

def hex16 (n : UInt64) : String :=
  let d := (List.range 16).map fun i => Drv.hexDigit ((n >>> (UInt64.ofNat ((15 - i) * 4))).toNat % 16)
  String.ofList d

/-- side conns: `X <op> side=[k:sent:got:fnv(got):live,…]` -/
def sideStr (t : FdTable.T) : String :=
  let l := (t.conns.toArray.qsort (fun a b => a.k < b.k)).toList
  String.intercalate "," (l.map fun s => s!"{s.k}:{s.sent.length}:{s.got.length}:{hex16 (Drv.fnv s.got)}:{b2s s.live}")

def sideGet (t : FdTable.T) (k : Nat) : Option FdTable.Side := t.conns.find? (·.k == k)

/-- `k1 p1 k2 p2 …` -/
def sidePairs : List String → Option (List (Nat × List UInt8))
  | [] => some []
  | k :: p :: r => (sidePairs r).map fun l => (k.toNat!, Drv.payload p) :: l
  | _ => none


def showSt (d : DS) (what : String) : String × DS :=
  let s := d.s
  let q := if d.g.udp then s.k.dq.length else s.k.rq.length
  -- a dialed UDP conn: announced once like a stream conn (id 0); the model's session of its one remote IS the conn
  let opens := String.intercalate "," (((s.opens.drop d.nOpen).filter fun i => !d.client || i == 0).map toString)
  let dels := String.intercalate "," ((s.dlv.drop d.nDlv).map fun (id, b) => s!"{if d.client then 0 else id}:{b.length}:{hex16 (Drv.fnv b)}")
  let cl := if s.closed then "1:" ++ cerrStr s.cerr else "0"
  (s!"R {what} open=[{opens}] del=[{dels}] q={q} re={s.re} task={taskStr s.task} arm={b2s s.k.armed} edge={b2s s.k.edge} closed={cl} reads={s.reads} idle={s.idle} ctl={ctlStr d.g s d.wadded}",
   { d with nOpen := s.opens.length, nDlv := s.dlv.length })

def fuelOf (g : Cfg) (s : St) : Nat :=
  16 + 4 * ((if g.udp then s.k.dq.length + 1 else s.k.rq.length / (if g.rbs = 0 then 1 else g.rbs) + 1) + s.k.intr)

/-- deliver a report, let the poller finish the batch and (engine's own executor) the task run to its end -/
def deliver (d : DS) (inn out : Bool) : Option St :=
  match report d.g d.s inn out with
  | none => none
  | some s =>
    match runP d.g (fuelOf d.g s + 8) s with
    | none => none
    | some s =>
      if d.g.isAsync && d.exec == "def" then runT d.g (2 * fuelOf d.g s + 8) s else some s

partial def loop (h : IO.FS.Stream) (d : DS) : IO Unit := do
  let line ← h.getLine
  if line.isEmpty then return ()
  let ws := line.trimAscii.toString.splitOn " "
  -- a UDP listener case with a short session timeout (9th field, ms): the sessions of the model never expire, the
  -- histories keep every remote active (gaps below the timeout; `wait … late` ends the comparison)
  let ws := match ws with
    | ["C", a, b, c, d', e, f, g', t] => if f == "udp" && c == "def" && t.toNat! > 0 then ["C", a, b, c, d', e, f, g'] else ["bad"]
    | _ => ws
  let udpto : Nat := match line.trimAscii.toString.splitOn " " with
    | ["C", _, _, _, _, _, _, _, t] => t.toNat!
    | _ => 0
  let say (d : DS) (what : String) : IO Unit := do
    let (l, d) := showSt d what
    IO.println l
    loop h d
  match ws with
  | ["C", mode, async, exec, rbs, cap, typ, np] =>
    let m? : Option Mode := if mode == "lt" then some .lt else if mode == "et" then some .et else if mode == "os" then some .os else none
    match m? with
    | some m =>
      if exec == "real" && (typ == "tcp" || typ == "unix" || typ == "udp") && rbs.toNat! > 0 && cap.toNat! > 0 && np.toNat! > 0 then
        -- supporting real-kernel tier: nothing to predict, the direct oracles judge
        IO.println "R real ok"; loop h { d with dead := true }
      else if (exec == "def" || exec == "park") && (typ == "tcp" || typ == "unix" || typ == "udp" || typ == "udpc") && rbs.toNat! > 0 && cap.toNat! > 0 && np.toNat! > 0 then
        let g : Cfg := { mode := m, async := async == "1", rbs := rbs.toNat!, cap := cap.toNat!, udp := typ == "udp" || typ == "udpc" }
        let client := typ == "udpc"
        let s : St := if g.udp && !client then init else { init with opens := [0] }
        say { g, s, exec, client, us := if udpto > 0 && !client then some { T := udpto } else none } "ok"
      else IO.println "bad-op"; loop h d
    | none => IO.println "bad-op"; loop h d
  | _ =>
    if d.dead then IO.println "dead"; loop h d
    else
    let g := d.g
    let s := d.s
    match ws with
    | ["push", p] =>
      if g.udp then IO.println "bad-op"; loop h d
      else
        match step g s (.push (Drv.payload p)) with
        | some s => say { d with s } "push"
        | none => say d "nop"
    | ["dgram", a, p] =>
      match (if g.udp then parseAddr a else none) with
      | some a' =>
        -- timed cases: the datagram is read by the poll that follows at once (same logical instant)
        let (rs, ix) := match d.remotes.idxOf? a with
          | some i => (d.remotes, i)
          | none => (d.remotes ++ [a], d.remotes.length)
        let us := d.us.map fun u => if (Drv.payload p).isEmpty then u else UdpSess.step u (.dgram ix)
        match step g s (.dgram a' (Drv.payload p)) with
        | some s => say { d with s, us, remotes := rs } "dgram"
        | none => say d "nop"
      | none => IO.println "bad-op"; loop h d
    | ["eof"] =>
      match step g s .eof with
      | some s => say { d with s } "eof"
      | none => IO.println "bad-op"; loop h d
    | ["rderr"] =>
      match step g s .rderr with
      | some s => say { d with s } "rderr"
      | none => say d "nop"
    | ["intr", n] =>
      match step g s (.intr n.toNat!) with
      | some s => say { d with s, intrTotal := d.intrTotal + n.toNat! } "intr"
      | none => say d "nop"
    | "event" :: _ | ["poll"] =>
      -- flags the kernel reports
      let r? : Option (Bool × Bool × Bool × St) :=
        match ws with
        | ["poll"] =>
          let due := match g.mode with | .lt => true | .et => s.k.edge | .os => s.k.armed && s.k.edge
          if !s.k.readable then
            some (false, false, false, if g.mode != .lt then (step g s .stale).getD s else s)
          else some (due, due, false, s)
        | _ :: f :: _ =>
          match parseFlags f with
          | none => none
          | some w =>
            if g.mode == .os && !s.k.armed then some (false, false, false, s)
            else
              let out := w.out && g.mode == .et
              -- ERR|HUP rides on any report while a socket error is pending; an error-only report needs to be asked for
              let any := w.inn || (w.rdhup && s.k.eof) || out || (s.k.rerr && w.err)
              -- the kernel reports the whole ready mask: IN whenever something is readable
              let inn := w.inn || (any && (s.k.qlen > 0 || s.k.eof))
              if any then some (true, inn, out, s) else some (false, false, false, s)
        | _ => none
      match r? with
      | none => IO.println "bad-op"; loop h d
      | some (any, inn, out, s) =>
        let d := { d with s }
        let fl : Flags := { inn, out, rdhup := inn && s.k.eof, err := s.k.rerr }
        if !any || !s.k.reg || s.closed then say d "nop"
        else if (match s.task with | .rd _ _ => true | _ => false) && (!(inn && !out) || g.mode != .et) then say d "busy"
        else
          match deliver d inn out with
          | some s' => say { d with s := s' } ("ev=" ++ flagStr inn out fl.rdhup fl.err)
          | none =>
            let (l, d) := showSt d "spin"
            IO.println l
            loop h { d with dead := true }
    | ["undo"] => say d "nop"
    | ["task", "step"] =>
      if !(g.isAsync && d.exec == "park") then say d "nop"
      else match tstep g s with
        | none => say d "T notask"
        | some s' => say { d with s := s' } ("T " ++ stepDesc s')
    | ["drain"] =>
      if !(g.isAsync && d.exec == "park") then say d "nop"
      else
        let units := if g.udp then s.k.dq.length + 1 else s.k.rq.length / g.rbs + 1
        let bound := 16 + 4 * (units + d.intrTotal)
        match runT g bound s with
        | some s' => say { d with s := s' } "drain"
        | none =>
          let (l, d) := showSt d "spin"
          IO.println l
          loop h { d with dead := true }
    | ["wait", ms, "ok"] =>
      -- logical time passes; the attribution so far as the time model sees it: remote ↦ session (ids from 1)
      let us := d.us.map fun u => UdpSess.step u (.tick ms.toNat!)
      let attr := match us with
        | some u => String.intercalate "," (u.attr.map fun (a, i) => s!"{d.remotes.getD a "?"}>{i + 1}")
        | none => ""
      say { d with us } s!"wait[{attr}]"
    | ["wait", _, "late"] => IO.println "R late"; loop h { d with dead := true }
    | ["poll", "late"] => IO.println "R late"; loop h { d with dead := true }
    | ["backlog", _] =>
      -- the read path does not depend on the write side: only the registration changes (and with it, in the code, the
      -- interest set — which must still ask for EPOLLRDHUP: the reports of this model assume it)
      if g.udp || g.mode == .os then IO.println "bad-op"; loop h d
      else if s.closed then say d "nop"
      else if (match s.task with | .rd _ _ => true | _ => false) && g.isAsync && d.exec == "park" then say d "busy"
      else say { d with wadded := true } "backlog"
    | "xadd" :: _ | "xsend" :: _ | "xclose" :: _ | "xreuse" :: _ =>
      -- further stream conns of the same engine: every change goes through `FdTable.step`
      let sideOK := !g.udp && !g.isAsync
      let sayX (t : FdTable.T) (what : String) : IO Unit := do
        IO.println s!"X {what} side=[{sideStr t}]"
        loop h { d with ft := t }
      let badX : IO Unit := do IO.println "bad-op"; loop h d
      if !sideOK then badX else
      match ws with
      | ["xadd", k] =>
        if (sideGet d.ft k.toNat!).isSome then badX
        else sayX (FdTable.step d.ft (.add k.toNat! k.toNat!)) "xadd"
      | "xsend" :: rest =>
        match sidePairs rest with
        | some ps =>
          if ps.isEmpty || !ps.all (fun (k, _) => match sideGet d.ft k with | some s => s.live | none => false) then badX
          else
            let t := ps.foldl (fun t (k, b) => FdTable.step t (.send k b)) d.ft
            let t := ps.foldl (fun t (k, _) => match sideGet t k with | some s => FdTable.step t (.event s.slot) | none => t) t
            sayX t "xsend"
        | none => badX
      | ["xclose", k] =>
        match sideGet d.ft k.toNat! with
        | some s => if s.live then sayX (FdTable.step d.ft (.close k.toNat!)) "xclose" else badX
        | none => badX
      | ["xreuse", k, j, p] =>
        match sideGet d.ft k.toNat! with
        | some s =>
          if s.live || (sideGet d.ft j.toNat!).isSome then badX
          else
            -- the new conn takes the old conn's descriptor number; stale events for that number are still in the batch
            let t := FdTable.run d.ft [.add j.toNat! s.slot, .send j.toNat! (Drv.payload p), .event s.slot, .event s.slot, .event s.slot]
            sayX t "xreuse"
        | none => badX
      | _ => badX
    | ["key", a] =>
      match parseAddr a with
      | some a => IO.println ("K " ++ Drv.hex (udpKey a)); loop h d
      | none => IO.println "bad-op"; loop h d
    | _ => IO.println "bad-op"; loop h d

def main : IO Unit := do
  loop (← IO.getStdin) { g := { mode := .lt, async := false, rbs := 1, cap := 1, udp := false }, s := init, dead := true }
