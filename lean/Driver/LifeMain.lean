import NbioVerif.Model.Life
import NbioVerif.DrvCommon
/-! lifedrv: runs the Lifecycle model on the annotated ops of `hlife` (see harness/cmd/hlife/main.go). One engine,
several conns. Every conn starts as `Life.mk kind` and every change of its lifecycle state goes through `Life.step`
(`stepE` below is the only place where a `Conn` is written): an op of the harness is a sequence of actions, and an
action that the model does not enable makes the op's result line a `MODEL-ERROR` (a difference for the runner).
So the states compared with the code are exactly the states `Life.runAll (mk kind) acts` reaches, which the theorems
of `Properties/C03.lean` quantify over. -/
open Life

def errStr : Err → String
  | .nil => "nil" | .eof => "eof" | .closed => "closed" | .rtimeout => "rtimeout" | .wtimeout => "wtimeout"
  | .dtimeout => "dtimeout" | .overflow => "overflow" | .epipe => "epipe" | .refused => "refused" | .reset => "reset"
  | .unreach => "unreach" | .again => "again" | .ebadf => "ebadf" | .eexist => "eexist" | .user k => s!"u{k}" | .other => "other"

def parseErr (s : String) : Option Err :=
  if s == "nil" then some .nil else if s == "eof" then some .eof else if s == "closed" then some .closed
  else if s == "rtimeout" then some .rtimeout else if s == "wtimeout" then some .wtimeout
  else if s == "dtimeout" then some .dtimeout else if s == "overflow" then some .overflow
  else if s == "epipe" then some .epipe else if s == "refused" then some .refused else if s == "reset" then some .reset
  else if s == "unreach" then some .unreach
  else if s.startsWith "u" then some (.user (s.drop 1).toString.toNat!) else none

structure Flags where
  inn : Bool := false
  out : Bool := false
  hang : Bool := false

def parseFlags (s : String) : Option Flags :=
  (s.splitOn "+").foldl (fun acc t => acc.bind fun w =>
    if t == "in" then some { w with inn := true } else if t == "out" then some { w with out := true }
    else if t == "rdhup" || t == "err" || t == "hup" then some { w with hang := true } else none) (some {})

inductive KAns | ok | again | intr | fail deriving DecidableEq

def parseAns (s : String) : Option (List KAns) :=
  if s == "-" then some [] else
  (s.splitOn ",").foldr (fun t acc => acc.bind fun l =>
    if t == "ok" then some (.ok :: l) else if t == "again" then some (.again :: l)
    else if t == "intr" then some (.intr :: l) else if t == "fail" then some (.fail :: l) else none) (some [])

/-- a conn of the engine with what the driver needs besides the lifecycle state -/
structure E where
  id : Nat
  c : Conn
  unix : Bool := false
  rq : Nat := 0                       -- bytes in the receive queue
  eof : Bool := false
  rerr : Bool := false
  dq : List Nat := []                 -- datagram sources (ports) queued on a UDP listener
  sessions : List (Nat × Nat) := []   -- UDP listener: port ↦ session id (live sessions)
  nsess : Nat := 0
  parent : Nat := 0
  port : Nat := 0
  peer : Bool := false                -- accepted conn: the real client is still there
  real : Bool := false                -- a real socket (no shim view of its registration)
  cio : Bool := false                 -- the dial's success callback closes the conn

structure DS where
  mode : String := "lt"
  maxwb : Nat := 0
  es : List E := []
  stopped : Bool := true
  listen : Bool := false
  opens : List String := []
  closes : List String := []
  dials : List String := []
  err : Option String := none         -- a step the model does not enable was asked for
  small : Bool := false               -- the connection table is too small for any descriptor number

def DS.get (d : DS) (id : Nat) : Option E := d.es.find? (·.id == id)
def DS.put (d : DS) (e : E) : DS :=
  if d.es.any (·.id == e.id) then { d with es := d.es.map fun x => if x.id == e.id then e else x }
  else { d with es := d.es ++ [e] }

/-- the harness holds a `*Conn` for it: announced / registered, or created by the harness itself (`AddConn`) -/
def reach (c : Conn) : Bool := c.visible || c.kind == .add

def left (c : Conn) : Nat := c.q.foldl (fun a i => match i with | .buf n => a + n | .file _ => a) 0

def DS.fail (d : DS) (m : String) : DS := if d.err.isSome then d else { d with err := some m }

/-- note the callbacks a lifecycle step produced (difference of the counters) -/
def note (d : DS) (id : Nat) (a : Act) (c0 c1 : Conn) : DS :=
  let d := if c1.opens > c0.opens then { d with opens := d.opens ++ [toString id] } else d
  let d :=
    if c1.dialN > c0.dialN then
      match a with
      | .dialStartFail _ => d          -- the error return of DialAsync is the report (ret=)
      | .teardown =>
        let e := match c0.td with | some .nil => Err.closed | some e => e | none => Err.other
        { d with dials := d.dials ++ [s!"{id}:{errStr e}"] }
      | _ => { d with dials := d.dials ++ [s!"{id}:nil"] }
    else d
  if c1.closeN > c0.closeN then { d with closes := d.closes ++ [s!"{id}:{errStr c1.cerr}"] } else d

/-- THE way a conn's lifecycle state changes: one enabled `Life.step` -/
def stepE (d : DS) (id : Nat) (a : Act) : DS :=
  match d.get id with
  | none => d.fail s!"no-conn-{id}"
  | some e =>
    match step e.c a with
    | none => d.fail ((s!"disabled({reprStr a})@{id}").replace " " "_")
    | some c1 => note (d.put { e with c := c1 }) id a e.c c1

def stepsE (d : DS) (id : Nat) (as : List Act) : DS := as.foldl (fun d a => stepE d id a) d

/-- a new conn: `Life.mk kind`, nothing else -/
def newE (d : DS) (e : E) (k : Kind) : DS := d.put { e with c := mk k }

/-- run the pending teardown of a conn (the flipper does, before its call returns); a closing UDP listener closes
    its sessions, a closing session leaves its listener's map -/
partial def settle (d : DS) (id : Nat) : DS :=
  match d.get id with
  | none => d
  | some e =>
    if e.c.td.isNone then d else
    let d := stepE d id .teardown
    if e.c.kind == .udp then
      let d := match d.get id with | some e1 => d.put { e1 with sessions := [] } | none => d
      e.sessions.foldl (fun d (_, sid) => if (d.get sid).isSome then settle (stepE d sid (.flip .nil true)) sid else d) d
    else if e.c.kind == .sess then
      match d.get e.parent with
      | some pe => d.put { pe with sessions := pe.sessions.filter (·.2 != id) }
      | none => d
    else d

def closeE (d : DS) (id : Nat) (e : Err) : DS :=
  if (d.get id).isSome then settle (stepE d id (.flip e true)) id else d

def failE (d : DS) (id : Nat) (e : Err) : DS :=
  if (d.get id).isSome then settle (stepE d id (.flip e false)) id else d

/-- a queue change / dropped write deadline by a write-path call on an open conn -/
def setQE (d : DS) (id : Nat) (q : List Item) : DS := stepE d id (.setQ q)

/-- newToWriteBuf: append to the tail buffer while it stays within 64 KiB, else a new item -/
def enqueue (q : List Item) (n : Nat) : List Item :=
  match q.reverse with
  | .buf m :: r => if m + n ≤ 65536 then (.buf (m + n) :: r).reverse else q ++ [.buf n]
  | _ => q ++ [.buf n]

/-- `flush`: head item by head item, one scripted kernel answer per syscall; an exhausted script is EAGAIN -/
def flushQ : Nat → List Item → List KAns → List Item × Bool
  | 0, q, _ => (q, false)
  | _, [], _ => ([], false)
  | _, q, [] => (q, false)
  | f + 1, i :: q, a :: as =>
    match a with
    | .ok => flushQ f q as
    | .again => (i :: q, false)
    | .intr => flushQ f (i :: q) as
    | .fail => (i :: q, true)

/-- lower-case hex without leading zeros (Go's %x) -/
def hexU32 (n : UInt32) : String :=
  let ds := (Nat.toDigits 16 n.toNat)
  String.ofList ds

def clStr (c : Conn) : String := if c.closed then "1:" ++ errStr c.cerr else "0"

def sortStrs (l : List String) : List String := (l.toArray.qsort (· < ·)).toList

def emit (d : DS) (what ret : String) (id? : Option Nat) (log : Nat := 0) : String × DS :=
  let (cl, lf, it) := match id?.bind d.get with
    | some e => (clStr e.c, left e.c, e.c.q.length)
    | none => ("0", 0, 0)
  -- the interest set without the writing bit: `Life.interest` (= the source's masks, Lemmas/SrcBridgeLife.lean)
  let im := match id?.bind d.get with
    | some e =>
      if !e.real && !e.c.closed && e.c.reg && (e.c.kind == Kind.add || e.c.kind == Kind.dial || e.c.kind == Kind.udp) then
        hexU32 (interest (if d.mode == "lt" then .lt else if d.mode == "et" then .et else .os))
      else "-"
    | none => "-"
  let ret := match d.err with | some m => s!"MODEL-ERROR:{m}" | none => ret
  (s!"R {what} ret={ret} open=[{String.intercalate "," d.opens}] close=[{String.intercalate "," (sortStrs d.closes)}] dial=[{String.intercalate "," (sortStrs d.dials)}] c={cl} left={lf} items={it} log={log} im={im}",
   { d with opens := [], closes := [], dials := [], err := none })

/-- the read part of an event on a stream conn: data is consumed; an error on an empty queue closes -/
def readStream (d : DS) (e : E) : DS :=
  if e.c.closed then d
  else if e.rq > 0 then d.put { e with rq := 0 }
  else if e.rerr then closeE d e.id .reset
  else d

/-- the read part of an event on a UDP listener: one session per source, opened on its first datagram -/
def readUdp : Nat → DS → Nat → DS
  | 0, d, _ => d
  | f + 1, d, id =>
    match d.get id with
    | none => d
    | some e =>
      if e.c.closed then d else
      match e.dq with
      | [] => if e.rerr then closeE d id .reset else d
      | p :: rest =>
        match e.sessions.find? (·.1 == p) with
        | some _ => readUdp f (d.put { e with dq := rest }) id
        | none =>
          let sid := 100 * id + e.nsess + 1
          let d := d.put { e with dq := rest, nsess := e.nsess + 1, sessions := e.sessions ++ [(p, sid)] }
          let d := stepE (newE d { id := sid, c := mk .sess, parent := id, port := p } .sess) sid .sessOpen
          readUdp f d id

/-- `ev`/`dev`: the poller handles one event for the conn in the fd table -/
def event (d : DS) (id : Nat) (fl : Flags) (ans : List KAns) : DS × String :=
  match d.get id with
  | none => (d, "nil")
  | some e =>
    if !e.c.inTable then (d, "gone") else
    -- EPOLLOUT: dial completion or flush
    let d :=
      if fl.out then
        if e.c.dial == .pending then
          -- writability of a dialing socket: the kernel has a verdict (nothing scripted = connected)
          let d := if e.c.kres.isNone then stepE d id (.kconnect none) else d
          let d := settle (stepE d id .dialed) id
          -- a success callback that closes the conn: the dial is over, the close path reports nothing more
          match d.get id with
          | some e1 => if e1.cio && e1.c.dialOk > e.c.dialOk then closeE d id .nil else d
          | none => d
        else if e.c.closed || e.c.q.isEmpty then d
        else
          let (q, failed) := flushQ 64 e.c.q ans
          let d := setQE d id q
          if failed then failE d id .epipe else d
      else d
    -- EPOLLIN
    let d :=
      if fl.inn then
        match d.get id with
        | some e => if e.c.kind == .udp then readUdp (if d.mode == "lt" then 3 else 1000) d id else readStream d e
        | none => d
      else d
    -- EPOLLERR | EPOLLHUP | EPOLLRDHUP
    let d := if fl.hang then closeE d id .eof else d
    (d, "nil")

def fmtRet (n : Int) (e : Err) : String := s!"{n}:{errStr e}"

partial def loop (h : IO.FS.Stream) (d : DS) : IO Unit := do
  let line ← h.getLine
  if line.isEmpty then return ()
  let ws := line.trimAscii.toString.splitOn " "
  let say (d : DS) (what ret : String) (id? : Option Nat) (log : Nat := 0) : IO Unit := do
    let (l, d) := emit d what ret id? log
    IO.println l
    loop h d
  let bad : IO Unit := do IO.println "bad-op"; loop h d
  match ws with
  | ["C", mode, np, mw, ln] =>
    if (mode == "lt" || mode == "et" || mode == "os") && np.toNat! > 0 then
      IO.println "ok"
      loop h { mode, maxwb := mw.toNat!, stopped := false, listen := ln == "1" }
    else bad
  | ["C", mode, np, mw, ln, _async, tbl] =>
    if (mode == "lt" || mode == "et" || mode == "os") && np.toNat! > 0 && !(tbl == "1" && ln == "1") then
      IO.println "ok"
      loop h { mode, maxwb := mw.toNat!, stopped := false, listen := ln == "1", small := tbl == "1" }
    else bad
  | ["C", mode, np, mw, ln, _async] =>
    -- AsyncReadInPoller: who reads (poller or read task) is not part of the lifecycle; every op ends quiescent
    if (mode == "lt" || mode == "et" || mode == "os") && np.toNat! > 0 then
      IO.println "ok"
      loop h { mode, maxwb := mw.toNat!, stopped := false, listen := ln == "1" }
    else bad
  | _ =>
    if d.stopped then bad else
    if d.small && ["addc", "addx", "addcr", "addudp", "dialx", "dialc", "dialrace", "acc", "rdial", "hupbusy", "dgram"].contains (ws.headD "") then bad else
    match ws with
    | ["add", id, typ] =>
      if d.small then
        -- addConn's "too many open files" branch: closeWithError on a conn no poller owns, the error is returned
        let id := id.toNat!
        if (d.get id).isSome || !(typ == "tcp" || typ == "unix") then bad else
        let d := closeE (newE d { id, c := mk .add, unix := typ == "unix" } .add) id .other
        say d "add" "other" (some id)
      else
      let id := id.toNat!
      if (d.get id).isSome || !(typ == "tcp" || typ == "unix") then bad else
      let d := stepsE (newE d { id, c := mk .add, unix := typ == "unix" } .add) id [.addCheck, .addP, .addOpen, .addTable, .addReg]
      say d "add" "nil" (some id)
    | ["addc", id, typ] =>
      -- the open notification closes the conn; addConn's second critical section finds the flag: refused
      let id := id.toNat!
      if (d.get id).isSome || !(typ == "tcp" || typ == "unix") then bad else
      let d := stepsE (newE d { id, c := mk .add, unix := typ == "unix" } .add) id [.addCheck, .addP, .addOpen]
      let d := closeE d id .nil
      let d := stepE d id .addTable
      match d.get id with
      | some e =>
        if e.c.add == 4 then say (stepE d id .addReg) "addc" "nil" (some id)
        else say d "addc" "closed" (some id)
      | none => bad
    | ["addcr", id, id2] =>
      -- … and meanwhile another conn got the released descriptor number and was added: two independent conns
      let id := id.toNat!
      let id2 := id2.toNat!
      if (d.get id).isSome || (d.get id2).isSome || id == id2 then bad else
      let d := stepsE (newE d { id, c := mk .add } .add) id [.addCheck, .addP, .addOpen]
      let d := closeE d id .nil
      let d := stepsE (newE d { id := id2, c := mk .add } .add) id2 [.addCheck, .addP, .addOpen, .addTable, .addReg]
      let d := stepE d id .addTable
      match d.get id with
      | some e =>
        if e.c.add == 4 then say (stepE d id .addReg) "addcr" "nil" (some id2)
        else say d "addcr" "closed" (some id2)
      | none => bad
    | ["addx", id, typ] =>
      -- Close (nobody manages the conn: no notification), then AddConn: refused by its closed test
      let id := id.toNat!
      if (d.get id).isSome || !(typ == "tcp" || typ == "unix") then bad else
      let d := closeE (newE d { id, c := mk .add, unix := typ == "unix" } .add) id .nil
      let d := stepE d id .addCheck
      match d.get id with
      | some e =>
        if e.c.add == 6 then say d "addx" "closed" (some id)
        else say (stepsE d id [.addP, .addOpen, .addTable, .addReg]) "addx" "nil" (some id)
      | none => bad
    | ["dialx", id] =>
      -- epoll registration fails: DialAsync returns the error, which is the one report; nobody ever sees the conn
      let id := id.toNat!
      if (d.get id).isSome then bad else
      say (stepE (newE d { id, c := mk .dial } .dial) id (.dialStartFail .eexist)) "dial" "eexist" none
    | ["addudp", id] =>
      let id := id.toNat!
      if (d.get id).isSome then bad else
      say (stepE (newE d { id, c := mk .udp } .udp) id .udpListen) "addudp" "nil" (some id)
    | ["dialrace", id, _] =>
      -- the connect completes and the poller handles the writability while DialAsync is between its registration
      -- and the arming of the dial timeout
      let id := id.toNat!
      if (d.get id).isSome then bad else
      let d := stepsE (newE d { id, c := mk .dial } .dial) id [.dialStart, .kconnect none, .dialed, .armDial]
      -- the dial timeout elapses inside the op: if it was armed, it fires
      let d := match d.get id with
        | some e => if e.c.wT then settle (stepE d id .timerW) id else d
        | none => d
      say d "dialrace" "nil" (some id)
    | ["hupbusy", id, _, _] =>
      -- data, then more data + the peer's FIN + IN|RDHUP (with AsyncReadInPoller: while the read task is still busy):
      -- everything is read, then the conn is closed with EOF
      match d.get id.toNat! with
      | some e =>
        if e.c.kind != .add then bad else
        if !e.c.inTable then say d "hupbusy" "gone" (some e.id) else
        let d := d.put { e with rq := 0, eof := true, rerr := false }
        say (closeE d e.id .eof) "hupbusy" "nil" (some e.id)
      | none => bad
    | ["dgram", id, port, _] =>
      match d.get id.toNat! with
      | some e => if e.c.kind != .udp then bad else say (d.put { e with dq := e.dq ++ [port.toNat!] }) "dgram" "nil" (some e.id)
      | none => bad
    | ["dial", id, kind, ms] =>
      let id := id.toNat!
      if (d.get id).isSome || !(kind == "inprog" || kind == "now" || kind == "refused") then bad else
      let d := newE d { id, c := mk .dial } .dial
      if kind == "refused" then
        -- connect(2) failed at once: DialAsync returns the error, nobody ever sees a conn
        say (stepE d id (.dialStartFail .refused)) "dial" "refused" none
      else if d.small then
        -- addDialer's "too many open files" branch: the error return is the one report
        say (stepE d id (.dialStartFail .other)) "dial" "other" none
      else
        let d := stepsE d id [if kind == "now" then .dialNow else .dialStart, .armDial]
        -- a dial timeout is waited for inside the op: the timer that is armed fires
        let d := if kind == "inprog" && ms.toNat! > 0 then settle (stepE d id .timerW) id else d
        say d "dial" "nil" (some id)
    | ["dialc", id, kind, ms] =>
      let id := id.toNat!
      if (d.get id).isSome || !(kind == "inprog" || kind == "now") || ms != "0" then bad else
      let d := newE d { id, c := mk .dial, cio := true } .dial
      if kind == "now" then
        -- the success callback runs from the engine's async queue, inside the op
        say (closeE (stepsE d id [.dialNow, .armDial]) id .nil) "dial" "nil" (some id)
      else say (stepsE d id [.dialStart, .armDial]) "dial" "nil" (some id)
    | ["dev", id, fl, so] =>
      match d.get id.toNat!, parseFlags fl with
      | some e, some fl =>
        if e.c.kind != .dial || (e.c.dial == .done && e.c.dialN == 1 && !reach e.c) then bad else
        let soerr : Option Err := if so == "refused" then some .refused else if so == "unreach" then some .unreach else none
        -- the kernel decides once how the connect ends: the first dev of a pending dial
        let d := if !e.c.closed && e.c.dial == .pending && e.c.kres.isNone then stepE d e.id (.kconnect soerr) else d
        let (d, ret) := event d e.id fl []
        say d "dev" ret (some e.id)
      | _, _ => bad
    | ["ev", id, fl, ans] =>
      match d.get id.toNat!, parseFlags fl, parseAns ans with
      | some e, some fl, some ans =>
        if e.c.kind == .sess || !reach e.c then bad else
        let (d, ret) := event d e.id fl ans
        say d "ev" ret (some e.id)
      | _, _, _ => bad
    | [op, id, _] =>
      if op == "push" || op == "eof" || op == "rderr" then
        match d.get id.toNat! with
        | some e =>
          if e.c.kind == .sess || e.c.kind == .acc || !reach e.c then bad else
          let e := if op == "push" then { e with rq := e.rq + (Drv.payload ws[2]!).length }
                   else if op == "eof" then { e with eof := true } else { e with rerr := true }
          say (d.put e) op "nil" (some e.id)
        | none => bad
      else if op == "rdial" then
        let id := id.toNat!
        if (d.get id).isSome || !d.listen then bad else
        let kind := ws[2]!
        if kind == "ok" || kind == "okpeer" then
          let d := stepsE (newE d { id, c := mk .dial, real := true } .dial) id [.dialStart, .armDial, .kconnect none, .dialed]
          let d := stepsE (newE d { id := id + 1000, c := mk .acc, real := true } .acc) (id + 1000) [.addCheck, .addP, .addOpen, .addTable, .addReg]
          -- one end is closed again inside the op; the other end sees the peer's orderly close
          let d := if kind == "ok" then closeE (closeE d id .nil) (id + 1000) .eof
                   else closeE (closeE d (id + 1000) .nil) id .eof
          say d "rdial" "nil" (some id)
        else if kind == "refused" then
          let d := stepsE (newE d { id, c := mk .dial, real := true } .dial) id [.dialStart, .armDial, .kconnect (some .refused)]
          let (d, _) := event d id { out := true, hang := true } []
          say d "rdial" "nil" (some id)
        else bad
      else bad
    | [op, id, n, ans] =>
      if op == "w" || op == "wv" || op == "sf" then
        match d.get id.toNat!, parseAns ans with
        | some e, some ans =>
          if e.c.kind == .udp || e.c.kind == .sess || e.c.kind == .acc || !reach e.c then bad else
          let sizes := (n.splitOn "+").map String.toNat!
          let total : Nat := sizes.foldl (· + ·) 0
          -- the user operation itself: refused (and a no-op) on a closed conn
          let d := stepE d e.id (.op 0)
          let c := e.c
          if !(userOp c 0).2 then say d op (fmtRet (if op == "w" then -1 else 0) .closed) (some e.id)
          else if op == "sf" then
            if !c.q.isEmpty then say (setQE d e.id (c.q ++ [.file total])) op (fmtRet total .nil) (some e.id)
            else
              -- direct sendfile loop: EINTR retries, EAGAIN (or an exhausted script) queues the rest
              let rec go : List KAns → Nat → Option Bool   -- some true = sent, some false = queue, none = fail
                | _, 0 => some false
                | [], _ => some false
                | .ok :: _, _ => some true
                | .again :: _, _ => some false
                | .intr :: r, f + 1 => go r f
                | .fail :: _, _ => none
              match go ans 64 with
              | some true => say d op (fmtRet total .nil) (some e.id)
              | some false => say (setQE d e.id [.file total]) op (fmtRet total .nil) (some e.id)
              | none => say (failE d e.id .epipe) op (fmtRet 0 .epipe) (some e.id)
          else
            let single := op == "w" || sizes.length == 1
            if single && total == 0 then say d op (fmtRet 0 .nil) (some e.id)
            else if d.maxwb > 0 && left c + total > d.maxwb then say (failE d e.id .overflow) op (fmtRet (-1) .overflow) (some e.id)
            else if !c.q.isEmpty then
              let q := if single then enqueue c.q total else sizes.foldl (fun q k => if k == 0 then q else enqueue q k) c.q
              say (setQE d e.id q) op (fmtRet total .nil) (some e.id)
            else
              match ans.head? with
              | some .ok => say (stepE d e.id .clearW) op (fmtRet total .nil) (some e.id)
              | some .fail => say (failE d e.id .epipe) op (fmtRet (if single then -1 else 0) .epipe) (some e.id)
              | a =>
                -- EAGAIN / EINTR / exhausted script: nothing could be written now, the whole input is cached
                -- (Write and, since the C01 repairs, Writev alike; empty buffers are not queued)
                let _ := a
                let q := if single then [.buf total] else sizes.foldl (fun q k => if k == 0 then q else enqueue q k) []
                say (setQE d e.id q) op (fmtRet total .nil) (some e.id)
        | _, _ => bad
      else if op == "close" then
        bad
      else bad
    | ["dl", id, k, _, cause] =>
      match d.get id.toNat! with
      | some e =>
        if !reach e.c then bad else
        if !(k == "r" || k == "w" || k == "rw") then bad else
        if e.c.closed then say d "dl" "nil" (some e.id) else
        -- setDeadline arms (or re-arms, keeping its cause) the timer(s); the op waits for the close. The annotation
        -- only says WHICH timer fired (read or write side); the error is the model's
        let d := stepE d e.id (.setDl (k == "r" || k == "rw") (k == "w" || k == "rw"))
        let cs := (cause.drop 6).toString
        if cs == "rtimeout" then say (settle (stepE d e.id .timerR) e.id) "dl" "nil" (some e.id)
        else if cs == "wtimeout" || cs == "dtimeout" then say (settle (stepE d e.id .timerW) e.id) "dl" "nil" (some e.id)
        else say (d.fail s!"impossible-cause-{cs}") "dl" "nil" (some e.id)
      | none => bad
    | ["close", id, k, errs, w] =>
      match d.get id.toNat! with
      | some e =>
        if !reach e.c then bad else
        let es := (errs.splitOn ",").map String.toNat!
        if k.toNat! == 0 || k.toNat! != es.length then bad else
        let win := (w.drop 7).toString
        if e.c.closed then say d "close" "nil" (some e.id)
        else
          match (if win == "-" then none else es[win.toNat!]?) with
          | some x => say (closeE d e.id (if x == 0 then .nil else .user x)) "close" "nil" (some e.id)
          | none => IO.println "R close no-winner"; loop h d
      | none => bad
    | ["x", id] =>
      match d.get id.toNat! with
      | some e =>
        if !reach e.c then bad else
        let ok := (userOp e.c 0).2
        say (stepE d e.id (.op 0)) "x" (if ok then "true:1" else "false:0") (some e.id)
      | none => bad
    | ["ops", id] =>
      match d.get id.toNat! with
      | some e =>
        if e.c.kind == .udp || !reach e.c then bad else
        if (userOp e.c 1).2 then say d "ops" "open" (some e.id)
        else
          -- Write / Writev / Sendfile / Execute / Read on the closed conn: the syscalls the model's step issues
          let d := stepE d e.id (.op 1)
          let lg := match d.get e.id with | some e1 => e1.c.log - e.c.log | none => 0
          say d "ops" "-1:closed/0:closed/0:closed/false/0:closed" (some e.id) lg
      | none => bad
    | ["acc", id] =>
      let id := id.toNat!
      if (d.get id).isSome || !d.listen then bad else
      let d := stepsE (newE d { id, c := mk .acc, peer := true } .acc) id [.addCheck, .addP, .addOpen, .addTable, .addReg]
      say d "acc" "nil" (some id)
    | [op, id] =>
      if op == "eof" || op == "rderr" then
        match d.get id.toNat! with
        | some e =>
          if e.c.kind == .sess || e.c.kind == .acc || !reach e.c || (e.c.kind == .dial && e.c.dialN == 1 && !e.c.inTable && !e.c.closed) then bad else
          say (d.put (if op == "eof" then { e with eof := true } else { e with rerr := true })) op "nil" (some e.id)
        | none => bad
      else if op == "cclose" || op == "creset" then
        match d.get id.toNat! with
        | some e =>
          if !e.peer then bad else
          say (closeE (d.put { e with peer := false }) e.id (if op == "creset" then .reset else .eof)) op "nil" (some e.id)
        | none => bad
      else bad
    | ["stop"] =>
      -- Stop closes what is in the fd table; a pending dial fails with the closed indication
      let d := d.es.foldl (fun d e => if e.c.inTable then closeE d e.id .nil else d) d
      let (l, d) := emit d "stop" "nil" none
      IO.println l
      loop h { d with stopped := true }
    | _ => bad

def main : IO Unit := do loop (← IO.getStdin) {}
