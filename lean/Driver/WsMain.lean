import NbioVerif.Model.Ws
open Ws

def hexVal (c : Char) : Nat :=
  if c.isDigit then c.toNat - 48 else if c.toNat ≥ 97 then c.toNat - 87 else c.toNat - 55
def unhex (s : String) : List UInt8 :=
  let rec go : List Char → List UInt8
    | a :: b :: r => UInt8.ofNat (hexVal a * 16 + hexVal b) :: go r
    | _ => []
  go s.toList
def hexDigitC (n : Nat) : Char := if n < 10 then Char.ofNat (48 + n) else Char.ofNat (87 + n)
def hex (b : List UInt8) : String :=
  String.ofList (b.foldr (fun x acc => hexDigitC (x.toNat / 16) :: hexDigitC (x.toNat % 16) :: acc) [])
def fnv (b : List UInt8) : UInt64 :=
  b.foldl (fun h x => (h ^^^ x.toUInt64) * 1099511628211) 14695981039346656037
def short (b : List UInt8) : String := if b.length ≤ 64 then hex b else s!"#{b.length}:{fnv b}"

def showAct : Act → String
  | .deliver t p => s!"deliver {t} {short p}"
  | .write b => s!"write {short b}"
  | .closeConn => "close"

structure DS where
  g : Cfg
  s : S
  dead : Bool

partial def loop (h : IO.FS.Stream) (d : DS) : IO Unit := do
  let line ← h.getLine
  if line.isEmpty then return ()
  match line.trimAscii.toString.splitOn " " with
  | ["C", comp, lim, rl, mf] =>
    let g : Cfg := { enableCompression := comp == "1", msgLimit := lim.toNat!, readLimit := rl.toNat!,
                     maxFrame := mf.toNat!, isClient := false, maskKey := [] }
    IO.println "ok"; loop h { g, s := {}, dead := false }
  | ["D", hx] =>
    if d.dead then IO.println "dead"; loop h d else
    let r := parse d.g d.s (unhex hx)
    let acts := String.intercalate ";" (r.acts.map showAct)
    match r.err with
    | none => IO.println s!"R ok [{acts}]"; loop h { d with s := r.s }
    | some e => IO.println s!"R err={e.code} [{acts}]"; loop h { d with s := r.s, dead := true }
  | _ => IO.println "bad-op"; loop h d

def main : IO Unit := do
  let g : Cfg := { enableCompression := false, msgLimit := 0, readLimit := 0, maxFrame := 32768, isClient := false, maskKey := [] }
  loop (← IO.getStdin) { g, s := {}, dead := false }
