import NbioVerif.Model.Rfc6455
import NbioVerif.Model.WsMask
import NbioVerif.Model.WsTrunc
import NbioVerif.Model.WsUp
import NbioVerif.Model.WsBatch
import NbioVerif.Model.WsHandshake
import NbioVerif.DrvCommon
/-! wsdrv: runs the websocket model on the annotated ops of `hws exec` (see harness/cmd/hws/main.go) -/
open Ws Drv

def part (s : String) : List UInt8 :=
  if s == "-" || s == "" then []
  else if s.startsWith "@" then
    let (body, key) := match s.splitOn "^" with
      | [a, k] => (a, some (unhex k))
      | _ => (s, none)
    match (body.drop 1).toString.splitOn ":" with
    | [n, p] =>
      let b := pattern n.toNat! p.toNat!
      match key with
      | some k => (b.zipIdx).map (fun (x, i) => x ^^^ k[i % 4]!)
      | none => b
    | _ => []
  else if s.startsWith "=" then
    match (s.drop 1).toString.splitOn ":" with
    | [n, h] => List.replicate n.toNat! ((unhex h).headD 0)
    | _ => []
  else unhex s

def bytesOf (s : String) : List UInt8 := (s.splitOn "+").foldr (fun p acc => part p ++ acc) []

def short (b : List UInt8) : String :=
  if b.isEmpty then "-" else if b.length ≤ 48 then hex b else s!"#{b.length}:{fnv b}"

def showAct : Act → String
  | .deliver t p => s!"deliver:{t}:{short p}"
  | .write b => s!"write:{short b}"
  | .closeConn => "close"

def showActs (a : List Act) : String := "[" ++ String.intercalate ";" (a.map showAct) ++ "]"

def splitNE (s : String) (sep : String) : List String := (s.splitOn sep).filter (· ≠ "")

/-- infl=<key>/<outspec>/<k.n.st,...>|... -/
def inflEntries (s : String) : List (String × InflObs) :=
  (splitNE s "|").filterMap fun ent =>
    match ent.splitOn "/" with
    | [key, out, steps] =>
      let raw := (splitNE steps ",").filterMap fun t =>
        match t.splitOn "." with
        | [k, n, st] => some (k.toNat!, n.toNat!, st.toNat!)
        | _ => none
      let (_, steps) := raw.foldl (fun (acc : Nat × List RdStep) (k, n, st) =>
        (acc.1 + n, acc.2 ++ [{ cap := acc.1 + k, n, st }])) (0, [])
      some (key, { out := bytesOf out, steps })
    | _ => none

def inflFn (ents : List (String × InflObs)) : Bytes → InflObs := fun m =>
  let k := toString (fnv m)
  match ents.find? (·.1 == k) with
  | some (_, o) => o
  | none => ⟨[], []⟩

def keyFn (keys : String) (base : Nat) : Nat → Bytes :=
  let ks := (splitNE keys ",").map unhex
  fun i => ks.getD (i - base) [0, 0, 0, 0]

def mkEnv (ws : List String) (keyField : String) (base : Nat) : Env :=
  let defl := (splitNE ((field ws "defl").getD "") "|").map bytesOf
  { keyAt := keyFn ((field ws keyField).getD "") base,
    deflate := fun _ => defl.headD [],
    inflate := inflFn (inflEntries ((field ws "infl").getD "")) }

def errStr : Option Err → String
  | none => "0"
  | some e => toString e.code

/-! RFC twin on the E line -/

def showEv : Rfc.Ev → String
  | .deliver t p => s!"deliver:{t}:{short p}"
  | .pong p => s!"pong:{short p}"
  | .close p => s!"close:{short p}"

def showVerdict : Rfc.Verdict → String
  | .accept => "accept" | .closed => "closed" | .reject r => "reject:" ++ r.name

def tinflFn (s : String) : Bytes → Rfc.TInfl :=
  let ents := (splitNE s "|").filterMap fun ent =>
    match ent.splitOn "/" with
    | [key, st, out] => some (key, st, out)
    | _ => none
  fun m =>
    let k := toString (fnv m)
    match ents.find? (·.1 == k) with
    | some (_, "ok", out) => .ok (bytesOf out)
    | some (_, "big", _) => .big
    | _ => .err

structure DS where
  mode : String := ""
  g : Cfg := ⟨false, false, 0, 0, 32768, false⟩
  s : S := {}
  dead : Bool := false
  all : List (List UInt8) := []      -- segments of the case, reversed
  up : Option UpS := none            -- upgrade hand-off case
  upSeen : List UInt8 := []          -- every byte of a hand-off case so far
  sendq : Nat := 0                   -- round trip: size of the sender's send queue (0 = direct writes)
  sendqFrom : String := "c"
  -- round trip
  gc : Cfg := ⟨false, false, 0, 0, 32768, true⟩
  c : S := {}
  sv : S := {}

/-- "hexk:hexv,hexk:hexv" -/
def kvList (x : String) : List (List UInt8 × List UInt8) :=
  if x == "-" || x == "" then [] else
  (splitNE x ",").filterMap fun p => match p.splitOn ":" with
    | [k, v] => some (unhex k, unhex v)
    | _ => none

def hexItems (x : String) : List (List UInt8) := (splitNE x ",").map unhex

def sortStrings (l : List String) : List String := (l.toArray.qsort (· < ·)).toList

def opType (s : String) : Nat :=
  match s with
  | "text" => 1 | "binary" => 2 | "close" => 8 | "ping" => 9 | "pong" => 10 | _ => s.toNat!

def cutUp : List UInt8 → List Nat → List (List UInt8)
  | _, [] => []
  | b, k :: ks => b.take k :: cutUp (b.drop k) ks

def writesOf (acts : List Act) : List UInt8 :=
  acts.foldr (fun a acc => match a with | .write b => b ++ acc | _ => acc) []

partial def loop (h : IO.FS.Stream) (d : DS) : IO Unit := do
  let line ← h.getLine
  if line.isEmpty then return ()
  let ws := (line.trimAscii.toString.splitOn " ").filter (· ≠ "")
  let f (k : String) := (field ws k).getD ""
  match ws with
  | "C" :: "recv" :: _ =>
    let comp := f "compress" == "1"
    let g : Cfg := { enableCompression := comp, writeCompression := comp, msgLimit := (f "limit").toNat!,
                     readLimit := (f "readlimit").toNat!, maxFrame := (f "maxframe").toNat!, isClient := f "role" == "client" }
    IO.println "ok"; loop h { mode := "recv", g }
  | "C" :: "up" :: _ =>
    let comp := f "compress" == "1"
    let g : Cfg := { enableCompression := comp, writeCompression := comp, msgLimit := (f "limit").toNat!,
                     readLimit := 0, maxFrame := (f "maxframe").toNat!, isClient := true }
    IO.println "ok"; loop h { mode := "recv", g, up := some {} }
  | "H" :: sp :: _ =>
    match d.up with
    | none => IO.println "bad-op"; loop h d
    | some u =>
      let data := bytesOf sp
      -- the websocket bytes of the case (for the twin line) = what follows the first CR LF CR LF of the whole stream,
      -- whether or not the connection is still alive
      let seen := d.upSeen ++ data
      let wsBytes := match headEnd seen with | some n => seen.drop n | none => []
      let d := { d with upSeen := seen, all := [wsBytes] }
      if d.dead then IO.println "dead"; loop h d else
      let (u', r) := upParse d.g (mkEnv ws "keys" u.s.k.nwrites) u data
      match r.err with
      | none => IO.println s!"R ok cache={r.s.cache.length} msglen={msgLen r.s} {showActs r.acts}"; loop h { d with up := some u', s := u'.s }
      | some er =>
        IO.println s!"R err={er.code} cache={r.s.cache.length} msglen={msgLen r.s} {showActs r.acts}"
        loop h { d with up := some u', s := u'.s, dead := true }
  | "C" :: "rt" :: _ =>
    let comp := f "compress" == "1"
    let g : Cfg := { enableCompression := comp, writeCompression := comp, msgLimit := (f "limit").toNat!,
                     readLimit := 0, maxFrame := (f "maxframe").toNat!, isClient := false }
    IO.println "ok"; loop h { mode := "rt", g, gc := { g with isClient := true }, sendq := ((field ws "sendq").getD "0").toNat!,
                              sendqFrom := (field ws "from").getD "c" }
  | "C" :: "hnd" :: _ => IO.println "ok"; loop h { mode := "hnd" }
  -- handler configurations other than "message handler only" are outside the model: judged by direct oracles (hws), constant line
  | "F" :: _ => IO.println "F -"; loop h d
  | "C" :: "mask" :: _ => IO.println "ok"; loop h { mode := "mask" }
  | "C" :: "hs" :: _ => IO.println "ok"; loop h { mode := "hs" }
  | "Q" :: _ =>
    if d.mode != "hs" then IO.println "bad-op"; loop h d else
    let sha := unhex (f "sha")
    let u : WsH.UCfg := { enableCompression := f "ec" == "1",
                          subprotocols := if f "sp" == "nil" then none else some (hexItems (f "sp")),
                          originOk := f "origin" != "0",
                          respHeader := WsH.canonHeader (kvList (f "rh")) }
    -- the first key header carries the value the Upgrader saw (uk=x<hex>), when the harness reports one
    let hd0 := WsH.canonHeader (kvList (f "hd"))
    let uk := f "uk"
    let hd1 := if uk.startsWith "x" then
        (hd0.foldl (fun (acc : List (List UInt8 × List UInt8) × Bool) kv =>
          if !acc.2 && kv.1 == WsH.s "Sec-Websocket-Key" then (acc.1 ++ [(kv.1, unhex (uk.drop 1).toString)], true) else (acc.1 ++ [kv], acc.2)) ([], false)).1
      else hd0
    let r : WsH.Req := { method := unhex (if f "um" == "" || f "um" == "-" then f "m" else f "um"), header := hd1 }
    match WsH.upgradeDecision (fun _ => sha) u r with
    | .error e => IO.println s!"Q err={e.code} status={e.status}"; loop h d
    | .ok (hd, c) =>
      IO.println s!"Q ok rx={if c.enableCompression then 1 else 0} wx={if c.writeCompression then 1 else 0} proto={hex c.subprotocol} resp={short (WsH.render101 hd)}"
      loop h d
  | "P" :: _ =>
    if d.mode != "hs" then IO.println "bad-op"; loop h d else
    let sha := unhex (f "sha")
    let key := unhex (f "key")
    let dc : WsH.DCfg := { enableCompression := f "ec" == "1", subprotocols := if f "sp" == "-" then [] else hexItems (f "sp"), host := [] }
    let rq := WsH.dialRequest dc key
    let lines := sortStrings ((rq.header.filter fun kv => kv.1 != WsH.s "Host" && kv.1 != WsH.s "Sec-Websocket-Key").map fun kv => hex kv.1 ++ ":" ++ hex kv.2)
    let req := String.ofList (rq.method.map fun b => Char.ofNat b.toNat) ++ "|" ++ String.intercalate "," lines
    let accHdr : List (List UInt8 × List UInt8) := match f "accept" with
      | "ok" => [(WsH.s "Sec-Websocket-Accept", WsH.acceptKey (fun _ => sha) key)]
      | "bad" => [(WsH.s "Sec-Websocket-Accept", WsH.s "bad")]
      | _ => []
    match WsH.dialerAccepts (fun _ => sha) dc key (f "status").toNat! (accHdr ++ WsH.canonHeader (kvList (f "hd"))) with
    | .error e => IO.println s!"P err={match e with | .badHandshake => 7 | .invalidCompression => 8} req={req}"; loop h d
    | .ok c =>
      IO.println s!"P ok rx={if c.enableCompression then 1 else 0} wx={if c.writeCompression then 1 else 0} proto={hex c.subprotocol} req={req}"
      loop h d
  | "Z" :: _ =>
    if d.mode != "hs" then IO.println "bad-op"; loop h d else
    -- the model Dialer against the model Upgrader (key and SHA-1 cancel out: any well-formed key, any function)
    let key := WsH.s "dGhlIHNhbXBsZSBub25jZQ=="
    let dc : WsH.DCfg := { enableCompression := f "cec" == "1", subprotocols := if f "csp" == "-" then [] else hexItems (f "csp"), host := [] }
    let u : WsH.UCfg := { enableCompression := f "sec" == "1", subprotocols := if f "ssp" == "nil" then none else some (hexItems (f "ssp")),
                          originOk := true, respHeader := [] }
    let b (x : Bool) : Nat := if x then 1 else 0
    match WsH.upgradeDecision (fun _ => []) u (WsH.dialRequest dc key) with
    | .error e => IO.println s!"Z err=0 serr={e.code}"; loop h d
    | .ok (hd, sc) =>
      match WsH.dialerAccepts (fun _ => []) dc key 101 (WsH.canonHeader hd) with
      | .error e => IO.println s!"Z err={match e with | .badHandshake => 7 | .invalidCompression => 8} serr=0"; loop h d
      | .ok cc =>
        IO.println s!"Z ok srx={b sc.enableCompression} swx={b sc.writeCompression} crx={b cc.enableCompression} cwx={b cc.writeCompression} proto={hex sc.subprotocol}/{hex cc.subprotocol}"
        loop h d
  | "C" :: "utf8" :: _ => IO.println "ok"; loop h { mode := "utf8" }
  | "C" :: "trunc" :: _ => IO.println "ok"; loop h { mode := "trunc" }
  | "T" :: sp :: _ =>
    if d.mode != "trunc" then IO.println "bad-op"; loop h d else
    IO.println s!"R {short (twWrites [] ((sp.splitOn ",").map bytesOf)).1}"; loop h d
  | "U" :: sp :: _ =>
    if d.mode != "utf8" then IO.println "bad-op"; loop h d else
    IO.println s!"R {if utf8Valid (bytesOf sp) then 1 else 0}"; loop h d
  | "M" :: key :: sp :: _ =>
    if d.mode != "mask" then IO.println "bad-op"; loop h d else
    IO.println s!"R {short (maskFast (unhex key) (bytesOf sp))}"; loop h d
  | "D" :: sp :: _ =>
    if d.mode != "recv" || d.up.isSome then IO.println "bad-op"; loop h d else
    let data := bytesOf sp
    let d := { d with all := data :: d.all }
    if d.dead then IO.println "dead"; loop h d else
    let r := parse d.g (mkEnv ws "keys" d.s.k.nwrites) d.s data
    match r.err with
    | none => IO.println s!"R ok cache={r.s.cache.length} msglen={msgLen r.s} {showActs r.acts}"; loop h { d with s := r.s }
    | some e =>
      IO.println s!"R err={e.code} cache={r.s.cache.length} msglen={msgLen r.s} {showActs r.acts}"
      loop h { d with s := r.s, dead := true }
  | "XC" :: code :: sp :: _ =>
    if d.mode != "recv" then IO.println "bad-op"; loop h d else
    let (k, r) := appWriteClose d.g (mkEnv ws "keys" d.s.k.nwrites) d.s.k code.toNat! (bytesOf sp)
    match r with
    | .ok wr => IO.println s!"XC cerr=0 cw={showActs (wr.map Act.write)}"; loop h { d with s := { d.s with k } }
    | .error e => IO.println s!"XC cerr={e.code} cw=[]"; loop h { d with s := { d.s with k } }
  | "XF" :: op :: so :: fin :: sp :: _ =>
    if d.mode != "recv" then IO.println "bad-op"; loop h d else
    let (k, r) := appWriteFrame d.g (mkEnv ws "keys" d.s.k.nwrites) d.s.k op.toNat! (so == "1") (fin == "1") (bytesOf sp)
    match r with
    | .ok wr => IO.println s!"XF cerr=0 cw={showActs (wr.map Act.write)}"; loop h { d with s := { d.s with k } }
    | .error e => IO.println s!"XF cerr={e.code} cw=[]"; loop h { d with s := { d.s with k } }
  | "X" :: op :: sp :: _ =>
    if d.mode != "recv" then IO.println "bad-op"; loop h d else
    let (k, r) := appWrite d.g (mkEnv ws "keys" d.s.k.nwrites) d.s.k op.toNat! (bytesOf sp)
    match r with
    | .ok wr => IO.println s!"X ok {showActs (wr.map Act.write)}"; loop h { d with s := { d.s with k } }
    | .error e => IO.println s!"X err={e.code} []"; loop h { d with s := { d.s with k } }
  | "E" :: _ =>
    if d.mode != "recv" then IO.println "bad-op"; loop h d else
    let bytes := d.all.foldl (fun acc seg => seg ++ acc) []
    let fs := Rfc.decode (bytes.length + 1) bytes
    let rg (strict : Bool) : Rfc.Cfg := { server := !d.g.isClient, compress := d.g.enableCompression, limit := d.g.msgLimit,
                                          strict, infl := tinflFn (f "tinfl") }
    let a := Rfc.run (rg true) {} 0 [] fs
    let b := Rfc.run (rg false) {} 0 [] fs
    let may := match b.may with | some r => r.name | none => "-"
    IO.println s!"E rfc={showVerdict a.verdict}@{a.at_} len={showVerdict b.verdict}@{b.at_} may={may} exp=[{String.intercalate ";" (b.evs.map showEv)}]"
    loop h d
  | "B" :: side :: spec :: _ =>
    -- a batch of messages written back to back (the executor mode of the C line does not enter the model: delivery order
    -- and content do not depend on when the jobs run)
    if d.mode != "rt" then IO.println "bad-op"; loop h d else
    let cli := side == "c"
    let (gs, gr) := if cli then (d.gc, d.g) else (d.g, d.gc)
    let (ss, sr) := if cli then (d.c, d.sv) else (d.sv, d.c)
    let msgs := (splitNE spec ";").filterMap fun m => match m.splitOn "/" with
      | [t, p] => some (opType t, bytesOf p)
      | _ => none
    let defls := (splitNE (f "defl") "|").map bytesOf
    let base := mkEnv ws "keys" ss.k.nwrites
    -- the i-th compressed message gets the i-th observed deflate output
    let qsize := if d.sendq > 0 && d.sendqFrom == side then d.sendq else 0
    let (k1, wire, werr, werrs) : K × List UInt8 × Nat × List String :=
      if qsize > 0 then
        -- bounded send queue: the batch function of Model/WsBatch.lean (c12_sendq_batch_driver is about it)
        let r := batchQ gs base defls qsize ss.k 0 0 msgs
        (r.k, r.wire, (r.codes.find? (· != 0)).getD 0, r.codes.map toString)
      else
      let (k1, wire, werr, _, werrs) := msgs.foldl (fun (acc : K × List UInt8 × Nat × Nat × List String) (m : Nat × List UInt8) =>
        let (k, wire, werr, ci, werrs) := acc
        let isC := gs.writeCompression && (m.1 == 1 || m.1 == 2)
        let env : Env := { base with deflate := fun _ => defls.getD ci [] }
        let (k', w) := appWrite gs env k m.1 m.2
        match w with
        | .ok wr => (k', wire ++ wr.foldr (· ++ ·) [], werr, if isC then ci + 1 else ci, werrs ++ ["0"])
        | .error er => (k', wire, if werr == 0 then er.code else werr, if isC then ci + 1 else ci, werrs ++ [toString er.code])) (ss.k, [], 0, 0, [])
      (k1, wire, werr, werrs)
    let ss1 : S := { ss with k := k1 }
    let cuts := (splitNE (f "cuts") ",").map String.toNat!
    let fr := feed gr (mkEnv ws "bkeys" sr.k.nwrites) sr (cutUp wire cuts) []
    let back := writesOf fr.acts
    let pb := if back.isEmpty then (⟨ss1, [], none⟩ : PR) else parse gs (mkEnv ws "rkeys" ss1.k.nwrites) ss1 back
    IO.println s!"B werr={werr} werrs={String.intercalate "," werrs} wire={short wire} recv={showActs fr.acts} rerr={errStr fr.err} back={showActs pb.acts} berr={errStr pb.err} rcache={fr.s.cache.length} rmsglen={msgLen fr.s}"
    let down := pb.s.k.connClosed || fr.s.k.connClosed || fr.err.isSome || pb.err.isSome
    let ss2 : S := { pb.s with k := { pb.s.k with connClosed := down } }
    let sr1 : S := { fr.s with k := { fr.s.k with connClosed := down } }
    if cli then loop h { d with c := ss2, sv := sr1 } else loop h { d with sv := ss2, c := sr1 }
  | "W" :: side :: typ :: sp :: _ | "I" :: side :: typ :: sp :: _ =>
    -- `I`: the same write and delivery; the second pair of conns of the harness is independent of this one
    if d.mode != "rt" then IO.println "bad-op"; loop h d else
    let cli := side == "c"
    let (gs, gr) := if cli then (d.gc, d.g) else (d.g, d.gc)
    let (ss, sr) := if cli then (d.c, d.sv) else (d.sv, d.c)
    let (k1, w) := appWrite gs (mkEnv ws "keys" ss.k.nwrites) ss.k (opType typ) (bytesOf sp)
    let ss1 : S := { ss with k := k1 }
    let (werr, wire) := match w with
      | .ok wr => (0, wr.foldr (· ++ ·) [])
      | .error e => (e.code, [])
    let cuts := (splitNE (f "cuts") ",").map String.toNat!
    -- `Ws.feed`: the function the segmentation theorems are about
    let fr := feed gr (mkEnv ws "bkeys" sr.k.nwrites) sr (cutUp wire cuts) []
    let (sr1, racts, rerr) := (fr.s, fr.acts, fr.err)
    let back := writesOf racts
    let pb := if back.isEmpty then (⟨ss1, [], none⟩ : PR) else parse gs (mkEnv ws "rkeys" ss1.k.nwrites) ss1 back
    -- the codec law on the observed tables: readAll (inflate (deflate x)) = x
    let x := bytesOf sp
    let envS := mkEnv ws "keys" 0
    let isData := opType typ == 1 || opType typ == 2
    let codec :=
      if isData && gs.writeCompression && werr == 0 && (f "infl") != "" then
        match readAll gr.msgLimit ((envS.deflate x).length * 2) (envS.inflate (envS.deflate x)) with
        | .ok out => if out == x then "ok" else "bad"
        | .tooLarge _ => "big"
        | _ => "bad"
      else "-"
    IO.println s!"W werr={werr} wire={short wire} recv={showActs racts} rerr={errStr rerr} back={showActs pb.acts} berr={errStr pb.err} rcache={sr1.cache.length} rmsglen={msgLen sr1} codec={codec}"
    let ss2 := pb.s
    let down := ss2.k.connClosed || sr1.k.connClosed || rerr.isSome || pb.err.isSome
    let ss2 : S := { ss2 with k := { ss2.k with connClosed := down } }
    let sr1 : S := { sr1 with k := { sr1.k with connClosed := down } }
    if cli then loop h { d with c := ss2, sv := sr1 } else loop h { d with sv := ss2, c := sr1 }
  | _ => IO.println "bad-op"; loop h d

def main : IO Unit := do loop (← IO.getStdin) {}
