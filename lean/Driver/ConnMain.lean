import NbioVerif.Model.ConnFull
open ConnFull

def pattern (n seed : Nat) : List UInt8 := (List.range n).map (fun i => UInt8.ofNat ((i * 7 + seed) % 256))
def fnv (b : List UInt8) : UInt64 :=
  b.foldl (fun h x => (h ^^^ x.toUInt64) * 1099511628211) 14695981039346656037

def parseK (s : String) : KAns :=
  if s == "a" then .eagain else if s == "i" then .eintr else if s == "f" then .fail
  else .wrote (s.drop 1).toNat!

def parseKs (s : String) : List KAns := if s == "-" then [] else (s.splitOn ",").map parseK

def showRet : Ret → String
  | .ok n => s!"R {n} nil" | .closed n => s!"R {n} closed" | .overflow => "R -1 overflow"
  | .io n => s!"R {n} io" | .again n => s!"R {n} again"

def b2s (b : Bool) : String := if b then "1" else "0"

def showS (s : S) : String :=
  let items := String.intercalate "," (s.wl.map (fun t => toString (t.data.length - t.off)))
  let ctl := String.intercalate "," (s.ctl.map (fun c => (if c.add then "A" else "M") ++ (if c.out then "w" else "r") ++ (if c.ok then "" else "!")))
  s!"S closed={b2s s.closed} left={s.left} items=[{items}] wadded={b2s s.isWAdded} ctl=[{ctl}] wire={s.wire.length}:{fnv s.wire} onclose={s.onClose}"

structure DS where
  g : Cfg
  s : S

partial def loop (h : IO.FS.Stream) (d : DS) : IO Unit := do
  let line ← h.getLine
  if line.isEmpty then return ()
  match line.trimAscii.toString.splitOn " " with
  | ["C", tcp, mode, mwb] =>
    let g : Cfg := { tcp := tcp == "1", mode := if mode == "lt" then .lt else if mode == "et" then .et else .oneshot, maxWB := mwb.toNat! }
    IO.println "ok"; loop h { g, s := {} }
  | ["P", n, seed, k] | ["W", n, seed, k] =>
    let (s, r) := write d.g d.s (pattern n.toNat! seed.toNat!) (parseK k)
    IO.println (showRet r); IO.println (showS s); loop h { d with s }
  | "V" :: m :: rest =>
    let m := m.toNat!
    let sizes := (rest.take m).map String.toNat!
    let seed := (rest[m]!).toNat!
    let k := parseK rest[m+1]!
    let bs := sizes.mapIdx (fun i n => pattern n (seed + i))
    let (s, r) := writev d.g d.s bs k
    IO.println (showRet r); IO.println (showS s); loop h { d with s }
  | ["A"] =>
    let s := pAddRead d.g d.s
    IO.println (showS s); loop h { d with s }
  | ["E", o, i, ks] =>
    let s := event d.g d.s (o == "1") (i == "1") (parseKs ks)
    IO.println (showS s); loop h { d with s }
  | ["X"] =>
    let s := if d.s.closed then d.s else closeNow d.s
    IO.println (showS s); loop h { d with s }
  | _ => IO.println "bad-op"; loop h d

def main : IO Unit := do
  loop (← IO.getStdin) { g := { tcp := true, mode := .lt, maxWB := 0 }, s := {} }
