import NbioVerif.Model.ConnFull
import NbioVerif.DrvCommon
/-! conndrv: runs the ConnFull model on the ops of `hconn` (see harness/cmd/hconn/main.go for the protocol).

`wire` and the ghost `accepted` are write-only for the model: every occurrence of the two fields in
Model/ConnFull.lean has the form `wire := s.wire ++ …` / `accepted := s.accepted ++ …` (checked on every
run by the predicate `cs_model_appends_only` of vlib/props_conn.py). The driver therefore empties them
before every call and folds the bytes each call appends into a running (length, FNV-1a) pair instead of
carrying megabytes of list through every step. -/
open ConnFull

/-- content of the source file of Sendfile: byte i = (i*7 + 3) mod 256 (same as the harness) -/
def fileByte (i : Nat) : UInt8 := UInt8.ofNat ((i * 7 + 3) % 256)

def parseK (s : String) : Option KAns :=
  if s == "eagain" then some .eagain else if s == "eintr" then some .eintr
  else if s == "epipe" || s == "econnreset" then some .fail
  else if s.startsWith "w" then (s.drop 1).toString.toNat?.map .wrote else none

def parseKs (s : String) : Option (List KAns) :=
  if s == "-" || s == "" then some [] else (s.splitOn ",").mapM parseK

structure DS where
  g : Cfg
  s : S
  wlen : Nat := 0
  whash : UInt64 := 14695981039346656037
  alen : Nat := 0
  ahash : UInt64 := 14695981039346656037
  nctl : Nat := 0
  dead : Bool := false

def b2s (b : Bool) : String := if b then "1" else "0"

def showErr : Err → String | .none => "nil" | .closed => "closed" | .overflow => "overflow" | .io => "io"
def showRet (r : Ret) : String := s!"{r.n}:{showErr r.err}"

def showItem : Item → String
  | .buf d off => s!"b{d.length - off}/{d.length}"
  | .file off rem => s!"f{off}+{rem}"

def showCtl (g : Cfg) (c : Ctl) : String :=
  (if c.add then "A" else "M") ++ "r" ++ (if c.out then "w" else "") ++
  (match g.mode with | .lt => "" | .et => "e" | .oneshot => "eo") ++ (if c.ok then "" else "!")

/-- absorb what the last call appended to the wire, print the canonical state -/
def observe (d : DS) (s : S) : DS × String :=
  let wlen := d.wlen + s.wire.length
  let whash := s.wire.foldl (fun h x => (h ^^^ x.toUInt64) * 1099511628211) d.whash
  let alen := d.alen + s.accepted.length
  let ahash := s.accepted.foldl (fun h x => (h ^^^ x.toUInt64) * 1099511628211) d.ahash
  let ctl := String.intercalate "," ((s.ctl.drop d.nctl).map (showCtl d.g))
  let items := String.intercalate "," (s.wl.map showItem)
  -- length and FNV hash of `pending d.g s.wl` without building it (4 MiB file ranges): `pending_length`, `foldPending_eq`
  let pendLen := backlog s.wl
  let pendHash := foldPending d.g (fun (h : UInt64) x => (h ^^^ x.toUInt64) * 1099511628211) s.wl 14695981039346656037
  let acc := if s.closed then "-" else s!"{alen}:{ahash}"
  let edge := if d.g.mode == .et && s.reg && !s.closed then b2s s.edgeDue else "-"
  let str := s!"closed={b2s s.closed} left={s.left} wl=[{items}] pend={pendLen}:{pendHash} acc={acc} wadded={b2s s.isWAdded} reg={b2s s.reg} kout={b2s (s.reg && s.kOut)} dis={b2s s.disarmed} edge={edge} ctl=[{ctl}] wire={wlen}:{whash} onclose={s.onClose} wtimer={b2s s.wTimer}"
  ({ d with s := { s with wire := [], accepted := [] }, wlen, whash, alen, ahash, nctl := s.ctl.length }, str)

inductive Call
  | write (b : Bytes) (ks : List KAns)
  | writev (bs : List Bytes) (ks : List KAns)
  | sendfile (off len : Nat) (ks : List KAns)
  | sendfileNoDup (off len : Nat) (ks : List KAns)

/-- "write <payload> K=<k>" | "writev <m> <payload>… K=<k>" | "sendfile <off> <len> K=<ks> [dup=0]" -/
def parseCall (g : Cfg) (ws : List String) : Option Call := do
  let ks ← parseKs ((Drv.field ws "K").getD "-")
  match ws with
  | ["write", p, _] => some (.write (Drv.payload p) ks)
  | "writev" :: m :: rest =>
    let m ← m.toNat?
    if rest.length ≠ m + 1 then none else some (.writev ((rest.take m).map Drv.payload) ks)
  | ["sendfile", off, len, _] =>
    let off ← off.toNat?
    let len ← len.toNat?
    if off > g.fsize then none else some (.sendfile off len ks)
  | ["sendfile", off, len, _, "dup=0"] =>                   -- dup(2) of the file descriptor fails
    let off ← off.toNat?
    let len ← len.toNat?
    if off > g.fsize then none else some (.sendfileNoDup off len ks)
  | _ => none

/-- the model's step functions for the three calls (`ConnFull.step` is defined through the same) -/
def rawCall (g : Cfg) (s : S) : Call → S × Ret
  | .write b ks => writeOp g s b ks
  | .writev bs ks => writevOp g s bs ks
  | .sendfile off len ks => sendfileOp g s off len ks
  | .sendfileNoDup off len ks => sendfileNoDupOp g s off len ks

/-- a call of the sequential harness: if it flipped the flag (fatal error) its own goroutine runs the
    teardown right after the unlock -/
def doCall (g : Cfg) (s : S) (c : Call) : S × Ret :=
  let r := rawCall g s c
  (teardown r.1, r.2)

def parseMode (s : String) : Option Mode :=
  if s == "lt" then some .lt else if s == "et" then some .et else if s == "oneshot" then some .oneshot else none

/-- the calls issued inside the open callback: items separated by ';', tokens by '/' -/
def parseOpen (g : Cfg) (s : String) : Option (List Call) :=
  if s == "-" || s == "" then some [] else (s.splitOn ";").mapM fun it => parseCall g (it.splitOn "/")

def hungLine : String := "hung"

mutual
partial def evLoop (h : IO.FS.Stream) (d : DS) (bits : String) (more : List String) : IO Unit := do

  let ks := parseKs ((Drv.field more "K").getD "-")
  let cb : Option (Option Call) := match Drv.field more "cb" with
    | none => some none
    | some c => (parseCall d.g (c.splitOn "/")).map some
  let race : Option (Option Call) := match Drv.field more "race" with
    | none => some none
    | some c => if bits == "i" && (Drv.field more "cb").isNone then (parseCall d.g (c.splitOn "/")).map some else none
  match ks, cb, race with
  | some ks, some cb, some race =>
    let out := bits.contains 'o'; let inn := bits.contains 'i'; let err := bits.contains 'e'
    let dl := evDeliv d.g d.s out inn err
    let s1 := evTakeOp d.g d.s out inn err ks
    let (d1, _) := observe d s1
    -- the data callback runs its call while the event is being handled
    let (d2, cbs) := match cb with
      | some c => if dl.2.1 && !d1.s.hung && !d1.s.closed then   -- a closed conn reads ErrClosed: no data callback
                    let (s2, r) := doCall d.g d1.s c
                    ((observe d1 s2).1, showRet r)
                  else (d1, "-")
      | none => (d1, "-")
    let dstr := (if dl.1 then "o" else "") ++ (if dl.2.1 then "i" else "") ++ (if dl.2.2 then "e" else "")
    match race with
    | none =>
      let (d3, str) := observe { d2 with nctl := d.nctl } (teardown (evEnd d.g d2.s))
      if d3.s.hung then IO.println hungLine; loop h { d3 with dead := true }
      else IO.println s!"R deliv={if dstr == "" then "-" else dstr} cb={cbs} rc=- {str}"; loop h d3
    | some c =>
      -- a racing call of another goroutine is started inside ResetPollerEvent and waits for the conn mutex: it
      -- runs between the poller's tail actions `evRearm` and `evErrClose` (the split ops of `evEnd`)
      let sA := evRearm d.g (evConnEnd d.g d2.s)
      if sA.hung then IO.println hungLine; loop h { d2 with s := sA, dead := true }
      else
        let (sB, r) := doCall d.g sA c
        let (d4, str4) := observe { d2 with nctl := d.nctl } (teardown (evErrClose sB))
        if d4.s.hung then IO.println hungLine; loop h { d4 with dead := true }
        else IO.println s!"R deliv={if dstr == "" then "-" else dstr} cb={cbs} rc={showRet r} {str4}"; loop h d4
  | _, _, _ => IO.println "bad-op"; loop h { d with dead := true }

partial def loop (h : IO.FS.Stream) (d : DS) : IO Unit := do
  let line ← h.getLine
  if line.isEmpty then return ()
  let ws := (line.trimAscii.toString.splitOn " ").filter (· ≠ "")
  match ws with
  | "C" :: "real" :: _ =>
    -- a case of the real-socket tier: the model's verdict is that the accepted stream arrives
    IO.println "R ok"; loop h { d with dead := true }
  | "C" :: cfg =>
    let r : Option (Cfg × List Call) := do
      let _ ← Drv.field cfg "typ"
      let mode ← (Drv.field cfg "mode") >>= parseMode
      let maxwb ← (Drv.field cfg "maxwb") >>= String.toNat?
      let fsize ← (Drv.field cfg "fsize") >>= String.toNat?
      let g : Cfg := { mode, maxWB := maxwb, fsize, file := fileByte }
      let ow ← parseOpen g ((Drv.field cfg "openwrite").getD "-")
      some (g, ow)
    match r with
    | none => IO.println "bad-op"; loop h { d with dead := true }
    | some (g, ow) =>
      let dial := Drv.field cfg "dial" == some "1"
      let dialNow := Drv.field cfg "dial" == some "2"
      -- open callback: the calls run before registration; DialAsync: addDialer first, then the connect
      -- completes (EPOLLOUT) and the calls run inside the connected callback
      -- dial=2: the connect finished at once: addDialer's registration first, then the calls (the callback runs
      -- on its own goroutine), no connect event
      let mut d : DS := { g, s := if dial then evTakeOp g (registerDialOp g {}) true false false []
                                  else if dialNow then registerDialNowOp g {} else {} }
      let mut rs : List String := []
      for c in ow do
        let (s, r) := doCall g d.s c
        rs := rs ++ [showRet r]
        let (d', _) := observe d s
        d := d'
      let (d', str) := observe { d with nctl := 0 } (if dial then teardown (evEnd g d.s) else if dialNow then d.s else registerOp g d.s)
      if d'.s.hung then IO.println hungLine; loop h { d' with dead := true }
      else IO.println s!"R ow={String.intercalate ";" rs} {str}"; loop h d'
  | "O" :: rest =>
    if d.dead then IO.println "dead"; loop h d
    else match rest with
    | "event" :: "o" :: more =>
      match Drv.field more "park" with
      | some pc =>
        -- a writer parked inside its critical section while the event arrives: the poller's flush waits for
        -- the mutex, so the call comes first, then the event
        match parseKs ((Drv.field more "K").getD "-"), parseCall d.g (pc.splitOn "/") with
        | some ks, some c =>
          let (s1, r) := doCall d.g d.s c
          let (d1, _) := observe d s1
          let dl := evDeliv d.g d1.s true false false
          let s2 := teardown (evEnd d.g (evTakeOp d.g d1.s true false false ks))
          let (d2, str) := observe { d1 with nctl := d.nctl } s2
          if d2.s.hung then IO.println hungLine; loop h { d2 with dead := true }
          else IO.println s!"R deliv={if dl.1 then "o" else "-"} cb=- rc={showRet r} {str}"; loop h d2
        | _, _ => IO.println "bad-op"; loop h { d with dead := true }
      | none => evLoop h d "o" more
    | "event" :: bits :: more => evLoop h d bits more
    | "close" :: more =>
      -- Close: flip; a racing call of another goroutine inside the teardown window; teardown
      let race : Option (Option Call) := match Drv.field more "race" with
        | none => if more.isEmpty then some none else none
        | some c => (parseCall d.g (c.splitOn "/")).map some
      match race with
      | none => IO.println "bad-op"; loop h { d with dead := true }
      | some race =>
        let s1 := flipClosed d.s
        let (s2, rcs) := match race with
          | some c => let (s2, r) := rawCall d.g s1 c; (s2, showRet r)
          | none => (s1, "-")
        let (d', str) := observe d (teardown s2)
        IO.println s!"R rc={rcs} {str}"; loop h d'
    | ["deadline", t] =>
      if t == "far" || t == "0" then
        let (d', str) := observe d (setWriteDeadline d.s (t == "0"))
        IO.println s!"R {str}"; loop h d'
      else IO.println "bad-op"; loop h { d with dead := true }
    | ["fire"] =>
      -- the deadline expires now: only a timer that is set on an open conn is forced by the harness
      let s := if d.s.wTimer && !d.s.closed then teardown (timerFire (timerExpire d.s)) else d.s
      let (d', str) := observe d s
      IO.println s!"R {str}"; loop h d'
    | _ =>
      match parseCall d.g rest with
      | some c =>
        let (s, r) := doCall d.g d.s c
        let (d', str) := observe d s
        IO.println s!"R n={r.n} err={showErr r.err} {str}"; loop h d'
      | none => IO.println "bad-op"; loop h { d with dead := true }
  | ["Q"] =>
    if d.dead then IO.println "dead"; loop h d
    else
      let (d', str) := observe d d.s
      IO.println s!"Q {str}"; loop h d'
  | _ => IO.println "bad-op"; loop h { d with dead := true }

end

def main : IO Unit := do
  loop (← IO.getStdin) { g := { mode := .lt, maxWB := 0, fsize := 0, file := fileByte }, s := {}, dead := true }
