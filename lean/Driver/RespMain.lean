import NbioVerif.Model.Resp
import NbioVerif.Model.Own
import NbioVerif.Model.OwnBody
import NbioVerif.Model.OwnConn
import NbioVerif.Model.OwnWs
import NbioVerif.Model.Http
import NbioVerif.DrvCommon
/-! respdrv: line-protocol driver of the HTTP response model (harness/cmd/hresp).  See the header of
harness/cmd/hresp/main.go for the op and result formats. -/
open Resp Drv

def hex64 (x : UInt64) : String :=
  String.ofList ((List.range 16).map fun i => hexDigit ((x >>> (UInt64.ofNat (60 - 4 * i))).toNat % 16))

def hexOrHash (b : List UInt8) : String :=
  if b.length ≤ 96 then (if b.isEmpty then "-" else hex b) else s!"{b.length}:{hex64 (fnv b)}"

/-- split at the first CRLFCRLF -/
def splitHead : List UInt8 → List UInt8 → (List UInt8 × List UInt8)
  | acc, 13 :: 10 :: 13 :: 10 :: r => (acc.reverse, r)
  | acc, x :: r => splitHead (x :: acc) r
  | acc, [] => (acc.reverse, [])

/-- bytes.Split(b, "\r\n") -/
def splitLines (b : List UInt8) : List (List UInt8) :=
  let rec go (cur : List UInt8) : List UInt8 → List (List UInt8)
    | 13 :: 10 :: r => cur.reverse :: go [] r
    | x :: r => go (x :: cur) r
    | [] => [cur.reverse]
  go [] b


/-- field lines ordered by field name only (stable: the lines of one name keep their wire order), as
`sortByName` in harness/cmd/hresp/main.go -/
def sortByName (lines : List (List UInt8)) : List String :=
  let keyed := lines.map fun l => (hex (l.takeWhile (· != 58)), hexOrHash l)
  (keyed.mergeSort fun a b => !(decide (b.1 < a.1))).map (·.2)

def joinOrDash (l : List String) : String := if l.isEmpty then "-" else String.intercalate "," l

/-- number of elements of `rev` before the first occurrence of "\n\r0\n\r" (reversed "\r\n0\r\n") -/
def findRev : Nat → List UInt8 → Option Nat
  | j, 10 :: 13 :: 48 :: 10 :: 13 :: _ => some j
  | j, _ :: r => findRev (j + 1) r
  | _, [] => none

/-- same canonical report as `report` in harness/cmd/hresp/main.go -/
def report (wire : List UInt8) : String :=
  let (head, rest) := splitHead [] wire
  let lines := splitLines head
  let first := lines.headD []
  let others := lines.drop 1
  let chunked := others.contains (str "Transfer-Encoding: chunked")
  let hs := joinOrDash (sortByName others)
  let (rest, trl) : List UInt8 × String :=
    if chunked then
      let rev := rest.reverse
      match findRev 0 rev with
      | some j => ((rev.drop j).reverse, joinOrDash (sortByName (splitLines (rev.take j).reverse)))
      | none =>
        if rest.take 3 == [48, 13, 10] then (rest.take 3, joinOrDash (sortByName (splitLines (rest.drop 3))))
        else (rest, "-")
    else (rest, "-")
  s!"head={hexOrHash first} hdr={hs} rest={rest.length}:{hex64 (fnv rest)} trl={trl}"

def showW (ws : List Nat) : String :=
  if ws.isEmpty then "-" else String.intercalate "+" (ws.map toString)

/-- conn writes of one op, as the harness reports them -/
def opWrites (before after : R) (rf : Bool) : List Nat :=
  let seg := (after.wire.drop before.wire.length).map (·.length)
  if rf then
    match seg with
    | [] => []
    | h :: t => (if h > 0 then [h] else []) ++ (if t.sum > 0 then [t.sum] else [])
  else seg.filter (· > 0)

def showRes : WRes → String
  | .ok n => s!"n={n} err=nil"
  | .errCL => "n=0 err=cl"
  | .errParse => "n=0 err=parse"
  | .errConn => "n=0 err=conn"
  | .errCopy n => s!"n={n} err=conn"
  | .panic => "panic"

inductive Phase | none | running | dead | done
  deriving DecidableEq

/-- body-case state: the HTTP parser model supplies what the parser does with the bytes, the request-side
ownership twin consumes it -/
structure BS where
  hg : Http.Cfg
  hp : Http.P
  cache : List UInt8 := []
  ps : Own.PS := {}
  maxBody : Nat := 0
  rl : Nat := 0
  handler : Own.Handler := {}
  dead : Bool := false

/-- conn-case state: the write-queue twin -/
structure CSt where
  cs : OwnC.CS := {}
  maxWB : Nat := 0
  fsize : Nat := 0

/-- ws-case state: the websocket ownership twin, the unconsumed inbound bytes (to find frame boundaries),
the offset of the invalid frame, the conn write counter for injected errors -/
structure WSt where
  g : OwnW.Cfg := {}
  s : OwnW.S := {}
  client : Bool := false
  rx : List UInt8 := []
  off : Nat := 0
  bad : Option Nat := none
  fail : Nat := 0
  writes : Nat := 0
  dead : Bool := false
  queued : Bool := false   -- Execute only queues the handler jobs (qx=1 on a non-blocking conn); `J` runs them
  jobsD : List (Bool × Bool × Nat × List String) := []   -- queued jobs: has a payload, is a ping, payload length, delivery labels

structure DS where
  g : Cfg
  r : R
  ph : Phase
  o : Own.O := {}
  b : Option BS := none
  c : Option CSt := none
  w : Option WSt := none

namespace WsGlue

/-- the answer of the next direct conn write (non-async conns with fail=k) -/
def nextOk (w : WSt) : WSt × Bool :=
  let n := w.writes + 1
  ({ w with writes := n }, !(w.fail > 0 && n ≥ w.fail))

/-- size of an outgoing frame with `n` payload bytes -/
def frameSize (client : Bool) (n : Nat) : Nat :=
  (if n < 126 then 2 else if n ≤ 65535 then 4 else 10) + (if client then 4 else 0) + n

/-- frames of WriteMessage(opcode, n bytes): `none` = refused before any frame (control payload too big) -/
def outFrames (client : Bool) (opcode n : Nat) : Option (List Nat) :=
  if opcode ≥ 8 then (if n > 125 then none else some [frameSize client n])
  else if n == 0 then some [frameSize client 0]
  else
    let rec go (fuel rem : Nat) : List Nat :=
      match fuel with
      | 0 => []
      | f+1 => if rem == 0 then [] else let k := min rem 32768; frameSize client k :: go f (rem - k)
    some (go (n / 32768 + 2) n)

/-- answers for the direct conn writes of a frame list (an async conn does not write in WriteMessage) -/
def answers (w : WSt) (frames : List Nat) : WSt × List (Nat × Bool) :=
  if w.g.async then (w, frames.map fun f => (f, true)) else
  frames.foldl (fun (acc : WSt × List (Nat × Bool)) f =>
    -- a failed write stops WriteMessage: later frames never reach the conn
    if acc.2.any (fun p => !p.2) then (acc.1, acc.2 ++ [(f, true)]) else
    let (w', ok) := nextOk acc.1
    (w', acc.2 ++ [(f, ok)])) (w, [])

/-- the sender goroutine runs until it blocks in conn.Write -/
def settle (w : WSt) : WSt := { w with s := OwnW.dStart w.s }

def send (w : WSt) (opcode n : Nat) : WSt × String :=
  if w.s.closed then (w, "closed") else
  match outFrames w.client opcode n with
  | none => (w, "other")
  | some frames =>
    let qlen0 := OwnW.qlen w.s
    let (w, fr) := answers w frames
    let s' := OwnW.send w.g w.s (opcode ≥ 8) fr
    let err :=
      if w.g.async then
        -- full iff some fragment found the queue at its maximum
        (if w.g.qmax > 0 && qlen0 + frames.length > w.g.qmax then "full" else "none")
      else if fr.any (fun p => !p.2) then "conn" else "none"
    ({ w with s := s' }, err)

structure Hdr where
  opcode : Nat
  fin : Bool
  bl : Nat
  total : Nat

def decode (rx : List UInt8) : Option Hdr :=
  match rx with
  | b0 :: b1 :: rest =>
    let opcode := b0.toNat % 16
    let fin := b0.toNat ≥ 128
    let masked := b1.toNat ≥ 128
    let pl := b1.toNat % 128
    let m := if masked then 4 else 0
    if pl < 126 then some ⟨opcode, fin, pl, 2 + m + pl⟩
    else if pl == 126 then
      match rest with
      | x :: y :: _ => let n := x.toNat * 256 + y.toNat; some ⟨opcode, fin, n, 4 + m + n⟩
      | _ => none
    else
      if rest.length ≥ 8 then
        let n := (rest.take 8).foldl (fun a c => a * 256 + c.toNat) 0
        some ⟨opcode, fin, n, 10 + m + n⟩
      else none
  | _ => none

/-- the frame loop of Parse on the twin; returns the deliveries and whether an error ended it -/
partial def frames (w : WSt) (dl : List String) (mlen : Nat) : WSt × List String × Bool :=
  match decode w.rx with
  | none => (w, dl, false)
  | some h =>
    if w.rx.length < h.total then (w, dl, false) else
    if w.bad == some w.off then (w, dl, true) else
    let control := h.opcode ≥ 8
    let s1 := OwnW.rxFrame w.g w.s ⟨h.total, h.bl, control, h.fin⟩
    let newHeld := s1.held.length - w.s.held.length
    let w := { w with s := s1, rx := w.rx.drop h.total, off := w.off + h.total }
    -- message length for the delivery report
    let mlen' := if control then mlen else mlen + h.bl
    let labels : List String := (if !control && h.fin then [s!"m{mlen'}"] else []) ++
      (if !control && h.bl > 0 && w.g.df then [s!"f{h.bl}"] else [])
    let mlen' := if !control && h.fin then 0 else mlen'
    let isPing := h.opcode == 9
    if w.queued then
      -- the executor only queues the handler jobs: every payload is handed over to its job
      let w :=
        if control then
          if newHeld == 0 then { w with jobsD := w.jobsD ++ [(false, isPing, 0, [])] }
          else { w with s := OwnW.rxQueue w.s, jobsD := w.jobsD ++ [(true, isPing, h.bl, [])] }
        else (List.range newHeld).foldl (fun w i =>
          { w with s := OwnW.rxQueue w.s, jobsD := w.jobsD ++ [(true, false, 0, (labels.drop i).take 1)] }) w
      frames w dl mlen'
    else
    let dl := dl ++ labels
    -- handlers, oldest payload first; a ping makes the default handler send a pong
    let w :=
      if control then
        if newHeld == 0 then (if isPing then (send w 10 h.bl).1 else w)
        else
          if isPing then
            let (w1, fr) := answers w [frameSize w.client h.bl]
            { w1 with s := OwnW.rxHandle w1.g w1.s true (fr.headD (0, true)) }
          else { w with s := OwnW.rxHandle w.g w.s false (0, true) }
      else (List.range newHeld).foldl (fun w _ => { w with s := OwnW.rxHandle w.g w.s false (0, true) }) w
    frames w dl mlen'

/-- the executor runs the queued handler jobs, oldest first -/
def runJobs (w : WSt) : WSt × List String :=
  w.jobsD.foldl (fun (acc : WSt × List String) j =>
    let w := acc.1
    let (hasP, isPing, bl, labels) := j
    let w :=
      if hasP then
        if isPing then
          let (w1, fr) := answers w [frameSize w.client bl]
          { w1 with s := OwnW.jobRun w1.g w1.s true (fr.headD (0, true)) }
        else { w with s := OwnW.jobRun w.g w.s false (0, true) }
      else if isPing then (send w 10 0).1 else w
    -- the user handlers are wrapped in `if !c.closed`: after CloseAndClean a job delivers nothing (it still frees)
    (w, if w.s.closed then acc.2 else acc.2 ++ labels)) ({ w with jobsD := [] }, [])

def showQ (w : WSt) : String :=
  let slots := (List.replicate w.s.qtaken "-") ++ w.s.qrest.map toString
  let q := if slots.isEmpty then "-" else String.intercalate "," slots
  let fl := if w.s.phase == .writing then 1 else 0
  s!"q={q} fl={fl}"

end WsGlue

def parseAns (s : String) : Option (List OwnC.KAns) :=
  if s == "-" || s == "" then some [] else
  (s.splitOn ",").mapM fun t =>
    if t == "eagain" then some .eagain
    else if t == "eintr" then some .eintr
    else if t == "fail" then some .fail
    else if t.startsWith "w" then (t.drop 1).toString.toNat?.bind fun n => if n > 0 then some (.wrote n) else none
    else none

def showItems (wl : List OwnC.CItem) : String :=
  if wl.isEmpty then "-" else String.intercalate "," (wl.map fun
    | .buf _ len off _ => s!"b{len}/{off}"
    | .file rem => s!"f{rem}")

def showCErr : OwnC.CErr → String
  | .none => "none" | .closed => "closed" | .overflow => "overflow" | .io => "io"

/-- the tracker's capacity policy -/
def capOf (n : Nat) : Nat := max 64 ((n + 63) / 64 * 64)

def bodyCfg : Cfg :=
  let g : Cfg := { proto := str "HTTP/1.1", proto11 := true, reqClose := false, head := fun _ => [] }
  { g with head := headBytes g }

/-- handler program "r10,c,w5" → twin handler; the response operations get their environment answers from
the byte-level response model -/
def mkHandler (hp : String) : Option Own.Handler :=
  if hp == "-" then some { ops := [], fin := Own.flushEnv bodyCfg {} } else
  let rec go (toks : List String) (r : R) (acc : List Own.HOp) : Option Own.Handler :=
    match toks with
    | [] => some { ops := acc.reverse, fin := Own.flushEnv bodyCfg r }
    | t :: rest =>
      match (t.drop 1).toString.toNat? with
      | none => if t == "c" then go rest r (.close :: acc) else none
      | some n =>
        if t.startsWith "r" then go rest r (.read n :: acc)
        else if t.startsWith "w" then
          let e := Own.writeEnv bodyCfg r
          go rest (write bodyCfg r (pattern n 5)).1 (.resp e (.write n) :: acc)
        else none
  go (hp.splitOn ",") {} []

def showRd (out : List (Nat × Bool)) : String :=
  if out.isEmpty then "-" else String.intercalate "," (out.map fun p => s!"{p.1}{if p.2 then "e" else ""}")

def showPRes : Own.PRes → String
  | .ok => "ok" | .err => "err" | .closed => "closed" | .tooLong => "toolong"

def mkCfg (ws : List String) : Option Cfg := do
  let v ← field ws "v"
  let conn ← field ws "conn"
  let fail ← field ws "fail"
  let sf ← field ws "sf"
  if v != "10" && v != "11" then none
  let p11 := v == "11"
  let reqClose := conn == "close" || (!p11 && conn != "ka")
  some { proto := str (if p11 then "HTTP/1.1" else "HTTP/1.0"), proto11 := p11, reqClose := reqClose,
         failAt := fail.toNat!, sendfile := sf == "1", head := fun _ => [] }

def withHead (g : Cfg) : Cfg := { g with head := headBytes g }

partial def loop (h : IO.FS.Stream) (s : DS) : IO Unit := do
  let line ← h.getLine
  if line.isEmpty then return ()
  let ws := (line.trimAscii.toString.splitOn " ").filter (· ≠ "")
  let plain (tag : String) (op : Op) : IO Unit := do
    match s.ph with
    | .running =>
      let (r, o) := step s.g s.r op
      let rf := match op with | .readFrom .. => true | _ => false
      -- the ownership twin runs in lockstep on the erased operation
      let n0 := s.o.heap.trace.length
      let (tw, two) := match Own.eraseOp s.g s.r op with
        | some (e, top) => Own.step e s.o top
        | none => (s.o, none)
      let tr := if !(two == o || (two.isNone && o.isNone)) then "!twin-desync"
                else if !(Own.sim r tw) && o != some .panic then "!twin-sim"
                else Own.traceSince tw.heap n0
      let own := Own.showOwn tw
      match o with
      | some .panic => IO.println s!"{tag} panic"; loop h { s with r, o := tw, ph := .dead }
      | some w => IO.println s!"{tag} {showRes w} w={showW (opWrites s.r r rf)} own={own} tr={tr}"; loop h { s with r, o := tw }
      | none => IO.println s!"{tag} w={showW (opWrites s.r r rf)} own={own} tr={tr}"; loop h { s with r, o := tw }
    | .dead => IO.println "dead"; loop h s
    | .done => IO.println "done"; loop h s
    | .none => IO.println "bad-op"; loop h s
  match ws with
  | "C" :: "resp" :: rest =>
    match mkCfg rest with
    | some g => IO.println "ok"; loop h { g := withHead g, r := {}, ph := .running, o := {}, b := none, c := none, w := none }
    | none => IO.println "bad-op"; loop h { s with ph := .none }
  | "C" :: "body" :: rest =>
    match field rest "maxbody", field rest "rl", (field rest "hp").bind mkHandler with
    | some mb, some rl, some hd0 =>
      let hd := { hd0 with rejected := field rest "rej" == some "1" }
      let hg : Http.Cfg := { isClient := false, maxBody := mb.toNat!, urlOk := fun _ => true, protoOk := fun _ => true }
      IO.println "ok"
      loop h { s with ph := .none, c := none, w := none, b := some { hg, hp := Http.init hg, maxBody := mb.toNat!, rl := rl.toNat!, handler := hd } }
    | _, _, _ => IO.println "bad-op"; loop h { s with ph := .none, b := none }
  | "C" :: "conn" :: rest =>
    match (field rest "maxwb").bind (fun (t : String) => t.toNat?), (field rest "fsize").bind (fun (t : String) => t.toNat?), field rest "typ" with
    | some mw, some fs, some typ =>
      if typ == "tcp" || typ == "unix" then
        IO.println "ok"; loop h { s with ph := .none, b := none, w := none, c := some { maxWB := mw, fsize := fs } }
      else IO.println "bad-op"; loop h { s with ph := .none, b := none, c := none }
    | _, _, _ => IO.println "bad-op"; loop h { s with ph := .none, b := none, c := none }
  | "C" :: "ws" :: rest =>
    let fb (k : String) : Bool := field rest k == some "1"
    match (field rest "qmax").bind (fun (t : String) => t.toNat?), (field rest "fail").bind (fun (t : String) => t.toNat?),
          field rest "bad" with
    | some qmax, some fail, some bad =>
      let wg : OwnW.Cfg := { async := fb "async", qmax := qmax, rp := fb "rp", df := fb "df" }
      let w0 : WSt := { g := wg, client := fb "client", bad := bad.toNat?, fail := fail, queued := fb "qx" && !fb "blk" }
      IO.println "ok"
      loop h { s with ph := .none, b := none, c := none, w := some w0 }
    | _, _, _ => IO.println "bad-op"; loop h { s with ph := .none, b := none, c := none, w := none }
  | "C" :: _ => IO.println "bad-op"; loop h { s with ph := .none, b := none, c := none, w := none }
  | "O" :: kind :: rest =>
    match s.c, (field rest "K").bind parseAns <|> (if kind == "close" then some [] else none) with
    | some c, some ks =>
      let n0 := c.cs.heap.trace.length
      let args := rest.filter (fun t => !t.startsWith "K=")
      let res : Option (OwnC.CS × OwnC.CErr) :=
        match kind, args with
        | "write", [n] => n.toNat?.map fun n => OwnC.write capOf c.maxWB c.cs n ks
        | "writev", [ns] => ((ns.splitOn ",").mapM (fun (t : String) => t.toNat?)).map fun bs => OwnC.writev capOf c.maxWB c.cs bs ks
        | "sendfile", [off, ln] =>
          match off.toNat?, ln.toNat? with
          | some off, some ln =>
            if c.fsize == 0 || off > c.fsize then none else
            let rem := if ln == 0 || ln > c.fsize - off then c.fsize - off else ln
            some (OwnC.sendfile c.cs rem ks)
          | _, _ => none
        | "flush", [] =>
          if c.cs.closed then some (c.cs, .closed) else
          let cs' := OwnC.flush c.cs ks
          some (cs', if cs'.closed then .io else .none)
        | "close", [] => some (OwnC.close c.cs, .none)
        | _, _ => none
      match res with
      | some (cs, err) =>
        IO.println s!"R err={showCErr err} q={showItems cs.wl} tr={Own.traceSince cs.heap n0}"
        loop h { s with c := some { c with cs } }
      | none => IO.println "bad-op"; loop h s
    | _, _ => IO.println "bad-op"; loop h s
  | ["D", hx] =>
    match s.b, s.w with
    | none, some w =>
      if w.dead then IO.println "dead"; loop h s else
      let n0 := w.s.heap.trace.length
      let data := unhex hx
      if w.s.closed then
        IO.println s!"R closed cache=0 msg=0 dl=- {WsGlue.showQ w} tr=-"; loop h s
      else
        let mlen0 := match w.s.message with | some (_, l) => l | none => 0
        let w1 := { w with s := OwnW.rxAppend w.s data.length, rx := w.rx ++ data }
        let (w2, dl, bad) := WsGlue.frames w1 [] mlen0
        let w2 := WsGlue.settle w2
        let cl := match w2.s.cache with | some (_, l) => l | none => 0
        let ml := match w2.s.message with | some (_, l) => l | none => 0
        let dls := if dl.isEmpty then "-" else String.intercalate "," dl
        IO.println s!"R {if bad then "err" else "ok"} cache={cl} msg={ml} dl={dls} {WsGlue.showQ w2} tr={Own.traceSince w2.s.heap n0}"
        loop h { s with w := some { w2 with dead := bad } }
    | none, none => IO.println "bad-op"; loop h s
    | some _, _ =>
    match s.b with
    | none => IO.println "bad-op"; loop h s
    | some b =>
      if b.dead then IO.println "dead"; loop h s else
      let data := unhex hx
      let r := Scan.implParse (Http.machine b.hg) b.hp b.cache data []
      let evs : List (Option Nat) := r.evs.filterMap fun ev =>
        match ev with | .body d => some (some d.length) | .complete => some none | _ => none
      let pres : Own.ParseRes := match r.fin with
        | .inl (_, c) => { evs, err := false, left := c.length }
        | .inr _ => { evs, err := true, left := 0 }
      let n0 := b.ps.heap.trace.length
      let (ps, res, out) := Own.parse capOf b.maxBody b.rl b.handler b.ps data.length pres
      let cl := match ps.cache with | some (_, l) => l | none => 0
      IO.println s!"R {showPRes res} rd={showRd out} cache={cl} tr={Own.traceSince ps.heap n0}"
      let b := match res, r.fin with
        | .ok, .inl (p', c') => { b with ps, hp := p', cache := c' }
        | .closed, _ => { b with ps }
        | _, _ => { b with ps, dead := true }
      loop h { s with b := some b }
  | ["G", how] =>
    match s.w with
    | some w =>
      let n0 := w.s.heap.trace.length
      if w.s.phase != .writing then
        IO.println s!"S err=idle {WsGlue.showQ w} tr=-"; loop h s
      else
        let s1 := OwnW.dAdvance (OwnW.dFree (OwnW.dEnd w.s (how == "ok")))
        let w' := WsGlue.settle { w with s := s1 }
        IO.println s!"S err=none {WsGlue.showQ w'} tr={Own.traceSince w'.s.heap n0}"
        loop h { s with w := some w' }
    | none => IO.println "bad-op"; loop h s
  | ["J"] =>
    match s.w with
    | some w =>
      let n0 := w.s.heap.trace.length
      let (w1, dl) := WsGlue.runJobs w
      let w' := WsGlue.settle w1
      let dls := if dl.isEmpty then "-" else String.intercalate "," dl
      IO.println s!"J dl={dls} {WsGlue.showQ w'} tr={Own.traceSince w'.s.heap n0}"
      loop h { s with w := some w' }
    | none => IO.println "bad-op"; loop h s
  | ["X"] =>
    match s.b, s.w with
    | none, some w =>
      let n0 := w.s.heap.trace.length
      let w' := { w with s := OwnW.close w.s }
      IO.println s!"S err=none {WsGlue.showQ w'} tr={Own.traceSince w'.s.heap n0}"
      loop h { s with w := some w' }
    | none, none => IO.println "bad-op"; loop h s
    | some _, _ =>
    match s.b with
    | none => IO.println "bad-op"; loop h s
    | some b =>
      let n0 := b.ps.heap.trace.length
      let ps := Own.closeAndClean b.ps
      IO.println s!"X tr={Own.traceSince ps.heap n0}"
      loop h { s with b := some { b with ps, dead := false } }
  | "H" :: _ :: v :: rest =>
    match field rest "ck" with
    | some ck => plain "H" (.setHeader (payload ck) (payload v))
    | none => IO.println "bad-op"; loop h s
  | "M" :: _ :: v :: rest =>   -- w.Header()[k] = []string{v}: `ck` is the key as written
    match field rest "ck" with
    | some ck => plain "M" (.setHeader (payload ck) (payload v))
    | none => IO.println "bad-op"; loop h s
  | "A" :: _ :: v :: rest =>
    match field rest "ck" with
    | some ck => plain "A" (.addHeader (payload ck) (payload v))
    | none => IO.println "bad-op"; loop h s
  | "X" :: _ :: rest =>
    match field rest "ck" with
    | some ck => plain "X" (.delHeader (payload ck))
    | none => IO.println "bad-op"; loop h s
  | "S" :: c :: rest =>
    match s.w with
    | some w =>
      match c.toNat?, rest with
      | some op, [n] =>
        match n.toNat? with
        | some n =>
          let n0 := w.s.heap.trace.length
          let (w', err) := WsGlue.send w op n
          let w' := WsGlue.settle w'
          IO.println s!"S err={err} {WsGlue.showQ w'} tr={Own.traceSince w'.s.heap n0}"
          loop h { s with w := some w' }
        | none => IO.println "bad-op"; loop h s
      | _, _ => IO.println "bad-op"; loop h s
    | none =>
    match field rest "st", c.toNat? with
    | some st, some code => plain "S" (.writeHeader code (payload st))
    | _, _ => IO.println "bad-op"; loop h s
  | ["W", p] => plain "W" (.write (payload p))
  | ["WS", p] => plain "WS" (.write (payload p))
  | ["L"] => plain "L" .flush
  | ["RF", k, n, pat, off] =>
    match n.toNat?, pat.toNat?, off.toNat? with
    | some n, some pat, some off =>
      let data := (pattern (off + n) pat).drop off
      if k == "p" then plain "RF" (.readFrom .plain data)
      else if k == "f" then plain "RF" (.readFrom .file data)
      else if k == "l" then plain "RF" (.readFrom .limited data)
      else if k == "m" then plain "RF" (.readFrom .limitedMem data)
      else IO.println "bad-op"; loop h s
    | _, _, _ => IO.println "bad-op"; loop h s
  | ["F"] =>
    match s.ph with
    | .running =>
      let (r, closed) := finish s.g s.r
      let n0 := s.o.heap.trace.length
      let (tw, _) := Own.finish (Own.flushEnv s.g s.r) s.o
      IO.println s!"F w={showW (opWrites s.r r false)} {report r.wire.flatten} close={if closed then 1 else 0} tr={Own.traceSince tw.heap n0}"
      loop h { s with r, o := tw, ph := .done }
    | .dead => IO.println "F dead"; loop h { s with ph := .done }
    | .done => IO.println "done"; loop h s
    | .none => IO.println "bad-op"; loop h s
  | _ => IO.println "bad-op"; loop h s

def main : IO Unit := do
  let g : Cfg := { proto := [], proto11 := true, reqClose := false, head := fun _ => [] }
  loop (← IO.getStdin) { g, r := {}, ph := .none }
