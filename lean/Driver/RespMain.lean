import NbioVerif.Model.Resp
open Resp

def hexVal (c : Char) : Nat :=
  if c.isDigit then c.toNat - 48 else if c.toNat ≥ 97 then c.toNat - 87 else c.toNat - 55
def unhex (s : String) : List UInt8 :=
  let rec go : List Char → List UInt8
    | a :: b :: r => UInt8.ofNat (hexVal a * 16 + hexVal b) :: go r
    | _ => []
  go s.toList
def hexDigitC (n : Nat) : Char := if n < 10 then Char.ofNat (48 + n) else Char.ofNat (87 + n)
def hex (b : List UInt8) : String :=
  String.ofList (b.foldr (fun x acc => hexDigitC (x.toNat / 16) :: hexDigitC (x.toNat % 16) :: acc) [])

def pattern (n seed : Nat) : List UInt8 := (List.range n).map (fun i => UInt8.ofNat ((i * 7 + seed) % 256))

def fnv (b : List UInt8) : UInt64 :=
  b.foldl (fun h x => (h ^^^ x.toUInt64) * 1099511628211) 14695981039346656037

def statusText (n : Nat) : List UInt8 :=
  str (match n with
    | 200 => "OK" | 201 => "Created" | 204 => "No Content" | 304 => "Not Modified"
    | 404 => "Not Found" | 500 => "Internal Server Error" | _ => "")

/-- split at first CRLFCRLF -/
def splitHead : List UInt8 → List UInt8 → (List UInt8 × List UInt8)
  | acc, 13 :: 10 :: 13 :: 10 :: r => (acc.reverse, r)
  | acc, x :: r => splitHead (x :: acc) r
  | acc, [] => (acc.reverse, [])

def splitLines (b : List UInt8) : List (List UInt8) :=
  let rec go (cur : List UInt8) : List UInt8 → List (List UInt8)
    | 13 :: 10 :: r => cur.reverse :: go [] r
    | x :: r => go (x :: cur) r
    | [] => [cur.reverse]
  go [] b

def report (r : R) : String :=
  let ws := r.wire.filter (· ≠ [])
  let all := ws.flatten
  let (head, rest) := splitHead [] all
  let lines := splitLines head
  let first := lines.headD []
  let others := (lines.drop 1).map hex |>.toArray.qsort (· < ·) |>.toList
  s!"F writes={ws.map (·.length)} head={hex first}|{String.intercalate "," others} restlen={rest.length} resthash={fnv rest}"

structure DS where
  g : Cfg
  r : R

partial def loop (h : IO.FS.Stream) (s : DS) : IO Unit := do
  let line ← h.getLine
  if line.isEmpty then return ()
  match line.trimAscii.toString.splitOn " " with
  | ["C", p11, cls] =>
    let g : Cfg := { proto := str (if p11 == "1" then "HTTP/1.1" else "HTTP/1.0"), proto11 := p11 == "1",
                     reqClose := cls == "1", statusText := statusText, junk := 0xAA }
    IO.println "ok"; loop h { g, r := {} }
  | ["H", k, v] =>
    IO.println "-"; loop h { s with r := (step s.g s.r (.setHeader (unhex k) (unhex v))).1 }
  | ["S", c] =>
    IO.println "-"; loop h { s with r := (step s.g s.r (.writeHeader c.toNat!)).1 }
  | ["W", n, seed] =>
    let (r, w) := write s.g s.r (pattern n.toNat! seed.toNat!)
    IO.println (match w with | .ok k => s!"W {k} nil" | .errCL => "W 0 errcl" | .errParse => "W 0 errparse")
    loop h { s with r }
  | ["L"] => IO.println "-"; loop h { s with r := flushOp s.g s.r }
  | ["F"] => IO.println (report (finish s.g s.r)); loop h s
  | _ => IO.println "bad-op"; loop h s

def main : IO Unit := do
  let g : Cfg := { proto := [], proto11 := true, reqClose := false, statusText := statusText, junk := 0xAA }
  loop (← IO.getStdin) { g, r := {} }
