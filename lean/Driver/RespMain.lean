import NbioVerif.Model.Resp
import NbioVerif.Model.Own
import NbioVerif.Model.OwnBody
import NbioVerif.Model.Http
import NbioVerif.DrvCommon
/-! respdrv: line-protocol driver of the HTTP response model (harness/cmd/hresp).  See the header of
harness/cmd/hresp/main.go for the op and result formats. -/
open Resp Drv

def hex64 (x : UInt64) : String :=
  String.ofList ((List.range 16).map fun i => hexDigit ((x >>> (UInt64.ofNat (60 - 4 * i))).toNat % 16))

def hexOrHash (b : List UInt8) : String :=
  if b.length ≤ 96 then (if b.isEmpty then "-" else hex b) else s!"{b.length}:{hex64 (fnv b)}"

/-- split at the first CRLFCRLF -/
def splitHead : List UInt8 → List UInt8 → (List UInt8 × List UInt8)
  | acc, 13 :: 10 :: 13 :: 10 :: r => (acc.reverse, r)
  | acc, x :: r => splitHead (x :: acc) r
  | acc, [] => (acc.reverse, [])

/-- bytes.Split(b, "\r\n") -/
def splitLines (b : List UInt8) : List (List UInt8) :=
  let rec go (cur : List UInt8) : List UInt8 → List (List UInt8)
    | 13 :: 10 :: r => cur.reverse :: go [] r
    | x :: r => go (x :: cur) r
    | [] => [cur.reverse]
  go [] b

def sortStrs (l : List String) : List String := (l.toArray.qsort (· < ·)).toList

def joinOrDash (l : List String) : String := if l.isEmpty then "-" else String.intercalate "," l

/-- number of elements of `rev` before the first occurrence of "\n\r0\n\r" (reversed "\r\n0\r\n") -/
def findRev : Nat → List UInt8 → Option Nat
  | j, 10 :: 13 :: 48 :: 10 :: 13 :: _ => some j
  | j, _ :: r => findRev (j + 1) r
  | _, [] => none

/-- same canonical report as `report` in harness/cmd/hresp/main.go -/
def report (wire : List UInt8) : String :=
  let (head, rest) := splitHead [] wire
  let lines := splitLines head
  let first := lines.headD []
  let others := lines.drop 1
  let chunked := others.contains (str "Transfer-Encoding: chunked")
  let hs := joinOrDash (sortStrs (others.map hexOrHash))
  let (rest, trl) : List UInt8 × String :=
    if chunked then
      let rev := rest.reverse
      match findRev 0 rev with
      | some j => ((rev.drop j).reverse, joinOrDash (sortStrs ((splitLines (rev.take j).reverse).map hexOrHash)))
      | none =>
        if rest.take 3 == [48, 13, 10] then (rest.take 3, joinOrDash (sortStrs ((splitLines (rest.drop 3)).map hexOrHash)))
        else (rest, "-")
    else (rest, "-")
  s!"head={hexOrHash first} hdr={hs} rest={rest.length}:{hex64 (fnv rest)} trl={trl}"

def showW (ws : List Nat) : String :=
  if ws.isEmpty then "-" else String.intercalate "+" (ws.map toString)

/-- conn writes of one op, as the harness reports them -/
def opWrites (before after : R) (rf : Bool) : List Nat :=
  let seg := (after.wire.drop before.wire.length).map (·.length)
  if rf then
    match seg with
    | [] => []
    | h :: t => (if h > 0 then [h] else []) ++ (if t.sum > 0 then [t.sum] else [])
  else seg.filter (· > 0)

def showRes : WRes → String
  | .ok n => s!"n={n} err=nil"
  | .errCL => "n=0 err=cl"
  | .errParse => "n=0 err=parse"
  | .errConn => "n=0 err=conn"
  | .errCopy n => s!"n={n} err=conn"
  | .panic => "panic"

inductive Phase | none | running | dead | done
  deriving DecidableEq

/-- body-case state: the HTTP parser model supplies what the parser does with the bytes, the request-side
ownership twin consumes it -/
structure BS where
  hg : Http.Cfg
  hp : Http.P
  cache : List UInt8 := []
  ps : Own.PS := {}
  maxBody : Nat := 0
  rl : Nat := 0
  handler : Own.Handler := {}
  dead : Bool := false

structure DS where
  g : Cfg
  r : R
  ph : Phase
  o : Own.O := {}
  b : Option BS := none

/-- the tracker's capacity policy -/
def capOf (n : Nat) : Nat := max 64 ((n + 63) / 64 * 64)

def bodyCfg : Cfg :=
  let g : Cfg := { proto := str "HTTP/1.1", proto11 := true, reqClose := false, head := fun _ => [] }
  { g with head := headBytes g }

/-- handler program "r10,c,w5" → twin handler; the response operations get their environment answers from
the byte-level response model -/
def mkHandler (hp : String) : Option Own.Handler :=
  if hp == "-" then some { ops := [], fin := Own.flushEnv bodyCfg {} } else
  let rec go (toks : List String) (r : R) (acc : List Own.HOp) : Option Own.Handler :=
    match toks with
    | [] => some { ops := acc.reverse, fin := Own.flushEnv bodyCfg r }
    | t :: rest =>
      match (t.drop 1).toString.toNat? with
      | none => if t == "c" then go rest r (.close :: acc) else none
      | some n =>
        if t.startsWith "r" then go rest r (.read n :: acc)
        else if t.startsWith "w" then
          let e := Own.writeEnv bodyCfg r
          go rest (write bodyCfg r (pattern n 5)).1 (.resp e (.write n) :: acc)
        else none
  go (hp.splitOn ",") {} []

def showRd (out : List (Nat × Bool)) : String :=
  if out.isEmpty then "-" else String.intercalate "," (out.map fun p => s!"{p.1}{if p.2 then "e" else ""}")

def showPRes : Own.PRes → String
  | .ok => "ok" | .err => "err" | .closed => "closed" | .tooLong => "toolong"

def mkCfg (ws : List String) : Option Cfg := do
  let v ← field ws "v"
  let conn ← field ws "conn"
  let fail ← field ws "fail"
  let sf ← field ws "sf"
  if v != "10" && v != "11" then none
  let p11 := v == "11"
  let reqClose := conn == "close" || (!p11 && conn != "ka")
  some { proto := str (if p11 then "HTTP/1.1" else "HTTP/1.0"), proto11 := p11, reqClose := reqClose,
         failAt := fail.toNat!, sendfile := sf == "1", head := fun _ => [] }

def withHead (g : Cfg) : Cfg := { g with head := headBytes g }

partial def loop (h : IO.FS.Stream) (s : DS) : IO Unit := do
  let line ← h.getLine
  if line.isEmpty then return ()
  let ws := (line.trimAscii.toString.splitOn " ").filter (· ≠ "")
  let plain (tag : String) (op : Op) : IO Unit := do
    match s.ph with
    | .running =>
      let (r, o) := step s.g s.r op
      let rf := match op with | .readFrom .. => true | _ => false
      -- the ownership twin runs in lockstep on the erased operation
      let n0 := s.o.heap.trace.length
      let (tw, two) := match Own.eraseOp s.g s.r op with
        | some (e, top) => Own.step e s.o top
        | none => (s.o, none)
      let tr := if two == o || (two.isNone && o.isNone) then Own.traceSince tw.heap n0 else "!twin-desync"
      match o with
      | some .panic => IO.println s!"{tag} panic"; loop h { s with r, o := tw, ph := .dead }
      | some w => IO.println s!"{tag} {showRes w} w={showW (opWrites s.r r rf)} tr={tr}"; loop h { s with r, o := tw }
      | none => IO.println s!"{tag} w={showW (opWrites s.r r rf)} tr={tr}"; loop h { s with r, o := tw }
    | .dead => IO.println "dead"; loop h s
    | .done => IO.println "done"; loop h s
    | .none => IO.println "bad-op"; loop h s
  match ws with
  | "C" :: "resp" :: rest =>
    match mkCfg rest with
    | some g => IO.println "ok"; loop h { g := withHead g, r := {}, ph := .running, o := {}, b := none }
    | none => IO.println "bad-op"; loop h { s with ph := .none }
  | "C" :: "body" :: rest =>
    match field rest "maxbody", field rest "rl", (field rest "hp").bind mkHandler with
    | some mb, some rl, some hd =>
      let hg : Http.Cfg := { isClient := false, maxBody := mb.toNat!, urlOk := fun _ => true, protoOk := fun _ => true }
      IO.println "ok"
      loop h { s with ph := .none, b := some { hg, hp := Http.init hg, maxBody := mb.toNat!, rl := rl.toNat!, handler := hd } }
    | _, _, _ => IO.println "bad-op"; loop h { s with ph := .none, b := none }
  | "C" :: _ => IO.println "bad-op"; loop h { s with ph := .none, b := none }
  | ["D", hx] =>
    match s.b with
    | none => IO.println "bad-op"; loop h s
    | some b =>
      if b.dead then IO.println "dead"; loop h s else
      let data := unhex hx
      let r := Scan.implParse (Http.machine b.hg) b.hp b.cache data []
      let evs : List (Option Nat) := r.evs.filterMap fun ev =>
        match ev with | .body d => some (some d.length) | .complete => some none | _ => none
      let pres : Own.ParseRes := match r.fin with
        | .inl (_, c) => { evs, err := false, left := c.length }
        | .inr _ => { evs, err := true, left := 0 }
      let n0 := b.ps.heap.trace.length
      let (ps, res, out) := Own.parse capOf b.maxBody b.rl b.handler b.ps data.length pres
      let cl := match ps.cache with | some (_, l) => l | none => 0
      IO.println s!"R {showPRes res} rd={showRd out} cache={cl} tr={Own.traceSince ps.heap n0}"
      let b := match res, r.fin with
        | .ok, .inl (p', c') => { b with ps, hp := p', cache := c' }
        | .closed, _ => { b with ps }
        | _, _ => { b with ps, dead := true }
      loop h { s with b := some b }
  | ["X"] =>
    match s.b with
    | none => IO.println "bad-op"; loop h s
    | some b =>
      let n0 := b.ps.heap.trace.length
      let ps := Own.closeAndClean b.ps
      IO.println s!"X tr={Own.traceSince ps.heap n0}"
      loop h { s with b := some { b with ps, dead := false } }
  | "H" :: _ :: v :: rest =>
    match field rest "ck" with
    | some ck => plain "H" (.setHeader (payload ck) (payload v))
    | none => IO.println "bad-op"; loop h s
  | "A" :: _ :: v :: rest =>
    match field rest "ck" with
    | some ck => plain "A" (.addHeader (payload ck) (payload v))
    | none => IO.println "bad-op"; loop h s
  | "X" :: _ :: rest =>
    match field rest "ck" with
    | some ck => plain "X" (.delHeader (payload ck))
    | none => IO.println "bad-op"; loop h s
  | "S" :: c :: rest =>
    match field rest "st", c.toNat? with
    | some st, some code => plain "S" (.writeHeader code (payload st))
    | _, _ => IO.println "bad-op"; loop h s
  | ["W", p] => plain "W" (.write (payload p))
  | ["WS", p] => plain "WS" (.write (payload p))
  | ["L"] => plain "L" .flush
  | ["RF", k, n, pat, off] =>
    match n.toNat?, pat.toNat?, off.toNat? with
    | some n, some pat, some off =>
      let data := (pattern (off + n) pat).drop off
      if k == "p" then plain "RF" (.readFrom .plain data)
      else if k == "f" then plain "RF" (.readFrom .file data)
      else if k == "l" then plain "RF" (.readFrom .limited data)
      else IO.println "bad-op"; loop h s
    | _, _, _ => IO.println "bad-op"; loop h s
  | ["F"] =>
    match s.ph with
    | .running =>
      let (r, closed) := finish s.g s.r
      let n0 := s.o.heap.trace.length
      let (tw, _) := Own.finish (Own.flushEnv s.g s.r) s.o
      IO.println s!"F w={showW (opWrites s.r r false)} {report r.wire.flatten} close={if closed then 1 else 0} tr={Own.traceSince tw.heap n0}"
      loop h { s with r, o := tw, ph := .done }
    | .dead => IO.println "F dead"; loop h { s with ph := .done }
    | .done => IO.println "done"; loop h s
    | .none => IO.println "bad-op"; loop h s
  | _ => IO.println "bad-op"; loop h s

def main : IO Unit := do
  let g : Cfg := { proto := [], proto11 := true, reqClose := false, head := fun _ => [] }
  loop (← IO.getStdin) { g, r := {}, ph := .none }
