import NbioVerif.Model.Pipeline
import NbioVerif.Model.ClientFifo
import NbioVerif.DrvCommon
/-! pipedrv: predicts, from the request history of each connection, what the clients of harness `he2e`
observe (C10).  Server side = `Pipeline` (run under the schedule given on the K line, then drained);
nbhttp client side = `ClientFifo` on top of it.  Line protocol: see harness/cmd/he2e/main.go. -/
open Pipeline

structure Q where
  rid : Nat
  major : Nat
  minor : Nat
  conn : List (List UInt8)
  method : String
  st : Nat
  sz : Nat
  rb : Nat

structure H where
  cid : Nat
  kind : String
  sched : List Act
  got : Nat
  lost : List Nat
  failAt : Nat
  qs : Array Q

def hex16 (x : UInt64) : String :=
  let rec go : Nat → Nat → List Char → List Char
    | 0, _, acc => acc
    | f + 1, n, acc => go f (n / 16) (Drv.hexDigit (n % 16) :: acc)
  String.ofList (go 16 x.toNat [])

/-- FNV-1a-64 of the tag repeated to `n` bytes, without building the body -/
def fnvRepeat (tag : ByteArray) (n : Nat) : UInt64 := Id.run do
  let mut h : UInt64 := 14695981039346656037
  if tag.size == 0 then return h
  for i in [0:n] do
    h := (h ^^^ (tag.get! (i % tag.size)).toUInt64) * 1099511628211
  return h

/-- FNV-1a-64 of lp.Pattern(n, p) -/
def fnvPattern (n p : Nat) : UInt64 := Id.run do
  let mut h : UInt64 := 14695981039346656037
  for i in [0:n] do
    h := (h ^^^ (UInt8.ofNat ((i * 7 + p) % 256)).toUInt64) * 1099511628211
  return h

def bodyField (cid : Nat) (q : Q) : String :=
  let n := if q.method == "HEAD" then 0 else q.sz
  let tag := s!"[c{cid}r{q.rid}]".toUTF8
  s!"{n}:{hex16 (fnvRepeat tag n)}"

def rbField (q : Q) : String :=
  let n := if q.method == "POST" then q.rb else 0
  s!"{n}:{hex16 (fnvPattern n (q.rid % 256))}"

def answeredLine (cid : Nat) (q : Q) (closed cb : String) : String :=
  s!"R {q.rid} st={q.st} body={bodyField cid q} rb={rbField q} closed={closed} cb={cb}"

def parseSched (s : String) : Option (List Act) :=
  s.toList.mapM fun c =>
    match c with
    | 'p' => some Act.parse
    | 's' => some Act.start
    | 'w' => some Act.write
    | 'f' => some Act.finish
    | _ => none

/-- the server side of one connection: request k's response is the single token k (one conn write) -/
def serve (sync : Bool) (sched : List Act) (qs : List Q) : St Nat :=
  let reqs : List (Req Nat) := qs.mapIdx fun i q =>
    { major := q.major, minor := q.minor, connVals := q.conn, pieces := [[i]] }
  let cfg : Cfg Nat := { reqs, sync }
  drain cfg (4 * qs.length + 8) init sched

/-- split a history into the connections a reconnecting client (net/http, nbhttp.Client pool) uses:
    a new connection after every request whose close decision is true -/
def splitAtClose (qs : List Q) : List (List Q) :=
  let rec go : List Q → List Q → List (List Q)
    | [], cur => if cur.isEmpty then [] else [cur.reverse]
    | q :: rest, cur =>
      if closeDecision q.major q.minor q.conn then (q :: cur).reverse :: go rest []
      else go rest (q :: cur)
  go qs []

def outcome (sync : Bool) (h : H) : List String :=
  let qs := h.qs.toList
  match h.kind with
  | "raw" =>
    let s := serve sync h.sched qs
    qs.mapIdx fun i q =>
      if s.wire[i]? == some i then
        answeredLine h.cid q (if i + 1 == s.wire.length && s.closed then "1" else "0") "x"
      else s!"R {q.rid} none cb=x"
  | "nbc" =>
    let s := serve sync h.sched qs
    let m := s.wire.length
    -- the client: n pipelined Do, the responses its parser delivered (environment input `got`, at most
    -- what the server sent), then the close (server's or the harness's ClientConn.Close)
    let got := min h.got m
    let ops : List ClientFifo.Op :=
      qs.map (fun _ => ClientFifo.Op.do_ true true) ++ (List.replicate got (ClientFifo.Op.onResponse 0 false)) ++ [.closeAll]
    let c := ClientFifo.run {} ops
    qs.mapIdx fun i q =>
      let cnt := ClientFifo.count c i
      if c.calls.contains (i, ClientFifo.Out.resp (some i)) && s.wire[i]? == some i then
        answeredLine h.cid q "x" (toString cnt)
      else s!"R {q.rid} none cb={cnt}"
  | "nbx" =>
    -- forced client schedule: requests < failAt are written to connection 0 and answered, but their response
    -- job is held; the write of request failAt fails (connection 0 dropped); the rest goes to connection 1;
    -- then connection 0's stale responses and its end arrive, then connection 1's responses
    let k := min h.failAt qs.length
    let rest := qs.drop (k + 1)
    let s := serve sync h.sched rest
    let m := min h.got s.wire.length
    let ops : List ClientFifo.Op :=
      List.replicate k (ClientFifo.Op.do_ true true) ++ (if k < qs.length then [ClientFifo.Op.do_ true false] else []) ++
      List.replicate rest.length (ClientFifo.Op.do_ true true) ++
      List.replicate k (ClientFifo.Op.onResponse 0 false) ++ [ClientFifo.Op.connClosed 0] ++
      List.replicate m (ClientFifo.Op.onResponse 1 false) ++ [ClientFifo.Op.closeAll]
    let c := ClientFifo.run {} ops
    qs.mapIdx fun i q =>
      let cnt := ClientFifo.count c i
      if c.calls.contains (i, ClientFifo.Out.resp (some i)) then answeredLine h.cid q "x" (toString cnt)
      else s!"R {q.rid} none cb={cnt}"
  | "std" | "nbcli" =>
    let cb := if h.kind == "nbcli" then "1" else "x"
    (splitAtClose qs).flatMap fun seg =>
      let s := serve sync h.sched seg
      seg.mapIdx fun i q =>
        -- pool client: one exchange per Do; a callback that got an error is an environment input (`lost=`)
        if s.wire[i]? == some i && !h.lost.contains q.rid then answeredLine h.cid q "x" cb
        else s!"R {q.rid} none cb={cb}"
  | _ => qs.map fun _ => "bad-op"

def parseVer (v : String) : Option (Nat × Nat) :=
  match v with
  | "11" => some (1, 1)
  | "10" => some (1, 0)
  | _ => none

def parseConn (c : String) : List (List UInt8) :=
  if c == "-" then [] else (c.splitOn "|").map Drv.unhex

def parseQ (ws : List String) : Option Q := do
  let rid ← (ws[2]?).bind String.toNat?
  let (major, minor) ← (Drv.field ws "v").bind parseVer
  let conn ← (Drv.field ws "c").map parseConn
  let method ← Drv.field ws "m"
  let st ← (Drv.field ws "st").bind String.toNat?
  let sz ← (Drv.field ws "sz").bind String.toNat?
  let rb ← (Drv.field ws "rb").bind String.toNat?
  if method != "GET" && method != "POST" && method != "HEAD" then none
  else some { rid, major, minor, conn, method, st, sz, rb }

structure DS where
  iomod : String := ""
  cur : Option H := none

def flush (s : DS) : IO DS := do
  match s.cur with
  | none => pure s
  | some h =>
    let sync := s.iomod == "bl" || (s.iomod == "mx" && h.cid % 2 == 0)
    for l in outcome sync h do IO.println l
    pure { s with cur := none }

partial def loop (h : IO.FS.Stream) (s : DS) : IO Unit := do
  let line ← h.getLine
  if line.isEmpty then
    let _ ← flush s
    return ()
  let ws := (line.trimAscii.toString.splitOn " ").filter (· ≠ "")
  match ws with
  | "C" :: iomod :: tls :: ep :: _ =>
    let s ← flush s
    if (iomod == "nb" || iomod == "bl" || iomod == "mx") && (tls == "0" || tls == "1") &&
        ["lt", "et", "os", "eta", "osa"].contains ep then
      IO.println "ok"
      loop h { s with iomod }
    else
      IO.println "bad-op"
      loop h s
  | "K" :: cid :: kind :: _ =>
    let s ← flush s
    match cid.toNat?, (Drv.field ws "sched").bind parseSched with
    | some cid, some sched =>
      if ["raw", "std", "nbc", "nbcli", "nbx"].contains kind && s.iomod != "" then
        let got := ((Drv.field ws "got").bind String.toNat?).getD 0
        let lost := (((Drv.field ws "lost").getD "").splitOn ",").filterMap String.toNat?
        let failAt := ((Drv.field ws "fail").bind String.toNat?).getD 0
        IO.println "ok"
        loop h { s with cur := some { cid, kind, sched, got, lost, failAt, qs := #[] } }
      else
        IO.println "bad-op"
        loop h s
    | _, _ =>
      IO.println "bad-op"
      loop h s
  | "Q" :: cid :: _ =>
    match s.cur, parseQ ws with
    | some hh, some q =>
      if cid.toNat? == some hh.cid then loop h { s with cur := some { hh with qs := hh.qs.push q } }
      else
        -- a request of another connection than the current history: the protocol groups them
        let s ← flush s
        IO.println "bad-op"
        loop h s
    | _, _ =>
      let s ← flush s
      IO.println "bad-op"
      loop h s
  | [] => loop h s
  | _ =>
    let s ← flush s
    IO.println "bad-op"
    loop h s

def main : IO Unit := do loop (← IO.getStdin) {}
