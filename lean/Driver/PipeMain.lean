import NbioVerif.Model.Pipeline
import NbioVerif.Model.ClientFifo
import NbioVerif.Model.ClientPool
import NbioVerif.DrvCommon
/-! pipedrv: predicts, from the request history of each connection, what the clients of harness `he2e`
observe (C10).  Server side = `Pipeline` (run under the schedule given on the K line, then drained);
nbhttp client side = `ClientFifo` on top of it.  Line protocol: see harness/cmd/he2e/main.go. -/
open Pipeline

structure Q where
  rid : Nat
  major : Nat
  minor : Nat
  conn : List (List UInt8)
  method : String
  st : Nat
  sz : Nat
  rb : Nat

structure H where
  cid : Nat
  kind : String
  sched : List Act
  got : Nat
  lost : List Nat
  failAt : Nat
  dialFail : Nat
  abortAt : Nat
  xclose : Nat
  short : List Nat
  cut : Option Nat
  qs : Array Q

def hex16 (x : UInt64) : String :=
  let rec go : Nat → Nat → List Char → List Char
    | 0, _, acc => acc
    | f + 1, n, acc => go f (n / 16) (Drv.hexDigit (n % 16) :: acc)
  String.ofList (go 16 x.toNat [])

/-- FNV-1a-64 of the tag repeated to `n` bytes, without building the body -/
def fnvRepeat (tag : ByteArray) (n : Nat) : UInt64 := Id.run do
  let mut h : UInt64 := 14695981039346656037
  if tag.size == 0 then return h
  for i in [0:n] do
    h := (h ^^^ (tag.get! (i % tag.size)).toUInt64) * 1099511628211
  return h

/-- FNV-1a-64 of lp.Pattern(n, p) -/
def fnvPattern (n p : Nat) : UInt64 := Id.run do
  let mut h : UInt64 := 14695981039346656037
  for i in [0:n] do
    h := (h ^^^ (UInt8.ofNat ((i * 7 + p) % 256)).toUInt64) * 1099511628211
  return h

def bodyField (cid : Nat) (q : Q) : String :=
  let n := if q.method == "HEAD" then 0 else q.sz
  let tag := s!"[c{cid}r{q.rid}]".toUTF8
  s!"{n}:{hex16 (fnvRepeat tag n)}"

def rbField (q : Q) : String :=
  let n := if q.method == "POST" then q.rb else 0
  s!"{n}:{hex16 (fnvPattern n (q.rid % 256))}"

def answeredLine (cid : Nat) (q : Q) (closed cb : String) : String :=
  s!"R {q.rid} st={q.st} body={bodyField cid q} rb={rbField q} closed={closed} cb={cb}"

/-- schedule letters of the K line.  `f` flushes the whole backlog before the job finishes: in the sampled
    domain the kernel has taken a response before the next step of the job runs (a close that finds a
    backlog is the known finding and comes in through `cut=`) -/
def parseSched (s : String) : Option (List Act) :=
  (s.toList.mapM fun c =>
    match c with
    | 'p' => some [Act.parse]
    | 's' => some [Act.start]
    | 'w' => some [Act.write none]
    | 'h' => some [Act.write (some 0)]      -- short write: everything is queued
    | 'l' => some [Act.flush 1]
    | 'f' => some [Act.flush 1000000000, Act.finish]
    | _ => none).map List.flatten

def mkCfg (sync : Bool) (qs : List Q) : Cfg Nat :=
  -- request k's response is two conn writes: the head token 3k, then the body tokens 3k+1, 3k+2
  { reqs := qs.mapIdx fun i q =>
      { major := q.major, minor := q.minor, connVals := q.conn, pieces := [[3 * i], [3 * i + 1, 3 * i + 2]] },
    sync }

/-- the server side of one connection: `Pipeline.run` on the schedule of the K line followed by
    `completion`; the state is used only if the three checks of `Pipeline.c10_run_checked` hold for this
    very run (otherwise the driver answers `model-unchecked`, which never matches the implementation) -/
def serve? (sync : Bool) (sched : List Act) (qs : List Q) : Option (St Nat) :=
  let cfg := mkCfg sync qs
  let acts := sched ++ completion (4 * qs.length + 8)
  let s := run cfg init acts
  if noExt acts && doneB cfg s && !s.dropped then some s else none

/-- a state nothing matches: used when the checks fail -/
def unchecked : St Nat := { (init : St Nat) with wire := [1000000007] }

def serve (sync : Bool) (sched : List Act) (qs : List Q) : St Nat :=
  (serve? sync sched qs).getD unchecked

/-- forced schedules, replayed step by step from what the harness did / observed:
    * `cut = some i` (known finding): from response `i` on the kernel stops taking bytes, nothing is flushed
      any more, the finish of the first closing request releases the queue;
    * `short`: requests whose body write was seen to leave a backlog: `write (some 1)` takes the first body
      token and queues the second, the poller's `flush` delivers it after the job has finished;
    * `xclose = k+1`: between `start` and the writes of job `k` the connection is closed from outside
      (`extClose`).
    The result is used only if it is quiescent (`doneB`, or for `cut` quiescent with the queue released);
    it is covered by the safety theorems (`c10_wire_prefix`, `c10_nothing_after_close`, `c10_close_cause`,
    `c10_run_cut_checked`), not by `c10_run_checked`. -/
def forcedActs (n : Nat) (cut : Option Nat) (short : List Nat) (xclose : Nat) : List Act :=
  let job (k : Nat) : List Act :=
    let stalled : Bool := match cut with | some i => decide (k ≥ i) | none => false
    let w2 : Act := if cut == some k || short.contains k then .write (some 1) else .write none
    let body : List Act :=
      if xclose == k + 1 then [.start, .extClose, .write none, .write none, .finish]
      else [.start, .write none, w2, .finish]
    if stalled then body else body ++ [.flush 1000000000]
  List.replicate n Act.parse ++ (List.range n).flatMap job

def serveForced? (sync : Bool) (cut : Option Nat) (short : List Nat) (xclose : Nat) (qs : List Q) : Option (St Nat) :=
  let cfg := mkCfg sync qs
  let acts := forcedActs qs.length cut short xclose
  let s := run cfg init acts
  let quiet := s.next == cfg.reqs.length && s.queue.isEmpty
  if quiet && s.pending.isEmpty && (cut.isNone || (noExt acts && s.dropped)) then some s else none

def answeredIn (s : St Nat) (i : Nat) : Bool := s.wire.contains (3 * i) && s.wire.contains (3 * i + 2)
def partialIn (s : St Nat) (i : Nat) : Bool := s.wire.contains (3 * i) && !s.wire.contains (3 * i + 2)
def answeredCount (s : St Nat) : Nat := s.wire.length / 3

/-- split a history into the connections a reconnecting client (net/http, nbhttp.Client pool) uses:
    a new connection after every request whose close decision is true -/
def splitAtClose (qs : List Q) : List (List Q) :=
  let rec go : List Q → List Q → List (List Q)
    | [], cur => if cur.isEmpty then [] else [cur.reverse]
    | q :: rest, cur =>
      if closeDecision q.major q.minor q.conn then (q :: cur).reverse :: go rest []
      else go rest (q :: cur)
  go qs []

def outcome0 (sync : Bool) (h : H) : List String :=
  let qs := h.qs.toList
  match h.kind with
  | "raw" =>
    -- a client that aborts behind request k (abort = k+1) observes the exchanges in front of it only: the
    -- connection it leaves is an external close for the server (`c10_wire_prefix`, `c10_nothing_after_close`)
    let qs := if h.abortAt > 0 then qs.take (h.abortAt - 1) else qs
    let lines := fun (s : St Nat) => qs.mapIdx fun i q =>
      if answeredIn s i then
        answeredLine h.cid q (if 3 * (i + 1) == s.wire.length && s.closed then "1" else "0") "x"
      else if partialIn s i && s.dropped then s!"R {q.rid} bad=truncated cb=x"
      else s!"R {q.rid} none cb=x"
    if h.abortAt > 0 then
      lines (serve sync h.sched qs) ++ (h.qs.toList.drop (h.abortAt - 1)).map fun q => s!"R {q.rid} none cb=x"
    else
    let forced := h.cut.isSome || !h.short.isEmpty || h.xclose > 0
    let s := if forced then (serveForced? sync h.cut h.short h.xclose qs).getD unchecked else serve sync h.sched qs
    lines s
  | "nbc" =>
    -- the first `dialFail` Do calls fail to dial (no connection, `closeWithErrorWithoutLock`); the server
    -- sees the history from the first request that got a connection
    let k := min h.dialFail qs.length
    let s := serve sync h.sched (qs.drop k)
    let m := answeredCount s
    -- the client: the Do calls in order, the responses its parser delivered (environment input `got`, at
    -- most what the server sent), then the close (server's or the harness's ClientConn.Close)
    let got := min h.got m
    let ops : List ClientFifo.Op :=
      List.replicate k (ClientFifo.Op.do_ false true) ++
      List.replicate (qs.length - k) (ClientFifo.Op.do_ true true) ++
      (List.replicate got (ClientFifo.Op.onResponse 0 false)) ++ [.closeAll]
    let c := ClientFifo.run {} ops
    qs.mapIdx fun i q =>
      let cnt := ClientFifo.count c i
      if c.calls.contains (i, ClientFifo.Out.resp (some i)) && i ≥ k && answeredIn s (i - k) then
        answeredLine h.cid q "x" (toString cnt)
      else s!"R {q.rid} none cb={cnt}"
  | "nbx" =>
    -- forced client schedule: requests < failAt are written to connection 0 and answered, but their response
    -- job is held; the write of request failAt fails (connection 0 dropped); the rest goes to connection 1;
    -- then connection 0's stale responses and its end arrive, then connection 1's responses
    let k := min h.failAt qs.length
    let rest := qs.drop (k + 1)
    let s := serve sync h.sched rest
    let m := min h.got (answeredCount s)
    let ops : List ClientFifo.Op :=
      List.replicate k (ClientFifo.Op.do_ true true) ++ (if k < qs.length then [ClientFifo.Op.do_ true false] else []) ++
      List.replicate rest.length (ClientFifo.Op.do_ true true) ++
      List.replicate k (ClientFifo.Op.onResponse 0 false) ++ [ClientFifo.Op.connClosed 0] ++
      List.replicate m (ClientFifo.Op.onResponse 1 false) ++ [ClientFifo.Op.closeAll]
    let c := ClientFifo.run {} ops
    qs.mapIdx fun i q =>
      let cnt := ClientFifo.count c i
      if c.calls.contains (i, ClientFifo.Out.resp (some i)) then answeredLine h.cid q "x" (toString cnt)
      else s!"R {q.rid} none cb={cnt}"
  | "std" | "nbcli" =>
    let cb := if h.kind == "nbcli" then "1" else "x"
    -- pool client with failing dials: one exchange at a time, the first `dialFail` get the dial error
    let k := min h.dialFail qs.length
    ((qs.take k).map fun q => s!"R {q.rid} none cb={cb}") ++
    (splitAtClose (qs.drop k)).flatMap fun seg =>
      let s := serve sync h.sched seg
      seg.mapIdx fun i q =>
        -- pool client: one exchange per Do; a callback that got an error is an environment input (`lost=`)
        if answeredIn s i && !h.lost.contains q.rid then answeredLine h.cid q "x" cb
        else s!"R {q.rid} none cb={cb}"
  | _ => qs.map fun _ => "bad-op"

/-- every server run behind the lines must have passed decidable end checks: the hypotheses of `c10_run_checked`
    (`serve?`) for the ordinary histories; for the forced ones (`cut=`, `short=`, `xclose=`) those of
    `c10_run_cut_checked` / quiescence only (`serveForced?`) — there the printed prefix rests on the safety theorems,
    no theorem fixes which response breaks off -/
def allChecked (sync : Bool) (h : H) : Bool :=
  let qs := h.qs.toList
  match h.kind with
  | "raw" =>
    if h.cut.isSome || !h.short.isEmpty || h.xclose > 0 then (serveForced? sync h.cut h.short h.xclose qs).isSome
    else (serve? sync h.sched (if h.abortAt > 0 then qs.take (h.abortAt - 1) else qs)).isSome
  | "nbc" => (serve? sync h.sched (qs.drop (min h.dialFail qs.length))).isSome
  | "nbx" => (serve? sync h.sched (qs.drop (min h.failAt qs.length + 1))).isSome
  | "std" | "nbcli" =>
    (splitAtClose (qs.drop (min h.dialFail qs.length))).all fun seg => (serve? sync h.sched seg).isSome
  | _ => true

def outcome (sync : Bool) (h : H) : List String :=
  if allChecked sync h then outcome0 sync h else h.qs.toList.map fun _ => "model-unchecked"

def parseVer (v : String) : Option (Nat × Nat) :=
  match v with
  | "11" => some (1, 1)
  | "10" => some (1, 0)
  | _ => none

def parseConn (c : String) : List (List UInt8) :=
  if c == "-" then [] else (c.splitOn "|").map Drv.unhex

def parseQ (ws : List String) : Option Q := do
  let rid ← (ws[2]?).bind String.toNat?
  let (major, minor) ← (Drv.field ws "v").bind parseVer
  let conn ← (Drv.field ws "c").map parseConn
  let method ← Drv.field ws "m"
  let st ← (Drv.field ws "st").bind String.toNat?
  let sz ← (Drv.field ws "sz").bind String.toNat?
  let rb ← (Drv.field ws "rb").bind String.toNat?
  if method != "GET" && method != "POST" && method != "HEAD" then none
  else some { rid, major, minor, conn, method, st, sz, rb }

structure DS where
  iomod : String := ""
  cur : Option H := none
  pool : Option (Nat × ClientPool.St) := none   -- a `C pool` case: (max, state)

def showNats (xs : List Nat) : String := String.intercalate "," ("-" :: xs.map toString)

/-- one op of a pool case on the model `ClientPool` -/
def poolOp (max : Nat) (s : ClientPool.St) (ws : List String) : String × ClientPool.St :=
  match ws with
  | ["G"] =>
    let r := s.nreq
    match ClientPool.step max s .get with
    | some s' =>
      match s'.assigned.getLast? with
      | some (r', c) =>
        if r' == r && s'.assigned.length == s.assigned.length + 1 then
          (s!"got c={c} new={if c == s.count then 1 else 0} reset={if s'.redials.contains r then 1 else 0}", s')
        else (s!"blocked r={r}", s')
      | none => (s!"blocked r={r}", s')
    | none => ("bad-op", s)
  | ["R", c] =>
    match c.toNat? with
    | some c =>
      match ClientPool.step max s (.release c) with
      | some s' =>
        if s'.assigned.length == s.assigned.length + 1 then
          match s'.assigned.getLast? with
          | some (r, c') => (s!"ok handoff={r}:{c'}:{if s'.redials.contains r then 1 else 0}", s')
          | none => ("bad-op", s)
        else ("ok handoff=-", s')
      | none => ("bad-release", s)
    | none => ("bad-op", s)
  | ["X", c] =>
    match c.toNat? with
    | some c =>
      if c < s.count then ("ok", (ClientPool.step max s (.connClosed c)).getD s) else ("bad-conn", s)
    | none => ("bad-op", s)
  | ["T"] =>
    match s.waiting with
    | r :: _ => (s!"timeout r={r}", (ClientPool.step max s (.timeout r)).getD s)
    | [] => ("none", s)
  | ["S"] =>
    let busy := s.busy.toArray.qsort (· < ·) |>.toList
    (s!"state count={s.count} idle={s.idle.length} busy={showNats busy} waiting={String.intercalate "," (s.waiting.map toString ++ ["-"])}", s)
  | _ => ("bad-op", s)

def flush (s : DS) : IO DS := do
  match s.cur with
  | none => pure s
  | some h =>
    let sync := s.iomod == "bl" || (s.iomod == "mx" && h.cid % 2 == 0)
    for l in outcome sync h do IO.println l
    pure { s with cur := none }

partial def loop (h : IO.FS.Stream) (s : DS) : IO Unit := do
  let line ← h.getLine
  if line.isEmpty then
    let _ ← flush s
    return ()
  let ws := (line.trimAscii.toString.splitOn " ").filter (· ≠ "")
  if s.pool.isSome && (match ws with | op :: _ => ["G", "R", "X", "T", "S"].contains op | [] => false) then
    match s.pool with
    | some (max, ps) =>
      let (out, ps') := poolOp max ps ws
      IO.println out
      loop h { s with pool := some (max, ps') }
    | none => loop h s
  else
  match ws with
  | "C" :: "pool" :: _ =>
    let s ← flush s
    match (Drv.field ws "max").bind String.toNat?, (Drv.field ws "timeout").bind String.toNat? with
    | some max, some t =>
      if max > 0 && t > 0 then
        IO.println "ok"
        loop h { s with pool := some (max, {}), iomod := "" }
      else
        IO.println "bad-op"
        loop h { s with pool := none }
    | _, _ =>
      IO.println "bad-op"
      loop h { s with pool := none }
  | "C" :: iomod :: tls :: ep :: _ =>
    let s ← flush s
    let s := { s with pool := none }
    if (iomod == "nb" || iomod == "bl" || iomod == "mx") && (tls == "0" || tls == "1") &&
        ["lt", "et", "os", "eta", "osa"].contains ep then
      IO.println "ok"
      loop h { s with iomod }
    else
      IO.println "bad-op"
      loop h s
  | "K" :: cid :: kind :: _ =>
    let s ← flush s
    match cid.toNat?, (Drv.field ws "sched").bind parseSched with
    | some cid, some sched =>
      if ["raw", "std", "nbc", "nbcli", "nbx"].contains kind && s.iomod != "" then
        let got := ((Drv.field ws "got").bind String.toNat?).getD 0
        let lost := (((Drv.field ws "lost").getD "").splitOn ",").filterMap String.toNat?
        let failAt := ((Drv.field ws "fail").bind String.toNat?).getD 0
        let cut := (Drv.field ws "cut").bind String.toNat?
        let dialFail := ((Drv.field ws "dialfail").bind String.toNat?).getD 0
        let abortAt := ((Drv.field ws "abort").bind String.toNat?).getD 0
        let xclose := ((Drv.field ws "xclose").bind String.toNat?).getD 0
        -- observed backlogs "rid:left,…": the request indices (rid = index in these histories)
        let short := (((Drv.field ws "short").getD "").splitOn ",").filterMap fun t => ((t.splitOn ":").head?).bind String.toNat?
        IO.println "ok"
        loop h { s with cur := some { cid, kind, sched, got, lost, failAt, dialFail, abortAt, xclose, short, cut, qs := #[] } }
      else
        IO.println "bad-op"
        loop h s
    | _, _ =>
      IO.println "bad-op"
      loop h s
  | "Q" :: cid :: _ =>
    match s.cur, parseQ ws with
    | some hh, some q =>
      if cid.toNat? == some hh.cid then loop h { s with cur := some { hh with qs := hh.qs.push q } }
      else
        -- a request of another connection than the current history: the protocol groups them
        let s ← flush s
        IO.println "bad-op"
        loop h s
    | _, _ =>
      let s ← flush s
      IO.println "bad-op"
      loop h s
  | [] => loop h s
  | _ =>
    let s ← flush s
    IO.println "bad-op"
    loop h s

def main : IO Unit := do loop (← IO.getStdin) {}
