import NbioVerif.Model.StopM
import NbioVerif.DrvCommon
/-!
stopdrv — runs the Stop model on the op lines of `hstop`.

The harness drives a real engine with *gates*: an `OnOpen` gate per conn (holds the conn between `addConn`₁ and
`addConn`₂), one `OnClose` gate (holds the Async drainer inside a close callback). After every op it lets the
implementation settle and prints what it observes; the driver applies the op's model actions, then applies enabled
engine-internal actions that are not behind a closed gate until none is left (the model's stable successor state —
`mu` bounds the loop), and prints the same observation:

    R stop=<idle|run|ret> opens=<n> closes=<n> c0=<opening|live|closed|done>:<inTable 0|1> c1=...

Real-engine cases (`C … real …`) are summarised by counts: `O activity opened=<n>` registers n conns, `O stop` runs
Stop to completion.
-/
open StopM

structure DS where
  s : St
  heldOpen : List Nat
  heldClose : Bool
  real : Bool

def gated (d : DS) : Act → Bool
  | .store c => d.heldOpen.contains c
  | .asyncRun =>
    match d.s.asyncQ with
    | .closeCb _ :: _ => d.heldClose
    | _ => false
  | .stopListeners => true     -- Stop starts only when the harness calls it
  | _ => false

/-- the order in which the driver tries enabled internal actions: Stop's own statements first (its loop runs
    much faster than a freshly spawned drainer goroutine gets scheduled), `addConn` continuations and teardowns
    next, the Async drainer last. Any order is a legal schedule of the model; this one is the implementation's
    usual one, and a run that happens to schedule differently is re-run by the check (see `retry_run`). -/
def prio (n : Nat) : List Act :=
  [.snapshot] ++ ((List.range n).map fun c => Act.scan c) ++ [.scanEnd, .waitReturn, .onStop, .stopPollers] ++
  ((List.range n).flatMap fun c => [Act.open c, .store c, .register c true, .teardown c]) ++ [.asyncRun]

def settle (d : DS) : Nat → DS
  | 0 => d
  | fuel + 1 =>
    let cands := (prio d.s.conns.length).filter fun a => !gated d a
    match cands.findSome? fun a => step d.s a with
    | some s' => settle { d with s := s' } fuel
    | none => d

def applyActs (d : DS) (as : List Act) : DS := { d with s := run d.s as }

def phName (x : C) : String :=
  let p := match x.ph with
    | .accepted => "opening" | .opening => "opening"
    | .tabled => "live" | .live => "live"
    | .closing => "closed" | .torn => "closed"
    | .done => "done"
  p ++ ":" ++ (if x.inTable then "1" else "0")

def obs (d : DS) : String :=
  let s := d.s
  let st := match s.sp with
    | .idle => "idle"
    | .returned => "ret"
    | _ => "run"
  let opens := (s.conns.filter fun x => x.ph != .accepted).length
  let closes := (s.conns.filter fun x => x.ph == .done).length
  let base := s!"R stop={st} opens={opens} closes={closes}"
  if d.real then base
  else
    let cs := (List.range s.conns.length).zip s.conns |>.map fun (i, x) => s!"c{i}={phName x}"
    String.intercalate " " (base :: cs)

def fuelOf (d : DS) : Nat := 40 * (d.s.conns.length + 4) + 2 * d.s.asyncQ.length

partial def loop (h : IO.FS.Stream) (d : DS) : IO Unit := do
  let line ← h.getLine
  if line.isEmpty then return ()
  let ws := (line.trimAscii.toString.splitOn " ").filter (· ≠ "")
  let fin (d : DS) : IO Unit := do
    let d := settle d (fuelOf d)
    IO.println (obs d)
    loop h d
  match ws with
  | "C" :: rest =>
    IO.println "ok"
    loop h { s := init, heldOpen := [], heldClose := false, real := rest.contains "real" }
  | ["O", "new"] =>
    let c := d.s.conns.length
    fin { (applyActs d [.new .transfer, .open c]) with heldOpen := c :: d.heldOpen }
  | ["O", "add"] =>
    let c := d.s.conns.length
    fin (applyActs d [.new .transfer, .open c])
  | ["O", "addfail"] =>
    let c := d.s.conns.length
    fin (applyActs d [.new .transfer, .open c, .store c, .register c false, .teardown c])
  | ["O", "dial"] => fin (applyActs d [.new .dial])
  | ["O", "release", c] => fin { d with heldOpen := d.heldOpen.filter (· != c.toNat!) }
  | ["O", "close", c] => fin (applyActs d [.flip c.toNat!, .teardown c.toNat!])
  | ["O", "eof", c] => fin (applyActs d [.flip c.toNat!, .teardown c.toNat!])
  -- hard write error: `c.closed = true` under the mutex, then `closeWithErrorWithoutLock` (same two steps)
  | ["O", "werr", c] => fin (applyActs d [.flip c.toNat!, .teardown c.toNat!])
  | ["O", "holdclose"] => fin { d with heldClose := true }
  | ["O", "relclose"] => fin { d with heldClose := false }
  | "O" :: "stop" :: _ => fin (applyActs d [.stopListeners])
  | "O" :: "shutdown" :: _ => fin (applyActs d [.stopListeners])
  | "O" :: "activity" :: rest =>
    let n := ((Drv.field rest "opened").map String.toNat!).getD 0
    let k := ((Drv.field rest "closed").map String.toNat!).getD 0
    let base := d.s.conns.length
    let acts := (List.range n).flatMap fun i => [Act.new .transfer, .open (base + i), .store (base + i), .register (base + i) true]
    let closes := (List.range k).flatMap fun i => [Act.flip (base + i), .teardown (base + i)]
    fin (applyActs d (acts ++ closes))
  | "O" :: "start" :: _ => fin d
  | "Q" :: _ => fin d
  | _ => IO.println "bad-op"; loop h d

def main : IO Unit := do
  loop (← IO.getStdin) { s := init, heldOpen := [], heldClose := false, real := false }
