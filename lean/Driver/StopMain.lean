import NbioVerif.Model.StopM
import NbioVerif.Model.Lmux
import NbioVerif.Model.HttpStop
import NbioVerif.DrvCommon
/-!
stopdrv — runs the Stop model on the op lines of `hstop`.

The harness drives a real engine with *gates*: an `OnOpen` gate per conn (holds the conn between `addConn`₁ and
`addConn`₂), one `OnClose` gate (holds the Async drainer inside a close callback). After every op it lets the
implementation settle and prints what it observes; the driver applies the op's model actions, then applies enabled
engine-internal actions that are not behind a closed gate until none is left (the model's stable successor state —
`mu` bounds the loop), and prints the same observation:

    R stop=<idle|run|ret> opens=<n> closes=<n> c0=<opening|live|closed|done>:<inTable 0|1> c1=...

Real-engine cases (`C … real …`) are summarised by counts: `O activity opened=<n>` registers n conns, `O stop` runs
Stop to completion.

Listener-mux cases (`C … lmux maxa=<n>`) run `Model/Lmux.lean` (repaired Stop): `O dial` = accept + route,
`O takeA|takeB got=<conn|err|closed|blocked>` = one consumer Accept (the annotation tells which `select` case Go
picked when both were ready), `O dec` = one `Decrease` (if a conn handed out by A has not been accounted for yet),
`O stop` = the whole of `ListenerMux.Stop`. Result line:

    R qa=<queued in A> qb=<queued in B> online=<onlineA> ha=<handed by A> hb=<handed by B>[ got=<…>]

HTTP-engine cases (`C … hsim io=<nb|blk>`) run `Model/HttpStop.lean` (repaired tree) against a real nbhttp engine with
a gate in its `OnOpen` handler and a gate in its listener: `O conn gate=<0|1>` (a gated conn stays between the map
insert and the rest of its add path until `O release`), `O peerclose <i>`, `O late` (the next conn is returned by
`Accept` only after `shutdown` has been set), `O stop` / `O shutdown` (started in a goroutine), `O wait` (wait for it
to return). After every op all enabled steps that are not behind a gate are applied. Result line:

    R online=<len(engine.conns)> opens=<n> closes=<n> ret=<none|nil|ctx|hang>[ leak=<n>]
-/
open StopM

/-- HTTP-engine case -/
structure HsD where
  s : HttpStop.St := {}
  blk : Bool := false
  gated : Option Nat := none     -- conn held inside `_onOpen`
  late : Bool := false           -- the listener holds the next conn until Close
  stuck : Bool := false          -- `wait` found Stop not returning
  busy : List Nat := []          -- conns with a request handler held by the harness: their close job is queued behind it

namespace HsD
open HttpStop

def kind (d : HsD) : HttpStop.Kind := if d.blk then .blk else .nb

/-- every step that can happen without the harness: conn steps (not the gated conn's add path), then Stop's own -/
def cands (d : HsD) : List HttpStop.Act :=
  let n := d.s.conns.length
  let connActs := (List.range n).flatMap fun i =>
    -- the close job is a job of the conn's queue (ExecQ, C05): it runs after the handler that is running there
    let always : List HttpStop.Act :=
      (if d.busy.contains i then [] else [.conn i .runJob]) ++ [.conn i .readerExit, .conn i .delFail]
    if d.gated == some i then always
    else always ++ [.conn i .insert, .conn i .userOpen, .conn i .coreOpen, .conn i (.coreReg true), .conn i .spawn]
  connActs ++ (if d.s.sweeps == 0 || (d.s.graceful && HttpStop.online d.s > 0 && d.s.conns.any (fun c => c.inMap && !c.closed))
               then [HttpStop.Act.sweep] else []) ++
    ([.tick, .coreBegin, .coreWaited, .coreFinish] : List HttpStop.Act)

def settle (d : HsD) : Nat → HsD
  | 0 => d
  | fuel + 1 =>
    match (cands d).findSome? fun a => HttpStop.step HttpStop.fixed d.s a with
    | some s' => settle { d with s := s' } fuel
    | none => d

def obs (d : HsD) : String :=
  let s := d.s
  let opens := (s.conns.map (·.opens)).foldl (· + ·) 0
  let closes := (s.conns.map (·.closes)).foldl (· + ·) 0
  let ret := if d.stuck then "hang" else match s.ret with | .none => "none" | .ok => "nil" | .ctxErr => "ctx"
  s!"R online={HttpStop.online s} opens={opens} closes={closes} ret={ret}"

def op (d : HsD) (ws : List String) : Option (HsD × String) :=
  let acts (d : HsD) (as : List HttpStop.Act) : HsD := { d with s := HttpStop.run HttpStop.fixed d.s as }
  let fin (d : HsD) : Option (HsD × String) :=
    let d := settle d (60 * (d.s.conns.length + 4))
    some (d, obs d)
  match ws with
  | "O" :: "conn" :: rest =>
    let i := d.s.conns.length
    if Drv.field rest "gate" == some "1" then fin { (acts d [.accept d.kind, .conn i .insert]) with gated := some i }
    else fin (acts d [.accept d.kind])
  | ["O", "release"] => fin { d with gated := none }
  | ["O", "peerclose", i] => fin (acts d [.conn i.toNat! .close])
  | ["O", "req", i] => fin { d with busy := i.toNat! :: d.busy }
  | ["O", "relreq"] => fin { d with busy := [] }
  | ["O", "late"] => fin { d with late := true }
  | "O" :: "stop" :: _ | "O" :: "shutdown" :: _ =>
    let gr := ws[1]? == some "shutdown"
    let d := acts d [.stopFlag gr]
    let d := if d.late then acts d [.accept d.kind] else d
    fin (acts d [.stopListeners])
  | ["O", "wait"] =>
    let d := settle d (60 * (d.s.conns.length + 4))
    let d := if d.s.ret == .none && d.s.graceful then acts d [.ctxExpire] else d
    let d := if d.s.ret == .none then { d with stuck := true } else d
    let leak := (d.s.conns.filter fun c => c.ph == .refused && !c.closed).length
    some (d, obs d ++ s!" leak={leak}")
  | "Q" :: _ => fin d
  | _ => none

end HsD

/-- listener-mux case: the model state and which consumers are blocked in `Accept` -/
structure LmD where
  s : Lmux.St
  wa : Bool := false
  wb : Bool := false

structure DS where
  s : St
  heldOpen : List Nat
  heldClose : Bool
  real : Bool
  lm : Option LmD := none
  hs : Option HsD := none
  ioblock : Bool := false
  fdlimit : Bool := false
  attempts : Nat := 0

def gated (d : DS) : Act → Bool
  | .store c => d.heldOpen.contains c
  | .asyncRun =>
    match d.s.asyncQ with
    | .closeCb _ :: _ => d.heldClose
    | _ => false
  | .stopListeners => true     -- Stop starts only when the harness calls it
  | _ => false

/-- the order in which the driver tries enabled internal actions: Stop's own statements first (its loop runs
    much faster than a freshly spawned drainer goroutine gets scheduled), `addConn` continuations and teardowns
    next, the Async drainer last. Any order is a legal schedule of the model; this one is the implementation's
    usual one, and a run that happens to schedule differently is re-run by the check (see `retry_run`). -/
def prio (n : Nat) : List Act :=
  [.snapshot] ++ ((List.range n).map fun c => Act.scan c) ++ [.scanEnd, .waitReturn, .onStop, .stopPollers] ++
  ((List.range n).flatMap fun c => [Act.open c, .store c, .register c true, .teardown c]) ++ [.asyncRun]

def settle (d : DS) : Nat → DS
  | 0 => d
  | fuel + 1 =>
    let cands := (prio d.s.conns.length).filter fun a => !gated d a
    match cands.findSome? fun a => step d.s a with
    | some s' => settle { d with s := s' } fuel
    | none => d

def applyActs (d : DS) (as : List Act) : DS := { d with s := run d.s as }

def phName (x : C) : String :=
  let p := match x.ph with
    | .accepted => "opening" | .opening => "opening"
    | .tabled => "live" | .live => "live"
    | .closing => "closed" | .torn => "closed"
    | .done => "done"
  p ++ ":" ++ (if x.inTable then "1" else "0")

def obs (d : DS) : String :=
  let s := d.s
  let st := match s.sp with
    | .idle => "idle"
    | .returned => "ret"
    | _ => "run"
  let opens := (s.conns.filter fun x => x.ph != .accepted).length
  let closes := (s.conns.filter fun x => x.ph == .done).length
  let base := s!"R stop={st} opens={opens} closes={closes}"
  if d.real then base
  else
    let cs := (List.range s.conns.length).zip s.conns |>.map fun (i, x) => s!"c{i}={phName x}"
    String.intercalate " " (base :: cs)

def fuelOf (d : DS) : Nat := 40 * (d.s.conns.length + 4) + 2 * d.s.asyncQ.length

def gotName : Option (Lmux.Got × List Lmux.Ev) → String
  | some (.conn _, _) => "conn"
  | some (.err, _) => "err"
  | some (.closed, _) => "closed"
  | none => "blocked"

/-- blocked consumers take what has become ready (`ra=` / `rb=`: what they got) -/
def lmWake (d : LmD) : LmD × String :=
  let (d, ra) :=
    if d.wa then
      match Lmux.take d.s.chClosed false d.s.chA with
      | some r => ({ d with s := Lmux.run Lmux.fixed d.s [.takeA false], wa := false }, " ra=" ++ gotName (some r))
      | none => (d, "")
    else (d, "")
  let (d, rb) :=
    if d.wb then
      match Lmux.take d.s.chClosed false d.s.chB with
      | some r => ({ d with s := Lmux.run Lmux.fixed d.s [.takeB false], wb := false }, " rb=" ++ gotName (some r))
      | none => (d, "")
    else (d, "")
  (d, ra ++ rb)

def lmObs (d : LmD) : String :=
  let s := d.s
  let b (x : Bool) := if x then "1" else "0"
  s!"R qa={s.chA.length} qb={s.chB.length} online={s.onlineA} ha={s.handedA.length} hb={s.handedB.length} wa={b d.wa} wb={b d.wb}"

/-- one op of a listener-mux case: the new state and the result line -/
def lmOp (d : LmD) (ws : List String) : Option (LmD × String) :=
  let acts (d : LmD) (as : List Lmux.Act) : LmD := { d with s := Lmux.run Lmux.fixed d.s as }
  let fin (d : LmD) (extra : String) : Option (LmD × String) :=
    let (d, rel) := lmWake d
    some (d, lmObs d ++ extra ++ rel)
  let takeOp (isA : Bool) (rest : List String) : Option (LmD × String) :=
    if (if isA then d.wa else d.wb) then fin d " got=blocked"
    else
      let gc := Drv.field rest "got" == some "closed"
      let r := Lmux.take d.s.chClosed gc (if isA then d.s.chA else d.s.chB)
      let d' := acts d [if isA then .takeA gc else .takeB gc]
      let d' := if r.isNone then (if isA then { d' with wa := true } else { d' with wb := true }) else d'
      some (d', lmObs d' ++ " got=" ++ gotName r)
  match ws with
  | ["O", "dial"] => fin (acts d [.accept, .route]) ""
  | "O" :: "takeA" :: rest => takeOp true rest
  | "O" :: "takeB" :: rest => takeOp false rest
  | ["O", "dec"] => fin (acts d [.decrease]) ""
  | ["O", "stop"] =>
    -- Stop: close the real listener; the mux goroutine's Accept fails, an error event goes to both channels (a
    -- blocked consumer gets it) and the goroutine returns; then chClose is closed and what is queued is closed
    let (d1, r1) := lmWake (acts d [.stop, .route, .acceptErr])
    let (d2, r2) := lmWake (acts d1 [.stopFinish])
    some (d2, lmObs d2 ++ r1 ++ r2)
  | "Q" :: _ => fin d ""
  | _ => none

partial def loop (h : IO.FS.Stream) (d : DS) : IO Unit := do
  let line ← h.getLine
  if line.isEmpty then return ()
  let ws := (line.trimAscii.toString.splitOn " ").filter (· ≠ "")
  let fin (d : DS) : IO Unit := do
    let d := settle d (fuelOf d)
    IO.println (obs d)
    loop h d
  if d.fdlimit && ws.head? != some "C" then
    -- conns whose descriptor does not fit the engine's table are refused at the door (addConn / addDialer: test before
    -- anything else): no open, no close notification, every DialAsync returns the error, nothing for Stop to wait for.
    -- NOTE: this line is a CONSTANT written here, not computed by any step of StopM / HttpStop / Lmux; no theorem is
    -- about it. The case kind is judged by its direct oracles (watchdog, panic, census) and two source predicates.
    match ws with
    | "O" :: "run" :: rest =>
      let dials := ((Drv.field rest "dials").map String.toNat!).getD 0
      IO.println s!"R ret=nil dialerrs={dials} panics=0 opens=0 closes=0"; loop h d
    | _ => IO.println "R -"; loop h d
  else
  if d.ioblock && ws.head? != some "C" then
    -- Stop racing a read hand-over to the IO pool: Stop returns (the pool's Stop unblocks the hand-over).
    -- NOTE: this line is a CONSTANT written here, not computed by any model step (TPool's Go/Stop are C19's model and
    -- are not run by this driver); the case kind is judged by its direct oracle (watchdog) only.
    match ws with
    | "O" :: "run" :: rest =>
      if Drv.field rest "skip" == some "1" then do IO.println "R skipped"; loop h d
      else do IO.println s!"R ret=nil attempts={d.attempts}"; loop h d
    | _ => IO.println "R -"; loop h d
  else
  if let (some hd, false) := (d.hs, ws.head? == some "C") then
    match HsD.op hd ws with
    | some (hd', out) => IO.println out; loop h { d with hs := some hd' }
    | none => IO.println "bad-op"; loop h d
  else
  if let (some ls, false) := (d.lm, ws.head? == some "C") then
    match lmOp ls ws with
    | some (ls', out) => IO.println out; loop h { d with lm := some ls' }
    | none => IO.println "bad-op"; loop h d
  else
  match ws with
  | "C" :: rest =>
    IO.println "ok"
    let lm := if rest.contains "lmux" then some ({ s := Lmux.init (((Drv.field rest "maxa").map String.toNat!).getD 0) } : LmD) else none
    let hs := if rest.contains "hsim" then some ({ blk := Drv.field rest "io" == some "blk" } : HsD) else none
    loop h { s := init, heldOpen := [], heldClose := false, real := rest.contains "real", lm := lm, hs := hs,
             ioblock := rest.contains "ioblock", fdlimit := rest.contains "fdlimit", attempts := ((Drv.field rest "attempts").map String.toNat!).getD 0 }
  | ["O", "new"] =>
    let c := d.s.conns.length
    fin { (applyActs d [.new .transfer, .open c]) with heldOpen := c :: d.heldOpen }
  | ["O", "add"] =>
    let c := d.s.conns.length
    fin (applyActs d [.new .transfer, .open c])
  | ["O", "addfail"] =>
    let c := d.s.conns.length
    fin (applyActs d [.new .transfer, .open c, .store c, .register c false, .teardown c])
  | ["O", "dial"] => fin (applyActs d [.new .dial])
  | ["O", "release", c] => fin { d with heldOpen := d.heldOpen.filter (· != c.toNat!) }
  | ["O", "close", c] => fin (applyActs d [.flip c.toNat!, .teardown c.toNat!])
  | ["O", "eof", c] => fin (applyActs d [.flip c.toNat!, .teardown c.toNat!])
  -- hard write error: `c.closed = true` under the mutex, then `closeWithErrorWithoutLock` (same two steps)
  | ["O", "werr", c] => fin (applyActs d [.flip c.toNat!, .teardown c.toNat!])
  -- history: n conns registered, closed together behind one slow close handler and fully notified: the Async queue
  -- (a FIFO that empties: C19's ExecQ with Kind.async) is back where it was, nothing of the burst is left in the state
  | ["O", "burst", _] => fin d
  | ["O", "holdclose"] => fin { d with heldClose := true }
  | ["O", "relclose"] => fin { d with heldClose := false }
  | "O" :: "stop" :: _ => fin (applyActs d [.stopListeners])
  | "O" :: "shutdown" :: _ => fin (applyActs d [.stopListeners])
  | "O" :: "activity" :: rest =>
    let n := ((Drv.field rest "opened").map String.toNat!).getD 0
    let k := ((Drv.field rest "closed").map String.toNat!).getD 0
    let base := d.s.conns.length
    let acts := (List.range n).flatMap fun i => [Act.new .transfer, .open (base + i), .store (base + i), .register (base + i) true]
    let closes := (List.range k).flatMap fun i => [Act.flip (base + i), .teardown (base + i)]
    fin (applyActs d (acts ++ closes))
  | "O" :: "start" :: _ => fin d
  | "Q" :: _ => fin d
  | _ => IO.println "bad-op"; loop h d

def main : IO Unit := do
  loop (← IO.getStdin) { s := init, heldOpen := [], heldClose := false, real := false }
