/-! M10: the three `mempool` allocators over an abstract heap.

* a heap is a list of *regions* (one per Go backing array, never reused: ids are positions);
  a region has a capacity and `cap` bytes of content (bytes beyond a handle's length are the
  stale bytes a later `Realloc`/reslice exposes) and a ghost `owner` (who may touch it);
* a *handle* is what the client holds: `(region, len)`; the table `live` maps the client's names
  to handles;
* `sync.Pool` is a bag of `(tag, class, region)` entries; what `Get` returns is an **input**
  (`Choice.fresh` = the pool's `New`, `Choice.reuse tag` = a pooled entry; entries may stay in the
  bag forever = silently dropped by the GC);
* Go's `append` growth is an **input** too (`grow` = capacity of the new backing array, which the
  model only requires to be large enough).

Every Go function is mirrored paragraph by paragraph:
`MemPool.{Malloc,Realloc,Append,AppendString,Free}` (mempool.go),
`AlignedAllocator.{Malloc,Realloc,Append,AppendString,Free}` (aligned_allocator.go),
`stdAllocator.{…}` (std_allocator.go).  `AppendString` is `Append` on the string's bytes.

The `owner` field is ghost state: no function reads it; it records which client handle (or which
pool entry) a backing array currently belongs to and is what the disjointness and frame theorems
are stated with. -/
namespace Alloc

abbrev Bytes := List UInt8

inductive Owner | none | live (h : Nat) | pooled (tag cls : Nat)
  deriving Repr, DecidableEq

structure Region where
  cap   : Nat
  bytes : Bytes          -- length = cap (invariant)
  owner : Owner := .none -- ghost
  deriving Repr, DecidableEq

structure Handle where
  rid : Nat
  len : Nat
  deriving Repr, DecidableEq

inductive Kind | pool | aligned | std
  deriving Repr, DecidableEq

/-- static configuration: which allocator, and `MemPool`'s two sizes (after `New`'s normalisation) -/
structure Cfg where
  kind     : Kind
  bufSize  : Nat := 64
  freeSize : Nat := 65536

/-- one entry of a `sync.Pool` -/
structure PEnt where
  tag : Nat        -- name given by the environment when the buffer was put
  cls : Nat        -- which pool (size class of the aligned allocator; 0 for MemPool)
  rid : Nat
  deriving Repr, DecidableEq

structure St where
  regions : List Region := []
  pool    : List PEnt := []
  live    : List (Nat × Handle) := []       -- client's handle name ↦ handle
  deriving Repr, DecidableEq

inductive Choice | fresh | reuse (tag : Nat)
  deriving Repr

/-- `mempool.New(bufSize, freeSize)`: non-positive sizes take the defaults, `freeSize ≥ bufSize` -/
def newPoolCfg (bufSize freeSize : Nat) : Cfg :=
  let b := if bufSize = 0 then 64 else bufSize
  let f := if freeSize = 0 then 64 * 1024 else freeSize
  { kind := .pool, bufSize := b, freeSize := if f < b then b else f }

inductive Err | bad | panic
  deriving Repr, DecidableEq

def zeros (n : Nat) : Bytes := List.replicate n 0

/-! ### heap primitives -/

def St.region (s : St) (rid : Nat) : Region := s.regions.getD rid ⟨0, [], .none⟩

/-- replace region `rid` by `f` of it -/
def St.modify (s : St) (rid : Nat) (f : Region → Region) : St :=
  { s with regions := s.regions.set rid (f (s.region rid)) }

/-- a new backing array of capacity `cap` whose first bytes are `init`, the rest zero -/
def St.alloc (s : St) (cap : Nat) (init : Bytes) : St × Nat :=
  ({ s with regions := s.regions ++ [⟨cap, (init ++ zeros cap).take cap, .none⟩] }, s.regions.length)

def overwrite (b : Bytes) (off : Nat) (data : Bytes) : Bytes :=
  b.take off ++ data ++ b.drop (off + data.length)

/-- overwrite `data.length` bytes of region `rid` starting at `off` (a Go `copy` / in-place append) -/
def St.write (s : St) (rid off : Nat) (data : Bytes) : St :=
  s.modify rid fun r => { r with bytes := overwrite r.bytes off data }

/-- ghost: record who owns region `rid` -/
def St.own (s : St) (rid : Nat) (o : Owner) : St := s.modify rid fun r => { r with owner := o }

def St.lookup (s : St) (h : Nat) : Option Handle := (s.live.find? (·.1 == h)).map (·.2)
def St.remove (s : St) (h : Nat) : St := { s with live := s.live.filter (·.1 != h) }
def St.bind (s : St) (h : Nat) (x : Handle) : St :=
  { s.own x.rid (.live h) with live := (h, x) :: s.live.filter (·.1 != h) }

/-- the client's view of a handle: the first `len` bytes of its region -/
def St.read (s : St) (h : Nat) : Option Bytes :=
  (s.lookup h).map fun x => (s.region x.rid).bytes.take x.len

def PEnt.is (tag cls : Nat) (e : PEnt) : Bool := e.tag == tag && e.cls == cls

/-- `pool.Get()` of pool `cls` whose `New` makes `newCap` zero bytes -/
def poolGet (s : St) (cls newCap : Nat) : Choice → Except Err (St × Nat)
  | .fresh => .ok (s.alloc newCap [])
  | .reuse tag =>
    match s.pool.find? (PEnt.is tag cls) with
    | some e => .ok (({ s with pool := s.pool.filter (fun e => !PEnt.is tag cls e) } : St).own e.rid .none, e.rid)
    | none => .error .bad            -- the implementation handed out memory that is not in this pool

/-- `pool.Put` -/
def poolPut (s : St) (cls tag rid : Nat) : St :=
  { s.own rid (.pooled tag cls) with pool := ⟨tag, cls, rid⟩ :: s.pool }

/-- Go `append(buf[:keep], more...)` on region `rid`: in place when the capacity suffices, else a new
    backing array of capacity `grow` (input) holding `buf[:keep] ++ more`, zero beyond -/
def goAppend (s : St) (rid keep : Nat) (more : Bytes) (grow : Nat) : Except Err (St × Nat) :=
  let r := s.region rid
  if keep + more.length ≤ r.cap then .ok (s.write rid keep more, rid)
  else if grow < keep + more.length then .error .bad
  else .ok (s.alloc grow (r.bytes.take keep ++ more))

/-! ### MemPool (mempool.go) -/

/-- `pbuf := pool.Get(); n := cap; if n < size { append((*pbuf)[:n], make(size-n)...) }` -/
def mpGet (g : Cfg) (s : St) (size : Nat) (c : Choice) (grow : Nat) : Except Err (St × Nat) :=
  match poolGet s 0 g.bufSize c with
  | .error e => .error e
  | .ok (s, rid) =>
    let n := (s.region rid).cap
    if n < size then goAppend s rid n (zeros (size - n)) grow else .ok (s, rid)

/-- `Free`: `cap > 0`, `cap ≤ freeSize` ⇒ `pool.Put` -/
def mpFree (g : Cfg) (s : St) (x : Handle) (tag : Nat) : St :=
  let cap := (s.region x.rid).cap
  if 0 < cap ∧ cap ≤ g.freeSize then poolPut s 0 tag x.rid else s

def mpMalloc (g : Cfg) (s : St) (size : Nat) (c : Choice) (grow : Nat) : Except Err (St × Handle) :=
  if size > g.freeSize then
    .ok ((s.alloc size []).1, ⟨(s.alloc size []).2, size⟩)
  else
    match mpGet g s size c grow with
    | .error e => .error e
    | .ok (s, rid) => .ok (s, ⟨rid, size⟩)

def mpRealloc (g : Cfg) (s : St) (x : Handle) (size : Nat) (c : Choice) (grow tag : Nat) :
    Except Err (St × Handle) :=
  let r := s.region x.rid
  if size ≤ r.cap then .ok (s, ⟨x.rid, size⟩)
  else if r.cap < g.freeSize then
    match mpGet g s size c grow with
    | .error e => .error e
    | .ok (s', rid) =>
      -- copy(*newBufPtr, *pbuf); mp.Free(pbuf)
      .ok (mpFree g (s'.write rid 0 (r.bytes.take x.len)) x tag, ⟨rid, size⟩)
  else
    match goAppend s x.rid r.cap (zeros (size - r.cap)) grow with
    | .error e => .error e
    | .ok (s', rid) => .ok (s', ⟨rid, size⟩)

def mpAppend (s : St) (x : Handle) (more : Bytes) (grow : Nat) : Except Err (St × Handle) :=
  match goAppend s x.rid x.len more grow with
  | .error e => .error e
  | .ok (s', rid) => .ok (s', ⟨rid, x.len + more.length⟩)

/-! ### AlignedAllocator (aligned_allocator.go) -/

def minAligned : Nat := 32
def maxAligned : Nat := 32768
def nClasses : Nat := 11

def classSize (i : Nat) : Nat := minAligned <<< i

/-- `alignedIndexes[size]` for `size ≤ maxAligned`: the first class whose size is ≥ `size` -/
def classOfAux (size : Nat) : Nat → Nat → Nat
  | 0, i => i
  | fuel + 1, i => if size ≤ classSize i then i else classOfAux size fuel (i + 1)
def classOf (size : Nat) : Nat := classOfAux size (nClasses - 1) 0

/-- `Malloc`: class pool and reslice `[:size]` (a reslice beyond the capacity panics), or `make` -/
def alMalloc (s : St) (size : Nat) (c : Choice) : Except Err (St × Handle) :=
  if size ≤ maxAligned then
    match poolGet s (classOf size) (classSize (classOf size)) c with
    | .error e => .error e
    | .ok (s', rid) => if size ≤ (s'.region rid).cap then .ok (s', ⟨rid, size⟩) else .error .panic
  else
    .ok ((s.alloc size []).1, ⟨(s.alloc size []).2, size⟩)

/-- `Free`: only non-zero capacities that are multiples of 32 and ≤ 32 KiB are pooled, under `alignedIndexes[cap]`
    (`size == 0 ||` is the repair of the zero-capacity defect: an empty foreign buffer — e.g. the `nil` slice a caller
    passes to `Append` — used to be put into the 32-byte pool) -/
def alFree (s : St) (x : Handle) (tag : Nat) : St :=
  let cap := (s.region x.rid).cap
  if cap = 0 ∨ cap % minAligned ≠ 0 ∨ cap > maxAligned then s else poolPut s (classOf cap) tag x.rid

def alRealloc (s : St) (x : Handle) (size : Nat) (c : Choice) (tag : Nat) : Except Err (St × Handle) :=
  let r := s.region x.rid
  if size ≤ r.cap then .ok (s, ⟨x.rid, size⟩)
  else
    match alMalloc s size c with
    | .error e => .error e
    | .ok (s', y) => .ok (alFree (s'.write y.rid 0 (r.bytes.take x.len)) x tag, y)

def alAppend (s : St) (x : Handle) (more : Bytes) (c : Choice) (tag : Nat) : Except Err (St × Handle) :=
  let r := s.region x.rid
  if more.length ≤ r.cap - x.len then .ok (s.write x.rid x.len more, ⟨x.rid, x.len + more.length⟩)
  else
    match alMalloc s (x.len + more.length) c with
    | .error e => .error e
    | .ok (s', y) =>
      .ok (alFree ((s'.write y.rid 0 (r.bytes.take x.len)).write y.rid x.len more) x tag, y)

/-! ### stdAllocator (std_allocator.go) -/

def sdRealloc (s : St) (x : Handle) (size : Nat) : St × Handle :=
  let r := s.region x.rid
  if size ≤ r.cap then (s, ⟨x.rid, size⟩)
  else ((s.alloc size (r.bytes.take x.len)).1, ⟨(s.alloc size (r.bytes.take x.len)).2, size⟩)

/-! ### the client's operations -/

inductive Op
  | malloc  (h size : Nat) (c : Choice) (grow : Nat)
  | write   (h off : Nat) (data : Bytes)               -- the client stores into its buffer
  | append  (h : Nat) (more : Bytes) (c : Choice) (grow tag : Nat)
  | realloc (h size : Nat) (c : Choice) (grow tag : Nat)
  | free    (h tag : Nat)
  | foreign (h cap len : Nat)          -- the client brings a buffer of its own (`make([]byte, len, cap)`, `nil`): a live
                                       -- buffer the allocator did not hand out, later passed to Append / Realloc / Free
  deriving Repr

/-- foreign capacities inside the contract of the aligned allocator: `Free` ignores them (zero, not a multiple of 32,
    above the threshold) or they are exactly a class size (such a buffer **is** pooled, by design).  A multiple of 32 that
    is not a class size (96) is filed under the next class and breaks a later `Malloc`
    (`c20_aligned_foreign_cap_counterexample`): outside the contract, rejected by the model. -/
def foreignOk (cap : Nat) : Bool :=
  cap == 0 || cap % minAligned != 0 || decide (maxAligned < cap) || (List.range nClasses).any (fun i => cap == classSize i)

def doMalloc (g : Cfg) (s : St) (size : Nat) (c : Choice) (grow : Nat) : Except Err (St × Handle) :=
  match g.kind with
  | .pool => mpMalloc g s size c grow
  | .aligned => alMalloc s size c
  | .std => .ok ((s.alloc size []).1, ⟨(s.alloc size []).2, size⟩)

def doAppend (g : Cfg) (s : St) (x : Handle) (more : Bytes) (c : Choice) (grow tag : Nat) :
    Except Err (St × Handle) :=
  match g.kind with
  | .pool | .std => mpAppend s x more grow
  | .aligned => alAppend s x more c tag

def doRealloc (g : Cfg) (s : St) (x : Handle) (size : Nat) (c : Choice) (grow tag : Nat) :
    Except Err (St × Handle) :=
  match g.kind with
  | .pool => mpRealloc g s x size c grow tag
  | .aligned => alRealloc s x size c tag
  | .std => .ok (sdRealloc s x size)

def doFree (g : Cfg) (s : St) (x : Handle) (tag : Nat) : St :=
  match g.kind with
  | .pool => mpFree g s x tag
  | .aligned => alFree s x tag
  | .std => s

/-- one client operation; `.error .bad` = not a well-formed use (unknown or duplicate handle name,
    store outside the buffer) or an impossible environment answer (a pool entry that is not there,
    a growth smaller than needed) -/
def step (g : Cfg) (s : St) : Op → Except Err St
  | .malloc h size c grow =>
    match s.lookup h with
    | some _ => .error .bad
    | none =>
      match doMalloc g s size c grow with
      | .error e => .error e
      | .ok (s', x) => .ok (s'.bind h x)
  | .write h off data =>
    match s.lookup h with
    | none => .error .bad
    | some x => if off + data.length ≤ x.len then .ok (s.write x.rid off data) else .error .bad
  | .append h more c grow tag =>
    match s.lookup h with
    | none => .error .bad
    | some x =>
      match doAppend g s x more c grow tag with
      | .error e => .error e
      | .ok (s', y) => .ok (s'.bind h y)
  | .realloc h size c grow tag =>
    match s.lookup h with
    | none => .error .bad
    | some x =>
      match doRealloc g s x size c grow tag with
      | .error e => .error e
      | .ok (s', y) => .ok (s'.bind h y)
  | .free h tag =>
    match s.lookup h with
    | none => .error .bad
    | some x => .ok ((doFree g s x tag).remove h)
  | .foreign h cap len =>
    match s.lookup h with
    | some _ => .error .bad
    | none =>
      if len ≤ cap ∧ (g.kind = .aligned → foreignOk cap = true) then
        .ok ((s.alloc cap []).1.bind h ⟨(s.alloc cap []).2, len⟩)
      else .error .bad

/-- a program; operations the model rejects are skipped -/
def run (g : Cfg) : St → List Op → St
  | s, [] => s
  | s, o :: os => match step g s o with
    | .ok s' => run g s' os
    | .error _ => run g s os

end Alloc
