/-! probe: mempool.MemPool over an abstract heap; sync.Pool choice and append growth are inputs -/
namespace Alloc

abbrev Bytes := List UInt8

structure Region where
  cap : Nat
  bytes : Bytes          -- length = cap (content beyond a handle's len is "stale")
  deriving Repr

structure Handle where
  rid : Nat
  len : Nat
  deriving Repr, DecidableEq

structure Cfg where
  bufSize : Nat
  freeSize : Nat

structure Heap where
  regions : List Region := []
  pool : List (String × Nat) := []      -- (name of the freed handle, region id)
  deriving Repr

inductive Choice | fresh | reuse (name : String) deriving Repr

def Heap.newRegion (h : Heap) (cap : Nat) (bytes : Bytes) : Heap × Nat :=
  let b := (bytes ++ List.replicate cap 0).take cap
  ({ h with regions := h.regions ++ [⟨cap, b⟩] }, h.regions.length)

def Heap.region (h : Heap) (rid : Nat) : Region := h.regions.getD rid ⟨0, []⟩
def Heap.setBytes (h : Heap) (rid : Nat) (b : Bytes) : Heap :=
  { h with regions := h.regions.set rid { h.region rid with bytes := b } }

def Heap.read (h : Heap) (x : Handle) : Bytes := (h.region x.rid).bytes.take x.len

/-- pool.Get(): returns a region id (fresh `New()` or a pooled one) -/
def poolGet (g : Cfg) (h : Heap) : Choice → Option (Heap × Nat)
  | .fresh => some (h.newRegion g.bufSize [])
  | .reuse name =>
    match h.pool.find? (·.1 == name) with
    | some (_, rid) => some ({ h with pool := h.pool.filter (·.1 != name) }, rid)
    | none => none                                        -- the impl handed out memory that is not in the pool

/-- grow region `rid` to at least `size` the way `append(s[:n], make([]byte, size-n)...)` does -/
def growTo (h : Heap) (rid size growCap : Nat) : Option (Heap × Nat) :=
  let r := h.region rid
  if r.cap ≥ size then some (h, rid)
  else if growCap < size then none
  else some (h.newRegion growCap (r.bytes ++ List.replicate (size - r.cap) 0))

def malloc (g : Cfg) (h : Heap) (size : Nat) (c : Choice) (growCap : Nat) : Option (Heap × Handle) :=
  if size > g.freeSize then
    let (h, rid) := h.newRegion size []
    some (h, ⟨rid, size⟩)
  else do
    let (h, rid) ← poolGet g h c
    let (h, rid) ← growTo h rid size growCap
    pure (h, ⟨rid, size⟩)

/-- Go append on a handle: in place if capacity suffices, else a new region of capacity growCap -/
def append (h : Heap) (x : Handle) (more : Bytes) (growCap : Nat) : Option (Heap × Handle) :=
  let r := h.region x.rid
  let need := x.len + more.length
  if need ≤ r.cap then
    some (h.setBytes x.rid (r.bytes.take x.len ++ more ++ r.bytes.drop need), ⟨x.rid, need⟩)
  else if growCap < need then none
  else
    let (h, rid) := h.newRegion growCap (r.bytes.take x.len ++ more)
    some (h, ⟨rid, need⟩)

def free (g : Cfg) (h : Heap) (name : String) (x : Handle) : Heap :=
  let r := h.region x.rid
  if r.cap > 0 && r.cap ≤ g.freeSize then { h with pool := h.pool ++ [(name, x.rid)] } else h

def realloc (g : Cfg) (h : Heap) (name : String) (x : Handle) (size : Nat) (c : Choice) (growCap : Nat) :
    Option (Heap × Handle) :=
  let r := h.region x.rid
  if size ≤ r.cap then some (h, ⟨x.rid, size⟩)
  else if r.cap < g.freeSize then do
    let (h, rid) ← poolGet g h c
    let (h, rid) ← growTo h rid size growCap
    let old := h.read x
    let nr := h.region rid
    let h := h.setBytes rid (old ++ nr.bytes.drop old.length)
    pure (free g h name x, ⟨rid, size⟩)
  else
    -- append((*pbuf)[:cap], make([]byte, size-cap)...)[:size]
    if growCap < size then none
    else
      let (h, rid) := h.newRegion growCap (r.bytes ++ List.replicate (size - r.cap) 0)
      some (h, ⟨rid, size⟩)

end Alloc
