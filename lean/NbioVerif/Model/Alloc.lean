/-! M10: the three `mempool` allocators over an abstract heap.

* a heap is a list of *regions* (one per Go backing array, never reused: ids are positions);
  a region has a capacity and `cap` bytes of content (bytes beyond a handle's length are the
  stale bytes a later `Realloc`/reslice exposes);
* a *handle* is what the client holds: `(region, len)`; the table `live` maps the client's names
  to handles;
* `sync.Pool` is a bag of `(tag, class, region)` entries; what `Get` returns is an **input**
  (`Choice.fresh` = the pool's `New`, `Choice.reuse tag` = a pooled entry; entries may stay in the
  bag forever = silently dropped by the GC);
* Go's `append` growth is an **input** too (`grow` = capacity of the new backing array, which the
  model only requires to be large enough).

Every Go function is mirrored paragraph by paragraph:
`MemPool.{Malloc,Realloc,Append,AppendString,Free}` (mempool.go),
`AlignedAllocator.{Malloc,Realloc,Append,AppendString,Free}` (aligned_allocator.go),
`stdAllocator.{…}` (std_allocator.go).  `AppendString` is `Append` on the string's bytes. -/
namespace Alloc

abbrev Bytes := List UInt8

structure Region where
  cap   : Nat
  bytes : Bytes          -- length = cap (invariant)
  deriving Repr, BEq

structure Handle where
  rid : Nat
  len : Nat
  deriving Repr, DecidableEq

inductive Kind | pool | aligned | std
  deriving Repr, DecidableEq

/-- static configuration: which allocator, and `MemPool`'s two sizes (after `New`'s normalisation) -/
structure Cfg where
  kind     : Kind
  bufSize  : Nat := 64
  freeSize : Nat := 65536

/-- one entry of a `sync.Pool` -/
structure PEnt where
  tag : Nat        -- name given by the environment when the buffer was put
  cls : Nat        -- which pool (size class of the aligned allocator; 0 for MemPool)
  rid : Nat
  deriving Repr, DecidableEq

structure St where
  regions : List Region := []
  pool    : List PEnt := []
  live    : List (Nat × Handle) := []       -- client's handle name ↦ handle
  deriving Repr

inductive Choice | fresh | reuse (tag : Nat)
  deriving Repr

/-- `mempool.New(bufSize, freeSize)`: non-positive sizes take the defaults, `freeSize ≥ bufSize` -/
def newPoolCfg (bufSize freeSize : Nat) : Cfg :=
  let b := if bufSize = 0 then 64 else bufSize
  let f := if freeSize = 0 then 64 * 1024 else freeSize
  { kind := .pool, bufSize := b, freeSize := if f < b then b else f }

inductive Err | bad | panic
  deriving Repr, DecidableEq

def zeros (n : Nat) : Bytes := List.replicate n 0

/-! ### heap primitives -/

def St.region (s : St) (rid : Nat) : Region := s.regions.getD rid ⟨0, []⟩

/-- a new backing array of capacity `cap` whose first bytes are `init`, the rest zero -/
def St.alloc (s : St) (cap : Nat) (init : Bytes) : St × Nat :=
  ({ s with regions := s.regions ++ [⟨cap, (init ++ zeros cap).take cap⟩] }, s.regions.length)

/-- overwrite `data.length` bytes of region `rid` starting at `off` (a Go `copy` / in-place append) -/
def St.write (s : St) (rid off : Nat) (data : Bytes) : St :=
  let r := s.region rid
  let r' : Region := ⟨r.cap, r.bytes.take off ++ data ++ r.bytes.drop (off + data.length)⟩
  { s with regions := s.regions.set rid r' }

def St.lookup (s : St) (h : Nat) : Option Handle := (s.live.find? (·.1 == h)).map (·.2)
def St.remove (s : St) (h : Nat) : St := { s with live := s.live.filter (·.1 != h) }
def St.bind (s : St) (h : Nat) (x : Handle) : St := { s with live := (h, x) :: s.live.filter (·.1 != h) }

/-- the client's view of a handle: the first `len` bytes of its region -/
def St.read (s : St) (h : Nat) : Option Bytes :=
  (s.lookup h).map fun x => (s.region x.rid).bytes.take x.len

/-- `pool.Get()` of pool `cls` whose `New` makes `newCap` zero bytes -/
def poolGet (s : St) (cls newCap : Nat) : Choice → Except Err (St × Nat)
  | .fresh => .ok (s.alloc newCap [])
  | .reuse tag =>
    match s.pool.find? (fun e => e.tag == tag && e.cls == cls) with
    | some e => .ok ({ s with pool := s.pool.filter (fun e => !(e.tag == tag && e.cls == cls)) }, e.rid)
    | none => .error .bad            -- the implementation handed out memory that is not in this pool

def poolPut (s : St) (cls tag rid : Nat) : St := { s with pool := ⟨tag, cls, rid⟩ :: s.pool }

/-- Go `append(buf[:keep], more...)` on region `rid`: in place when the capacity suffices, else a new
    backing array of capacity `grow` (input) holding `buf[:keep] ++ more`, zero beyond -/
def goAppend (s : St) (rid keep : Nat) (more : Bytes) (grow : Nat) : Except Err (St × Nat) :=
  let r := s.region rid
  if keep + more.length ≤ r.cap then .ok (s.write rid keep more, rid)
  else if grow < keep + more.length then .error .bad
  else .ok (s.alloc grow (r.bytes.take keep ++ more))

/-! ### MemPool (mempool.go) -/

/-- `pbuf := pool.Get(); n := cap; if n < size { append((*pbuf)[:n], make(size-n)...) }` -/
def mpGet (g : Cfg) (s : St) (size : Nat) (c : Choice) (grow : Nat) : Except Err (St × Nat) := do
  let (s, rid) ← poolGet s 0 g.bufSize c
  let n := (s.region rid).cap
  if n < size then goAppend s rid n (zeros (size - n)) grow else pure (s, rid)

/-- `Free`: `cap > 0`, `cap ≤ freeSize` ⇒ `pool.Put` -/
def mpFree (g : Cfg) (s : St) (x : Handle) (tag : Nat) : St :=
  let cap := (s.region x.rid).cap
  if cap > 0 && cap ≤ g.freeSize then poolPut s 0 tag x.rid else s

def mpMalloc (g : Cfg) (s : St) (size : Nat) (c : Choice) (grow : Nat) : Except Err (St × Handle) :=
  if size > g.freeSize then
    let (s, rid) := s.alloc size []
    .ok (s, ⟨rid, size⟩)
  else do
    let (s, rid) ← mpGet g s size c grow
    pure (s, ⟨rid, size⟩)

def mpRealloc (g : Cfg) (s : St) (x : Handle) (size : Nat) (c : Choice) (grow tag : Nat) :
    Except Err (St × Handle) :=
  let r := s.region x.rid
  if size ≤ r.cap then .ok (s, ⟨x.rid, size⟩)
  else if r.cap < g.freeSize then do
    let old := r.bytes.take x.len
    let (s, rid) ← mpGet g s size c grow
    let s := s.write rid 0 old                       -- copy(*newBufPtr, *pbuf)
    pure (mpFree g s x tag, ⟨rid, size⟩)
  else do
    let (s, rid) ← goAppend s x.rid r.cap (zeros (size - r.cap)) grow
    pure (s, ⟨rid, size⟩)

def mpAppend (s : St) (x : Handle) (more : Bytes) (grow : Nat) : Except Err (St × Handle) := do
  let (s, rid) ← goAppend s x.rid x.len more grow
  pure (s, ⟨rid, x.len + more.length⟩)

/-! ### AlignedAllocator (aligned_allocator.go) -/

def minAligned : Nat := 32
def maxAligned : Nat := 32768
def nClasses : Nat := 11

/-- `alignedIndexes[size]` for `size ≤ maxAligned`: the first class whose size is ≥ `size` -/
def classOfAux (size : Nat) : Nat → Nat → Nat
  | 0, i => i
  | fuel + 1, i => if size ≤ minAligned <<< i then i else classOfAux size fuel (i + 1)
def classOf (size : Nat) : Nat := classOfAux size (nClasses - 1) 0
def classSize (i : Nat) : Nat := minAligned <<< i

/-- `Malloc`: class pool and reslice `[:size]` (a reslice beyond the capacity panics), or `make` -/
def alMalloc (s : St) (size : Nat) (c : Choice) : Except Err (St × Handle) :=
  if size ≤ maxAligned then do
    let idx := classOf size
    let (s, rid) ← poolGet s idx (classSize idx) c
    if size ≤ (s.region rid).cap then pure (s, ⟨rid, size⟩) else .error .panic
  else
    let (s, rid) := s.alloc size []
    .ok (s, ⟨rid, size⟩)

/-- `Free`: only capacities that are multiples of 32 and ≤ 32 KiB are pooled, under `alignedIndexes[cap]` -/
def alFree (s : St) (x : Handle) (tag : Nat) : St :=
  let cap := (s.region x.rid).cap
  if cap % minAligned != 0 || cap > maxAligned then s else poolPut s (classOf cap) tag x.rid

def alRealloc (s : St) (x : Handle) (size : Nat) (c : Choice) (tag : Nat) : Except Err (St × Handle) :=
  let r := s.region x.rid
  if size ≤ r.cap then .ok (s, ⟨x.rid, size⟩)
  else do
    let old := r.bytes.take x.len
    let (s, y) ← alMalloc s size c
    let s := s.write y.rid 0 old
    pure (alFree s x tag, y)

def alAppend (s : St) (x : Handle) (more : Bytes) (c : Choice) (tag : Nat) : Except Err (St × Handle) :=
  let r := s.region x.rid
  if more.length ≤ r.cap - x.len then .ok (s.write x.rid x.len more, ⟨x.rid, x.len + more.length⟩)
  else do
    let old := r.bytes.take x.len
    let (s, y) ← alMalloc s (x.len + more.length) c
    let s := s.write y.rid 0 old
    let s := s.write y.rid x.len more
    pure (alFree s x tag, y)

/-! ### stdAllocator (std_allocator.go) -/

def sdRealloc (s : St) (x : Handle) (size : Nat) : St × Handle :=
  let r := s.region x.rid
  if size ≤ r.cap then (s, ⟨x.rid, size⟩)
  else
    let (s, rid) := s.alloc size (r.bytes.take x.len)
    (s, ⟨rid, size⟩)

/-! ### the client's operations -/

inductive Op
  | malloc  (h size : Nat) (c : Choice) (grow : Nat)
  | write   (h off : Nat) (data : Bytes)               -- the client stores into its buffer
  | append  (h : Nat) (more : Bytes) (c : Choice) (grow tag : Nat)
  | realloc (h size : Nat) (c : Choice) (grow tag : Nat)
  | free    (h tag : Nat)
  deriving Repr

def doMalloc (g : Cfg) (s : St) (size : Nat) (c : Choice) (grow : Nat) : Except Err (St × Handle) :=
  match g.kind with
  | .pool => mpMalloc g s size c grow
  | .aligned => alMalloc s size c
  | .std => let (s, rid) := s.alloc size []; .ok (s, ⟨rid, size⟩)

def doAppend (g : Cfg) (s : St) (x : Handle) (more : Bytes) (c : Choice) (grow tag : Nat) :
    Except Err (St × Handle) :=
  match g.kind with
  | .pool | .std => mpAppend s x more grow
  | .aligned => alAppend s x more c tag

def doRealloc (g : Cfg) (s : St) (x : Handle) (size : Nat) (c : Choice) (grow tag : Nat) :
    Except Err (St × Handle) :=
  match g.kind with
  | .pool => mpRealloc g s x size c grow tag
  | .aligned => alRealloc s x size c tag
  | .std => .ok (sdRealloc s x size)

def doFree (g : Cfg) (s : St) (x : Handle) (tag : Nat) : St :=
  match g.kind with
  | .pool => mpFree g s x tag
  | .aligned => alFree s x tag
  | .std => s

/-- one client operation; `.error .bad` = not a well-formed use (unknown or duplicate handle name,
    store outside the buffer) or an impossible environment answer (a pool entry that is not there,
    a growth smaller than needed) -/
def step (g : Cfg) (s : St) : Op → Except Err St
  | .malloc h size c grow =>
    match s.lookup h with
    | some _ => .error .bad
    | none => do
      let (s, x) ← doMalloc g s size c grow
      pure (s.bind h x)
  | .write h off data =>
    match s.lookup h with
    | none => .error .bad
    | some x => if off + data.length ≤ x.len then .ok (s.write x.rid off data) else .error .bad
  | .append h more c grow tag =>
    match s.lookup h with
    | none => .error .bad
    | some x => do
      let (s, y) ← doAppend g s x more c grow tag
      pure (s.bind h y)
  | .realloc h size c grow tag =>
    match s.lookup h with
    | none => .error .bad
    | some x => do
      let (s, y) ← doRealloc g s x size c grow tag
      pure (s.bind h y)
  | .free h tag =>
    match s.lookup h with
    | none => .error .bad
    | some x => .ok ((doFree g s x tag).remove h)

/-- a program; operations the model rejects are skipped -/
def run (g : Cfg) : St → List Op → St
  | s, [] => s
  | s, o :: os => match step g s o with
    | .ok s' => run g s' os
    | .error _ => run g s os

end Alloc
