/-! RFC 6455 as a specification: an independent frame decoder (§5.2) and the acceptance predicate over frame
    sequences (§5.1 masking, §5.2 reserved bits/opcodes and lengths, §5.4 fragmentation, §5.5 control frames,
    §5.5.1/§7.4.1 close payload and codes, §8.1 UTF-8; RFC 7692 §6 for RSV1; plus the configured message limit).
    Twin of `rfcTwin` in harness/cmd/hws/ref.go; the two are compared on every case (E line).
    This file imports nothing of the model: big-endian numbers, unmasking, UTF-8 (RFC 3629) and the close-code classes are
    written here from the RFC texts; `Lemmas/RfcBridge.lean` proves them equal to the model's helpers. -/
namespace Rfc

abbrev Bytes := List UInt8

/-- network byte order (§5.2 "multibyte length quantities are expressed in network byte order") -/
def beNat (b : Bytes) : Nat := b.foldl (fun a x => a * 256 + x.toNat) 0

/-- §5.3: octet i of the transformed data is octet i of the original XOR octet (i MOD 4) of the masking key;
    `j` = index of the first octet of `b` -/
def unmask (key : Bytes) : Nat → Bytes → Bytes
  | _, [] => []
  | j, x :: r => (x ^^^ key[j % 4]!) :: unmask key (j + 1) r

/-! RFC 3629: a UTF-8 string is a sequence of encoded Unicode scalar values. Decode each sequence by its lead byte
    (§3: `0xxxxxxx`, `110xxxxx 10xxxxxx`, `1110xxxx 10xxxxxx 10xxxxxx`, `11110xxx 10xxxxxx 10xxxxxx 10xxxxxx`) and
    require the shortest form, no surrogates (U+D800–U+DFFF) and at most U+10FFFF. -/

def isCont (b : UInt8) : Bool := b.toNat / 64 == 2

def contVal (b : UInt8) : Nat := b.toNat % 64

/-- `c` is a Unicode scalar value whose UTF-8 encoding has exactly `n` octets -/
def scalarOk (n c : Nat) : Bool :=
  (if n == 1 then c < 0x80 else if n == 2 then 0x80 ≤ c && c < 0x800 else if n == 3 then 0x800 ≤ c && c < 0x10000
   else 0x10000 ≤ c && c ≤ 0x10FFFF) && !(0xD800 ≤ c && c ≤ 0xDFFF)

def utf8Ok : Bytes → Bool
  | [] => true
  | b0 :: r =>
    let x := b0.toNat
    if x < 0x80 then utf8Ok r
    else if x / 32 == 6 then
      match r with
      | c1 :: r => isCont c1 && scalarOk 2 (x % 32 * 64 + contVal c1) && utf8Ok r
      | _ => false
    else if x / 16 == 14 then
      match r with
      | c1 :: c2 :: r => isCont c1 && isCont c2 && scalarOk 3 ((x % 16 * 64 + contVal c1) * 64 + contVal c2) && utf8Ok r
      | _ => false
    else if x / 8 == 30 then
      match r with
      | c1 :: c2 :: c3 :: r =>
        isCont c1 && isCont c2 && isCont c3 && scalarOk 4 (((x % 8 * 64 + contVal c1) * 64 + contVal c2) * 64 + contVal c3) && utf8Ok r
      | _ => false
    else false

structure Frame where
  fin : Bool
  r1 : Bool
  r2 : Bool
  r3 : Bool
  masked : Bool
  op : Nat
  topbit : Bool := false      -- 64-bit length with the most significant bit set
  declared : Nat := 0         -- declared payload length
  payload : Bytes := []       -- unmasked payload (complete frames only)
  «partial» : Bool := false   -- header complete, payload not (last frame of a stream only)
  deriving Repr, DecidableEq

inductive D1
  | need                                  -- not even a complete header
  | frame (f : Frame) (total : Nat)       -- f.partial = false: `total` bytes consumed; else header only

/-- one frame given the first two bytes, the declared length and the header length without mask key -/
def mkD1 (b : Bytes) (x0 x1 : UInt8) (declared hl : Nat) (topbit : Bool) : D1 :=
  let masked := x1.toNat ≥ 128
  let hl := if masked then hl + 4 else hl
  let f : Frame := { fin := x0.toNat ≥ 128, r1 := x0.toNat / 64 % 2 == 1, r2 := x0.toNat / 32 % 2 == 1,
                     r3 := x0.toNat / 16 % 2 == 1, masked, op := x0.toNat % 16, topbit, declared }
  if topbit then .frame { f with «partial» := true } 0
  else if b.length < hl + declared then .frame { f with «partial» := true } 0
  else
    let raw := (b.drop hl).take declared
    let key := (b.drop (hl - 4)).take 4
    .frame { f with payload := if masked then unmask key 0 raw else raw } (hl + declared)

/-- §5.2 base framing: decode one frame from the front of a byte string -/
def decode1 (b : Bytes) : D1 :=
  match b with
  | x0 :: x1 :: rest =>
    let l7 := x1.toNat % 128
    if l7 == 126 then
      if rest.length < 2 then .need else mkD1 b x0 x1 (beNat (rest.take 2)) 4 false
    else if l7 == 127 then
      if rest.length < 8 then .need
      else
        let v := beNat (rest.take 8)
        mkD1 b x0 x1 v 10 (v ≥ 2 ^ 63)
    else mkD1 b x0 x1 l7 2 false
  | _ => .need

/-- split a byte stream into frames; a trailing incomplete header is dropped, a trailing frame with a complete
    header but incomplete payload is returned with `partial = true` -/
def decode : Nat → Bytes → List Frame
  | 0, _ => []
  | fuel+1, b =>
    match decode1 b with
    | .need => []
    | .frame f total => if f.partial then [f] else f :: decode fuel (b.drop total)

/-- §7.4: codes an endpoint may receive in a close frame. §7.4.2: 0–999 are not used; 1000–2999 are reserved for the
    protocol and only the codes §7.4.1 defines may appear, of which 1004 is reserved and 1005, 1006 and 1015 "MUST NOT be
    set as a status code in a Close control frame"; 1012–1014 and 1016–2999 are not defined by RFC 6455; 3000–3999
    (registered) and 4000–4999 (private) are allowed; anything above is out of range. -/
def closeCodeOk (c : Nat) : Bool :=
  1000 ≤ c && c ≤ 4999 && c != 1004 && c != 1005 && c != 1006 && c != 1015 &&
    !(1012 ≤ c && c ≤ 1014) && !(1016 ≤ c && c ≤ 2999)

inductive Reason | len63 | rsv | opcode | mask | ctlFrag | ctlLen | contNoStart | dataInFrag | tooBig
                 | closeLen | closeCode | closeUtf8 | inflate | utf8
  deriving Repr, DecidableEq

def Reason.name : Reason → String
  | .len63 => "len63" | .rsv => "rsv" | .opcode => "opcode" | .mask => "mask" | .ctlFrag => "ctl-frag"
  | .ctlLen => "ctl-len" | .contNoStart => "cont-nostart" | .dataInFrag => "data-in-frag" | .tooBig => "too-big"
  | .closeLen => "close-len" | .closeCode => "close-code" | .closeUtf8 => "close-utf8" | .inflate => "inflate"
  | .utf8 => "utf8"

inductive Verdict | accept | closed | reject (r : Reason)
  deriving Repr, DecidableEq

inductive Ev
  | deliver (t : Nat) (p : Bytes)
  | pong (p : Bytes)
  | close (p : Bytes)
  deriving Repr, DecidableEq

/-- what inflating a complete compressed message gives (RFC 7692 §7.2.2), as far as the limit allows -/
inductive TInfl | ok (out : Bytes) | big | err

structure Cfg where
  server : Bool                 -- role of the receiving endpoint
  compress : Bool               -- permessage-deflate negotiated
  limit : Nat                   -- 0 = none
  strict : Bool                 -- enforce the masking direction (§5.1)
  infl : Bytes → TInfl

structure St where
  inMsg : Bool := false
  typ : Nat := 0
  comp : Bool := false
  acc : Bytes := []

structure Res where
  verdict : Verdict
  at_ : Int
  evs : List Ev
  may : Option Reason := none   -- header-level violation in a trailing partial frame: failing early is allowed

/-- header-level rules -/
def hdrCheck (g : Cfg) (s : St) (f : Frame) : Option Reason :=
  if f.topbit then some .len63
  else if f.r2 || f.r3 then some .rsv
  else if f.r1 && !(g.compress && (f.op == 1 || f.op == 2)) then some .rsv
  else if (f.op > 2 && f.op < 8) || f.op > 10 then some .opcode
  else if g.strict && f.masked != g.server then some .mask
  else if f.op ≥ 8 && !f.fin then some .ctlFrag
  else if f.op ≥ 8 && f.declared > 125 then some .ctlLen
  else if f.op == 0 && !s.inMsg then some .contNoStart
  else if (f.op == 1 || f.op == 2) && s.inMsg then some .dataInFrag
  else if f.op ≤ 2 && g.limit > 0 && s.acc.length + f.declared > g.limit then some .tooBig
  else none

def run (g : Cfg) : St → Nat → List Ev → List Frame → Res
  | _, _, evs, [] => { verdict := .accept, at_ := -1, evs }
  | s, i, evs, f :: fs =>
    match hdrCheck g s f with
    | some why =>
      if f.partial && !f.topbit && why != .ctlLen && why != .tooBig then { verdict := .accept, at_ := -1, evs, may := some why }
      else { verdict := .reject why, at_ := i, evs }
    | none =>
      if f.partial then { verdict := .accept, at_ := -1, evs }
      else if f.op == 9 then run g s (i + 1) (evs ++ [.pong f.payload]) fs
      else if f.op == 10 then run g s (i + 1) evs fs
      else if f.op == 8 then
        let p := f.payload
        if p.length == 0 then { verdict := .closed, at_ := i, evs := evs ++ [.close []] }
        else if p.length == 1 then { verdict := .reject .closeLen, at_ := i, evs }
        else if !closeCodeOk (beNat (p.take 2)) then { verdict := .reject .closeCode, at_ := i, evs }
        else if !utf8Ok (p.drop 2) then { verdict := .reject .closeUtf8, at_ := i, evs }
        else { verdict := .closed, at_ := i, evs := evs ++ [.close p] }
      else
        let s : St := if f.op != 0 then { inMsg := true, typ := f.op, comp := f.r1, acc := [] } else s
        let s := { s with acc := s.acc ++ f.payload }
        if !f.fin then run g s (i + 1) evs fs
        else
          let r : TInfl := if s.comp then g.infl s.acc else .ok s.acc
          match r with
          | .big => { verdict := .reject .tooBig, at_ := i, evs }
          | .err => { verdict := .reject .inflate, at_ := i, evs }
          | .ok msg =>
            if s.typ == 1 && !utf8Ok msg then { verdict := .reject .utf8, at_ := i, evs }
            else run g {} (i + 1) (evs ++ [.deliver s.typ msg]) fs

end Rfc
