import NbioVerif.Model.Deadline
/-!
# The deadline *in force*, defined from the history alone (independent of the model's helpers)

`Model/Deadline.lean` keeps the ghost field `T.f` ("deadline in force per the property's wording") up to date with the
same helpers (`arm`, `stop`, `unforce`) that write the code-level fields — so an error in a helper could cancel out.
This file defines the same notion **independently**: a fold over the operation list that knows nothing about timer
handles, runtime timers or started callbacks, only the property's wording:

* set / renew ⇒ that time (on an open connection); clear ⇒ none;
* a `Write`/`Writev` that ends with an empty queue, or a `flush` that empties the backlog, ends the *write* deadline;
* closing (by anyone, for any reason) ends both;
* `fire` / `cb` are not part of the wording: the fold ignores them (a timeout close is covered by the hypothesis of
  the agreement theorem `c16_force_is_spec`: it speaks about histories in which no timer has closed the conn yet).
-/
namespace Deadline

structure Sp where
  now     : Nat := 0
  closed  : Bool := false
  backlog : Bool := false
  fr      : Option Nat := none
  fw      : Option Nat := none
  deriving DecidableEq, Repr

def Sp.close (t : Sp) : Sp := { t with closed := true, fr := none, fw := none }

def specStep (t : Sp) : Op → Sp
  | .set .r x => if t.closed then t else { t with fr := some x }
  | .set .w x => if t.closed then t else { t with fw := some x }
  | .clear .r => if t.closed then t else { t with fr := none }
  | .clear .w => if t.closed then t else { t with fw := none }
  | .setBoth x => if t.closed then t else { t with fr := some x, fw := some x }
  | .clearBoth => if t.closed then t else { t with fr := none, fw := none }
  | .ka n => if t.closed then t else { t with fr := some (t.now + n) }
  | .wto n => if t.closed then t else { t with fw := some (t.now + n) }
  | .dial n => if t.closed then t else { t with fw := some (t.now + n) }
  | .connected => if t.closed then t else { t with fw := none }
  | .write k =>
    if t.closed then t
    else match t.backlog, k with
      | _, .err => t.close                              -- a failing write closes the connection
      | true, _ => t                                    -- behind a backlog nothing drains
      | false, .full => { t with fw := none }           -- the queue is empty after the call
      | false, .short => { t with backlog := true }
  | .flush k =>
    if t.closed || !t.backlog then t
    else match k with
      | .full => { t with backlog := false, fw := none } -- the backlog has been emptied
      | .short => t
      | .err => t.close
  | .close => if t.closed then t else t.close
  | .tick n => { t with now := t.now + n }
  | .fire _ => t
  | .cb _ => t

def specRun : Sp → List Op → Sp
  | t, [] => t
  | t, o :: os => specRun (specStep t o) os

end Deadline
