/-! probe: generic resumable scanner skeleton (nbhttp Parser.Parse resume logic) -/
namespace Scan

inductive Upd | keep | here | next
  deriving DecidableEq, Repr

inductive Out (σ ε : Type)
  | ok (s : σ) (u : Upd) (evs : List ε)
  | err (e : Nat) (evs : List ε)

structure Machine (σ ε : Type) where
  byteStep  : σ → List UInt8 → UInt8 → Out σ ε
  block     : σ → Option Nat
  blockDone : σ → List UInt8 → Out σ ε

variable {σ ε : Type}

/-- result of feeding: events so far, and either final (state, cache) or an error code -/
structure Res (σ ε : Type) where
  evs : List ε
  fin : (σ × List UInt8) ⊕ Nat

/-! ### spec: one byte at a time, token-so-far in the state -/

def specByte (M : Machine σ ε) (st : σ) (tok : List UInt8) (c : UInt8) : Out σ ε × List UInt8 :=
  match M.block st with
  | some n =>
    let tok' := tok ++ [c]
    if tok'.length ≥ n then (M.blockDone st tok', [])   -- tok for next state is []
    else (.ok st .keep [], tok')
  | none =>
    match M.byteStep st tok c with
    | .ok s' u evs =>
      (.ok s' u evs, match u with | .keep => tok ++ [c] | .here => [c] | .next => [])
    | .err e evs => (.err e evs, tok)

def specFeed (M : Machine σ ε) : σ → List UInt8 → List UInt8 → List ε → Res σ ε
  | st, tok, [], acc => ⟨acc, .inl (st, tok)⟩
  | st, tok, c :: cs, acc =>
    match specByte M st tok c with
    | (.ok s' _ evs, tok') => specFeed M s' tok' cs (acc ++ evs)
    | (.err e evs, _) => ⟨acc ++ evs, .inr e⟩

/-! ### impl model: Parse(data) with cache, offset, start, index loop -/

/-- loop state mirrors Go: buf (= cache ++ data), i, start.  `fuel` makes it structurally total;
    running out of fuel (error 999) = the Go loop would not terminate. -/
def loop (M : Machine σ ε) (buf : List UInt8) : Nat → Nat → Nat → σ → List ε → Res σ ε
  | 0, _, _, _, acc => ⟨acc, .inr 999⟩
  | fuel+1, i, start, st, acc =>
    if h : i < buf.length then
      match M.block st with
      | some n =>
        let left := buf.length - start
        if left ≥ n then
          match M.blockDone st ((buf.drop start).take n) with
          | .ok s' _ evs =>
            let start' := start + n
            -- Go: start += cl; i = start - 1; then i++
            loop M buf fuel start' start' s' (acc ++ evs)
          | .err e evs => ⟨acc ++ evs, .inr e⟩
        else
          -- goto Exit
          ⟨acc, .inl (st, buf.drop start)⟩
      | none =>
        match M.byteStep st ((buf.drop start).take (i - start)) buf[i] with
        | .ok s' u evs =>
          let start' := match u with | .keep => start | .here => i | .next => i + 1
          loop M buf fuel (i+1) start' s' (acc ++ evs)
        | .err e evs => ⟨acc ++ evs, .inr e⟩
    else
      ⟨acc, .inl (st, buf.drop start)⟩

def implParse (M : Machine σ ε) (st : σ) (cache data : List UInt8) (acc : List ε) : Res σ ε :=
  if data = [] then ⟨acc, .inl (st, cache)⟩
  else
    let buf := cache ++ data
    loop M buf (buf.length + 1) cache.length 0 st acc

/-- machine well-formedness: block states are entered with an empty token, block sizes positive -/
structure WF (M : Machine σ ε) : Prop where
  enter_byte : ∀ s tok c s' u evs n, M.byteStep s tok c = .ok s' u evs → M.block s' = some n → u = .next
  pos : ∀ s n, M.block s = some n → 0 < n


theorem take_drop_succ (buf : List UInt8) (start i : Nat) (hsi : start ≤ i) (hi : i < buf.length) :
    (buf.drop start).take (i - start) ++ [buf[i]] = (buf.drop start).take (i + 1 - start) := by
  have h1 : i + 1 - start = (i - start) + 1 := by omega
  rw [h1, List.take_add_one]
  congr 1
  have : (buf.drop start)[i - start]? = some buf[i] := by
    rw [List.getElem?_drop]
    have : start + (i - start) = i := by omega
    rw [this, List.getElem?_eq_getElem hi]
  rw [this]; rfl

/-- spec in a block state: accumulating `xs` (not yet reaching n) -/
theorem spec_block_short (M : Machine σ ε) (st : σ) (n : Nat) (hb : M.block st = some n) :
    ∀ (xs tok : List UInt8) (acc : List ε), tok.length + xs.length < n →
      specFeed M st tok xs acc = ⟨acc, .inl (st, tok ++ xs)⟩ := by
  intro xs
  induction xs with
  | nil => intro tok acc _; simp [specFeed]
  | cons x xs ih =>
    intro tok acc h
    simp only [specFeed, specByte, hb]
    have : ¬ (tok ++ [x]).length ≥ n := by simp at h ⊢; omega
    simp only [this, if_false]
    rw [ih (tok ++ [x]) (acc ++ []) (by simp at h ⊢; omega)]
    simp

/-- spec in a block state: `xs` completes the block exactly -/
theorem spec_block_full (M : Machine σ ε) (st : σ) (n : Nat) (hb : M.block st = some n) :
    ∀ (xs tok rest : List UInt8) (acc : List ε), xs ≠ [] → tok.length + xs.length = n →
      specFeed M st tok (xs ++ rest) acc =
        match M.blockDone st (tok ++ xs) with
        | .ok s' _ evs => specFeed M s' [] rest (acc ++ evs)
        | .err e evs => ⟨acc ++ evs, .inr e⟩ := by
  intro xs
  induction xs with
  | nil => intro tok rest acc h; exact absurd rfl h
  | cons x xs ih =>
    intro tok rest acc _ h
    simp only [List.cons_append, specFeed, specByte, hb]
    by_cases hx : xs = []
    · subst hx
      have : (tok ++ [x]).length ≥ n := by simp at h ⊢; omega
      simp only [this, if_true, List.nil_append]
      cases M.blockDone st (tok ++ [x]) <;> simp
    · have hlen : 0 < xs.length := List.length_pos_iff.mpr hx
      have : ¬ (tok ++ [x]).length ≥ n := by simp at h ⊢; omega
      simp only [this, if_false]
      have := ih (tok ++ [x]) rest (acc ++ []) hx (by simp at h ⊢; omega)
      simp only [List.append_assoc, List.singleton_append, List.append_nil] at this ⊢
      exact this

/-- key lemma: loop at (i,start) ≡ spec on the rest with tok = buf[start:i] -/
theorem loop_eq_spec (M : Machine σ ε) (wf : WF M) (buf : List UInt8) :
    ∀ (fuel i start : Nat) (st : σ) (acc : List ε),
      start ≤ i → i ≤ buf.length → buf.length - i < fuel →
      (∀ n, M.block st = some n → i - start < n) →
      loop M buf fuel i start st acc
        = specFeed M st ((buf.drop start).take (i - start)) (buf.drop i) acc := by
  intro fuel
  induction fuel with
  | zero => intro i start st acc _ _ h; omega
  | succ fuel ih =>
    intro i start st acc hsi hil hf hb
    unfold loop
    by_cases hi : i < buf.length
    · simp only [hi, dite_true]
      have hdrop : buf.drop i = buf[i] :: buf.drop (i+1) := List.drop_eq_getElem_cons hi
      cases hblk : M.block st with
      | some n =>
        simp only
        have hlt := hb n hblk
        have hpos := wf.pos _ _ hblk
        by_cases hleft : buf.length - start ≥ n
        · simp only [hleft, if_true]
          -- split buf.drop i = xs ++ rest with xs = buf[i .. start+n)
          have hsplit : buf.drop i = (buf.drop i).take (start + n - i) ++ buf.drop (start + n) := by
            conv => lhs; rw [← List.take_append_drop (start + n - i) (buf.drop i)]
            rw [List.drop_drop]; congr 2; omega
          have htok : (buf.drop start).take (i - start) ++ (buf.drop i).take (start + n - i)
                = (buf.drop start).take n := by
            have e1 : buf.drop i = (buf.drop start).drop (i - start) := by
              rw [List.drop_drop]; congr 1; omega
            rw [e1, show start + n - i = n - (i - start) by omega]
            rw [← List.take_add]; congr 1; omega
          have hxs : (buf.drop i).take (start + n - i) ≠ [] := by
            intro h0
            have := congrArg List.length h0
            simp at this; omega
          have hl : ((buf.drop start).take (i - start)).length + ((buf.drop i).take (start + n - i)).length = n := by
            simp; omega
          rw [hsplit, spec_block_full M st n hblk _ _ _ acc hxs hl, htok]
          cases hbd : M.blockDone st ((buf.drop start).take n) with
          | err e evs => simp
          | ok s' u evs =>
            simp only
            have := ih (start + n) (start + n) s' (acc ++ evs) (Nat.le_refl _) (by omega) (by omega)
              (by intro m hm; have := wf.pos _ _ hm; omega)
            simp at this
            rw [this]
        · simp only [hleft, if_false]
          rw [spec_block_short M st n hblk _ _ acc (by simp; omega)]
          congr 2
          have e1 : buf.drop i = (buf.drop start).drop (i - start) := by
            rw [List.drop_drop]; congr 1; omega
          rw [e1, List.take_append_drop]
      | none =>
        rw [hdrop]
        simp only [specFeed, specByte, hblk]
        cases hbs : M.byteStep st ((buf.drop start).take (i - start)) buf[i] with
        | err e evs => simp
        | ok s' u evs =>
          simp only
          have key : ∀ start', start' ≤ i + 1 →
              (∀ n, M.block s' = some n → i + 1 - start' < n) →
              specFeed M s' ((buf.drop start').take (i + 1 - start')) (buf.drop (i+1)) (acc ++ evs)
              = loop M buf fuel (i+1) start' s' (acc ++ evs) := by
            intro start' h1 h2
            exact (ih (i+1) start' s' (acc ++ evs) h1 (by omega) (by omega) h2).symm
          cases u with
          | keep =>
            simp only
            rw [take_drop_succ buf start i hsi hi]
            apply (key start (by omega) ?_).symm
            intro n hn
            have := wf.enter_byte _ _ _ _ _ _ n hbs hn
            cases this
          | here =>
            simp only
            have h1 : (buf.drop i).take (i + 1 - i) = [buf[i]] := by
              have e : i + 1 - i = 1 := by omega
              rw [e, List.take_one, List.head?_drop, List.getElem?_eq_getElem hi]; rfl
            rw [← h1]
            apply (key i (by omega) ?_).symm
            intro n hn
            have := wf.enter_byte _ _ _ _ _ _ n hbs hn
            cases this
          | next =>
            simp only
            have : ([] : List UInt8) = (buf.drop (i+1)).take (i + 1 - (i+1)) := by simp
            rw [this]
            apply (key (i+1) (by omega) ?_).symm
            intro n hn
            have := wf.pos _ _ hn
            omega
    · have : i = buf.length := by omega
      subst this
      simp [specFeed, List.take_of_length_le]

end Scan

namespace Scan
variable {σ ε : Type}

/-- Parse(data) on (st, cache) equals the byte-at-a-time spec started with tok = cache -/
theorem implParse_eq_spec (M : Machine σ ε) (wf : WF M) (st : σ) (cache data : List UInt8) (acc : List ε)
    (hinv : ∀ n, M.block st = some n → cache.length < n) :
    implParse M st cache data acc = specFeed M st cache data acc := by
  unfold implParse
  by_cases hd : data = []
  · subst hd; simp [specFeed]
  · simp only [hd, if_false]
    have := loop_eq_spec M wf (cache ++ data) ((cache ++ data).length + 1) cache.length 0 st acc
      (Nat.zero_le _) (by simp) (by omega) (by intro n hn; have := hinv n hn; omega)
    simpa using this

/-- spec is a fold: feeding a ++ b = feeding a then b -/
theorem specFeed_append (M : Machine σ ε) :
    ∀ (a b : List UInt8) (st : σ) (tok : List UInt8) (acc : List ε),
      specFeed M st tok (a ++ b) acc =
        match specFeed M st tok a acc with
        | ⟨acc', .inl (st', tok')⟩ => specFeed M st' tok' b acc'
        | r => r := by
  intro a
  induction a with
  | nil => intro b st tok acc; simp [specFeed]
  | cons x xs ih =>
    intro b st tok acc
    simp only [List.cons_append, specFeed]
    split
    · rw [ih]
    · rfl
end Scan
