/-! probe: Conn.AsyncRead gate (readEvents counter) as a transition system at atomic-op granularity -/
namespace Gate

inductive T | none | queued | reading | atDec deriving DecidableEq, Repr

structure St where
  kq : Nat := 0          -- bytes in the kernel receive queue
  edge : Bool := false   -- undelivered ET readiness
  re : Int := 0          -- c.readEvents
  pinc : Bool := false   -- poller is between AddInt32(+1) (result > 2) and the compensating AddInt32(-1)
  task : T := .none
  tasks : Nat := 0       -- number of read tasks ever started (ghost)
  delivered : Nat := 0
  reads : Nat := 0       -- read syscalls issued (ghost)
  deriving DecidableEq, Repr

inductive Act | arrive (n : Nat) | pollEvent | pollUndo | taskStart | taskRead (bufSize : Nat) | taskDec
  deriving Repr

def step (s : St) : Act → Option St
  | .arrive n => if n = 0 then none else some { s with kq := s.kq + n, edge := true }
  | .pollEvent =>
    if s.edge && !s.pinc then
      let cnt := s.re + 1
      let s := { s with edge := false, re := cnt }
      if cnt > 2 then some { s with pinc := true }
      else if cnt > 1 then some s
      else some { s with task := .queued, tasks := s.tasks + 1 }   -- IOExecute(task); NB: also taken for cnt ≤ 0
    else none
  | .pollUndo => if s.pinc then some { s with re := s.re - 1, pinc := false } else none
  | .taskStart => if s.task == .queued then some { s with task := .reading } else none
  | .taskRead b =>
    if s.task == .reading then
      if s.kq = 0 then some { s with task := .atDec, reads := s.reads + 1 }            -- EAGAIN
      else
        let n := min s.kq b
        let s := { s with kq := s.kq - n, delivered := s.delivered + n, reads := s.reads + 1 }
        if n < b then some { s with task := .atDec } else some s
    else none
  | .taskDec =>
    if s.task == .atDec then
      let v := s.re - 1
      if v = 0 then some { s with re := v, task := .none } else some { s with re := v, task := .reading }
    else none

def run (s : St) : List Act → St
  | [] => s
  | a :: as => match step s a with
    | some s' => run s' as
    | none => run s as

/-- the transient +1 of a dropped third event can be consumed by the running task:
    the counter goes negative with no task alive … -/
theorem gate_counter_negative :
    let s := run {} [.arrive 1, .pollEvent, .taskStart,          -- event 1 starts the task (re = 1)
                     .arrive 1, .pollEvent,                       -- event 2: re = 2
                     .arrive 1, .pollEvent,                       -- event 3: re = 3, poller pauses before its -1
                     .taskRead 8, .taskDec,                       -- 3 -> 2, loop
                     .taskRead 8, .taskDec,                       -- 2 -> 1, loop
                     .taskRead 8, .taskDec,                       -- 1 -> 0, task returns
                     .pollUndo]                                   -- poller's compensating -1: re = -1
    s.re = -1 ∧ s.task = .none ∧ s.kq = 0 := by
  decide

/-- … and the next readiness event starts a task whose exit test `== 0` can never succeed:
    it keeps issuing reads on an empty socket (here: 5 EAGAIN reads and still running). -/
theorem gate_spin :
    let s0 := run {} [.arrive 1, .pollEvent, .taskStart, .arrive 1, .pollEvent, .arrive 1, .pollEvent,
                      .taskRead 8, .taskDec, .taskRead 8, .taskDec, .taskRead 8, .taskDec, .pollUndo]
    let s := run s0 [.arrive 1, .pollEvent, .taskStart,
                     .taskRead 8, .taskDec, .taskRead 8, .taskDec, .taskRead 8, .taskDec,
                     .taskRead 8, .taskDec, .taskRead 8, .taskDec, .taskRead 8, .taskDec]
    s.kq = 0 ∧ s.edge = false ∧ s.task = .reading ∧ s.re = -6 ∧ s.reads = 9 := by
  decide

end Gate
