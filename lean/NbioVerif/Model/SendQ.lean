/-!
# WebSocket writers: `WriteMessage` / `WriteFrame` / `writeFrame`, direct mode and the asynchronous send queue

Go code modelled (`nbhttp/websocket/conn.go:664-727, 880-1001, 831-875`); one step = one critical section of the ws
mutex `c.mux`, or one unlocked conn write of the drainer:

* `write n` — one `WriteMessage` call fragmenting into `n ≥ 1` frames (`WriteFrame` = `n = 1`). The ws mutex is held
  across all fragments, so the whole call is one step:
  * closed ⇒ `net.ErrClosed`, nothing happens;
  * **direct mode**: `n` conn writes inside the mutex; the environment says whether one of them fails
    (`errAt = some k`: the first `k` frames reached the conn, the k-th write failed — the underlying conn is closed
    from then on, every later conn write fails);
  * **queued mode**: frame by frame `writeFrame`: queue full (`bound > 0 ∧ len ≥ bound`) ⇒ the call stops and returns
    `ErrMessageSendQuqueIsFull` (the frames already appended **stay queued**: the mechanism of the pinned tree;
    `Cfg.reserve = true` is the repaired `WriteMessage`, which refuses the whole call up front); else append, and the
    frame that finds the queue empty starts the drainer goroutine with itself in hand.
* `send ok` — the drainer's `c.Conn.Write(*pbuf)` outside the lock; `ok = false`: write error ⇒ `CloseWithError`, the
  drainer exits **without resetting the queue** (nothing is ever sent again on this conn).
* `advance` — the drainer's locked section: closed ⇒ exit; queue exhausted ⇒ reset and exit; else take the next slot.
* `close` — `CloseAndClean`: test-and-set of `closed` (queued buffers are freed, slots stay) and `c.Conn.Close()`:
  every later conn write fails (`dead`).

A frame is `(call id, fragment index)`; call ids are handed out by the model (`nextId`), so they are distinct.
Ghost state: `wire` (frames the conn accepted, in order), `acc` (frames ever appended to the queue / handed to the
conn by direct calls, in order), `okCalls` (calls that returned nil: id and fragment count), `cut` (a call was cut
short by a full queue after appending some of its frames).
-/
namespace SendQ

abbrev Frame := Nat × Nat

structure Cfg where
  queued  : Bool
  bound   : Nat      -- BlockingModSendQueueMaxSize, 0 = unbounded
  reserve : Bool     -- WriteMessage checks room for the whole message before queueing (repaired tree)
  deriving Repr

inductive Dr | idle | sending | sent
  deriving DecidableEq, Repr

structure St where
  closed  : Bool
  dead    : Bool            -- a conn write failed: the underlying conn is closed, the drainer (if any) has exited
  list    : List Frame      -- c.sendQueue since the current drainer started
  idx     : Nat             -- drainer's i
  dr      : Dr
  nextId  : Nat
  wire    : List Frame
  acc     : List Frame
  okCalls : List (Nat × Nat)
  cut     : Bool
  deriving Repr

def init : St :=
  { closed := false, dead := false, list := [], idx := 0, dr := .idle, nextId := 0, wire := [], acc := [],
    okCalls := [], cut := false }

/-- the frame group of call `w` with `n` fragments -/
def group (w n : Nat) : List Frame := (List.range n).map fun k => (w, k)

inductive Act
  | write (n : Nat) (errAt : Option Nat)
  | send (ok : Bool)
  | advance
  | close
  deriving Repr

/-- how many of `n` frames fit: `writeFrame`'s full test, frame by frame -/
def fits (g : Cfg) (len n : Nat) : Nat :=
  if g.bound = 0 then n else min n (g.bound - len)

/-- the call id is consumed whatever the outcome -/
def bump (s : St) : St := { s with nextId := s.nextId + 1 }

/-- direct mode: `n` conn writes inside the ws mutex -/
def writeDirect (s : St) (n : Nat) (errAt : Option Nat) : St :=
  let w := s.nextId
  if s.dead then bump s                                -- the first conn write fails: nothing reaches the conn
  else
    match errAt with
    | some k =>
      if k < n then { s with nextId := w + 1, wire := s.wire ++ group w k, acc := s.acc ++ group w k, dead := true,
                             cut := s.cut || decide (0 < k) }
      else { s with nextId := w + 1, wire := s.wire ++ group w n, acc := s.acc ++ group w n,
                    okCalls := s.okCalls ++ [(w, n)] }
    | none => { s with nextId := w + 1, wire := s.wire ++ group w n, acc := s.acc ++ group w n,
                       okCalls := s.okCalls ++ [(w, n)] }

/-- queued mode: `writeFrame` frame by frame under the ws mutex -/
def writeQueued (g : Cfg) (s : St) (n : Nat) : St :=
  let w := s.nextId
  let m := fits g s.list.length n
  if g.reserve && decide (m < n) then bump s           -- repaired: refused as a whole
  else
    let startDr := s.list.isEmpty && decide (0 < m)
    { s with nextId := w + 1, list := s.list ++ group w m, acc := s.acc ++ group w m,
             okCalls := if m = n then s.okCalls ++ [(w, n)] else s.okCalls,
             cut := s.cut || (decide (0 < m) && decide (m < n)),
             dr := if startDr then .sending else s.dr,
             idx := if startDr then 0 else s.idx }

def stepWrite (g : Cfg) (s : St) (n : Nat) (errAt : Option Nat) : St :=
  if s.closed then bump s
  else if !g.queued then writeDirect s n errAt
  else writeQueued g s n

def stepSend (s : St) (ok : Bool) : Option St :=
  match s.dr with
  | .sending =>
    match s.list[s.idx]? with
    | some f =>
      if ok && !s.dead then some { s with wire := s.wire ++ [f], dr := .sent }
      else some { s with dr := .idle, dead := true }      -- write error: CloseWithError, exit, queue not reset
    | none => none
  | _ => none

def stepAdvance (s : St) : Option St :=
  match s.dr with
  | .sent =>
    if s.closed then some { s with dr := .idle }
    else if s.list.length ≤ s.idx + 1 then some { s with list := [], idx := 0, dr := .idle }
    else some { s with idx := s.idx + 1, dr := .sending }
  | _ => none

def step (g : Cfg) (s : St) : Act → Option St
  | .write n errAt => if n = 0 then none else some (stepWrite g s n errAt)
  | .send ok => stepSend s ok
  | .advance => stepAdvance s
  | .close => some { s with closed := true, dead := true }   -- CloseAndClean also closes the underlying conn

def run (g : Cfg) : St → List Act → St
  | s, [] => s
  | s, a :: as => match step g s a with
    | some s' => run g s' as
    | none => run g s as

/-- concatenation of the whole frame groups of the calls that returned nil, in the order of their critical sections -/
def wholeGroups (calls : List (Nat × Nat)) : List Frame := calls.flatMap fun c => group c.1 c.2

end SendQ
