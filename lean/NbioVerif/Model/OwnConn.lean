import NbioVerif.Model.Own
/-! M11 Ownership, core connection: length-abstracted twin of the write queue of `nbio.Conn`
(conn_unix.go: newToWriteBuf, newToWriteFile, releaseToWrite, write, writev, flush, Write/Writev's tail,
closeWithErrorWithoutLock; sendfile_unix.go: Sendfile's queueing) over the ownership heap.

Kernel answers are explicit inputs (an exhausted script means EAGAIN), as in `ConnFull` whose
length-level shape the API functions follow; `capOf` is the capacity the allocator gives a Malloc. -/
namespace OwnC
open Own (Heap Ev Bad)

/-- toWrite: a pooled buffer (id, length, offset of the first unsent byte, capacity) or a file range -/
inductive CItem
  | buf (id len off cap : Nat)
  | file (rem : Nat)
  deriving DecidableEq, Repr

inductive KAns | wrote (n : Nat) | eagain | eintr | fail
  deriving DecidableEq, Repr

structure CS where
  wl : List CItem := []
  left : Nat := 0
  closed : Bool := false
  heap : Heap := {}

def maxCache : Nat := 65536

/-- newToWriteBuf on a non-empty list: merge into the tail buffer (growing it through
Malloc/copy/Free when its capacity does not suffice) if the tail is a buffer and the sum stays within
64 KiB; `none` = a new item is needed -/
def mergeLast (capOf : Nat → Nat) (h : Heap) : List CItem → Nat → Option (Heap × List CItem)
  | [], _ => none
  | [.file _], _ => none
  | [.buf id len off cap], n =>
    if len + n > maxCache then none
    else if cap < len + n then
      let m := h.malloc (len + n)
      -- reslice the new buffer, copy the old one into it, free the old one, append
      let h := ((m.1.touch m.2 none).touch id none).free id
      some (h.touch m.2 (some (.append m.2)), [.buf m.2 (len + n) off (capOf (len + n))])
    else some (h.touch id (some (.append id)), [.buf id (len + n) off cap])
  | t :: t2 :: rest, n => (mergeLast capOf h (t2 :: rest) n).map fun p => (p.1, t :: p.2)

/-- newToWriteBuf(buf), len(buf) = n -/
def enqueue (capOf : Nat → Nat) (s : CS) (n : Nat) : CS :=
  if n == 0 then s else
  let s := { s with left := s.left + n }
  match mergeLast capOf s.heap s.wl n with
  | some (h, wl) => { s with heap := h, wl := wl }
  | none =>
    let m := s.heap.malloc n
    { s with heap := m.1.touch m.2 none, wl := s.wl ++ [.buf m.2 n 0 (capOf n)] }

def enqueueFile (s : CS) (rem : Nat) : CS := { s with wl := s.wl ++ [.file rem] }

/-- releaseToWrite of every item -/
def releaseAll (h : Heap) : List CItem → Heap
  | [] => h
  | .buf id _ _ _ :: rest => releaseAll (h.free id) rest
  | .file _ :: rest => releaseAll h rest

/-- closeWithErrorWithoutLock after `closed = true` -/
def closeNow (s : CS) : CS := { s with closed := true, wl := [], heap := releaseAll s.heap s.wl }

def kN (k : KAns) (len : Nat) : Nat := match k with | .wrote n => min n len | _ => 0

inductive CErr | none | closed | overflow | io
  deriving DecidableEq, Repr

def overflow (maxWB : Nat) (s : CS) (n : Nat) : Bool := maxWB > 0 && s.left + n > maxWB

/-- the direct write of c.write: every attempt is a syscall that reads the caller's memory (`w-`); an
interrupted attempt (EINTR) is retried and consumes the next scripted answer; an exhausted script means
EAGAIN. Returns the answer the loop ends with. -/
def directLog (h : Heap) : List KAns → Heap × KAns
  | [] => (h.log (.write none), .eagain)
  | .eintr :: ks => directLog (h.log (.write none)) ks
  | k :: _ => (h.log (.write none), k)

/-- the same for c.writev (its syscall is not a `Write`: no event) -/
def directAns : List KAns → KAns
  | [] => .eagain
  | .eintr :: ks => directAns ks
  | k :: _ => k

/-- c.write -/
def writeInner (capOf : Nat → Nat) (maxWB : Nat) (s : CS) (n : Nat) (ks : List KAns) : CS × CErr :=
  if n == 0 then (s, .none)
  else if overflow maxWB s n then (s, .overflow)
  else if s.wl.isEmpty then
    let p := directLog s.heap ks
    let s := { s with heap := p.1 }
    if p.2 = .fail then (s, .io)
    else (enqueue capOf s (n - kN p.2 n), .none)
  else (enqueue capOf s n, .none)

/-- the tail of Write / Writev: a fatal error closes the connection -/
def finishCall (r : CS × CErr) : CS × CErr :=
  if r.2 = .none then r else (closeNow r.1, r.2)

def write (capOf : Nat → Nat) (maxWB : Nat) (s : CS) (n : Nat) (ks : List KAns) : CS × CErr :=
  if s.closed then (s, .closed) else finishCall (writeInner capOf maxWB s n ks)

/-- c.writev's bookkeeping after a partial direct write: `n` bytes went out, queue the rest -/
def queueRest (capOf : Nat → Nat) : CS → Nat → List Nat → CS
  | s, _, [] => s
  | s, n, b :: rest =>
    if n = 0 then queueRest capOf (enqueue capOf s b) 0 rest
    else if n < b then queueRest capOf (enqueue capOf s (b - n)) 0 rest
    else queueRest capOf s (n - b) rest

def writevInner (capOf : Nat → Nat) (maxWB : Nat) (s : CS) (bs : List Nat) (k : KAns) : CS × CErr :=
  let size := bs.sum
  if overflow maxWB s size then (s, .overflow)
  else if !s.wl.isEmpty then (bs.foldl (enqueue capOf) s, .none)
  else if size = 0 then (s, .none)
  else if k = .fail then (s, .io)
  else if kN k size < size then (queueRest capOf s (kN k size) bs, .none) else (s, .none)

def writev (capOf : Nat → Nat) (maxWB : Nat) (s : CS) (bs : List Nat) (ks : List KAns) : CS × CErr :=
  if s.closed then (s, .closed)
  else match bs with
    | [b] => finishCall (writeInner capOf maxWB s b ks)
    | _ => finishCall (writevInner capOf maxWB s bs (directAns ks))

/-- Sendfile's direct loop at length level: `true` = fatal -/
def sendfileLoop : CS → Nat → List KAns → CS × Bool
  | s, rem, [] => if rem = 0 then (s, false) else (enqueueFile s rem, false)
  | s, rem, k :: ks =>
    if rem = 0 then (s, false)
    else match k with
      | .eagain => (enqueueFile s rem, false)
      | .eintr => sendfileLoop s rem ks
      | .fail => (closeNow s, true)
      | .wrote n0 =>
        let n := min n0 (min 4194304 rem)
        if n = 0 then (s, false) else sendfileLoop s (rem - n) ks

def sendfile (s : CS) (rem : Nat) (ks : List KAns) : CS × CErr :=
  if s.closed then (s, .closed)
  else if rem = 0 then (s, .none)
  else if !s.wl.isEmpty then (enqueueFile s rem, .none)
  else
    let r := sendfileLoop s rem ks
    if r.2 then (r.1, .io) else (r.1, .none)

/-- the loop of Conn.flush: every syscall on a queued buffer reads it (`w<id>`) -/
def flushLoop : Nat → CS → List KAns → CS
  | 0, s, _ => s
  | fuel + 1, s, ks =>
    match s.wl with
    | [] => s
    | .buf id len off cap :: tl =>
      let s := { s with heap := s.heap.touch id (some (.write (some id))) }
      match ks with
      | [] => s
      | .eagain :: _ => s
      | .eintr :: ks => flushLoop fuel s ks
      | .fail :: _ => closeNow s
      | .wrote n0 :: ks =>
        let n := min n0 (len - off)
        if n = 0 then flushLoop fuel s ks
        else
          let s := { s with left := s.left - n }
          if n = len - off then flushLoop fuel { s with wl := tl, heap := s.heap.free id } ks
          else flushLoop fuel { s with wl := .buf id len (off + n) cap :: tl } ks
    | .file rem :: tl =>
      if rem = 0 then s
      else match ks with
        | [] => s
        | .eagain :: _ => s
        | .eintr :: ks => flushLoop fuel s ks
        | .fail :: _ => closeNow s
        | .wrote n0 :: ks =>
          let n := min n0 rem
          if n = 0 then flushLoop fuel s ks
          else if n = rem then flushLoop fuel { s with wl := tl } ks
          else flushLoop fuel { s with wl := .file (rem - n) :: tl } ks

/-- Conn.flush -/
def flush (s : CS) (ks : List KAns) : CS :=
  if s.closed then s else if s.wl.isEmpty then s else flushLoop (2 * ks.length + 2) s ks

def close (s : CS) : CS := if s.closed then s else closeNow s

inductive COp
  | write (n : Nat) (ks : List KAns) | writev (bs : List Nat) (ks : List KAns)
  | sendfile (rem : Nat) (ks : List KAns) | flush (ks : List KAns) | close

def cstep (capOf : Nat → Nat) (maxWB : Nat) (s : CS) : COp → CS
  | .write n k => (write capOf maxWB s n k).1
  | .writev bs k => (writev capOf maxWB s bs k).1
  | .sendfile rem ks => (sendfile s rem ks).1
  | .flush ks => flush s ks
  | .close => close s

def crun (capOf : Nat → Nat) (maxWB : Nat) (s : CS) (ops : List COp) : CS := ops.foldl (cstep capOf maxWB) s

end OwnC
