/-! probe: nbhttp.Response writer (response.go) — byte-level model of Write/writeChunk/Flush/flush/eoncodeHead -/
namespace Resp

abbrev Bytes := List UInt8
def str (s : String) : Bytes := s.toList.map (fun c => UInt8.ofNat c.toNat)
def CRLF : Bytes := [13, 10]
def maxPacket : Nat := 65536

structure Cfg where
  proto : Bytes                 -- request.Proto
  proto11 : Bool                -- request.ProtoAtLeast(1,1)
  reqClose : Bool               -- request.Close
  statusText : Nat → Bytes      -- http.StatusText (parameter)
  junk : UInt8                  -- content of fresh pool memory (parameter; arbitrary in theorems)

structure R where
  status : Bytes := []
  statusCode : Nat := 0
  header : List (Bytes × List Bytes) := []
  trailer : List (Bytes × Bytes) := []
  buffer : Option Bytes := none
  bodyBuffer : Option Bytes := none
  contentLen : Nat := 0
  bodyWritten : Nat := 0
  chunked : Bool := false
  chunkChecked : Bool := false
  headEncoded : Bool := false
  hasBody : Bool := false
  wire : List Bytes := []       -- conn.Write calls, in order (ghost)

def hget (h : List (Bytes × List Bytes)) (k : Bytes) : List Bytes :=
  match h.find? (·.1 == k) with | some (_, v) => v | none => []
def hfirst (h : List (Bytes × List Bytes)) (k : Bytes) : Bytes := (hget h k).headD []
def hdel (h : List (Bytes × List Bytes)) (k : Bytes) := h.filter (·.1 != k)
def hset (h : List (Bytes × List Bytes)) (k v : Bytes) :=
  if h.any (·.1 == k) then h.map (fun e => if e.1 == k then (k, [v]) else e) else h ++ [(k, [v])]

def kCL := str "Content-Length"
def kTE := str "Transfer-Encoding"
def kTrailer := str "Trailer"

def isNum (c : UInt8) : Bool := 48 ≤ c.toNat && c.toNat ≤ 57
/-- strconv.ParseInt(s,10,64) for non-negative decimal strings (none = error or negative) -/
def parseDec (b : Bytes) : Option Nat :=
  let d := match b with | 43 :: r => r | _ => b
  if d ≠ [] && d.all isNum then some (d.foldl (fun a c => a * 10 + (c.toNat - 48)) 0) else none

def decDigits : Nat → Nat → Bytes
  | 0, _ => []
  | f+1, n => if n < 10 then [UInt8.ofNat (48 + n)] else decDigits f (n / 10) ++ [UInt8.ofNat (48 + n % 10)]
def fmtDec (n : Nat) : Bytes := decDigits (n + 1) n

def hexDigit (n : Nat) : UInt8 := if n < 10 then UInt8.ofNat (48 + n) else UInt8.ofNat (87 + n)
def hexDigits : Nat → Nat → Bytes
  | 0, _ => []
  | f+1, n => if n < 16 then [hexDigit n] else hexDigits f (n / 16) ++ [hexDigit (n % 16)]
/-- Response.formatInt(n, 16) -/
def fmtHex (n : Nat) : Bytes := if n > 0x7FFFFFFF then [] else hexDigits (n + 1) n

def send (r : R) (b : Bytes) : R := { r with wire := r.wire ++ [b] }

def writeHeader (g : Cfg) (r : R) (code : Nat) : R :=
  if r.statusCode == 0 && code != 0 then
    let st := g.statusText code
    let r := if st ≠ [] then { r with status := st, statusCode := code } else r
    let cl := hfirst r.header kCL
    if cl ≠ [] && (parseDec cl).isNone then { r with header := hdel r.header kCL } else r
  else r

def checkChunked (g : Cfg) (r : R) : R :=
  if r.chunkChecked then r else
  let r := { r with chunkChecked := true }
  if (hget r.header kTE).contains (str "chunked") then
    { r with chunked := true, header := hdel r.header kCL }
  else
    let c1 := g.proto11 && hfirst r.header kCL == [] && r.statusCode != 204 && r.statusCode != 304
    let c := c1 || (!c1 && (hget r.header kTrailer) ≠ [])
    if c then { r with chunked := true, header := hdel (hset r.header kTE (str "chunked")) kCL } else r

def eoncodeHead (g : Cfg) (r : R) : R :=
  if r.headEncoded then r else
  let r := { r with headEncoded := true }
  let sc := r.statusCode
  let d := g.proto ++ [32, UInt8.ofNat (48 + sc / 100), UInt8.ofNat (48 + sc % 100 / 10), UInt8.ofNat (48 + sc % 10), 32]
            ++ r.status ++ CRLF
  let d := if r.hasBody && hget r.header (str "Content-Type") == [] then
              d ++ str "Content-Type: text/plain; charset=utf-8\r\n" else d
  let d := if !r.chunked && hget r.header kCL == [] then
              let l := match r.bodyBuffer with | some b => b.length | none => 0
              d ++ str "Content-Length: " ++ (if r.hasBody && l > 0 then fmtDec l else str "0") ++ CRLF
           else d
  let d := if g.reqClose && hget r.header (str "Connection") == [] then d ++ str "Connection: close\r\n" else d
  -- Date: the harness always sets it, so no time.Now branch here
  let tkeys := hget r.header kTrailer
  let isTr (k : Bytes) := tkeys.contains k
  let d := r.header.foldl (fun d (e : Bytes × List Bytes) =>
      if isTr e.1 then d else e.2.foldl (fun d v => d ++ e.1 ++ str ": " ++ v ++ CRLF) d) d
  let trailer := tkeys.eraseDups.map (fun k => (k, hfirst r.header k))
  { r with buffer := some (d ++ CRLF), trailer := trailer }

def writeChunk (g : Cfg) (r : R) (data : Bytes) : R × Nat :=
  let l := data.length
  let r := eoncodeHead g r
  let pbuf := r.buffer
  let r := { r with buffer := none }
  let lenStr := fmtHex l
  let total := lenStr.length + l + 4 + (match pbuf with | some b => b.length | none => 0)
  if total < maxPacket then
    let base := match pbuf with | some b => b | none => List.replicate total g.junk   -- Malloc(total) NOT reset
    ({ r with buffer := some (base ++ lenStr ++ CRLF ++ data ++ CRLF) }, l)
  else
    match pbuf with
    | some b =>
      let r := send r (b ++ lenStr ++ CRLF)
      let nb := data ++ CRLF                    -- (freed buffer reused: ownership ghost elsewhere)
      if nb.length < maxPacket then ({ r with buffer := some nb }, l) else (send r nb, l)
    | none =>
      let nb := lenStr ++ CRLF ++ data ++ CRLF
      if nb.length < maxPacket then ({ r with buffer := some nb }, l) else (send r nb, l)

inductive WRes | ok (n : Nat) | errCL | errParse
  deriving Repr, DecidableEq

def write (g : Cfg) (r : R) (data : Bytes) : R × WRes :=
  let l := data.length
  if l == 0 then (r, .ok 0) else
  let r := checkChunked g (writeHeader g r 200)
  let r := { r with hasBody := true }
  if r.chunked then let (r, n) := writeChunk g r data; (r, .ok n) else
  -- contentLength()
  let (r, clE) : R × Option Nat :=
    if r.contentLen > 0 then (r, some r.contentLen)
    else
      let cl := hfirst r.header kCL
      if cl == [] then (r, some 0)
      else match parseDec cl with
        | some v => ({ r with contentLen := v }, some v)
        | none => (r, none)
  match clE with
  | none => (r, .errParse)
  | some cl =>
  if cl > 0 && r.bodyWritten + l > cl then (r, .errCL) else
  -- head handling
  let (r, direct) : R × Bool :=
    if cl > 0 then
      let r := eoncodeHead g r
      let pbuf := r.buffer
      let r := { r with buffer := none }
      match pbuf with
      | none => (r, false)
      | some b =>
        if b.length + l < maxPacket then ({ r with bodyBuffer := some b }, false)
        else (send r b, false)
    else (r, false)
  let _ := direct
  -- APPEND_BODY
  match r.bodyBuffer with
  | none =>
    if cl > 0 && l ≥ maxPacket then
      (send { r with bodyWritten := r.bodyWritten + l } data, .ok l)
    else
      let bb := data
      let r := { r with bodyWritten := r.bodyWritten + l, bodyBuffer := some bb }
      if cl > 0 && bb.length ≥ maxPacket then (send { r with bodyBuffer := some [] } bb, .ok bb.length)
      else (r, .ok l)
  | some bb0 =>
    let (r, bb0, done) : R × Bytes × Bool :=
      if cl > 0 && bb0.length + l > maxPacket then
        let r := if bb0.length > 0 then send r bb0 else r
        if l ≥ maxPacket then
          (send { r with bodyWritten := r.bodyWritten + l, bodyBuffer := none } data, [], true)
        else (r, [], false)
      else (r, bb0, false)
    if done then (r, .ok l) else
    let bb := bb0 ++ data
    let r := { r with bodyWritten := r.bodyWritten + l, bodyBuffer := some bb }
    if cl > 0 && bb.length ≥ maxPacket then (send { r with bodyBuffer := some [] } bb, .ok bb.length)
    else (r, .ok l)

/-- http.Flusher -/
def flushOp (g : Cfg) (r : R) : R :=
  let r := eoncodeHead g (checkChunked g (writeHeader g r 200))
  let r := match r.buffer with
    | some b => if b.length > 0 then { send r b with buffer := some [] } else r
    | none => r
  match r.bodyBuffer with
    | some b => if b.length > 0 then { send r b with bodyBuffer := some [] } else r
    | none => r

/-- ServerProcessor.flushResponse (not hijacked, no conn errors) -/
def finish (g : Cfg) (r : R) : R :=
  let r := eoncodeHead g (checkChunked g (writeHeader g r 200))
  if !r.chunked then
    let r := match r.buffer with
      | some hb =>
        let r := match r.bodyBuffer with
          | some bb =>
            if bb.length > 0 then
              if hb.length + bb.length > maxPacket then { send r hb with buffer := some bb, bodyBuffer := none }
              else { r with buffer := some (hb ++ bb), bodyBuffer := none }
            else r
          | none => r
        match r.buffer with
        | some b => { send r b with buffer := none }
        | none => r
      | none => r
    match r.bodyBuffer with
    | some bb => if bb.length > 0 then { send r bb with bodyBuffer := none } else r
    | none => r
  else
    let pd := match r.buffer with | some b => b | none => []
    let r := { r with buffer := none }
    if r.trailer.isEmpty then send r (pd ++ str "0\r\n\r\n")
    else
      let t := r.trailer.foldl (fun d (kv : Bytes × Bytes) => d ++ kv.1 ++ str ": " ++ kv.2 ++ CRLF) (pd ++ str "0\r\n")
      send r (t ++ CRLF)

inductive Op
  | setHeader (k v : Bytes) | writeHeader (code : Nat) | write (data : Bytes) | flush

def step (g : Cfg) (r : R) : Op → R × Option WRes
  | .setHeader k v => ({ r with header := hset r.header k v }, none)
  | .writeHeader c => (writeHeader g r c, none)
  | .write d => let (r, w) := write g r d; (r, some w)
  | .flush => (flushOp g r, none)

end Resp
