/-! M6 HttpResp: byte-level model of nbhttp.Response (nbhttp/response.go) and of
ServerProcessor.flushResponse (nbhttp/processor.go) — WriteHeader, Write/WriteString, writeChunk,
contentLength, ReadFrom, Flush, checkChunked, eoncodeHead, flush.

One helper per Go paragraph.  The model describes the tree WITH the repairs of defects #7 (Write's
return value at the 64 KiB boundary), #8 (writeChunk freed the head buffer and went on using it),
#16 (Malloc(totalSize) used without resetting its length), the three ReadFrom repairs and the late
trailer values and the unknown status codes.  Behaviour that is still wrong in the tree is kept as it
is (Flush on an identity response without Content-Length, body bytes on HEAD, ReadFrom after Write):
see Properties/C09.

Conn writes are an explicit environment: `Cfg.failAt = k` makes the k-th conn write call and all
later ones fail (a dead connection); `failAt = 0` never fails.  The head encoder is a field of `Cfg`
(`head`), so that the framing theorems hold for EVERY head byte string; `headBytes` is the concrete
encoder of the Go code. -/
namespace Resp

abbrev Bytes := List UInt8
def str (s : String) : Bytes := s.toList.map (fun c => UInt8.ofNat c.toNat)
def CRLF : Bytes := [13, 10]
def maxPacket : Nat := 65536

abbrev Header := List (Bytes × List Bytes)

structure R where
  status : Bytes := []
  statusCode : Nat := 0
  header : Header := []
  trailer : List (Bytes × Bytes) := []
  buffer : Option Bytes := none
  bodyBuffer : Option Bytes := none
  contentLen : Nat := 0
  bodyWritten : Nat := 0
  chunked : Bool := false
  chunkChecked : Bool := false
  headEncoded : Bool := false
  hasBody : Bool := false
  closeDelim : Bool := false    -- closeDelimited: no length is announced, the body ends with the connection
  wire : List Bytes := []       -- successful conn writes, in order
  attempts : Nat := 0           -- conn write calls so far

structure Cfg where
  proto : Bytes                 -- request.Proto
  proto11 : Bool                -- request.ProtoAtLeast(1,1)
  reqClose : Bool               -- request.Close
  failAt : Nat := 0             -- first failing conn write call (1-based); 0 = never
  sendfile : Bool := false      -- the conn offers Sendfile and the engine does not disable it
  head : R → Bytes              -- the head encoder (see `headBytes`)

/-! ### header map (all keys canonical: the harness passes http.CanonicalHeaderKey's answer) -/

def hget (h : Header) (k : Bytes) : List Bytes :=
  match h.find? (·.1 == k) with | some (_, v) => v | none => []
def hfirst (h : Header) (k : Bytes) : Bytes := (hget h k).headD []
def hdel (h : Header) (k : Bytes) : Header := h.filter (·.1 != k)
def hset (h : Header) (k v : Bytes) : Header :=
  if h.any (·.1 == k) then h.map (fun e => if e.1 == k then (k, [v]) else e) else h ++ [(k, [v])]
def hadd (h : Header) (k v : Bytes) : Header :=
  if h.any (·.1 == k) then h.map (fun e => if e.1 == k then (k, e.2 ++ [v]) else e) else h ++ [(k, [v])]

def kCL := str "Content-Length"
def kTE := str "Transfer-Encoding"
def kTrailer := str "Trailer"
def kCT := str "Content-Type"
def kConn := str "Connection"
def kDate := str "Date"

/-! ### numbers -/

def isNum (c : UInt8) : Bool := 48 ≤ c.toNat && c.toNat ≤ 57

/-- strconv.ParseInt(s, 10, 64): optional sign, digits, range check. -/
def parseInt (b : Bytes) : Option Int :=
  let (neg, d) := match b with
    | 43 :: r => (false, r)
    | 45 :: r => (true, r)
    | _ => (false, b)
  if d ≠ [] && d.all isNum then
    let v : Nat := d.foldl (fun a c => a * 10 + (c.toNat - 48)) 0
    if neg then (if v ≤ 9223372036854775808 then some (-(v : Int)) else none)
    else (if v ≤ 9223372036854775807 then some (v : Int) else none)
  else none

def decDigits : Nat → Nat → Bytes
  | 0, _ => []
  | f+1, n => if n < 10 then [UInt8.ofNat (48 + n)] else decDigits f (n / 10) ++ [UInt8.ofNat (48 + n % 10)]
/-- strconv.FormatInt(n, 10) -/
def fmtDec (n : Nat) : Bytes := decDigits (n + 1) n

def hexDigit (n : Nat) : UInt8 := if n < 10 then UInt8.ofNat (48 + n) else UInt8.ofNat (87 + n)
def hexDigits : Nat → Nat → Bytes
  | 0, _ => []
  | f+1, n => if n < 16 then [hexDigit n] else hexDigits f (n / 16) ++ [hexDigit (n % 16)]
/-- Response.formatInt(n, 16): empty for n > 0x7FFFFFFF -/
def fmtHex (n : Nat) : Bytes := if n > 0x7FFFFFFF then [] else hexDigits (n + 1) n

/-! ### the connection -/

/-- one conn.Write call: fails from the `failAt`-th call on -/
def send (g : Cfg) (r : R) (b : Bytes) : R × Bool :=
  let r := { r with attempts := r.attempts + 1 }
  if g.failAt ≠ 0 && r.attempts ≥ g.failAt then (r, false) else ({ r with wire := r.wire ++ [b] }, true)

/-! ### WriteHeader, checkChunked, eoncodeHead -/

/-- Response.WriteHeader; `st` = http.StatusText(code) (input) -/
def writeHeader (r : R) (code : Nat) (st : Bytes) : R :=
  if r.statusCode == 0 && code != 0 then
    let r := if 100 ≤ code && code ≤ 999 then { r with status := st, statusCode := code } else r
    let cl := hfirst r.header kCL
    if cl ≠ [] then
      match parseInt cl with
      | some v => if v ≥ 0 then r else { r with header := hdel r.header kCL }
      | none => { r with header := hdel r.header kCL }
    else r
  else r

def stOK : Bytes := str "OK"
/-- WriteHeader(http.StatusOK) -/
def writeHeader200 (r : R) : R := writeHeader r 200 stOK

/-- Response.checkChunked -/
def checkChunked (g : Cfg) (r : R) : R :=
  if r.chunkChecked then r else
  let r := { r with chunkChecked := true }
  if (hget r.header kTE).contains (str "chunked") then
    { r with chunked := true, header := hdel r.header kCL }
  else
    let c1 := g.proto11 && hfirst r.header kCL == [] && r.statusCode != 204 && r.statusCode != 304
    let c := c1 || (hget r.header kTrailer) ≠ []
    if c then { r with chunked := true, header := hdel (hset r.header kTE (str "chunked")) kCL } else r

def datePlaceholder : Bytes := List.replicate 29 64

def statusLine (g : Cfg) (r : R) : Bytes :=
  let sc := r.statusCode
  g.proto ++ [32, UInt8.ofNat (48 + sc / 100), UInt8.ofNat (48 + (sc % 100) % 256 / 10), UInt8.ofNat (48 + sc % 10), 32]
    ++ r.status ++ CRLF

def headerLine (k v : Bytes) : Bytes := k ++ [58, 32] ++ v ++ CRLF

/-- the header lines of the non-trailer keys, in map order -/
def headerLines (tkeys : List Bytes) (h : Header) : Bytes :=
  (h.map fun e => if tkeys.contains e.1 then [] else (e.2.map (headerLine e.1)).flatten).flatten

/-- the trailer map built by eoncodeHead: declared keys, value = first value in the header map or "" -/
def trailerOf (h : Header) : List (Bytes × Bytes) :=
  (hget h kTrailer).eraseDups.map fun k => (k, hfirst h k)

/-- the bytes eoncodeHead produces (status line, automatic headers, header lines, blank line) -/
def headBytes (g : Cfg) (r : R) : Bytes :=
  let d := statusLine g r
  let d := if r.hasBody && hget r.header kCT == [] then
              d ++ str "Content-Type: text/plain; charset=utf-8\r\n" else d
  let d := if !r.chunked && !r.closeDelim && hget r.header kCL == [] then
              let l := match r.bodyBuffer with | some b => b.length | none => 0
              d ++ str "Content-Length: " ++ (if r.hasBody && l > 0 then fmtDec l else str "0") ++ CRLF
           else d
  let d := if (g.reqClose || r.closeDelim) && hget r.header kConn == [] then d ++ str "Connection: close\r\n" else d
  let d := if hget r.header kDate == [] then d ++ headerLine kDate datePlaceholder else d
  d ++ headerLines (hget r.header kTrailer) r.header ++ CRLF

/-- Response.eoncodeHead -/
def eoncodeHead (g : Cfg) (r : R) : R :=
  if r.headEncoded then r else
  { r with headEncoded := true, buffer := some (g.head r), trailer := trailerOf r.header }

/-! ### Write -/

inductive WRes | ok (n : Nat) | errCL | errParse | errConn | errCopy (n : Nat) | panic
  deriving Repr, DecidableEq

def chunkHdr (l : Nat) : Bytes := fmtHex l ++ CRLF

/-- writeChunk, step 3: append data and tail; keep if still small, else send and free -/
def chunkTail (g : Cfg) (r : R) (nb : Bytes) (data : Bytes) : R × WRes :=
  let nb := nb ++ data ++ CRLF
  if nb.length < maxPacket then ({ r with buffer := some nb }, .ok data.length)
  else
    let (r, ok) := send g r nb
    if ok then (r, .ok data.length) else (r, .errConn)

/-- Response.writeChunk (`totalSize` = length string + data + 4 + pending head buffer) -/
def writeChunk (g : Cfg) (r : R) (data : Bytes) : R × WRes :=
  let r := eoncodeHead g r
  match r.buffer with
  | some b =>
    let r := { r with buffer := none }
    if (fmtHex data.length).length + data.length + 4 + b.length < maxPacket then
      ({ r with buffer := some (b ++ chunkHdr data.length ++ data ++ CRLF) }, .ok data.length)
    else
      let (r, ok) := send g r (b ++ chunkHdr data.length)
      if ok then chunkTail g r [] data else (r, .errConn)
  | none =>
    if (fmtHex data.length).length + data.length + 4 < maxPacket then
      ({ r with buffer := some (chunkHdr data.length ++ data ++ CRLF) }, .ok data.length)
    else chunkTail g r (chunkHdr data.length) data

/-- Response.contentLength: `none` = strconv error -/
def contentLength (r : R) : R × Option Nat :=
  if r.contentLen > 0 then (r, some r.contentLen)
  else
    let cl := hfirst r.header kCL
    if cl == [] then (r, some 0)
    else match parseInt cl with
      | some v => ({ r with contentLen := v.toNat }, some v.toNat)
      | none => (r, none)

/-- Write, paragraph `if cl > 0 { ... }`: the pending head becomes the body buffer or is sent. `false` = conn error -/
def takeHead (g : Cfg) (r : R) (l cl : Nat) : R × Bool :=
  if cl > 0 then
    let r := eoncodeHead g r
    match r.buffer with
    | none => (r, true)
    | some b =>
      let r := { r with buffer := none }
      if b.length + l < maxPacket then ({ r with bodyBuffer := some b }, true)
      else send g r b
  else (r, true)

/-- Write, tail: append to the body buffer; with a Content-Length flush it when it reaches 64 KiB -/
def appendTail (g : Cfg) (r : R) (bb0 data : Bytes) (cl : Nat) : R × WRes :=
  let bb := bb0 ++ data
  let r := { r with bodyWritten := r.bodyWritten + data.length, bodyBuffer := some bb }
  if cl > 0 && bb.length ≥ maxPacket then
    let (r, ok) := send g r bb
    if ok then ({ r with bodyBuffer := some [] }, .ok data.length) else ({ r with bodyBuffer := none }, .errConn)
  else (r, .ok data.length)

/-- conn.Write(data) as the function's return value -/
def sendDirect (g : Cfg) (r : R) (data : Bytes) : R × WRes :=
  let (r, ok) := send g r data
  if ok then (r, .ok data.length) else (r, .errConn)

/-- Write: "send the cached buffer first" (`bodyBuffer = some bb0`) -/
def sendCached (g : Cfg) (r : R) (bb0 : Bytes) : R × Bool :=
  if bb0.length > 0 then
    let (r, ok) := send g r bb0
    if ok then ({ r with bodyBuffer := some [] }, true) else ({ r with bodyBuffer := none }, false)
  else (r, true)

/-- Write, label APPEND_BODY -/
def appendBody (g : Cfg) (r : R) (data : Bytes) (cl : Nat) : R × WRes :=
  let l := data.length
  match r.bodyBuffer with
  | none =>
    if cl > 0 && l ≥ maxPacket then sendDirect g { r with bodyWritten := r.bodyWritten + l } data
    else appendTail g r [] data cl
  | some bb0 =>
    if cl > 0 && bb0.length + l > maxPacket then
      match sendCached g r bb0 with
      | (r, false) => (r, .errConn)
      | (r, true) =>
        if l ≥ maxPacket then
          sendDirect g { r with bodyWritten := r.bodyWritten + l, bodyBuffer := none } data
        else appendTail g r [] data cl
    else appendTail g r bb0 data cl

/-- Write, identity framing, after contentLength() answered `cl` -/
def writeIdent (g : Cfg) (r : R) (data : Bytes) (cl : Nat) : R × WRes :=
  if cl > 0 && r.bodyWritten + data.length > cl then (r, .errCL) else
  match takeHead g r data.length cl with
  | (r, false) => (r, .errConn)
  | (r, true) => appendBody g r data cl

/-- Write after `WriteHeader(200); checkChunked(); hasBody = true` -/
def writeBody (g : Cfg) (r : R) (data : Bytes) : R × WRes :=
  if r.chunked then writeChunk g r data else
  match contentLength r with
  | (r, none) => (r, .errParse)
  | (r, some cl) => writeIdent g r data cl

/-- Response.Write (WriteString is the same function) -/
def write (g : Cfg) (r : R) (data : Bytes) : R × WRes :=
  if data.length == 0 then (r, .ok 0) else
  writeBody g { checkChunked g (writeHeader200 r) with hasBody := true } data

/-! ### ReadFrom -/

/-- what ReadFrom is given: a plain reader, an `*os.File`, an `io.LimitedReader` over a file, an `io.LimitedReader`
over a reader that is not a file -/
inductive RKind | plain | file | limited | limitedMem
  deriving Repr, DecidableEq

/-- io.Copy to the conn: 32 KiB reads, one conn write each; stops at the first failing write -/
def copyLoop (g : Cfg) : Nat → R → Bytes → Nat → R × Nat × Bool
  | 0, r, _, w => (r, w, true)
  | f+1, r, d, w =>
    if d == [] then (r, w, true) else
    let c := d.take 32768
    let (r, ok) := send g r c
    if ok then copyLoop g f r (d.drop 32768) (w + c.length) else (r, w, false)

/-- ReadFrom, first paragraph: the head buffer, if it is still there (it may have been sent, moved into the
body buffer by a Write, or freed by a Flush that failed): conn.Write(*res.buffer); Free; nil -/
def sendHeadFirst (g : Cfg) (r : R) : R × Bool :=
  match r.buffer with
  | some b =>
    let (r, ok) := send g r b
    ({ r with buffer := none }, ok)
  | none => (r, true)

/-- ReadFrom, second paragraph: what has been written so far goes out before the reader's bytes -/
def sendBodyFirst (g : Cfg) (r : R) : R × Bool :=
  match r.bodyBuffer with
  | some bb =>
    if bb.length > 0 then
      let (r, ok) := send g r bb
      ({ r with bodyBuffer := some [] }, ok)
    else (r, true)
  | none => (r, true)

/-- ReadFrom, the copy: Sendfile or io.Copy -/
def readCopy (g : Cfg) (r : R) (k : RKind) (data : Bytes) : R × WRes :=
  if (k == .limited || k == .limitedMem) && data.length == 0 then (r, .ok 0) else
  if g.sendfile && (k == .file || k == .limited) then sendDirect g r data
  else
    let (r, w, ok) := copyLoop g (data.length + 1) r data 0
    if ok then (r, .ok w) else (r, .errCopy w)

/-- Response.ReadFrom; `data` = the n bytes the reader yields -/
def readFrom (g : Cfg) (r : R) (k : RKind) (data : Bytes) : R × WRes :=
  let r := writeHeader200 r
  let r := eoncodeHead g { r with hasBody := true }
  let p := sendHeadFirst g r
  if !p.2 then (p.1, .errConn) else
  let q := sendBodyFirst g p.1
  if !q.2 then (q.1, .errConn) else readCopy g q.1 k data

/-! ### Flush (http.Flusher) -/

/-- Flush, first paragraph: the head buffer -/
def flushBuf (g : Cfg) (r : R) : R :=
  match r.buffer with
  | some b =>
    if b.length > 0 then
      let (r, ok) := send g r b
      if ok then { r with buffer := some [] } else { r with buffer := none }
    else r
  | none => r

/-- Flush, second paragraph: the body buffer -/
def flushBodyBuf (g : Cfg) (r : R) : R :=
  match r.bodyBuffer with
  | some b =>
    if b.length > 0 then
      let (r, ok) := send g r b
      if ok then { r with bodyBuffer := some [] } else { r with bodyBuffer := none }
    else r
  | none => r

/-- Flush, before the head is encoded: if the head goes out now and nothing tells the length of the body (not
chunked, no Content-Length from the handler, a status that allows a body) the body is delimited by closing the
connection: `closeDelimited = true; request.Close = true` -/
def markDelim (r : R) : R :=
  if !r.headEncoded && !r.chunked && hget r.header kCL == [] && r.statusCode != 204 && r.statusCode != 304
  then { r with closeDelim := true } else r

def flushOp (g : Cfg) (r : R) : R :=
  flushBodyBuf g (flushBuf g (eoncodeHead g (markDelim (checkChunked g (writeHeader200 r)))))

/-! ### flushResponse -/

/-- flush, identity: head and body buffer both pending (`buffer = some hb`): send the head alone and let
the body buffer take its place, or append the body to the head -/
def mergeBody (g : Cfg) (r : R) (hb : Bytes) : R × Bool :=
  match r.bodyBuffer with
  | some bb =>
    if bb.length > 0 then
      if hb.length + bb.length > maxPacket then
        let (r, ok) := send g r hb
        if ok then ({ r with buffer := some bb, bodyBuffer := none }, true)
        else ({ r with buffer := none, bodyBuffer := none }, false)
      else ({ r with buffer := some (hb ++ bb), bodyBuffer := none }, true)
    else (r, true)
  | none => (r, true)

def mergeStep (g : Cfg) (r : R) : R × Bool :=
  match r.buffer with
  | some hb => mergeBody g r hb
  | none => (r, true)

/-- conn.Write(*res.buffer); Free; nil -/
def sendFreeBuffer (g : Cfg) (r : R) : R × Bool :=
  match r.buffer with
  | some b =>
    let (r, ok) := send g r b
    ({ r with buffer := none }, ok)
  | none => (r, true)

/-- the same for a non-empty body buffer -/
def sendFreeBody (g : Cfg) (r : R) : R × Bool :=
  match r.bodyBuffer with
  | some bb =>
    if bb.length > 0 then
      let (r, ok) := send g r bb
      ({ r with bodyBuffer := none }, ok)
    else (r, true)
  | none => (r, true)

/-- Response.flush, identity branch; `false` = error -/
def flushIdentity (g : Cfg) (r : R) : R × Bool :=
  let p := mergeStep g r
  if !p.2 then (p.1, false) else
  let q := sendFreeBuffer g p.1
  if !q.2 then (q.1, false) else sendFreeBody g q.1

/-- the trailer block of the last chunk: value = current header value if there is one, else the captured one -/
def trailerLines (r : R) : Bytes :=
  (r.trailer.map fun kv => headerLine kv.1 (match hget r.header kv.1 with | v :: _ => v | [] => kv.2)).flatten

def lastChunk (r : R) : Bytes :=
  if r.trailer.isEmpty then str "0\r\n\r\n" else str "0\r\n" ++ trailerLines r ++ CRLF

/-- Response.flush, chunked branch -/
def flushChunked (g : Cfg) (r : R) : R × Bool :=
  let pd := match r.buffer with | some b => b | none => []
  let r := { r with buffer := none }
  send g r (pd ++ lastChunk r)

/-- ServerProcessor.flushResponse (not hijacked): returns the final state and whether conn.Close was called -/
def finish (g : Cfg) (r : R) : R × Bool :=
  let r := eoncodeHead g (checkChunked g (writeHeader200 r))
  let (r, ok) := if r.chunked then flushChunked g r else flushIdentity g r
  (r, !ok || g.reqClose || r.closeDelim)

/-! ### handler programs -/

inductive Op
  | setHeader (k v : Bytes) | addHeader (k v : Bytes) | delHeader (k : Bytes)
  | writeHeader (code : Nat) (st : Bytes) | write (data : Bytes) | flush
  | readFrom (k : RKind) (data : Bytes)

def step (g : Cfg) (r : R) : Op → R × Option WRes
  | .setHeader k v => ({ r with header := hset r.header k v }, none)
  | .addHeader k v => ({ r with header := hadd r.header k v }, none)
  | .delHeader k => ({ r with header := hdel r.header k }, none)
  | .writeHeader c st => (writeHeader r c st, none)
  | .write d => let (r, w) := write g r d; (r, some w)
  | .flush => (flushOp g r, none)
  | .readFrom k d => let (r, w) := readFrom g r k d; (r, some w)

/-- run a program (a panic ends the handler: the remaining ops do not run) -/
def run (g : Cfg) : R → List Op → R × List (Option WRes)
  | r, [] => (r, [])
  | r, op :: ops =>
    let (r, o) := step g r op
    if o == some .panic then (r, [o]) else
    let (r, os) := run g r ops
    (r, o :: os)

end Resp
