import NbioVerif.Model.Scan
/-! The Parse loop with Go's slice/index expressions as *checked* operations (DESIGN 2.3: panics are outcomes).
    `data[lo:hi]` panics unless `lo ≤ hi ≤ len(data)`, `data[i]` unless `i < len(data)`. `none` = the Go code panics
    with an index/slice bounds error. -/
namespace Scan
variable {σ ε : Type}

/-- Go `data[lo:hi]` -/
def slice? (buf : List UInt8) (lo hi : Nat) : Option (List UInt8) :=
  if lo ≤ hi ∧ hi ≤ buf.length then some ((buf.drop lo).take (hi - lo)) else none

/-- Go `data[i]` -/
def index? (buf : List UInt8) (i : Nat) : Option UInt8 := buf[i]?

/-- `loop` with every slice and index expression of `Parser.Parse` checked:
    `data[i]` (parser.go:205), `data[start:i]` (the token handed to a state's action), `data[start:start+cl]`
    (parser.go:494, 564), `data[start:]` (the Exit paragraph, parser.go:694/698). -/
def loopC (M : Machine σ ε) (buf : List UInt8) : Nat → Nat → Nat → σ → List ε → Option (Res σ ε)
  | 0, _, _, _, acc => some ⟨acc, .inr 999⟩
  | fuel+1, i, start, st, acc =>
    if i < buf.length then
      match M.block st with
      | some n =>
        let left := buf.length - start
        if left ≥ n then
          match slice? buf start (start + n) with
          | none => none
          | some d =>
            match M.blockDone st d with
            | .ok s' _ evs => loopC M buf fuel (start + n) (start + n) s' (acc ++ evs)
            | .err e evs => some ⟨acc ++ evs, .inr e⟩
        else
          (slice? buf start buf.length).map fun c => ⟨acc, .inl (st, c)⟩
      | none =>
        match index? buf i, slice? buf start i with
        | some c, some tok =>
          match M.byteStep st tok c with
          | .ok s' u evs =>
            let start' := match u with | .keep => start | .here => i | .next => i + 1
            loopC M buf fuel (i+1) start' s' (acc ++ evs)
          | .err e evs => some ⟨acc ++ evs, .inr e⟩
        | _, _ => none
    else
      (slice? buf start buf.length).map fun c => ⟨acc, .inl (st, c)⟩

def implParseC (M : Machine σ ε) (st : σ) (cache data : List UInt8) (acc : List ε) : Option (Res σ ε) :=
  if data = [] then some ⟨acc, .inl (st, cache)⟩
  else
    let buf := cache ++ data
    loopC M buf (buf.length + 1) cache.length 0 st acc

theorem slice?_ok (buf : List UInt8) (lo hi : Nat) (h1 : lo ≤ hi) (h2 : hi ≤ buf.length) :
    slice? buf lo hi = some ((buf.drop lo).take (hi - lo)) := by simp [slice?, h1, h2]

/-- no slice or index expression of the loop is ever out of range: the checked loop is the unchecked one,
    whenever `start ≤ i ≤ len(buf)` — which `Parse` establishes and every iteration preserves -/
theorem loopC_eq_loop (M : Machine σ ε) (buf : List UInt8) :
    ∀ (fuel i start : Nat) (st : σ) (acc : List ε), start ≤ i → i ≤ buf.length →
      loopC M buf fuel i start st acc = some (loop M buf fuel i start st acc) := by
  intro fuel
  induction fuel with
  | zero => intro i start st acc _ _; rfl
  | succ fuel ih =>
    intro i start st acc hsi hil
    unfold loopC loop
    by_cases hi : i < buf.length
    · simp only [hi, if_true, dite_true]
      cases hb : M.block st with
      | some n =>
        simp only
        by_cases hleft : buf.length - start ≥ n
        · simp only [hleft, if_true]
          rw [slice?_ok buf start (start + n) (by omega) (by omega)]
          simp only [show start + n - start = n by omega]
          cases M.blockDone st ((buf.drop start).take n) with
          | err e evs => rfl
          | ok s' u evs => simp only; exact ih _ _ _ _ (Nat.le_refl _) (by omega)
        · simp only [hleft, if_false]
          rw [slice?_ok buf start buf.length (by omega) (Nat.le_refl _)]
          simp [List.take_of_length_le]
      | none =>
        simp only [index?, List.getElem?_eq_getElem hi]
        rw [slice?_ok buf start i hsi (by omega)]
        simp only
        cases M.byteStep st ((buf.drop start).take (i - start)) buf[i] with
        | err e evs => rfl
        | ok s' u evs =>
          simp only
          cases u
          · exact ih _ _ _ _ (by simp only; omega) (by omega)
          · exact ih _ _ _ _ (by simp only; omega) (by omega)
          · exact ih _ _ _ _ (by simp only; omega) (by omega)
    · simp only [hi, if_false, dite_false]
      rw [slice?_ok buf start buf.length (by omega) (Nat.le_refl _)]
      simp [List.take_of_length_le]

/-- `Parse` never panics on a slice or index expression: from every state and cache, on every input -/
theorem implParseC_eq (M : Machine σ ε) (st : σ) (cache data : List UInt8) (acc : List ε) :
    implParseC M st cache data acc = some (implParse M st cache data acc) := by
  unfold implParseC implParse
  by_cases hd : data = []
  · simp [hd]
  · simp only [hd, if_false]
    exact loopC_eq_loop M _ _ _ _ _ _ (Nat.zero_le _) (by simp)

/-! ### `Parse` as the engine calls it, and chains of calls — the functions the driver executes -/

/-- Parse with the engine's ReadLimit test in front (limit = 0: disabled); error 11 = ErrTooLong. As in Go, an empty
    `data` returns before the test (`if len(data) == 0 { return nil }`). -/
def parseL (M : Machine σ ε) (limit : Nat) (st : σ) (cache data : List UInt8) (acc : List ε) : Res σ ε :=
  if data ≠ [] ∧ cache ≠ [] ∧ limit > 0 ∧ cache.length + data.length > limit then ⟨acc, .inr 11⟩
  else implParse M st cache data acc

/-- the same with the checked loop; 998 = the Go code would panic on a slice/index expression (`parseLC_eq`: never) -/
def parseLC (M : Machine σ ε) (limit : Nat) (st : σ) (cache data : List UInt8) (acc : List ε) : Res σ ε :=
  if data ≠ [] ∧ cache ≠ [] ∧ limit > 0 ∧ cache.length + data.length > limit then ⟨acc, .inr 11⟩
  else (implParseC M st cache data acc).getD ⟨acc, .inr 998⟩

theorem parseLC_eq (M : Machine σ ε) (limit : Nat) (st : σ) (cache data : List UInt8) (acc : List ε) :
    parseLC M limit st cache data acc = parseL M limit st cache data acc := by
  unfold parseLC parseL
  rw [implParseC_eq]
  rfl

/-- a connection's reads fed one `Parse` call at a time (what the driver does line by line) -/
def feedAllL (M : Machine σ ε) (limit : Nat) : σ → List UInt8 → List (List UInt8) → List ε → Res σ ε
  | st, cache, [], acc => ⟨acc, .inl (st, cache)⟩
  | st, cache, seg :: segs, acc =>
    match parseLC M limit st cache seg acc with
    | ⟨acc', .inl (st', cache')⟩ => feedAllL M limit st' cache' segs acc'
    | r => r

/-- no call of the chain trips the ReadLimit entry test -/
def NoTrip (M : Machine σ ε) (limit : Nat) : σ → List UInt8 → List (List UInt8) → List ε → Prop
  | _, _, [], _ => True
  | st, cache, seg :: segs, acc =>
    ¬ (seg ≠ [] ∧ cache ≠ [] ∧ limit > 0 ∧ cache.length + seg.length > limit) ∧
    match implParse M st cache seg acc with
    | ⟨acc', .inl (st', cache')⟩ => NoTrip M limit st' cache' segs acc'
    | _ => True

/-- the offsets at which the model parser, fed one byte per `Parse` call, emits its `done` events (message
    boundaries as the model itself places them) -/
def boundaries (M : Machine σ ε) (isDone : ε → Bool) : σ → List UInt8 → List UInt8 → Nat → List Nat
  | _, _, [], _ => []
  | st, cache, b :: bs, off =>
    match parseLC M 0 st cache [b] [] with
    | ⟨evs, .inl (st', cache')⟩ => List.replicate (evs.countP isDone) (off + 1) ++ boundaries M isDone st' cache' bs (off + 1)
    | ⟨evs, .inr _⟩ => List.replicate (evs.countP isDone) (off + 1)

end Scan
