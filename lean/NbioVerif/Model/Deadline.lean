/-!
# M8 Deadline: read/write deadline timers of `nbio.Conn` (conn_unix.go)

Go code modelled (one model step = one critical section of `c.mux`, or one runtime action):

* `SetReadDeadline/SetWriteDeadline` → `setDeadline` (create-or-`Reset` / `Stop`-and-drop), `SetDeadline` (both)
* `Write/Writev` (the paragraph after `c.write`: error ⇒ flip `closed` *without* stopping timers; queue empty ⇒
  stop and drop the write timer; else `modWrite`)
* `flush` (closed ⇒ nothing; empty queue ⇒ nothing; drained ⇒ `resetRead` and — on the repaired tree — stop and drop
  the write timer; EAGAIN ⇒ nothing; error ⇒ flip `closed` without stopping timers)
* `closeWithError` (test-and-set of `closed`, stop and drop both timers)
* `time.AfterFunc` / `Timer.Reset` / `Timer.Stop`: a runtime timer is `armed : Option when`; it fires in **two
  steps**: `fire d` (the runtime starts the callback goroutine; only enabled when `when ≤ now`; the timer is then
  inactive) and `cb i` (that goroutine gets `c.mux` inside `closeWithError(errXTimeout)`). Between the two any
  other critical section may run, so a renewal or a clear racing the callback is representable. `Reset` re-arms a
  timer whether or not it has fired; `Stop`/`Reset` do not recall a callback that has already been started.
* `DialAsyncTimeout` (engine_unix.go): the dial timer is the *write* timer (`dial n`), armed with `ErrDialTimeout`;
  the connect-success wrapper clears it with `SetWriteDeadline(time.Time{})` (`connected`). Which error the timer's
  closure carries is tracked by the driver, not by the model.
* HTTP keep-alive (`engine.go` AddConn*: `SetReadDeadline(now+KeepaliveTime)`; `processor.go` flushResponse: the
  same after every response), the HTTP `WriteTimeout` (`OnComplete`: `SetWriteDeadline(now+WriteTimeout)`), WS
  keep-alive (`upgrader.go:540`, `conn.go:234`): the relative ops `ka n` / `wto n`.

(The write-path owner proves the same `Write/Writev/flush` tail steps on the full write-path model:
`Properties/ConnTimer.lean`, `ConnFull.timer_cleared_by_write/_writev/_flush`, `close_stops_timer`.)

The clock is logical (`tick n`). Ghost state (never read by the step function's control flow): `T.f`, the deadline
*in force* according to the property's wording (set/renew ⇒ that time; clear, a write or flush that empties the
backlog (write direction), close ⇒ none), the record of every started callback, and the record that closed the conn.
-/
namespace Deadline

inductive Dir | r | w
  deriving DecidableEq, Repr

inductive Cause | user | ioerr | timeout (d : Dir)
  deriving DecidableEq, Repr

/-- class of the kernel's answer to a write / flush attempt -/
inductive K | full | short | err
  deriving DecidableEq, Repr

structure Cfg where
  /-- `flush()` stops the write timer when it empties the queue (the repaired tree; `false` = the pinned tree) -/
  flushClears : Bool
  deriving Repr

/-- a started timer callback (`fire` happened, `cb` not yet) -/
structure Rec where
  dir     : Dir
  when    : Nat          -- what the runtime timer was armed for
  tFire   : Nat          -- logical time of `fire`
  inForce : Option Nat   -- ghost: deadline in force for `dir` at `fire`
  deriving DecidableEq, Repr

/-- one direction: the `*time.Timer` field, the runtime timer behind it, and the ghost deadline in force -/
structure T where
  h : Bool       := false    -- c.rTimer / c.wTimer != nil
  a : Option Nat := none     -- runtime timer active, armed for `when`
  f : Option Nat := none     -- ghost: deadline in force per the property
  deriving DecidableEq, Repr

structure St where
  now      : Nat
  closed   : Bool
  cause    : Option Cause
  closedBy : Option Rec     -- ghost
  backlog  : Bool           -- len(c.writeList) > 0
  r        : T
  w        : T
  pend     : List Rec
  deriving Repr

def init : St :=
  { now := 0, closed := false, cause := none, closedBy := none, backlog := false, r := {}, w := {}, pend := [] }

def St.t (s : St) : Dir → T
  | .r => s.r
  | .w => s.w

def St.setT (s : St) (d : Dir) (x : T) : St :=
  match d with
  | .r => { s with r := x }
  | .w => { s with w := x }

def St.withPend (s : St) (p : List Rec) : St := { s with pend := p }
def St.withNow (s : St) (n : Nat) : St := { s with now := n }
def St.withBacklog (s : St) (b : Bool) : St := { s with backlog := b }
/-- `c.closed = true` with the first closing cause -/
def St.flip (s : St) (c : Cause) (byRec : Option Rec) : St :=
  { s with closed := true, cause := some c, closedBy := byRec }

inductive Op
  | set (d : Dir) (t : Nat)      -- Set{Read,Write}Deadline(t), t non-zero, absolute (may already be in the past)
  | clear (d : Dir)              -- Set{Read,Write}Deadline(time.Time{})
  | setBoth (t : Nat)            -- SetDeadline(t)
  | clearBoth                    -- SetDeadline(time.Time{})
  | ka (n : Nat)                 -- keep-alive renewal: SetReadDeadline(now + n)
  | wto (n : Nat)                -- HTTP WriteTimeout / WS HandshakeTimeout: SetWriteDeadline(now + n)
  | dial (n : Nat)               -- DialAsyncTimeout: setDeadline(&c.wTimer, ErrDialTimeout, now + n) — the dial timer
                                 -- lives in the WRITE timer
  | connected                    -- the connect-success wrapper: SetWriteDeadline(time.Time{}) must clear it
  | write (k : K)                -- Write / Writev
  | flush (k : K)                -- poller: flush()
  | close                        -- Close / CloseWithError / poller closeWithError(EOF)
  | tick (n : Nat)
  | fire (d : Dir)               -- runtime starts the callback goroutine of d's timer
  | cb (i : Nat)                 -- i-th started callback takes c.mux in closeWithError
  deriving Repr

/-- create-or-Reset -/
def arm (s : St) (d : Dir) (t : Nat) : St := s.setT d { h := true, a := some t, f := some t }

/-- Stop and drop (also ends the deadline in force) -/
def stop (s : St) (d : Dir) : St := s.setT d { h := false, a := none, f := none }

/-- ghost only: the deadline in force for `d` ends, code state untouched (the pinned `flush`) -/
def unforce (s : St) (d : Dir) : St := s.setT d { s.t d with f := none }

/-- `closeWithError`: test-and-set, stop both timers -/
def closeWith (s : St) (c : Cause) (byRec : Option Rec) : St :=
  if s.closed then s
  else stop (stop (s.flip c byRec) .r) .w

/-- the error branch of Write/Writev/flush: `c.closed = true` then `closeWithErrorWithoutLock` — timers keep running -/
def errClose (s : St) : St :=
  unforce (unforce (s.flip .ioerr none) .r) .w

/-- `Write`/`Writev`: the paragraph after `c.write` -/
def stepWrite (s : St) (k : K) : St :=
  if s.closed then s
  else if s.backlog then
    match k with
    | .full => s                          -- appended behind the backlog; modWrite
    | .short => s
    | .err => errClose s                  -- overflow
  else
    match k with
    | .full => stop s .w                  -- queue empty after the call: clear the write deadline
    | .short => s.withBacklog true
    | .err => errClose s

/-- the poller's `flush()` -/
def stepFlush (g : Cfg) (s : St) (k : K) : St :=
  if s.closed then s
  else if !s.backlog then s
  else
    match k with
    | .full => if g.flushClears then stop (s.withBacklog false) .w else unforce (s.withBacklog false) .w
    | .short => s
    | .err => errClose s

/-- the runtime starts the callback goroutine of `d`'s timer -/
def stepFire (s : St) (d : Dir) : Option St :=
  match (s.t d).a with
  | some w =>
    if w ≤ s.now then
      some ((s.setT d { s.t d with a := none }).withPend
             (s.pend ++ [{ dir := d, when := w, tFire := s.now, inForce := (s.t d).f }]))
    else none
  | none => none

/-- the i-th started callback takes `c.mux` in `closeWithError(errXTimeout)` -/
def stepCb (s : St) (i : Nat) : Option St :=
  match s.pend[i]? with
  | some r => some (closeWith (s.withPend (s.pend.eraseIdx i)) (.timeout r.dir) (some r))
  | none => none

def step (g : Cfg) (s : St) : Op → Option St
  | .set d t => some (if s.closed then s else arm s d t)
  | .clear d => some (if s.closed then s else stop s d)
  | .setBoth t => some (if s.closed then s else arm (arm s .r t) .w t)
  | .clearBoth => some (if s.closed then s else stop (stop s .r) .w)
  | .ka n => some (if s.closed then s else arm s .r (s.now + n))
  | .wto n => some (if s.closed then s else arm s .w (s.now + n))
  | .dial n => some (if s.closed then s else arm s .w (s.now + n))
  | .connected => some (if s.closed then s else stop s .w)
  | .write k => some (stepWrite s k)
  | .flush k => some (stepFlush g s k)
  | .close => some (closeWith s .user none)
  | .tick n => some (s.withNow (s.now + n))
  | .fire d => stepFire s d
  | .cb i => stepCb s i

def run (g : Cfg) : St → List Op → St
  | s, [] => s
  | s, o :: os => match step g s o with
    | some s' => run g s' os
    | none => run g s os      -- disabled action: skipped

/-- the repaired tree -/
def fixed : Cfg := { flushClears := true }
/-- the pinned tree (defect #20) -/
def pinned : Cfg := { flushClears := false }

end Deadline
