/-! UDP listener sessions in time: `readUDP` looks up (or creates) the session of the datagram's remote and renews its
read deadline (`SetReadDeadline(now + UDPReadTimeout)`) on EVERY datagram; the read timer closes a session whose
deadline has passed, and the next datagram of that remote opens a new one. Logical time (a natural number).

Go code mirrored: conn_unix.go `readUDP` (getConn + SetReadDeadline per datagram + onOpen for a new session),
the read timer (`closeWithError(errReadTimeout)`, the session leaves the listener's map). Core Lean only. -/
namespace UdpSess

structure St where
  now : Nat := 0
  T : Nat                                   -- UDPReadTimeout
  next : Nat := 0                           -- next session id
  live : Nat → Option (Nat × Nat) := fun _ => none   -- remote ↦ (session id, deadline) of its live session
  attr : List (Nat × Nat) := []             -- (remote, session id) of every datagram handed over, in order

inductive Act | tick (d : Nat) | dgram (a : Nat)

/-- time passes; the read timers that are due fire -/
def tick (s : St) (d : Nat) : St :=
  { s with now := s.now + d,
           live := fun a => match s.live a with
             | some (i, dl) => if dl ≤ s.now + d then none else some (i, dl)
             | none => none }

/-- a datagram of remote `a` is read: its session (a new one if none is live) gets it, and its deadline is renewed -/
def dgram (s : St) (a : Nat) : St :=
  match s.live a with
  | some (i, _) =>
    { s with live := fun b => if b = a then some (i, s.now + s.T) else s.live b, attr := s.attr ++ [(a, i)] }
  | none =>
    { s with live := fun b => if b = a then some (s.next, s.now + s.T) else s.live b, next := s.next + 1,
             attr := s.attr ++ [(a, s.next)] }

def step (s : St) : Act → St
  | .tick d => tick s d
  | .dgram a => dgram s a

def run (s : St) : List Act → St
  | [] => s
  | x :: xs => run (step s x) xs

/-- the history keeps remote `a` active: from a state in which its deadline is `dl`, no gap lets the deadline pass
    (every datagram of `a` renews it to `now + T`) -/
def Active (a T : Nat) : Nat → Nat → List Act → Prop
  | _, _, [] => True
  | dl, now, .tick d :: r => now + d < dl ∧ Active a T dl (now + d) r
  | dl, now, .dgram b :: r => if b = a then Active a T (now + T) now r else Active a T dl now r

end UdpSess
