/-! probe: Conn.Execute job queue as a transition system -/
namespace JobQ

structure St where
  list    : List Nat        -- c.jobList (job ids), since the current drainer started
  idx     : Nat             -- drainer's i
  drainer : Option Bool     -- none: no drainer; some false: about to run list[idx]; some true: job finished, about to take lock
  closed  : Bool
  ran     : List Nat        -- jobs run so far, in order (history)
  acc     : List Nat        -- jobs accepted so far, in order (history)
  deriving Repr

inductive Act where
  | submit (j : Nat) (must : Bool)
  | run
  | next
  | close
  deriving Repr

def step (s : St) : Act → Option St
  | .submit j must =>
    if !must && s.closed then some s
    else
      let isHead := s.list.isEmpty
      some { s with list := s.list ++ [j], acc := s.acc ++ [j],
                    drainer := if isHead then some false else s.drainer,
                    idx := if isHead then 0 else s.idx }
  | .run =>
    match s.drainer with
    | some false =>
      match s.list[s.idx]? with
      | some j => some { s with ran := s.ran ++ [j], drainer := some true }
      | none => none
    | _ => none
  | .next =>
    match s.drainer with
    | some true =>
      let i := s.idx + 1
      if s.list.length == i then some { s with list := [], idx := 0, drainer := none }
      else some { s with idx := i, drainer := some false }
    | _ => none
  | .close => some { s with closed := true }

def init : St := { list := [], idx := 0, drainer := none, closed := false, ran := [], acc := [] }

def run : St → List Act → St
  | s, [] => s
  | s, a :: as => match step s a with
    | some s' => run s' as
    | none => run s as      -- disabled action: skipped

/-- invariant -/
structure Inv (s : St) : Prop where
  dr_none : s.drainer = none → s.list = [] ∧ s.ran = s.acc
  dr_f    : s.drainer = some false → s.idx < s.list.length ∧ s.ran ++ s.list.drop s.idx = s.acc
  dr_t    : s.drainer = some true → s.idx < s.list.length ∧ s.ran ++ s.list.drop (s.idx+1) = s.acc

theorem inv_init : Inv init := by
  constructor <;> simp [init]

theorem inv_step (s s' : St) (a : Act) (h : Inv s) (hs : step s a = some s') : Inv s' := by
  obtain ⟨h1, h2, h3⟩ := h
  cases a with
  | submit j must =>
    simp only [step] at hs
    split at hs
    · cases hs; exact ⟨h1, h2, h3⟩
    · cases hs
      cases hd : s.drainer with
      | none =>
        obtain ⟨hl, hr⟩ := h1 hd
        constructor <;> simp_all
      | some b =>
        cases b with
        | false =>
          obtain ⟨hl, hr⟩ := h2 hd
          have hne : s.list.isEmpty = false := by
            cases hq : s.list with
            | nil => simp [hq] at hl
            | cons _ _ => simp
          constructor
          · simp_all
          · intro _
            simp_all
            constructor
            · omega
            · rw [List.drop_append_of_le_length (by omega)]
              rw [← List.append_assoc, hr]
          · simp_all
        | true =>
          obtain ⟨hl, hr⟩ := h3 hd
          have hne : s.list.isEmpty = false := by
            cases hq : s.list with
            | nil => simp [hq] at hl
            | cons _ _ => simp
          constructor
          · simp_all
          · simp_all
          · intro _
            simp_all
            constructor
            · omega
            · rw [List.drop_append_of_le_length (by omega)]
              rw [← List.append_assoc, hr]
  | run =>
    simp only [step] at hs
    split at hs
    · rename_i hd
      split at hs
      · rename_i j hj
        cases hs
        obtain ⟨hl, hr⟩ := h2 hd
        constructor
        · simp
        · simp
        · intro _
          refine ⟨hl, ?_⟩
          simp only
          have : s.list.drop s.idx = j :: s.list.drop (s.idx+1) := by
            rw [List.drop_eq_getElem_cons hl]
            simp [List.getElem?_eq_getElem hl] at hj
            rw [hj]
          rw [← hr, this]; simp
      · cases hs
    · cases hs
  | next =>
    simp only [step] at hs
    split at hs
    · rename_i hd
      obtain ⟨hl, hr⟩ := h3 hd
      split at hs
      · rename_i he
        cases hs
        constructor
        · intro _
          simp at he
          refine ⟨rfl, ?_⟩
          simp only
          rw [← hr, List.drop_of_length_le (by omega)]; simp
        · simp
        · simp
      · rename_i he
        cases hs
        simp at he
        constructor
        · simp
        · intro _; exact ⟨by simp only; omega, hr⟩
        · simp
    · cases hs
  | close =>
    simp only [step] at hs
    cases hs
    exact ⟨h1, h2, h3⟩

theorem inv_run (s : St) (as : List Act) (h : Inv s) : Inv (run s as) := by
  induction as generalizing s with
  | nil => exact h
  | cons a as ih =>
    simp only [run]
    split
    · rename_i s' hs; exact ih s' (inv_step s s' a h hs)
    · exact ih s h

/-- every reachable state: jobs run so far are a prefix of jobs accepted, in order, no duplicates beyond acc -/
theorem ran_prefix (as : List Act) : (run init as).ran <+: (run init as).acc := by
  have h := inv_run init as inv_init
  obtain ⟨h1, h2, h3⟩ := h
  cases hd : (run init as).drainer with
  | none => rw [(h1 hd).2]; exact List.prefix_refl _
  | some b =>
    cases b with
    | false => exact ⟨_, (h2 hd).2⟩
    | true => exact ⟨_, (h3 hd).2⟩

end JobQ
