/-! M9: `taskpool.TaskPool` (taskpool/taskpool.go) as a transition system whose steps are the
individual atomic operations, channel operations and task boundaries of `fork`, `Go`, the worker
loop, the dispatcher goroutine and `Stop` (DESIGN §5.1).  `IOTaskPool` only wraps the task.

The model describes the tree **with the repair** of defect #10 (DESIGN §8): the dispatcher
decrements `concurrent` again when its `fork` fails (step `dUndo`).  `Cfg.leak = true` gives the
pinned behaviour (no decrement) and is used for the counterexamples only.  It also has the repair of the
task-pool finding "tasks queued at Stop never run": when the dispatcher's `select` takes `<-chClose` it runs what
is still in the queue (non-blocking receive loop, steps `dDrain` / `dFinish`) before it returns; `Cfg.nodrain =
true` gives the behaviour before that repair (counterexample only).

State
* `conc`     `tp.concurrent`
* `queue`    contents of `tp.chQqueue` (capacity `cap`; `cap = 0` is an unbuffered channel: a send
             completes only by rendezvous with a receiver)
* `workers`  goroutines started by `fork`: inside a task / between tasks (about to `select`) /
             took the `default` branch, deferred decrement pending
* `disp`     the dispatcher goroutine: blocked in `select` / holds a task taken from the queue /
             its `fork` failed (counter incremented) / runs the task inline / took `<-chClose` and is in its
             drain loop, between two non-blocking receives / runs a drained task inline / returned
* `goers`    `Go` calls in flight after a failed `fork`: decrement pending / send pending
* `callers`  tasks inside `f()` through `TaskPool.Call` (`tp.caller(f)` on the calling goroutine: no counter, no
             queue, no pool goroutine — used by nbhttp as `serverCall`); the correspondence run does not exercise
             `Call` yet (model + theorems only)
* `stopAdd`, `closed`   `Stop`'s two statements
* histories: `handed` (tasks passed to `Go`), `done` (tasks that returned or panicked),
             `dropped` (tasks whose `Go` returned through `<-chClose`), `panics`
* ghosts for the statement about `Stop`: `inflight` (tasks whose `Go` call had not returned when `Stop` closed
             `chClose`, or was made after that), `late` (tasks a `Go` call put into the queue after the close) -/
namespace TPool

inductive WPh | running (t : Nat) | idle | exiting
  deriving DecidableEq, Repr

inductive Disp | idle | holding (t : Nat) | failed (t : Nat) | running (t : Nat) | drain | drunning (t : Nat) | exited
  deriving DecidableEq, Repr

inductive GoPh | failed (t : Nat) | enq (t : Nat)
  deriving DecidableEq, Repr

structure Cfg where
  maxC : Int            -- tp.maxConcurrent = New's first argument - 1
  cap  : Nat            -- capacity of chQqueue
  leak : Bool := false  -- true: the pinned tree (no decrement after the dispatcher's failed fork)
  nodrain : Bool := false  -- true: the dispatcher returns on `<-chClose` without draining the queue (before the repair)

structure St where
  conc    : Int := 0
  queue   : List Nat := []
  workers : List WPh := []
  disp    : Disp := .idle
  goers   : List GoPh := []
  stopAdd : Bool := false
  closed  : Bool := false
  done    : List Nat := []
  dropped : List Nat := []
  handed  : List Nat := []
  panics  : Nat := 0
  inflight : List Nat := []
  late    : List Nat := []
  callers : List Nat := []
  deriving DecidableEq, Repr

inductive Act
  | go (t : Nat)                 -- Go → fork: AddInt64(+1), the comparison, `go func(){…}()` or fall through
  | goUndo (i : Nat)             -- Go: AddInt64(-1) after the failed fork
  | goEnq (i : Nat)              -- Go: `tp.chQqueue <- f` completes
  | goDrop (i : Nat)             -- Go: `<-tp.chClose` taken instead
  | wFinish (i : Nat) (p : Bool) -- worker i: the task returns (p: panics into caller's recover)
  | wTake (i : Nat)              -- worker i: `select { case f = <-chQqueue: … default: return }`
  | wRdv (i k : Nat)             -- worker i: its non-blocking receive meets the blocked sender k (unbuffered channel)
  | wExit (i : Nat)              -- worker i: deferred AddInt64(-1)
  | dRecv                        -- dispatcher: `f := <-tp.chQqueue`
  | dExit                        -- dispatcher: `<-tp.chClose` taken: enter the drain loop (before the repair: return)
  | dDrain                       -- dispatcher, drain loop: `select { case f := <-chQqueue: run it inline; default: return }`
  | dFork                        -- dispatcher: fork(f): AddInt64(+1), comparison, start a worker or not
  | dUndo                        -- dispatcher: AddInt64(-1) after the failed fork (the repair), then run inline
  | dFinish (p : Bool)           -- dispatcher: the inline task returns / panics
  | call (t : Nat)               -- Call: `tp.caller(f)` entered on the caller's goroutine (any state, also after Stop)
  | cFinish (i : Nat) (p : Bool) -- Call: the task returns (p: panics into caller's recover); `Call` returns
  | stopAdd                      -- Stop: AddInt64(maxConcurrent)
  | stopClose                    -- Stop: close(chClose)
  deriving Repr

def gTask : GoPh → List Nat | .failed t | .enq t => [t]

def step (g : Cfg) (s : St) : Act → Option St
  | .go t =>
    let v := s.conc + 1
    if v < g.maxC then some { s with conc := v, workers := s.workers ++ [.running t], handed := s.handed ++ [t] }
    else some { s with conc := v, goers := s.goers ++ [.failed t], handed := s.handed ++ [t],
                       inflight := if s.closed then s.inflight ++ [t] else s.inflight }
  | .goUndo i =>
    match s.goers[i]? with
    | some (.failed t) => some { s with conc := s.conc - 1, goers := s.goers.set i (.enq t) }
    | _ => none
  | .goEnq i =>
    match s.goers[i]? with
    | some (.enq t) =>
      if s.queue.length < g.cap then
        some { s with queue := s.queue ++ [t], goers := s.goers.eraseIdx i, late := if s.closed then s.late ++ [t] else s.late }
      else if g.cap = 0 ∧ s.disp = .idle ∧ s.queue = [] then
        some { s with disp := .holding t, goers := s.goers.eraseIdx i }     -- rendezvous with the dispatcher
      else none
    | _ => none
  | .goDrop i =>
    match s.goers[i]? with
    | some (.enq t) => if s.closed then some { s with dropped := s.dropped ++ [t], goers := s.goers.eraseIdx i } else none
    | _ => none
  | .wFinish i p =>
    match s.workers[i]? with
    | some (.running t) => some { s with workers := s.workers.set i .idle, done := s.done ++ [t],
                                         panics := if p then s.panics + 1 else s.panics }
    | _ => none
  | .wTake i =>
    match s.workers[i]? with
    | some .idle =>
      match s.queue with
      | t :: q => some { s with queue := q, workers := s.workers.set i (.running t) }
      | [] => some { s with workers := s.workers.set i .exiting }
    | _ => none
  | .wRdv i k =>
    match s.workers[i]?, s.goers[k]? with
    | some .idle, some (.enq t) =>
      if g.cap = 0 then some { s with workers := s.workers.set i (.running t), goers := s.goers.eraseIdx k } else none
    | _, _ => none
  | .wExit i =>
    match s.workers[i]? with
    | some .exiting => some { s with workers := s.workers.eraseIdx i, conc := s.conc - 1 }
    | _ => none
  | .dRecv =>
    match s.disp, s.queue with
    | .idle, t :: q => some { s with disp := .holding t, queue := q }
    | _, _ => none
  | .dExit =>
    match s.disp with
    | .idle => if s.closed then some { s with disp := if g.nodrain then .exited else .drain } else none
    | _ => none
  | .dDrain =>
    match s.disp, s.queue with
    | .drain, t :: q => some { s with disp := .drunning t, queue := q }
    | .drain, [] => some { s with disp := .exited }
    | _, _ => none
  | .dFork =>
    match s.disp with
    | .holding t =>
      let v := s.conc + 1
      if v < g.maxC then some { s with conc := v, workers := s.workers ++ [.running t], disp := .idle }
      else some { s with conc := v, disp := .failed t }
    | _ => none
  | .dUndo =>
    match s.disp with
    | .failed t => some { s with conc := if g.leak then s.conc else s.conc - 1, disp := .running t }
    | _ => none
  | .dFinish p =>
    match s.disp with
    | .running t => some { s with disp := .idle, done := s.done ++ [t], panics := if p then s.panics + 1 else s.panics }
    | .drunning t => some { s with disp := .drain, done := s.done ++ [t], panics := if p then s.panics + 1 else s.panics }
    | _ => none
  | .call t => some { s with callers := s.callers ++ [t], handed := s.handed ++ [t] }
  | .cFinish i p =>
    match s.callers[i]? with
    | some t => some { s with callers := s.callers.eraseIdx i, done := s.done ++ [t],
                              panics := if p then s.panics + 1 else s.panics }
    | none => none
  | .stopAdd => if s.stopAdd then none else some { s with conc := s.conc + g.maxC, stopAdd := true }
  | .stopClose =>
    if s.stopAdd && !s.closed then some { s with closed := true, inflight := s.goers.flatMap gTask } else none

def init : St := {}

/-- an action sequence; disabled actions are skipped -/
def run (g : Cfg) : St → List Act → St
  | s, [] => s
  | s, a :: as => match step g s a with
    | some s' => run g s' as
    | none => run g s as

def wTask : WPh → List Nat | .running t => [t] | _ => []
def dTask : Disp → List Nat | .holding t | .failed t | .running t | .drunning t => [t] | _ => []

def cTask (t : Nat) : List Nat := [t]

def dRun : Disp → List Nat | .running t | .drunning t => [t] | _ => []
def dPend : Disp → List Nat | .holding t | .failed t => [t] | _ => []

/-- tasks inside `f()` right now on the pool's own goroutines (what the bound is about; tasks run through `Call` are
    in `callers`) -/
def runningTasks (s : St) : List Nat := s.workers.flatMap wTask ++ dRun s.disp

/-- tasks the pool holds without running them: in a `Go` call in flight, in the queue, or in the
    dispatcher's hands -/
def pendingTasks (s : St) : List Nat := s.goers.flatMap gTask ++ s.queue ++ dPend s.disp

/-- nothing in the pool: no worker goroutine, empty queue, no `Go` in flight, dispatcher blocked in its select -/
def idle (s : St) : Prop := s.workers = [] ∧ s.queue = [] ∧ s.goers = [] ∧ s.disp = .idle

instance (s : St) : Decidable (idle s) := by unfold idle; infer_instance

end TPool
