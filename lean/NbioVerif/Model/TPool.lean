/-! probe: taskpool.TaskPool as a transition system at the granularity of its atomic operations -/
namespace TPool

inductive Disp | idle | holding (t : Nat) | running (t : Nat)
  deriving DecidableEq, Repr

inductive GoPh | failed (t : Nat) | enq (t : Nat)   -- in-flight Go() calls after a failed fork
  deriving DecidableEq, Repr

structure St where
  conc    : Int
  queue   : List Nat
  workers : List (Option Nat)     -- some t: running t; none: between tasks
  disp    : Disp
  goers   : List GoPh
  done    : List Nat
  deriving DecidableEq, Repr

structure Cfg where
  maxC : Int        -- tp.maxConcurrent = New's argument - 1
  cap  : Nat        -- channel capacity

inductive Act
  | go (t : Nat)                 -- Go: AddInt64(+1) and the comparison; fork or fall through
  | goUndo (i : Nat)             -- AddInt64(-1) after the failed fork
  | goEnq (i : Nat)              -- chQqueue <- f
  | wFinish (i : Nat)            -- worker i: task returns
  | wTake (i : Nat)              -- worker i: select { <-queue | default: return (deferred -1) }
  | dRecv                        -- dispatcher: f := <-queue
  | dFork                        -- dispatcher: fork(f) or run inline
  | dFinish                      -- dispatcher: inline task returns
  deriving Repr

def step (g : Cfg) (s : St) : Act → Option St
  | .go t =>
    let v := s.conc + 1
    if v < g.maxC then some { s with conc := v, workers := s.workers ++ [some t] }
    else some { s with conc := v, goers := s.goers ++ [.failed t] }
  | .goUndo i =>
    match s.goers[i]? with
    | some (.failed t) => some { s with conc := s.conc - 1, goers := s.goers.set i (.enq t) }
    | _ => none
  | .goEnq i =>
    match s.goers[i]? with
    | some (.enq t) =>
      if s.queue.length < g.cap then some { s with queue := s.queue ++ [t], goers := s.goers.eraseIdx i } else none
    | _ => none
  | .wFinish i =>
    match s.workers[i]? with
    | some (some t) => some { s with workers := s.workers.set i none, done := s.done ++ [t] }
    | _ => none
  | .wTake i =>
    match s.workers[i]? with
    | some none =>
      match s.queue with
      | t :: q => some { s with queue := q, workers := s.workers.set i (some t) }
      | [] => some { s with workers := s.workers.eraseIdx i, conc := s.conc - 1 }
    | _ => none
  | .dRecv =>
    match s.disp, s.queue with
    | .idle, t :: q => some { s with disp := .holding t, queue := q }
    | _, _ => none
  | .dFork =>
    match s.disp with
    | .holding t =>
      let v := s.conc + 1
      if v < g.maxC then some { s with conc := v, workers := s.workers ++ [some t], disp := .idle }
      else some { s with conc := v, disp := .running t }      -- NO decrement on this path (as in the code)
    | _ => none
  | .dFinish =>
    match s.disp with
    | .running t => some { s with disp := .idle, done := s.done ++ [t] }
    | _ => none

def init : St := { conc := 0, queue := [], workers := [], disp := .idle, goers := [], done := [] }

def run (g : Cfg) (s : St) : List Act → St
  | [] => s
  | a :: as => match step g s a with
    | some s' => run g s' as
    | none => run g s as

def running (s : St) : Nat :=
  (s.workers.filter Option.isSome).length + (match s.disp with | .running _ => 1 | _ => 0)

def idle (s : St) : Prop := s.workers = [] ∧ s.queue = [] ∧ s.goers = [] ∧ s.disp = .idle

/-- capacity is lost for good: an idle state with a non-zero counter is reachable (bound 3, queue 1) -/
theorem leak_counterexample :
    let s := run ⟨2, 1⟩ init [.go 1, .go 2, .goUndo 0, .goEnq 0, .dRecv, .dFork, .wFinish 0, .wTake 0, .dFinish]
    s.workers = [] ∧ s.queue = [] ∧ s.goers = [] ∧ s.disp = .idle ∧ s.conc = 1 ∧ s.done = [1, 2] := by
  decide

/-- ... after which no submission ever forks again: two tasks submitted to the idle pool both end up
    on the dispatcher (serial), so two mutually waiting tasks deadlock -/
theorem serial_after_leak :
    let s0 := run ⟨2, 1⟩ init [.go 1, .go 2, .goUndo 0, .goEnq 0, .dRecv, .dFork, .wFinish 0, .wTake 0, .dFinish]
    let s := run ⟨2, 1⟩ s0 [.go 3, .goUndo 0, .goEnq 0, .dRecv, .dFork]
    running s = 1 ∧ s.workers = [] ∧ s.disp = .running 3 := by
  decide

end TPool
