/-! M3 ReadPath: the inbound path of one nbio connection — kernel receive queue with the readiness
semantics of LT / ET / ET+ONESHOT epoll (the explicit assumption), the poller's synchronous read loop
with its exits (EAGAIN, short read, per-loop limit / error, hang-up), the AsyncRead gate (`readEvents`,
saturating increment) with its read task at the granularity of the harness' pause points (after every
read, after every decrement), the one-shot re-arm, and UDP demultiplexing keyed by `getUDPNetAddrKey`.

Go code mirrored (poller_epoll.go readWriteLoop EPOLLIN/error branch, conn_unix.go AsyncRead /
ReadAndGetConn / readStream / readUDP / getConn / getUDPNetAddrKey / ResetPollerEvent):

* `doRead`   = `ReadAndGetConn`: closed test, read(2)/recvfrom(2), for a UDP listener `getConn` + `onOpen`
* `consume`  = the paragraph after the read in all three loops: callback if n > 0, EINTR → continue,
               EAGAIN → break, error → closeWithError + leave, short read on a stream → break
* `report`   = the poller takes an event for the fd off `epoll_wait` (enabled according to the mode)
* `gate`     = `AsyncRead`'s counter test (one atomic step: the successful CAS is the linearisation point)
* `pstep`    = one iteration of the synchronous loop / the tail of the event (`ResetPollerEvent`, close on
               EPOLLERR|EPOLLHUP|EPOLLRDHUP)
* `tstep`    = the read task from one pause point to the next
Core Lean only. -/
namespace ReadPath

inductive Mode | lt | et | os deriving DecidableEq, Repr

structure Cfg where
  mode : Mode
  async : Bool          -- Config.AsyncReadInPoller (effective only with EPOLLET, as in readWriteLoop)
  rbs : Nat             -- length of the read buffer (poller buffer / executor buffer)
  cap : Nat             -- Config.MaxConnReadTimesPerEventLoop (readWriteLoop lifts it in ET mode)
  udp : Bool            -- the conn is a UDP listener (datagrams, sessions) instead of a stream
  deriving Repr

def Cfg.isAsync (g : Cfg) : Bool := g.async && g.mode != .lt

/-! ### UDP session key (byte-level model of `getUDPNetAddrKey`) -/

inductive Addr
  | v4 (a b c d : UInt8) (port : Nat)
  | v6 (ip : List UInt8) (port : Nat) (zone : Nat)
  deriving DecidableEq, Repr

def le16 (n : Nat) : List UInt8 := [UInt8.ofNat (n % 256), UInt8.ofNat (n / 256 % 256)]
def le32 (n : Nat) : List UInt8 :=
  [UInt8.ofNat (n % 256), UInt8.ofNat (n / 256 % 256), UInt8.ofNat (n / 65536 % 256), UInt8.ofNat (n / 16777216 % 256)]

/-- `udpAddrKey` is `[22]byte`: address bytes at 0.., port (little endian, `uint16(Port)`) at 16..17,
    zone id (little endian, IPv6 only) at 18..21 -/
def udpKey : Addr → List UInt8
  | .v4 a b c d p => [a, b, c, d] ++ List.replicate 12 0 ++ le16 p ++ [0, 0, 0, 0]
  | .v6 ip p z => ip.take 16 ++ List.replicate (16 - ip.length) 0 ++ le16 p ++ le32 z

/-! ### kernel side of the descriptor -/

structure K where
  rq : List UInt8 := []                       -- stream receive queue
  dq : List (Addr × List UInt8) := []         -- datagram receive queue
  eof : Bool := false                         -- FIN received
  rerr : Bool := false                        -- socket error pending
  intr : Nat := 0                             -- read calls that will be interrupted (EINTR)
  reg : Bool := false                         -- registered with epoll
  armed : Bool := false                       -- one-shot: interest armed
  edge : Bool := false                        -- an arrival has not been reported yet
  deriving DecidableEq, Repr

def K.qlen (k : K) : Nat := k.rq.length + k.dq.length
def K.readable (k : K) : Bool := k.qlen > 0 || k.eof || k.rerr

/-! ### connection side -/

/-- answer of one `ReadAndGetConn` call -/
inductive Ans
  | data (src : Option Addr) (b : List UInt8)   -- n = |b| bytes (from `src` for a datagram)
  | zero | eagain | eintr | err | closed
  deriving DecidableEq, Repr

inductive CErr | nil | eof | rderr | closed deriving DecidableEq, Repr

structure Flags where
  inn : Bool
  out : Bool
  rdhup : Bool
  err : Bool         -- EPOLLERR|EPOLLHUP
  deriving DecidableEq, Repr

def Flags.hang (f : Flags) : Bool := f.rdhup || f.err

/-- poller's position in the handling of one event of this fd -/
inductive PS | idle | rd (i : Nat) (fl : Flags) | fin (fl : Flags) deriving DecidableEq, Repr

/-- read task: queued in the executor / parked after a read with its answer (`h`: the hang-up flag as this round
    of the task saw it when it started) / parked after the decrement -/
inductive TS | none | queued | rd (a : Ans) (h : Bool) | dec (v : Nat) deriving DecidableEq, Repr

structure St where
  k : K := {}
  closed : Bool := false
  cerr : CErr := .nil
  re : Nat := 0                                   -- c.readEvents
  hup : Bool := false                             -- c.hup: a hang-up was handed to the read task
  ps : PS := .idle
  task : TS := .none
  sess : List (List UInt8 × Nat) := []            -- udpConn.conns: key ↦ session id
  opens : List Nat := []                          -- OnOpen notifications (conn ids)
  dlv : List (Nat × List UInt8) := []             -- OnData callbacks: conn id, bytes
  -- ghosts
  sentS : List UInt8 := []                        -- stream bytes the peer sent
  sentD : List (Addr × List UInt8) := []          -- datagrams the peer sent
  deqD : List (Addr × Nat × List UInt8) := []     -- datagrams attributed to a session: source, session, bytes
  reads : Nat := 0
  idle : Nat := 0
  mods : Nat := 0                                 -- successful EPOLL_CTL_MOD re-arms
  overlap : Bool := false                         -- a read task was started while another one was alive
  lost : Nat := 0                                 -- unread queue entries at the moment of a close on peer hang-up
  deriving DecidableEq, Repr

def lookup (key : List UInt8) : List (List UInt8 × Nat) → Option Nat
  | [] => none
  | (k, v) :: r => if k = key then some v else lookup key r

/-- `udpConn.getConn` + `onOpen` for a new remote: the session of a source address -/
def session (s : St) (a : Addr) : Nat × St :=
  match lookup (udpKey a) s.sess with
  | some id => (id, s)
  | none =>
    let id := s.sess.length + 1
    (id, { s with sess := s.sess ++ [(udpKey a, id)], opens := s.opens ++ [id] })

/-- `ReadAndGetConn` up to the answer of read(2)/recvfrom(2) (the harness' pause point); the session
    lookup of `readUDP` that follows the syscall is the first thing `consume` does -/
def doRead (g : Cfg) (s : St) : Ans × St :=
  if s.closed then (.closed, s)
  else
    let s := { s with reads := s.reads + 1 }
    if s.k.intr > 0 then (.eintr, { s with k := { s.k with intr := s.k.intr - 1 } })
    else if g.udp then
      match s.k.dq with
      | (a, d) :: rest => (.data (some a) (d.take g.rbs), { s with k := { s.k with dq := rest } })
      | [] => if s.k.rerr then (.err, s) else (.eagain, { s with idle := s.idle + 1 })
    else
      match s.k.rq with
      | [] =>
        if s.k.rerr then (.err, s) else if s.k.eof then (.zero, s) else (.eagain, { s with idle := s.idle + 1 })
      | _ :: _ => (.data none (s.k.rq.take g.rbs), { s with k := { s.k with rq := s.k.rq.drop g.rbs } })

/-- `closeWithError`: only the first cause sticks -/
def closeWith (s : St) (c : CErr) : St := if s.closed then s else { s with closed := true, cerr := c }

/-- close on EPOLLERR|EPOLLHUP|EPOLLRDHUP; the ghost `lost` records what a peer *half-close* left unread -/
def closeHang (s : St) : St :=
  if s.closed then s
  else { s with closed := true, cerr := .eof, lost := if s.k.rerr then 0 else s.k.qlen }

inductive Next | again | brk | dead deriving DecidableEq, Repr

/-- what every read loop does with the answer -/
def consume (g : Cfg) (s : St) (a : Ans) : Next × St :=
  match a with
  | .data src b =>
    let (id, s) := match src with
      | none => (0, s)
      | some a => let (id, s) := session s a; (id, { s with deqD := s.deqD ++ [(a, id, b)] })
    let s := if b.isEmpty then s else { s with dlv := s.dlv ++ [(id, b)] }
    if b.length < g.rbs && !g.udp then (.brk, s) else (.again, s)
  | .zero => (.brk, s)
  | .eintr => (.again, s)
  | .eagain => (.brk, s)
  | .err => (.dead, closeWith s .rderr)
  | .closed => (.dead, s)

/-- `ResetPollerEvent` with an empty write list: EPOLL_CTL_MOD makes the kernel look at the queue again -/
def rearm (s : St) : St :=
  if s.closed then s
  else { s with mods := s.mods + 1, k := { s.k with armed := true, edge := s.k.readable } }

def spawnTask (s : St) : St := { s with task := .queued, overlap := s.overlap || s.task != .none }

/-- `AsyncRead`, non-one-shot branch: saturating increment of `readEvents` -/
def gate (s : St) : St :=
  if s.re ≥ 2 then s
  else if s.re = 1 then { s with re := 2 }
  else spawnTask { s with re := 1 }

/-- per-event limit of the synchronous loop: `MaxConnReadTimesPerEventLoop` only binds in LT mode, and
    not when the event carries a hang-up (the conn is closed right after, so the loop drains) -/
def loopCap (g : Cfg) (fl : Flags) : Option Nat :=
  if g.mode != .lt then none else if fl.hang then none else some g.cap

def capReached : Option Nat → Nat → Bool
  | none, _ => false
  | some c, i => i ≥ c

/-- what taking an event off epoll_wait does to the kernel side: ET consumes the edge, ONESHOT also disarms -/
def disarm (g : Cfg) (k : K) : K :=
  match g.mode with
  | .lt => k
  | .et => { k with edge := false }
  | .os => { k with edge := false, armed := false }

def setPs (s : St) (p : PS) : St := { s with ps := p }
def setK (s : St) (k : K) : St := { s with k := k }

/-- after the read part of an event: the tail (`ResetPollerEvent` / close) only matters with a hang-up flag -/
def afterEvent (fl : Flags) : PS := if fl.hang then .fin fl else .idle

/-- the flags of a report `(inn, out)`: RDHUP accompanies IN once the FIN is there, ERR|HUP is reported whenever
    a socket error is pending — kernel behaviour, assumed -/
def flagsOf (s : St) (inn out : Bool) : Flags := { inn, out, rdhup := inn && s.k.eof, err := s.k.rerr }

/-- when may the kernel hand the poller an event `(inn, out)` for this fd (the readiness assumption):
    the poller is not already handling one for this fd, the fd is registered and open, the event is not empty,
    the whole ready mask is reported (IN whenever readable), EPOLLOUT is only in the interest set in plain ET
    mode, and a disarmed one-shot fd is never reported -/
def reportOk (g : Cfg) (s : St) (inn out : Bool) : Bool :=
  s.ps == .idle && !s.closed && s.k.reg && (inn || out || s.k.rerr) && ((s.k.qlen == 0 && !s.k.eof) || inn) &&
  (!out || g.mode == .et) && (g.mode != .os || s.k.armed)

/-- the poller's dispatch on the event flags (readWriteLoop, EPOLLIN branch) -/
def setHup (s : St) (b : Bool) : St := if b then { s with hup := true } else s

def dispatch (g : Cfg) (s : St) (fl : Flags) : St :=
  if fl.inn then
    if g.isAsync then
      -- a hang-up that comes with input is left to the read task: it closes after draining
      setPs (if g.mode == .os then spawnTask (setHup s fl.hang) else gate (setHup s fl.hang)) .idle
    else setPs s (.rd 0 fl)
  else setPs s (afterEvent fl)

/-- the poller takes an event `(inn, out)` for this fd off epoll_wait -/
def report (g : Cfg) (s : St) (inn out : Bool) : Option St :=
  if reportOk g s inn out then some (dispatch g (setK s (disarm g s.k)) (flagsOf s inn out)) else none

/-- where the synchronous loop goes after an answer: next iteration, or the tail of the event -/
def nextPs (g : Cfg) (i : Nat) (fl : Flags) : Next → PS
  | .again => if capReached (loopCap g fl) (i + 1) then .fin fl else .rd (i + 1) fl
  | _ => .fin fl

/-- tail of an event: `ResetPollerEvent` (synchronous one-shot path), then close on a hang-up flag -/
def finish (g : Cfg) (s : St) (fl : Flags) : St :=
  let s := if !g.isAsync && g.mode == .os && fl.inn then rearm s else s
  if fl.hang then closeHang s else s

/-- one poller step -/
def pstep (g : Cfg) (s : St) : Option St :=
  match s.ps with
  | .idle => none
  | .rd i fl =>
    let r := doRead g s
    let c := consume g r.2 r.1
    some (setPs c.2 (nextPs g i fl c.1))
  | .fin fl => some (setPs (finish g s fl) .idle)

def setTask (s : St) (t : TS) : St := { s with task := t }

/-- the task performs its next read (or finds the conn closed and returns); `h` = the hang-up flag of this round -/
def taskRead (g : Cfg) (s : St) (h : Bool) : St :=
  if s.closed then setTask s .none
  else
    let r := doRead g s
    setTask r.2 (.rd r.1 h)

/-- what the task does after `consume`: read again, leave the inner loop (one-shot: re-arm and return;
    otherwise decrement `readEvents` and return iff it reached 0; or, with a hang-up seen at the start of the round,
    close), or return after an error -/
def taskNext (g : Cfg) (s : St) (h : Bool) : Next → St
  | .again => taskRead g s h
  | .brk =>
    if h then setTask (closeHang s) .none          -- the hang-up was there before this round: drained, close
    else if g.mode == .os then setTask (rearm s) .none
    else if s.re - 1 = 0 then setTask { s with re := 0 } .none
    else setTask { s with re := s.re - 1 } (.dec (s.re - 1))
  | .dead => setTask s .none

/-- one read-task step (from one pause point to the next) -/
def tstep (g : Cfg) (s : St) : Option St :=
  match s.task with
  | .none => none
  | .queued => some (taskRead g s s.hup)
  | .rd a h =>
    let c := consume g s a
    some (taskNext g c.2 h c.1)
  | .dec _ => some (taskRead g s s.hup)

inductive Act
  | push (b : List UInt8)
  | dgram (a : Addr) (b : List UInt8)
  | eof | rderr | intr (n : Nat)
  | report (inn out : Bool)
  | stale                      -- the kernel drops an unreported edge whose cause has been consumed meanwhile
  | pstep | tstep
  deriving Repr

def Act.internal : Act → Bool
  | .pstep | .tstep => true
  | _ => false

/-- arrivals set the edge in every mode (LT ignores it) -/
def step (g : Cfg) (s : St) : Act → Option St
  | .push b =>
    if g.udp || b.isEmpty || s.k.eof then none
    else some { s with k := { s.k with rq := s.k.rq ++ b, edge := true }, sentS := s.sentS ++ b }
  | .dgram a b =>
    if !g.udp then none
    else some { s with k := { s.k with dq := s.k.dq ++ [(a, b)], edge := true }, sentD := s.sentD ++ [(a, b)] }
  | .eof => if g.udp then none else some { s with k := { s.k with eof := true, edge := true } }
  | .rderr => some { s with k := { s.k with rerr := true, edge := true } }
  | .intr n => some { s with k := { s.k with intr := s.k.intr + n } }
  | .report i o => report g s i o
  | .stale => if s.k.readable then none else some { s with k := { s.k with edge := false } }
  | .pstep => pstep g s
  | .tstep => tstep g s

/-- the conn right after `addConn`: registered and armed, nothing queued -/
def init : St := { k := { reg := true, armed := true } }

def run (g : Cfg) (s : St) : List Act → St
  | [] => s
  | a :: as => match step g s a with
    | some s' => run g s' as
    | none => run g s as

/-! ### big steps used by the driver (iterated small steps) -/

def runP (g : Cfg) : Nat → St → Option St
  | 0, s => if s.ps = .idle then some s else none
  | n + 1, s => match pstep g s with
    | some s' => runP g n s'
    | none => some s

def runT (g : Cfg) : Nat → St → Option St
  | 0, s => if s.task = .none then some s else none
  | n + 1, s => match tstep g s with
    | some s' => runT g n s'
    | none => some s

end ReadPath
