import NbioVerif.Model.Ws
/-! The upgrade hand-off on the client side (nbhttp/parser.go `Parse`, label UPGRADER; websocket/dialer.go response
    callback): the HTTP client parser consumes the 101 response; the callback installs the websocket conn as
    `ParserCloser`; every byte after the blank line that ends the response — in the same read or in later ones — is
    handed to `Conn.Parse` unchanged.  Only well-formed 101 responses without a body are in scope: the response head is
    whatever precedes the first CR LF CR LF (the HTTP grammar itself is C06–C08's business). -/
namespace Ws

/-- number of bytes up to and including the first CR LF CR LF -/
def headEnd : Bytes → Option Nat
  | [] => none
  | x :: r => if (x :: r).take 4 == [13, 10, 13, 10] then some 4 else (headEnd r).map (· + 1)

/-- the only status line in scope: what precedes the reason phrase of a 101 response.  The real client parser checks the
    response byte by byte; of that, the model keeps this much: the bytes seen so far must agree with this prefix, anything
    else is an HTTP parse error (class `http`) and the connection is dead.  (The rest of the HTTP grammar is C06–C08's.) -/
def statusPrefix : Bytes := str "HTTP/1.1 101 "

def agreesWithPrefix (buf : Bytes) : Bool :=
  let n := min buf.length statusPrefix.length
  buf.take n == statusPrefix.take n

structure UpS where
  head : Bytes := []          -- response bytes seen so far (while not upgraded)
  upgraded : Bool := false
  s : S := {}

/-- one `Parser.Parse(data)` call of the client connection -/
def upParse (g : Cfg) (e : Env) (u : UpS) (data : Bytes) : UpS × PR :=
  if u.upgraded then
    let r := parse g e u.s data
    ({ u with s := r.s }, r)
  else
    let buf := u.head ++ data
    if !agreesWithPrefix buf then ({ u with head := buf }, ⟨u.s, [], some .http⟩) else
    match headEnd buf with
    | none => ({ u with head := buf }, ⟨u.s, [], none⟩)
    | some n =>
      let r := parse g e u.s (buf.drop n)
      ({ head := [], upgraded := true, s := r.s }, r)

/-- successive `Parser.Parse` calls of the client connection; stops at the first error (the engine closes the conn) -/
def upFeed (g : Cfg) (e : Env) : UpS → List Bytes → List Act → UpS × PR
  | u, [], acts => (u, ⟨u.s, acts, none⟩)
  | u, seg :: segs, acts =>
    match (upParse g e u seg).2.err with
    | some er => ((upParse g e u seg).1, ⟨(upParse g e u seg).2.s, acts ++ (upParse g e u seg).2.acts, some er⟩)
    | none => upFeed g e (upParse g e u seg).1 segs (acts ++ (upParse g e u seg).2.acts)

end Ws
