import NbioVerif.Model.WsF
/-! websocket.Conn (nbhttp/websocket/conn.go): receive path `Parse` / `nextFrame` / `validFrame` / `readAll` /
    `handleWsMessage` with the default ping/pong/close handlers, and send path `WriteMessage` / `writeFrame`.
    Poller-driven mode with an executor that runs jobs inline and refuses them once the underlying conn is closed.

    Environment (explicit inputs, never state): the mask key drawn for the i-th frame this endpoint writes, what
    `compress/flate` answers (deflate output; inflate output and how the reader chunked it, which capacities the
    allocator handed out).  One helper per Go paragraph. -/
namespace Ws
open WsF

abbrev Bytes := List UInt8

def str (x : String) : Bytes := x.toList.map (fun c => UInt8.ofNat c.toNat)

structure Cfg where
  enableCompression : Bool      -- Upgrader.enableCompression: RSV1 accepted on receive
  writeCompression : Bool       -- Conn.enableWriteCompression: text/binary messages are deflated on send
  msgLimit : Nat                -- MessageLengthLimit, 0 = unlimited
  readLimit : Nat               -- Engine.ReadLimit, 0 = unlimited
  maxFrame : Nat                -- Engine.MaxWebsocketFramePayloadSize
  isClient : Bool               -- role of THIS endpoint (a client masks what it writes)

/-- one `Read` of the inflater as seen by `readAll`: capacity of the buffer at that moment, bytes returned,
    status (0 = nil, 1 = io.EOF, anything else = error) -/
structure RdStep where
  cap : Nat
  n : Nat
  st : Nat
  deriving Repr, DecidableEq

/-- what the decompressor did on one message: the bytes it handed out and the read script -/
structure InflObs where
  out : Bytes
  steps : List RdStep

/-- environment of one endpoint -/
structure Env where
  keyAt : Nat → Bytes           -- mask key of the i-th frame written by this endpoint (4 bytes)
  deflate : Bytes → Bytes       -- compressWriter (flate + sync flush, last four bytes cut off by truncWriter)
  inflate : Bytes → InflObs     -- decompressReader on message ++ flateReaderTail

inductive Act
  | deliver (t : Nat) (payload : Bytes)
  | write (b : Bytes)
  | closeConn
  deriving Repr, DecidableEq

/-- everything Parse keeps besides the unparsed bytes -/
structure K where
  message : Option Bytes := none
  msgType : Nat := 0
  compress : Bool := false
  expecting : Bool := false
  connClosed : Bool := false    -- underlying conn closed (Execute refuses, writes fail)
  nwrites : Nat := 0            -- ghost: frames written so far (index into Env.keyAt)

structure S where
  cache : Bytes := []           -- bytesCached
  k : K := {}

/-- RFC 3629 / Go utf8.Valid -/
def utf8Valid : Bytes → Bool
  | [] => true
  | b0 :: r =>
    let x := b0.toNat
    let cont (c : UInt8) (lo hi : Nat) := lo ≤ c.toNat && c.toNat ≤ hi
    if x < 0x80 then utf8Valid r
    else if 0xC2 ≤ x && x ≤ 0xDF then
      match r with | c1 :: r => cont c1 0x80 0xBF && utf8Valid r | _ => false
    else if 0xE0 ≤ x && x ≤ 0xEF then
      match r with
      | c1 :: c2 :: r =>
        let lo := if x == 0xE0 then 0xA0 else 0x80
        let hi := if x == 0xED then 0x9F else 0xBF
        cont c1 lo hi && cont c2 0x80 0xBF && utf8Valid r
      | _ => false
    else if 0xF0 ≤ x && x ≤ 0xF4 then
      match r with
      | c1 :: c2 :: c3 :: r =>
        let lo := if x == 0xF0 then 0x90 else 0x80
        let hi := if x == 0xF4 then 0x8F else 0xBF
        cont c1 lo hi && cont c2 0x80 0xBF && cont c3 0x80 0xBF && utf8Valid r
      | _ => false
    else false

/-- `validCloseCode` (conn.go) -/
def validCloseCode (c : Nat) : Bool :=
  (1000 ≤ c && c ≤ 1003) || (1007 ≤ c && c ≤ 1011) || (3000 ≤ c && c < 5000)

/-- per-byte masking: the specification of `maskXOR` -/
def maskSpec (key : Bytes) (b : Bytes) : Bytes :=
  (b.zipIdx).map (fun (x, i) => x ^^^ key[i % 4]!)

/-! ### send side -/

inductive Err | closed | tooLong | invalidFragment | tooLarge | controlTooBig | reserveBit | reservedType
              | controlFragmented | fragWithType | consumed | panic | inflate | stuck | http | queueFull
  deriving Repr, DecidableEq
def Err.code : Err → Nat
  | .closed => 1 | .tooLong => 2 | .invalidFragment => 3 | .tooLarge => 4 | .controlTooBig => 5
  | .reserveBit => 6 | .reservedType => 7 | .controlFragmented => 8 | .fragWithType => 9 | .consumed => 10
  | .panic => 11 | .inflate => 12 | .stuck => 99 | .http => 13 | .queueFull => 14

/-- `writeFrame`: the bytes of one frame -/
def encodeFrame (isClient : Bool) (key : Bytes) (opcode : Nat) (sendOpcode fin : Bool) (data : Bytes) (rsv1 : Bool) : Bytes :=
  let h : Hdr := { fin, rsv1, opcode := if sendOpcode then opcode else 0, masked := isClient, len := data.length }
  if isClient then encHdr h ++ key ++ maskSpec key data else encHdr h ++ data

/-- the fragmentation loop of `WriteMessage`; `i` = index of the next frame this endpoint writes -/
def fragments (g : Cfg) (keyAt : Nat → Bytes) (opcode : Nat) : Nat → Nat → Bytes → Bool → Bool → List Bytes
  | 0, _, _, _, _ => []
  | fuel+1, i, data, first, rsv1 =>
    let n := min data.length g.maxFrame
    if n == data.length then [encodeFrame g.isClient (keyAt i) opcode first true data rsv1]
    else encodeFrame g.isClient (keyAt i) opcode first false (data.take n) rsv1
          :: fragments g keyAt opcode fuel (i + 1) (data.drop n) false false

def isControl (opcode : Nat) : Bool := opcode == 8 || opcode == 9 || opcode == 10

/-- `WriteMessage`: the conn writes (one per frame), or the error; `i` = frames written before -/
def writeMessage (g : Cfg) (e : Env) (i : Nat) (opcode : Nat) (data : Bytes) : Except Err (List Bytes) :=
  if isControl opcode then
    if data.length > 125 then .error .controlTooBig
    else .ok [encodeFrame g.isClient (e.keyAt i) opcode true true data false]
  else
    let compress := g.writeCompression && (opcode == 1 || opcode == 2)
    let data := if compress then e.deflate data else data
    if data.length > 0 then .ok (fragments g e.keyAt opcode (data.length + 1) i data true compress)
    else .ok [encodeFrame g.isClient (e.keyAt i) opcode true true [] compress]

/-- a WriteMessage issued from a handler: writes fail once the conn is closed -/
def send (g : Cfg) (e : Env) (s : K) (opcode : Nat) (data : Bytes) : List Act :=
  if s.connClosed then [] else
  match writeMessage g e s.nwrites opcode data with
  | .ok ws => ws.map Act.write
  | .error _ => []

def countWrites (acts : List Act) : Nat :=
  (acts.filter (fun a => match a with | .write _ => true | _ => false)).length

/-! ### receive side -/

def be16 (n : Nat) : Bytes := beEnc 2 n

/-- `handleWsMessage` with the default handlers; returns the actions and whether the conn got closed -/
def handleWs (g : Cfg) (e : Env) (s : K) (opcode : Nat) (data : Bytes) : List Act × Bool :=
  let badUtf8 := be16 1002 ++ (str "invalid UTF-8 bytes")
  match opcode with
  | 2 => ([.deliver 2 data], false)
  | 1 =>
    if !utf8Valid data then (send g e s 8 badUtf8 ++ [.closeConn], true) else ([.deliver 1 data], false)
  | 9 => (send g e s 10 data, false)
  | 10 => ([], false)
  | 8 =>
    if data.length == 0 then (send g e s 8 [] ++ [.closeConn], true)
    else if data.length ≥ 2 then
      let code := beDec (data.take 2)
      if !validCloseCode code then (send g e s 8 (be16 1002) ++ [.closeConn], true)
      else if !utf8Valid (data.drop 2) then (send g e s 8 badUtf8 ++ [.closeConn], true)
      else (send g e s 8 (be16 code ++ data.drop 2) ++ [.closeConn], true)
    else (send g e s 8 (be16 1002) ++ [.closeConn], true)
  | _ => ([.closeConn], true)

def tooLarge (g : Cfg) (n : Int) : Bool := g.msgLimit > 0 && n > g.msgLimit

/-- `Conn.validFrame` -/
def validFrame (g : Cfg) (opcode : Nat) (fin r1 r2 r3 expecting : Bool) : Option Err :=
  if r1 && (!g.enableCompression || (opcode != 1 && opcode != 2)) then some .reserveBit
  else if r2 || r3 then some .reserveBit
  else if opcode > 2 && opcode < 8 then some .reservedType
  else if !fin && opcode != 0 && opcode != 1 && opcode != 2 then some .controlFragmented
  else if expecting && (opcode == 1 || opcode == 2) then some .fragWithType
  else if !expecting && opcode == 0 then some .invalidFragment
  else none

inductive NF
  | need
  | err (e : Err)
  | frame (total : Nat) (opcode : Nat) (body : Bytes) (fin rsv1 : Bool)

/-- decoded frame header: `bodyLen = -1` while the extended length bytes are incomplete; `headLen` includes the mask key -/
structure HdrInfo where
  opcode : Nat
  fin : Bool
  r1 : Bool
  r2 : Bool
  r3 : Bool
  masked : Bool
  bodyLen : Int
  headLen : Nat

/-- header fields out of the first two bytes plus the decoded length -/
def mkHdr (x0 x1 : UInt8) (bodyLen : Int) (headLen : Nat) : HdrInfo :=
  let masked := x1.toNat / 128 % 2 == 1
  { opcode := x0.toNat % 16, fin := x0.toNat / 128 % 2 == 1, r1 := x0.toNat / 64 % 2 == 1,
    r2 := x0.toNat / 32 % 2 == 1, r3 := x0.toNat / 16 % 2 == 1, masked, bodyLen,
    headLen := if masked && bodyLen ≥ 0 then headLen + 4 else headLen }

/-- first paragraph of nextFrame: none = fewer than two bytes cached -/
def decodeHdr (cache : Bytes) : Option (Except Err HdrInfo) :=
  match cache with
  | x0 :: x1 :: rest =>
    let pl := x1.toNat % 128
    if pl == 126 then
      if rest.length ≥ 2 then some (.ok (mkHdr x0 x1 (Int.ofNat (beDec (rest.take 2))) 4)) else some (.ok (mkHdr x0 x1 (-1) 2))
    else if pl == 127 then
      if rest.length ≥ 8 then
        let v := beDec (rest.take 8)
        if v ≥ 2 ^ 63 then some (.error .invalidFragment) else some (.ok (mkHdr x0 x1 (Int.ofNat v) 10))
      else some (.ok (mkHdr x0 x1 (-1) 2))
    else some (.ok (mkHdr x0 x1 (Int.ofNat pl) 2))
  | _ => none

def K.len (k : K) : Nat := match k.message with | some m => m.length | none => 0

def msgLen (s : S) : Nat := s.k.len

/-- second paragraph: the size checks, made as soon as the header is complete.
    A control frame is not part of the message under assembly. -/
def sizeCheck (g : Cfg) (ml : Nat) (h : HdrInfo) : Option Err :=
  if !isControl h.opcode && tooLarge g ((ml : Int) + h.bodyLen) then some .tooLarge
  else if h.bodyLen > 125 && isControl h.opcode then some .controlTooBig
  else none

/-- third paragraph: the (unmasked) payload of a complete frame -/
def frameBody (cache : Bytes) (h : HdrInfo) : Bytes :=
  let raw := (cache.drop h.headLen).take h.bodyLen.toNat
  if h.masked then maskSpec ((cache.drop (h.headLen - 4)).take 4) raw else raw

def nextFrame (g : Cfg) (s : S) : NF :=
  match decodeHdr s.cache with
  | none => .need
  | some (.error e) => .err e
  | some (.ok h) =>
    match sizeCheck g (msgLen s) h with
    | some e => .err e
    | none =>
      if h.bodyLen ≥ 0 ∧ s.cache.length ≥ h.headLen + h.bodyLen.toNat then
        match validFrame g h.opcode h.fin h.r1 h.r2 h.r3 s.k.expecting with
        | some e => .err e
        | none => .frame (h.headLen + h.bodyLen.toNat) h.opcode (frameBody s.cache h) h.fin h.r1
      else .need

/-! #### readAll: the bounded inflate loop -/

inductive RA
  | ok (b : Bytes)
  | tooLarge (held : Nat)   -- refused; `held` = bytes in the buffer at that moment
  | failed (held : Nat)     -- the decompressor reported an error
  | stuck           -- the observed script does not fit the loop (allocator/reader contract broken), or it ran out
  deriving Repr, DecidableEq

/-- never read beyond the limit, whatever capacity the allocator or append handed out -/
def clampEnd (L cap : Nat) : Nat := if L > 0 ∧ cap > L then L else cap

/-- the probe made when exactly the limit has been read: fine only if the stream ends here -/
def probe (buf : Bytes) : List RdStep → RA
  | [] => .stuck
  | st :: rest =>
    if st.n > 0 then .tooLarge buf.length
    else if st.st == 1 then .ok buf
    else if st.st != 0 then .failed buf.length
    else probe buf rest

/-- growth step: `al` more bytes, at most up to the limit, at most 4 MiB at a time -/
def growBy (L l : Nat) : Nat :=
  let al := if l > 4194304 then 4194304 else l
  if L > 0 ∧ l + al > L then L - l else al

/-- allocator contract at one read: the capacity is at least what was asked for, and unchanged while the
    buffer was not reallocated -/
def capOk (st : RdStep) (need : Nat) (same : Option Nat) : Bool :=
  decide (st.cap ≥ need) && (match same with | some c => st.cap == c | none => true)

/-- reader contract at one read into `k` free bytes with `r` bytes of output left: no more than offered, no more
    than there is, and never "nothing, no error" on a non-empty buffer (where the Go loop would spin) -/
def readOk (st : RdStep) (k r : Nat) : Bool :=
  decide (st.n ≤ k) && decide (st.n ≤ r) && !(st.n == 0 && st.st == 0 && decide (k > 0))

/-- the loop of readAll. `buf` read so far, `rest` what the inflater still has, `need` the least capacity the
    allocator owes us, `same` = some c when the buffer was not reallocated since the last read (capacity must be c). -/
def readLoop (L : Nat) : List RdStep → Bytes → Bytes → Nat → Option Nat → RA
  | [], _, _, _, _ => .stuck
  | st :: steps, buf, rest, need, same =>
    let e := clampEnd L st.cap
    if (capOk st need same && readOk st (e - buf.length) rest.length) = false then .stuck else
    let buf' := buf ++ rest.take st.n
    if st.st == 1 then .ok buf'
    else if st.st != 0 then .failed buf'.length
    else if buf'.length == e then
      if L > 0 ∧ buf'.length + 1 > L then probe buf' steps
      else readLoop L steps buf' (rest.drop st.n) (buf'.length + growBy L buf'.length) none
    else readLoop L steps buf' (rest.drop st.n) need (some st.cap)

/-- `readAll(r, size)` -/
def readAll (L size : Nat) (o : InflObs) : RA :=
  let size := if L > 0 ∧ size > L then L else size
  readLoop L o.steps [] o.out size none

/-! #### the frame loop of Parse -/

structure PR where
  s : S
  acts : List Act
  err : Option Err

def closeReply (g : Cfg) (e : Env) (s : K) (err : Err) : List Act :=
  if err == .tooLarge then send g e s 8 (be16 1009 ++ str "message exceeds the configured limit")
  else if err == .controlTooBig then send g e s 8 (be16 1009 ++ str "websocket: control frame length > 125")
  else []

/-- handing a message to the executor: refused once the conn is closed -/
def dispatch (g : Cfg) (e : Env) (k : K) (opcode : Nat) (data : Bytes) : K × List Act :=
  if k.connClosed then (k, [])
  else
    let r := handleWs g e k opcode data
    ({ k with connClosed := k.connClosed || r.2, nwrites := k.nwrites + countWrites r.1 }, r.1)

inductive FR
  | fail (k : K) (e : Err)
  | next (k : K) (acts : List Act)

/-- the first frame of a message fixes its type and whether it is compressed -/
def startMsg (k : K) (opcode : Nat) (rsv1 : Bool) : K :=
  if k.msgType == 0 then { k with msgType := opcode, compress := rsv1 } else k

/-- assembly of the payload (`c.message` stays nil while nothing arrived) -/
def appendBody (k : K) (body : Bytes) : K :=
  if body.length > 0 then { k with message := some ((k.message.getD []) ++ body) } else k

/-- FIN: take the message (an empty one if no payload arrived), inflate it if compressed, reset, hand it over -/
def finishMsg (g : Cfg) (e : Env) (k : K) : FR :=
  let m := k.message.getD []
  let k0 : K := { k with message := none }
  let r : RA := if k.compress then readAll g.msgLimit (m.length * 2) (e.inflate m) else .ok m
  match r with
  | .tooLarge _ => .fail k0 .tooLarge
  | .failed _ => .fail k0 .inflate
  | .stuck => .fail k0 .stuck
  | .ok out =>
    let d := dispatch g e { k0 with msgType := 0, compress := false, expecting := false } k.msgType out
    .next d.1 d.2

/-- data frame paragraph of the Parse closure
    (the cache shift that follows is done by the caller: it is skipped when this paragraph fails) -/
def dataFrame (g : Cfg) (e : Env) (k : K) (opcode : Nat) (body : Bytes) (fin rsv1 : Bool) : FR :=
  let k := appendBody (startMsg k opcode rsv1) body
  if fin then finishMsg g e k else .next { k with expecting := true } []

/-- one iteration on a complete frame -/
def applyFrame (g : Cfg) (e : Env) (k : K) (opcode : Nat) (body : Bytes) (fin rsv1 : Bool) : FR :=
  if opcode ≤ 2 then dataFrame g e k opcode body fin rsv1
  else if opcode > 10 then .fail k .invalidFragment
  else
    let d := dispatch g e k opcode body
    .next d.1 d.2

/-- the error exit of Parse: 1009 close frame for the two size errors -/
def failWith (g : Cfg) (e : Env) (cache : Bytes) (k : K) (acts : List Act) (er : Err) : PR :=
  let a := closeReply g e k er
  ⟨{ cache, k := { k with nwrites := k.nwrites + countWrites a } }, acts ++ a, some er⟩

def frameLoop (g : Cfg) (e : Env) : Nat → S → List Act → PR
  | 0, s, acts => ⟨s, acts, some .stuck⟩
  | fuel+1, s, acts =>
    match nextFrame g s with
    | .need => ⟨s, acts, none⟩
    | .err er => failWith g e s.cache s.k acts er
    | .frame total opcode body fin rsv1 =>
      match applyFrame g e s.k opcode body fin rsv1 with
      | .fail k er => failWith g e s.cache k acts er
      | .next k a => frameLoop g e fuel { cache := s.cache.drop total, k } (acts ++ a)

/-- `Conn.Parse(data)` -/
def parse (g : Cfg) (e : Env) (s : S) (data : Bytes) : PR :=
  if data == [] then ⟨s, [], none⟩
  else if g.readLimit > 0 && s.cache ≠ [] && s.cache.length + data.length > g.readLimit then ⟨s, [], some .tooLong⟩
  else
    let s := { s with cache := s.cache ++ data }
    frameLoop g e (s.cache.length + 1) s []

/-- feeding segments one Parse call at a time; stops at the first error (the engine closes the connection) -/
def feed (g : Cfg) (e : Env) : S → List Bytes → List Act → PR
  | s, [], acts => ⟨s, acts, none⟩
  | s, seg :: segs, acts =>
    match (parse g e s seg).err with
    | some er => ⟨(parse g e s seg).s, acts ++ (parse g e s seg).acts, some er⟩
    | none => feed g e (parse g e s seg).s segs (acts ++ (parse g e s seg).acts)

/-- what can be observed of a result: the actions, the error, what Parse keeps besides the unparsed bytes, and
    the unparsed bytes while the connection lives -/
def PR.obs (r : PR) : List Act × Option Err × K × Option Bytes := (r.acts, r.err, r.s.k, if r.err.isNone then some r.s.cache else none)

/-- an application `WriteMessage` on this endpoint -/
def appWrite (g : Cfg) (e : Env) (s : K) (opcode : Nat) (data : Bytes) : K × Except Err (List Bytes) :=
  match writeMessage g e s.nwrites opcode data with
  | .error er => (s, .error er)
  | .ok ws => if s.connClosed then (s, .error .closed) else ({ s with nwrites := s.nwrites + ws.length }, .ok ws)

/-- frames a payload of `n` bytes (after compression) takes in the send queue -/
def nFrames (g : Cfg) (n : Nat) : Nat :=
  if g.maxFrame > 0 ∧ n > g.maxFrame then (n + g.maxFrame - 1) / g.maxFrame else 1

/-- what `WriteMessage` hands to the fragmentation loop: the payload after compression -/
def wirePayload (g : Cfg) (e : Env) (opcode : Nat) (data : Bytes) : Bytes :=
  if g.writeCompression && (opcode == 1 || opcode == 2) then e.deflate data else data

/-- result of queueing frames one by one -/
structure Enq where
  q : Nat              -- queue length afterwards
  wrote : List Bytes   -- frames that got a slot
  full : Bool          -- a frame found the queue full: the call failed there
  deriving Repr, DecidableEq

/-- the admission of `writeFrame` (asynchronous mode): a frame is appended while the queue has a free slot; the first frame
    that finds it full fails the call, the frames queued before it stay queued -/
def enqueue (size : Nat) : Nat → List Bytes → Enq
  | q, [] => ⟨q, [], false⟩
  | q, f :: fs =>
    if q ≥ size then ⟨q, [], true⟩
    else let r := enqueue size (q + 1) fs; ⟨r.q, f :: r.wrote, r.full⟩

/-- result of a `WriteMessage` through the send queue -/
structure QW where
  k : K
  qlen : Nat
  wrote : List Bytes   -- frames handed to the conn writer (in order)
  err : Option Err

/-- `WriteMessage` in asynchronous mode with a bounded send queue (`size` slots, `qlen` taken): a data message passes the
    all-or-nothing admission check (its frames counted AFTER compression), then every frame passes `writeFrame`'s own check;
    a control message meets only the latter. -/
def appWriteQ (g : Cfg) (e : Env) (k : K) (size qlen : Nat) (opcode : Nat) (data : Bytes) : QW :=
  match writeMessage g e k.nwrites opcode data with
  | .error er => ⟨k, qlen, [], some er⟩
  | .ok ws =>
    if k.connClosed then ⟨k, qlen, [], some .closed⟩
    else if !isControl opcode && qlen + nFrames g (wirePayload g e opcode data).length > size then ⟨k, qlen, [], some .queueFull⟩
    else
      let r := enqueue size qlen ws
      ⟨{ k with nwrites := k.nwrites + r.wrote.length }, r.q, r.wrote, if r.full then some .queueFull else none⟩

/-- `WriteClose(code, reason)`: the payload is the 2-byte status code followed by the reason; it goes through
    `WriteMessage`, which limits the WHOLE control payload to 125 bytes -/
def appWriteClose (g : Cfg) (e : Env) (k : K) (code : Nat) (reason : Bytes) : K × Except Err (List Bytes) :=
  appWrite g e k 8 (be16 code ++ reason)

/-- `WriteFrame(messageType, sendOpcode, fin, data)`: one frame as given; a control payload over 125 bytes is refused -/
def appWriteFrame (g : Cfg) (e : Env) (k : K) (opcode : Nat) (sendOpcode fin : Bool) (data : Bytes) : K × Except Err (List Bytes) :=
  if isControl opcode && data.length > 125 then (k, .error .controlTooBig)
  else if k.connClosed then (k, .error .closed)
  else ({ k with nwrites := k.nwrites + 1 }, .ok [encodeFrame g.isClient (e.keyAt k.nwrites) opcode sendOpcode fin data false])

end Ws
