import NbioVerif.Model.WsF
/-! probe: websocket.Conn receive path (Parse / nextFrame / handleWsMessage) and send path (WriteMessage / writeFrame),
    no compression, inline executor -/
namespace Ws
open WsF

abbrev Bytes := List UInt8

structure Cfg where
  enableCompression : Bool      -- upgrader flag (RSV1 allowed)
  msgLimit : Nat                -- MessageLengthLimit, 0 = unlimited
  readLimit : Nat               -- Engine.ReadLimit
  maxFrame : Nat                -- Engine.MaxWebsocketFramePayloadSize
  isClient : Bool               -- role of THIS endpoint when it writes
  maskKey : Bytes               -- 4 bytes used for every written frame when isClient (parameter)

inductive Act
  | deliver (t : Nat) (payload : Bytes)
  | write (b : Bytes)
  | closeConn
  deriving Repr, DecidableEq

structure S where
  cache : Bytes := []
  message : Option Bytes := none
  msgType : Nat := 0
  compress : Bool := false
  expecting : Bool := false
  connClosed : Bool := false    -- underlying conn closed (Execute refuses, writes fail)

/-- RFC 3629 / Go utf8.Valid -/
def utf8Valid : Bytes → Bool
  | [] => true
  | b0 :: r =>
    let x := b0.toNat
    let cont (c : UInt8) (lo hi : Nat) := lo ≤ c.toNat && c.toNat ≤ hi
    if x < 0x80 then utf8Valid r
    else if 0xC2 ≤ x && x ≤ 0xDF then
      match r with | c1 :: r => cont c1 0x80 0xBF && utf8Valid r | _ => false
    else if 0xE0 ≤ x && x ≤ 0xEF then
      match r with
      | c1 :: c2 :: r =>
        let lo := if x == 0xE0 then 0xA0 else 0x80
        let hi := if x == 0xED then 0x9F else 0xBF
        cont c1 lo hi && cont c2 0x80 0xBF && utf8Valid r
      | _ => false
    else if 0xF0 ≤ x && x ≤ 0xF4 then
      match r with
      | c1 :: c2 :: c3 :: r =>
        let lo := if x == 0xF0 then 0x90 else 0x80
        let hi := if x == 0xF4 then 0x8F else 0xBF
        cont c1 lo hi && cont c2 0x80 0xBF && cont c3 0x80 0xBF && utf8Valid r
      | _ => false
    else false

def validCloseCode (c : Nat) : Bool :=
  (1000 ≤ c && c ≤ 1003) || (1007 ≤ c && c ≤ 1011) || c == 1015 || (3000 ≤ c && c < 5000)

/-- per-byte masking (specification form of maskXOR) -/
def maskSpec (key : Bytes) (b : Bytes) : Bytes :=
  (b.zipIdx).map (fun (x, i) => x ^^^ key[i % 4]!)

/-! ### send side -/

def encodeFrame (g : Cfg) (opcode : Nat) (sendOpcode fin : Bool) (data : Bytes) (rsv1 : Bool) : Bytes :=
  let h : Hdr := { fin, rsv1, opcode := if sendOpcode then opcode else 0, masked := g.isClient, len := data.length }
  if g.isClient then encHdr h ++ g.maskKey ++ maskSpec g.maskKey data else encHdr h ++ data

def fragments (g : Cfg) (opcode : Nat) : Nat → Bytes → Bool → List Bytes
  | 0, _, _ => []
  | fuel+1, data, first =>
    let n := min data.length g.maxFrame
    if n == data.length then [encodeFrame g opcode first true data false]
    else encodeFrame g opcode first false (data.take n) false :: fragments g opcode fuel (data.drop n) false

/-- WriteMessage without compression: list of conn writes, or none = ErrControlMessageTooBig -/
def writeMessage (g : Cfg) (opcode : Nat) (data : Bytes) : Option (List Bytes) :=
  if (opcode == 8 || opcode == 9 || opcode == 10) && data.length > 125 then none
  else if data.length > 0 then some (fragments g opcode (data.length + 1) data true)
  else some [encodeFrame g opcode true true [] false]

def send (g : Cfg) (s : S) (opcode : Nat) (data : Bytes) : List Act :=
  if s.connClosed then [] else
  match writeMessage g opcode data with
  | some ws => ws.map Act.write
  | none => []

/-! ### receive side -/

inductive Err | closed | tooLong | invalidFragment | tooLarge | controlTooBig | reserveBit | reservedType
              | controlFragmented | fragWithType | consumed
  deriving Repr, DecidableEq
def Err.code : Err → Nat
  | .closed => 1 | .tooLong => 2 | .invalidFragment => 3 | .tooLarge => 4 | .controlTooBig => 5
  | .reserveBit => 6 | .reservedType => 7 | .controlFragmented => 8 | .fragWithType => 9 | .consumed => 10

def be16 (n : Nat) : Bytes := beEnc 2 n

/-- handleWsMessage with the default handlers; returns actions and whether the conn got closed -/
def handleWs (g : Cfg) (s : S) (opcode : Nat) (data : Bytes) : List Act × Bool :=
  let badUtf8 := be16 1002 ++ (str "invalid UTF-8 bytes")
  match opcode with
  | 2 => ([.deliver 2 data], false)
  | 1 =>
    if !utf8Valid data then (send g s 8 badUtf8 ++ [.closeConn], true) else ([.deliver 1 data], false)
  | 9 => (send g s 10 data, false)
  | 10 => ([], false)
  | 8 =>
    if data.length == 0 then (send g s 8 [] ++ [.closeConn], true)
    else if data.length ≥ 2 then
      let code := beDec (data.take 2)
      if !validCloseCode code then (send g s 8 (be16 1002) ++ [.closeConn], true)
      else if !utf8Valid (data.drop 2) then (send g s 8 badUtf8 ++ [.closeConn], true)
      else (send g s 8 (be16 code ++ data.drop 2) ++ [.closeConn], true)
    else (send g s 8 (be16 1002) ++ [.closeConn], true)
  | _ => ([.closeConn], true)
where str (x : String) : Bytes := x.toList.map (fun c => UInt8.ofNat c.toNat)

def tooLarge (g : Cfg) (n : Int) : Bool := g.msgLimit > 0 && n > g.msgLimit

def validFrame (g : Cfg) (opcode : Nat) (fin r1 r2 r3 expecting : Bool) : Option Err :=
  if r1 && !g.enableCompression then some .reserveBit
  else if r2 || r3 then some .reserveBit
  else if opcode > 2 && opcode < 8 then some .reservedType
  else if !fin && opcode != 0 && opcode != 1 && opcode != 2 then some .controlFragmented
  else if expecting && (opcode == 1 || opcode == 2) then some .fragWithType
  else none

inductive NF
  | need
  | err (e : Err)
  | frame (total : Nat) (opcode : Nat) (body : Bytes) (fin rsv1 : Bool)

/-- decoded frame header: `bodyLen = -1` while the extended length bytes are incomplete; `headLen` includes the mask key -/
structure HdrInfo where
  opcode : Nat
  fin : Bool
  r1 : Bool
  r2 : Bool
  r3 : Bool
  masked : Bool
  bodyLen : Int
  headLen : Nat

/-- first paragraph of nextFrame: none = fewer than two bytes cached -/
def decodeHdr (cache : Bytes) : Option (Except Err HdrInfo) :=
  match cache with
  | x0 :: x1 :: rest =>
    let masked := x1.toNat / 128 % 2 == 1
    let pl := x1.toNat % 128
    let mk (bodyLen : Int) (headLen : Nat) : HdrInfo :=
      { opcode := x0.toNat % 16, fin := x0.toNat / 128 % 2 == 1, r1 := x0.toNat / 64 % 2 == 1,
        r2 := x0.toNat / 32 % 2 == 1, r3 := x0.toNat / 16 % 2 == 1, masked, bodyLen,
        headLen := if masked && bodyLen ≥ 0 then headLen + 4 else headLen }
    if pl == 126 then
      if rest.length ≥ 2 then some (.ok (mk (Int.ofNat (beDec (rest.take 2))) 4)) else some (.ok (mk (-1) 2))
    else if pl == 127 then
      if rest.length ≥ 8 then
        let v := beDec (rest.take 8)
        if v ≥ 2 ^ 63 then some (.error .invalidFragment) else some (.ok (mk (Int.ofNat v) 10))
      else some (.ok (mk (-1) 2))
    else some (.ok (mk (Int.ofNat pl) 2))
  | _ => none

def msgLen (s : S) : Nat := match s.message with | some m => m.length | none => 0

/-- second paragraph: the size checks, made as soon as the header is complete -/
def sizeCheck (g : Cfg) (ml : Nat) (h : HdrInfo) : Option Err :=
  if tooLarge g ((ml : Int) + h.bodyLen) then some .tooLarge
  else if h.bodyLen > 125 && (h.opcode == 9 || h.opcode == 10 || h.opcode == 8) then some .controlTooBig
  else none

/-- third paragraph: the (unmasked) payload of a complete frame -/
def frameBody (cache : Bytes) (h : HdrInfo) : Bytes :=
  let raw := (cache.drop h.headLen).take h.bodyLen.toNat
  if h.masked then maskSpec ((cache.drop (h.headLen - 4)).take 4) raw else raw

def nextFrame (g : Cfg) (s : S) : NF :=
  match decodeHdr s.cache with
  | none => .need
  | some (.error e) => .err e
  | some (.ok h) =>
    match sizeCheck g (msgLen s) h with
    | some e => .err e
    | none =>
      if h.bodyLen ≥ 0 ∧ s.cache.length ≥ h.headLen + h.bodyLen.toNat then
        match validFrame g h.opcode h.fin h.r1 h.r2 h.r3 s.expecting with
        | some e => .err e
        | none => .frame (h.headLen + h.bodyLen.toNat) h.opcode (frameBody s.cache h) h.fin h.r1
      else .need

structure PR where
  s : S
  acts : List Act
  err : Option Err

def frameLoop (g : Cfg) : Nat → S → List Act → PR
  | 0, s, acts => ⟨s, acts, none⟩
  | fuel+1, s, acts =>
    match nextFrame g s with
    | .need => ⟨s, acts, none⟩
    | .err e =>
      let acts := if e == .tooLarge then acts ++ send g s 8 (be16 1009 ++ str "message exceeds the configured limit")
                  else if e == .controlTooBig then acts ++ send g s 8 (be16 1009 ++ str "websocket: control frame length > 125")
                  else acts
      ⟨s, acts, some e⟩
    | .frame total opcode body fin rsv1 =>
      if opcode > 10 then ⟨s, acts, some .invalidFragment⟩ else
      let s := { s with cache := s.cache.drop total }
      if opcode ≤ 2 then
        let s := if s.msgType == 0 then { s with msgType := opcode, compress := rsv1 } else s
        let mt := s.msgType
        let s := if body.length > 0 then
                   { s with message := some ((s.message.getD []) ++ body) } else s
        if fin then
          let msg := s.message
          let s := { s with message := none, msgType := 0, compress := false, expecting := false }
          match msg with
          | some m =>
            if s.connClosed then frameLoop g fuel s acts
            else
              let (a, cl) := handleWs g s mt m
              frameLoop g fuel { s with connClosed := s.connClosed || cl } (acts ++ a)
          | none => frameLoop g fuel s acts          -- empty message: never delivered (defect #9)
        else frameLoop g fuel { s with expecting := true } acts
      else
        if s.connClosed then frameLoop g fuel s acts
        else
          let (a, cl) := handleWs g s opcode body
          frameLoop g fuel { s with connClosed := s.connClosed || cl } (acts ++ a)
where str (x : String) : Bytes := x.toList.map (fun c => UInt8.ofNat c.toNat)

def parse (g : Cfg) (s : S) (data : Bytes) : PR :=
  if data == [] then ⟨s, [], none⟩
  else if g.readLimit > 0 && s.cache ≠ [] && s.cache.length + data.length > g.readLimit then ⟨s, [], some .tooLong⟩
  else
    let s := { s with cache := s.cache ++ data }
    frameLoop g (s.cache.length + 1) s []

end Ws
