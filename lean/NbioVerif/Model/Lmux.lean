/-!
# lmux.ListenerMux (lmux/lmux.go): one real listener fanned out to two channel listeners A and B

Go code modelled, one step per atomic operation / channel operation:

* `accept c`   — the mux goroutine's `l.Accept()` returns connection `c` (only while the real listener is open).
* `route`      — `atomic.AddInt32(&onlineA, 1) <= maxOnlineA` ⇒ `A.chEvent <- conn`, else undo the add and
                 `B.chEvent <- conn` (the add, the test and the channel send are one step: the buffers hold 65 536
                 events and are assumed not to fill up — a full channel would block the mux goroutine).
* `acceptErr`  — the real listener has been closed: `Accept` fails, an error event goes to **both** channels, the mux
                 goroutine returns.
* `takeA gotClose` / `takeB gotClose` — a consumer's `ChanListener.Accept()`: a `select` over `chEvent` and `chClose`.
                 With an event queued and `chClose` closed **both** cases are ready and Go picks one at random:
                 `gotClose` is that choice (an input). With nothing ready the consumer blocks (step disabled).
* `decrease`   — `ChanListener.Decrease()` of an A listener (`AddInt32(&onlineA, -1)`), called by the consumer when a
                 conn it got from A ends.
* `stop`       — `ListenerMux.Stop()`, first part: `shutdown = true`, close the real listener. On the **pinned** tree
                 (`Cfg.drain = false`) that is all of Stop together with `close(chClose)`.
* `stopFinish` — the repaired Stop's second part: `wg.Wait()` (enabled only once the mux goroutine has returned),
                 `close(chClose)`, then `closeQueued()` on both channel listeners: every conn still queued is closed
                 (`Decrease` for those of A), the channels are empty afterwards.

Ghost: where every accepted conn is (`held` by the mux goroutine, queued in A/B, handed to A/B's consumer).
-/
namespace Lmux

inductive Ev | conn (c : Nat) | err
  deriving DecidableEq, Repr

structure Cfg where
  /-- the repaired `Stop`: waits for the mux goroutine and closes what is still queued -/
  drain : Bool
  deriving Repr

structure St where
  maxA      : Nat
  open_     : Bool := true          -- the real listener is open
  chClosed  : Bool := false         -- close(chClose) has happened
  muxAlive  : Bool := true          -- the mux goroutine has not returned
  held      : Option Nat := none    -- conn the mux goroutine has accepted and not yet routed
  onlineA   : Nat := 0
  chA       : List Ev := []
  chB       : List Ev := []
  handedA   : List Nat := []
  handedB   : List Nat := []
  nextId    : Nat := 0
  decs      : Nat := 0              -- ghost: number of Decrease calls
  stopping  : Bool := false         -- Stop's first part has run
  closedByStop : List Nat := []     -- conns closed by Stop's `closeQueued`
  deriving DecidableEq, Repr

inductive Act
  | accept | route | acceptErr
  | takeA (gotClose : Bool) | takeB (gotClose : Bool)
  | decrease | stop | stopFinish
  deriving DecidableEq, Repr

/-- outcome of a consumer's Accept, for the driver -/
inductive Got | conn (c : Nat) | err | closed
  deriving DecidableEq, Repr

def take (chClosed : Bool) (gotClose : Bool) (ch : List Ev) : Option (Got × List Ev) :=
  match ch with
  | e :: rest =>
    if chClosed && gotClose then some (.closed, ch)          -- the select picked chClose: the event stays queued
    else match e with
      | .conn c => some (.conn c, rest)
      | .err => some (.err, rest)
  | [] => if chClosed then some (.closed, []) else none       -- nothing ready: the consumer blocks

def connsIn : List Ev → List Nat
  | [] => []
  | .conn c :: r => c :: connsIn r
  | .err :: r => connsIn r

def step (g : Cfg) (s : St) : Act → Option St
  | .accept =>
    if s.muxAlive && s.open_ && s.held.isNone then some { s with held := some s.nextId, nextId := s.nextId + 1 } else none
  | .route =>
    match s.held with
    | some c =>
      if s.onlineA + 1 ≤ s.maxA then some { s with held := none, onlineA := s.onlineA + 1, chA := s.chA ++ [.conn c] }
      else some { s with held := none, chB := s.chB ++ [.conn c] }
    | none => none
  | .acceptErr =>
    if s.muxAlive && !s.open_ && s.held.isNone then
      some { s with muxAlive := false, chA := s.chA ++ [.err], chB := s.chB ++ [.err] }
    else none
  | .takeA g =>
    (take s.chClosed g s.chA).map fun (r, ch) =>
      match r with
      | .conn c => { s with chA := ch, handedA := s.handedA ++ [c] }
      | _ => { s with chA := ch }
  | .takeB g =>
    (take s.chClosed g s.chB).map fun (r, ch) =>
      match r with
      | .conn c => { s with chB := ch, handedB := s.handedB ++ [c] }
      | _ => { s with chB := ch }
  | .decrease =>
    -- contract: one Decrease per conn that was handed out by A (when that conn ends)
    if s.decs < s.handedA.length then some { s with onlineA := s.onlineA - 1, decs := s.decs + 1 } else none
  | .stop =>
    if s.stopping then none
    else if g.drain then some { s with stopping := true, open_ := false }
    else some { s with stopping := true, open_ := false, chClosed := true }
  | .stopFinish =>
    if g.drain && s.stopping && !s.chClosed && !s.muxAlive then
      some { s with chClosed := true, chA := [], chB := [],
                    closedByStop := s.closedByStop ++ connsIn s.chA ++ connsIn s.chB,
                    onlineA := s.onlineA - (connsIn s.chA).length }
    else none

def init (maxA : Nat) : St := { maxA := maxA }

def run (g : Cfg) : St → List Act → St
  | s, [] => s
  | s, a :: as => match step g s a with
    | some s' => run g s' as
    | none => run g s as

def fixed : Cfg := { drain := true }
def pinned : Cfg := { drain := false }

/-- every conn the mux has accepted and where it is -/
def located (s : St) : List Nat :=
  (match s.held with | some c => [c] | none => []) ++ connsIn s.chA ++ connsIn s.chB ++ s.handedA ++ s.handedB ++
    s.closedByStop

/-- conns accepted by the mux that nobody will ever be handed: queued while every consumer has seen `chClose` -/
def stranded (s : St) : List Nat := if s.chClosed then connsIn s.chA ++ connsIn s.chB else []

end Lmux
