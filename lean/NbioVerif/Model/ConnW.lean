/-! probe: nbio Conn write queue (Write + flush, buffers only), integrity + accounting invariants -/
namespace ConnW

inductive KAns | wrote (n : Nat) | eagain | eintr | fail
  deriving Repr, DecidableEq

structure Item where
  data : List UInt8
  off  : Nat
  deriving Repr

/-- static configuration (never changes): kept apart from the mutable state -/
structure Cfg where
  stream : Bool              -- true: TCP (remainder queued); false: the non-queuing branch of `write`
  maxWB  : Nat
  deriving Repr

structure Conn where
  closed : Bool
  wl     : List Item
  left   : Nat
  isWAdded : Bool
  -- kernel / ghost
  wire     : List UInt8
  accepted : List UInt8
  deriving Repr

def maxCache : Nat := 65536

def Item.rest (t : Item) : List UInt8 := t.data.drop t.off

def pending (wl : List Item) : List UInt8 := (wl.map Item.rest).flatten

def unsent (wl : List Item) : Nat := (wl.map (fun t => t.data.length - t.off)).sum

/-- newToWriteBuf -/
def enqueue (c : Conn) (b : List UInt8) : Conn :=
  let c := { c with left := c.left + b.length }
  match c.wl.getLast? with
  | none => { c with wl := [⟨b, 0⟩] }
  | some tail =>
    if tail.data.length + b.length > maxCache then { c with wl := c.wl ++ [⟨b, 0⟩] }
    else { c with wl := c.wl.dropLast ++ [⟨tail.data ++ b, tail.off⟩] }

def overflow (g : Cfg) (c : Conn) (n : Nat) : Bool := g.maxWB > 0 && c.left + n > g.maxWB

inductive Ret | ok (n : Nat) | errClosed | errOverflow | errIO
  deriving Repr, DecidableEq

/-- closeWithErrorWithoutLock: release queue -/
def closeNow (c : Conn) : Conn := { c with closed := true, wl := [] }

def direct (c : Conn) (b : List UInt8) (n : Nat) : Conn :=
  { c with wire := c.wire ++ b.take n, accepted := c.accepted ++ b }

def kN (k : KAns) (len : Nat) : Nat := match k with | .wrote n => min n len | _ => 0

/-- Write's tail: arm EPOLLOUT iff a backlog remains -/
def post (c : Conn) : Conn := if c.wl.isEmpty then c else { c with isWAdded := true }

/-- Conn.Write with one kernel answer for the direct write -/
def write (g : Cfg) (c : Conn) (b : List UInt8) (k : KAns) : Conn × Ret :=
  if c.closed then (c, .errClosed)
  else if b.length = 0 then (c, .ok 0)
  else if overflow g c b.length then (closeNow c, .errOverflow)
  else if c.wl.isEmpty then
    if k = .fail then (closeNow c, .errIO)
    else
      let n := kN k b.length
      if b.length - n > 0 && g.stream then (post (enqueue (direct c b n) (b.drop n)), .ok b.length)
      else (post (direct c b n), .ok b.length)
  else
    (post (enqueue { c with accepted := c.accepted ++ b } b), .ok b.length)

/-- flush loop: one kernel answer per iteration; an exhausted script means EAGAIN -/
def flush : Conn → List KAns → Conn
  | c, [] => c
  | c, k :: ks =>
    if c.closed then c else
    match c.wl with
    | [] => { c with isWAdded := false }
    | h :: tl =>
      match k with
      | .eagain => c
      | .eintr => flush c ks
      | .fail => closeNow c
      | .wrote n0 =>
        let rest := h.data.drop h.off
        let n := min n0 rest.length
        if n = 0 then flush c ks   -- kernel wrote nothing: loop again (spins in Go if repeated)
        else
          let c := { c with wire := c.wire ++ rest.take n, left := c.left - n }
          if n = rest.length then
            let c := { c with wl := tl }
            if tl.isEmpty then { c with isWAdded := false } else flush c ks
          else { c with wl := ⟨h.data, h.off + n⟩ :: tl } |> fun c => flush c ks

inductive Op
  | write (b : List UInt8) (k : KAns)
  | flush (ks : List KAns)

def step (g : Cfg) (c : Conn) : Op → Conn
  | .write b k => (write g c b k).1
  | .flush ks => flush c ks

def run (g : Cfg) (c : Conn) (ops : List Op) : Conn := ops.foldl (step g) c

def init : Conn :=
  { closed := false, wl := [], left := 0, isWAdded := false, wire := [], accepted := [] }

/-- the invariant -/
structure Inv (c : Conn) : Prop where
  integ : ¬ c.closed → c.wire ++ pending c.wl = c.accepted
  pref  : c.wire <+: c.accepted
  acct  : ¬ c.closed → c.left = unsent c.wl
  offs  : ∀ t ∈ c.wl, t.off ≤ t.data.length

theorem pending_append (a b : List Item) : pending (a ++ b) = pending a ++ pending b := by
  simp [pending]

theorem unsent_append (a b : List Item) : unsent (a ++ b) = unsent a + unsent b := by
  simp [unsent]

theorem wl_split (wl : List Item) (t : Item) (h : wl.getLast? = some t) : wl = wl.dropLast ++ [t] := by
  obtain ⟨ys, hy⟩ := List.getLast?_eq_some_iff.mp h
  subst hy; simp

/-- effect of newToWriteBuf on the abstract quantities -/
theorem enqueue_spec (c : Conn) (b : List UInt8) (ho : ∀ t ∈ c.wl, t.off ≤ t.data.length) :
    pending (enqueue c b).wl = pending c.wl ++ b ∧
    unsent (enqueue c b).wl = unsent c.wl + b.length ∧
    (enqueue c b).left = c.left + b.length ∧
    (∀ t ∈ (enqueue c b).wl, t.off ≤ t.data.length) ∧
    (enqueue c b).wire = c.wire ∧ (enqueue c b).accepted = c.accepted ∧
    (enqueue c b).closed = c.closed := by
  unfold enqueue
  simp only
  cases hl : c.wl.getLast? with
  | none =>
    have : c.wl = [] := List.getLast?_eq_none_iff.mp hl
    simp [this, pending, unsent, Item.rest]
  | some tail =>
    have hs := wl_split c.wl tail hl
    have htail : tail ∈ c.wl := by rw [hs]; simp
    have hto := ho tail htail
    simp only
    split
    · refine ⟨?_, ?_, rfl, ?_, rfl, rfl, rfl⟩
      · simp [pending_append, pending, Item.rest]
      · simp [unsent_append, unsent]
      · intro t ht
        simp at ht
        rcases ht with ht | ht
        · exact ho t ht
        · subst ht; simp
    · refine ⟨?_, ?_, rfl, ?_, rfl, rfl, rfl⟩
      · conv => rhs; rw [hs]
        simp only [pending_append]
        simp [pending, Item.rest, List.drop_append_of_le_length hto]
      · conv => rhs; rw [hs]
        simp only [unsent_append]
        simp [unsent]; omega
      · intro t ht
        simp at ht
        rcases ht with ht | ht
        · exact ho t (List.dropLast_subset _ ht)
        · subst ht; simp; omega

theorem inv_init : Inv init := by
  constructor <;> simp [init, pending, unsent]

theorem inv_closeNow (c : Conn) (h : Inv c) : Inv (closeNow c) := by
  constructor <;> simp [closeNow, h.pref]

/-- `post` (arming) does not touch the abstract quantities -/
theorem inv_arm (c : Conn) (b : Bool) (h : Inv c) : Inv { c with isWAdded := b } :=
  ⟨h.integ, h.pref, h.acct, h.offs⟩

theorem inv_post (c : Conn) (h : Inv c) : Inv (post c) := by
  unfold post; split
  · exact h
  · exact inv_arm _ _ h

theorem kN_le (k : KAns) (len : Nat) : kN k len ≤ len := by
  unfold kN; split <;> omega

theorem inv_direct_q (c : Conn) (b : List UInt8) (n : Nat) (h : Inv c) (hnc : ¬ c.closed = true)
    (hwl : c.wl = []) (hnle : n ≤ b.length) : Inv (enqueue (direct c b n) (b.drop n)) := by
  have hint := h.integ hnc
  simp [hwl, pending] at hint
  have ho1 : ∀ t ∈ (direct c b n).wl, t.off ≤ t.data.length := by simp [direct, hwl]
  obtain ⟨e1, e2, e3, e4, e5, e6, e7⟩ := enqueue_spec (direct c b n) (b.drop n) ho1
  constructor
  · intro _
    rw [e1, e5, e6]
    simp [direct, hwl, pending, hint, List.append_assoc]
  · rw [e5, e6]
    simp only [direct, hint]
    exact (List.prefix_append_right_inj _).mpr (List.take_prefix _ _)
  · intro _
    rw [e2, e3]
    have := h.acct hnc
    simp [direct, hwl, unsent] at this ⊢
    omega
  · exact e4

theorem inv_direct_full (c : Conn) (b : List UInt8) (h : Inv c) (hnc : ¬ c.closed = true)
    (hwl : c.wl = []) : Inv (direct c b b.length) := by
  have hint := h.integ hnc
  simp [hwl, pending] at hint
  constructor
  · intro _; simp [direct, hwl, pending, hint]
  · simp [direct, hint]
  · intro _; have := h.acct hnc; simp [direct, hwl, unsent] at this ⊢; exact this
  · simp [direct, hwl]

theorem inv_write (g : Cfg) (c : Conn) (b : List UInt8) (k : KAns) (hs : g.stream = true) (h : Inv c) :
    Inv (write g c b k).1 := by
  unfold write
  split
  · exact h
  split
  · exact h
  split
  · exact inv_closeNow c h
  rename_i hc hb hov
  have hnc : ¬ c.closed = true := hc
  split
  · -- queue empty: direct write
    rename_i hemp
    have hwl : c.wl = [] := List.isEmpty_iff.mp hemp
    split
    · exact inv_closeNow c h
    · simp only
      split
      · exact inv_post _ (inv_direct_q c b _ h hnc hwl (kN_le _ _))
      · rename_i hrem
        have hfull : kN k b.length = b.length := by
          have := kN_le k b.length
          simp [hs] at hrem
          omega
        have := inv_direct_full c b h hnc hwl
        rw [← hfull] at this
        exact inv_post _ this
  · -- queue non-empty: append
    obtain ⟨e1, e2, e3, e4, e5, e6, e7⟩ :=
      enqueue_spec { c with accepted := c.accepted ++ b } b (by simpa using h.offs)
    refine inv_post _ ⟨?_, ?_, ?_, e4⟩
    · intro _
      rw [e1, e5, e6]
      have := h.integ hnc
      simp [← this, List.append_assoc]
    · rw [e5, e6]
      exact List.IsPrefix.trans h.pref (List.prefix_append _ _)
    · intro _
      rw [e2, e3]
      have := h.acct hnc
      simp at this ⊢
      omega

theorem inv_flush (ks : List KAns) : ∀ (c : Conn), Inv c → Inv (flush c ks) := by
  induction ks with
  | nil => intro c h; simpa [flush] using h
  | cons k ks ih =>
    intro c h
    unfold flush
    split
    · exact h
    rename_i hc
    have hnc : ¬ c.closed = true := hc
    split
    · exact inv_arm _ _ h
    rename_i hd tl hwl
    have hoff : hd.off ≤ hd.data.length := h.offs hd (by simp [hwl])
    have hint := h.integ hnc
    have hacct := h.acct hnc
    simp only [hwl, pending, List.map_cons, List.flatten_cons, Item.rest, unsent, List.sum_cons] at hint hacct
    split
    · exact h
    · exact ih c h
    · exact inv_closeNow c h
    · rename_i n0
      simp only
      split
      · exact ih c h
      · rename_i hn0
        generalize hn : min n0 (hd.data.drop hd.off).length = n at *
        have hnle : n ≤ hd.data.length - hd.off := by subst hn; simp; omega
        split
        · -- head fully sent
          rename_i hfull
          have hI : Inv { c with wire := c.wire ++ (hd.data.drop hd.off).take n, left := c.left - n, wl := tl } := by
            constructor
            · intro _
              simp only [pending]
              rw [← hint, hfull, List.take_length]
              simp [List.append_assoc]
            · simp only
              rw [← hint, hfull, List.take_length]
              simp
            · intro _
              simp only [unsent]
              rw [hacct]
              simp at hfull
              omega
            · intro t ht; exact h.offs t (by simp [hwl, ht])
          split
          · exact inv_arm _ _ hI
          · exact ih _ hI
        · rename_i hpart
          apply ih
          constructor
          · intro _
            simp only [pending, List.map_cons, List.flatten_cons, Item.rest]
            rw [← hint]
            have e : hd.data.drop (hd.off + n) = (hd.data.drop hd.off).drop n := by
              rw [List.drop_drop]
            simp only [List.append_assoc, e]
            rw [← List.append_assoc (List.take n _), List.take_append_drop]
          · show c.wire ++ List.take n (List.drop hd.off hd.data) <+: c.accepted
            rw [← hint]
            exact (List.prefix_append_right_inj _).mpr
              (List.IsPrefix.trans (List.take_prefix _ _) (List.prefix_append _ _))
          · intro _
            simp only [unsent, List.map_cons, List.sum_cons]
            rw [hacct]
            omega
          · intro t ht
            simp at ht
            rcases ht with ht | ht
            · subst ht; simp at hpart ⊢; omega
            · exact h.offs t (by simp [hwl, ht])

theorem inv_run (g : Cfg) (hs : g.stream = true) (ops : List Op) : ∀ (c : Conn), Inv c → Inv (run g c ops) := by
  induction ops with
  | nil => intro c h; exact h
  | cons op ops ih =>
    intro c h
    simp only [run, List.foldl_cons]
    apply ih
    cases op with
    | write b k => exact inv_write g c b k hs h
    | flush ks => exact inv_flush ks c h

/-- C01/C17 (probe form): for every bound, every op sequence and all kernel answers, on a stream conn:
    what the kernel got plus what is still queued is exactly what the calls accepted, and the
    backlog counter equals the unsent queued bytes. -/
theorem c01_integrity (m : Nat) (ops : List Op) :
    let c := run ⟨true, m⟩ init ops
    (¬ c.closed → c.wire ++ pending c.wl = c.accepted) ∧ c.wire <+: c.accepted ∧
    (¬ c.closed → c.left = unsent c.wl) := by
  have h := inv_run ⟨true, m⟩ rfl ops init inv_init
  exact ⟨h.integ, h.pref, h.acct⟩

/-- the `c.typ == ConnTypeTCP` branch: on the non-queuing type a short direct write loses bytes -/
theorem c01_counterexample_unix :
    let c := run ⟨false, 0⟩ init [.write [1, 2, 3] (.wrote 1)]
    ¬ c.closed ∧ c.wire ++ pending c.wl ≠ c.accepted := by
  decide

end ConnW
