import NbioVerif.Model.Own
/-! M11 Ownership, websocket: length-abstracted twin of `websocket.Conn` (nbhttp/websocket/conn.go) as a
transition system at critical-section granularity over the ownership heap.

* send path: `WriteMessage`/`writeFrame` (one locked section for all fragments of a message): direct
  `conn.Write` + `Free`, or the async send queue — append to `sendQueue`, the head spawns the sender
  goroutine whose program is `Write(*pbuf)` (outside the lock; the kernel reads the buffer for the whole
  duration: `dStart` … `dEnd`), `Free(pbuf)` (`dFree`), then one locked section that takes the next slot
  and clears it (`dAdvance`);
* `CloseAndClean` (one locked section): frees every non-nil slot, `bytesCached`, `message`;
* receive path: `Parse` — append to `bytesCached` (`rxAppend`), per complete frame one locked section
  (`rxFrame`: frame copy for OnDataFrame, message assembly, control payload, cache release/shift) that leaves
  payload buffers in local variables (`held`), then the handlers outside the lock (`rxHandle`: each payload
  is freed iff ReleasePayload; a ping makes the default handler send a pong = `send`).

What the bytes decide (frame boundaries, opcodes, validity) is the environment answer `FrameInfo`.
With a queued executor (`rxQueue`, `jobRun`) the payload is handed over to the job instead of being handled inside Parse.
Actions that are not enabled in a state are no-ops, so EVERY list of actions is an interleaving of the
reader, the writers, the sender goroutine and the closer that the Go code allows or a prefix of one. -/
namespace OwnW
open Own (Heap Ev Bad)

structure Cfg where
  async : Bool := false
  qmax : Nat := 0          -- BlockingModSendQueueMaxSize, 0 = unbounded
  rp : Bool := false       -- ReleasePayload
  df : Bool := false       -- an OnDataFrame handler is installed

/-- where the sender goroutine is in its program -/
inductive DPhase | idle | ready | writing | wrote (ok : Bool) | advance
  deriving DecidableEq, Repr

structure S where
  cache : Option (Nat × Nat) := none       -- bytesCached (id, len)
  message : Option (Nat × Nat) := none     -- message under assembly
  qtaken : Nat := 0                        -- sendQueue: number of leading slots that are nil (taken or cleared) ...
  qrest : List Nat := []                   -- ... followed by these frames, in order (the sender goroutine's index
                                           --     i always equals qtaken - 1: it takes the slots in order)
  inflight : Option Nat := none            -- the sender goroutine's pbuf
  phase : DPhase := .idle
  held : List Nat := []                    -- payloads in Parse's local variables, in handler order
  jobs : List Nat := []                    -- payloads handed over to handler jobs the executor has queued (FIFO):
                                           --     the job owns its payload until it has run
  closed : Bool := false
  heap : Heap := {}

/-! ### send path -/

def qlen (s : S) : Nat := s.qtaken + s.qrest.length

/-- writeFrame with a frame of `size` bytes; `ok` = answer of a direct conn write. Returns false on error
(queue full, conn error): WriteMessage stops sending fragments -/
def writeFrame (g : Cfg) (s : S) (size : Nat) (ok : Bool) : S × Bool :=
  let m := s.heap.malloc size
  let h := m.1.touch m.2 none
  if g.async then
    if g.qmax > 0 && qlen s ≥ g.qmax then ({ s with heap := h.free m.2 }, false)
    else if qlen s == 0 then
      -- head: the slot is cleared at once and the sender goroutine starts with this frame
      ({ s with heap := h, qtaken := 1, qrest := [], inflight := some m.2, phase := .ready }, true)
    else ({ s with heap := h, qrest := s.qrest ++ [m.2] }, true)
  else
    let h := h.touch m.2 (some (.write (some m.2)))
    ({ s with heap := h.free m.2 }, ok)

def sendFrames (g : Cfg) : S → List (Nat × Bool) → S
  | s, [] => s
  | s, (size, ok) :: rest =>
    let r := writeFrame g s size ok
    if r.2 then sendFrames g r.1 rest else r.1

/-- WriteMessage: all fragments under one lock; a data message (`ctl = false`) is queued whole or not at
all — the room for all its fragments is checked first -/
def send (g : Cfg) (s : S) (ctl : Bool) (frames : List (Nat × Bool)) : S :=
  if s.closed then s
  else if !ctl && g.async && g.qmax > 0 && qlen s + frames.length > g.qmax then s
  else sendFrames g s frames

/-- the sender goroutine enters conn.Write -/
def dStart (s : S) : S :=
  match s.phase, s.inflight with
  | .ready, some id => { s with phase := .writing, heap := s.heap.touch id (some (.write (some id))) }
  | _, _ => s

/-- conn.Write returns: the kernel has been reading the buffer until now -/
def dEnd (s : S) (ok : Bool) : S :=
  match s.phase, s.inflight with
  | .writing, some id => { s with phase := .wrote ok, heap := s.heap.touch id none }
  | _, _ => s

/-- Free(pbuf); on a write error the goroutine leaves (CloseWithError only schedules the close) -/
def dFree (s : S) : S :=
  match s.phase, s.inflight with
  | .wrote ok, some id =>
    { s with heap := s.heap.free id, inflight := none, phase := if ok then .advance else .idle }
  | _, _ => s

/-- the locked section that takes the next frame: closed → leave; queue exhausted → reset and leave; else
take the next slot and clear it -/
def dAdvance (s : S) : S :=
  match s.phase with
  | .advance =>
    if s.closed then { s with phase := .idle }
    else
      match s.qrest with
      | [] => { s with phase := .idle, qtaken := 0 }
      | id :: rest => { s with qtaken := s.qtaken + 1, qrest := rest, inflight := some id, phase := .ready }
  | _ => s

def freeIds (h : Heap) : List Nat → Heap
  | [] => h
  | id :: rest => freeIds (h.free id) rest

def freeOpt (h : Heap) : Option (Nat × Nat) → Heap
  | some (id, _) => h.free id
  | none => h

/-- CloseAndClean -/
def close (s : S) : S :=
  if s.closed then s else
  { s with closed := true, qtaken := s.qtaken + s.qrest.length, qrest := [], cache := none, message := none,
           heap := freeOpt (freeOpt (freeIds s.heap s.qrest) s.cache) s.message }

/-! ### receive path -/

/-- Parse entry: append the segment to bytesCached -/
def rxAppend (s : S) (n : Nat) : S :=
  if s.closed || n == 0 then s else
  match s.cache with
  | none =>
    let m := s.heap.malloc n
    { s with cache := some (m.2, n), heap := m.1.touch m.2 none }
  | some (id, len) => { s with cache := some (id, len + n), heap := s.heap.touch id (some (.append id)) }

/-- what `nextFrame` found at the head of the cache -/
structure FrameInfo where
  total : Nat        -- bytes of the whole frame
  bl : Nat           -- payload length
  control : Bool     -- ping / pong / close
  fin : Bool

/-- payload copies read the cache; the frame copy for the data-frame handler -/
def rxCopy (g : Cfg) (h : Heap) (cid : Nat) (f : FrameInfo) : Heap × List Nat :=
  let h := if f.bl > 0 then h.touch cid none else h
  if !f.control && f.bl > 0 && g.df then
    let m := h.malloc f.bl
    (m.1.touch m.2 none, [m.2])
  else (h, [])

/-- the payload of a data frame joins the message under assembly -/
def rxGrow (h : Heap) (msg : Option (Nat × Nat)) (bl : Nat) : Heap × Option (Nat × Nat) :=
  if bl > 0 then
    match msg with
    | none =>
      let m := h.malloc bl
      (m.1.touch m.2 none, some (m.2, bl))
    | some (mid, ml) => (h.touch mid (some (.append mid)), some (mid, ml + bl))
  else (h, msg)

/-- message assembly / control payload: (heap, message field, payloads handed to the handlers) -/
def rxAssemble (h : Heap) (msg : Option (Nat × Nat)) (f : FrameInfo) : Heap × Option (Nat × Nat) × List Nat :=
  if f.control then
    if f.bl > 0 then
      let m := h.malloc f.bl
      (m.1.touch m.2 none, msg, [m.2])
    else (h, msg, [])
  else
    let p := rxGrow h msg f.bl
    if f.fin then
      match p.2 with
      | some (mid, _) => (p.1, none, [mid])
      | none =>
        let m := p.1.malloc 0
        (m.1, none, [m.2])
    else (p.1, p.2, [])

/-- the frame leaves the cache -/
def rxRelease (h : Heap) (cid clen total : Nat) : Heap × Option (Nat × Nat) :=
  if clen == total then (h.free cid, none) else (h.touch cid none, some (cid, clen - total))

/-- one iteration of Parse's loop for a complete, valid frame (the locked section) -/
def rxFrame (g : Cfg) (s : S) (f : FrameInfo) : S :=
  if s.closed then s else
  match s.cache with
  | none => s
  | some (cid, clen) =>
    if clen < f.total || f.total == 0 then s else
    let a := rxCopy g s.heap cid f
    let b := rxAssemble a.1 s.message f
    let c := rxRelease b.1 cid clen f.total
    { s with heap := c.1, cache := c.2, message := b.2.1, held := s.held ++ b.2.2 ++ a.2 }

/-- handleMessage / handleDataFrame for the oldest payload in a local variable: the default ping handler
sends the pong while the payload is still held; the payload is freed iff ReleasePayload -/
def rxHandle (g : Cfg) (s : S) (isPing : Bool) (pongFrame : Nat × Bool) : S :=
  match s.held with
  | [] => s
  | id :: rest =>
    let s := if isPing then send g s true [pongFrame] else s
    let h := s.heap.touch id none
    { s with held := rest, heap := if g.rp then h.free id else h }

/-- handleMessage / handleDataFrame on a conn served by a poller: `c.Execute` only QUEUES the job; the oldest payload
in a local variable is handed over to the job (ownership transfer: nothing is freed now, whatever ReleasePayload says) -/
def rxQueue (s : S) : S :=
  match s.held with
  | [] => s
  | id :: rest => { s with held := rest, jobs := s.jobs ++ [id] }

/-- the executor runs the oldest queued job, at any later time (after Parse returned, after further Parse calls, after
CloseAndClean): the handler reads the payload (a ping: the default handler sends the pong), then the job frees it iff
ReleasePayload -/
def jobRun (g : Cfg) (s : S) (isPing : Bool) (pongFrame : Nat × Bool) : S :=
  match s.jobs with
  | [] => s
  | id :: rest =>
    let s := if isPing then send g s true [pongFrame] else s
    let h := s.heap.touch id none
    { s with jobs := rest, heap := if g.rp then h.free id else h }

inductive Act
  | send (ctl : Bool) (frames : List (Nat × Bool)) | dStart | dEnd (ok : Bool) | dFree | dAdvance | close
  | rxAppend (n : Nat) | rxFrame (f : FrameInfo) | rxHandle (isPing : Bool) (pong : Nat × Bool)
  | rxQueue | jobRun (isPing : Bool) (pong : Nat × Bool)

def step (g : Cfg) (s : S) : Act → S
  | .send ctl fr => send g s ctl fr
  | .dStart => dStart s
  | .dEnd ok => dEnd s ok
  | .dFree => dFree s
  | .dAdvance => dAdvance s
  | .close => close s
  | .rxAppend n => rxAppend s n
  | .rxFrame f => rxFrame g s f
  | .rxHandle p pf => rxHandle g s p pf
  | .rxQueue => rxQueue s
  | .jobRun p pf => jobRun g s p pf

def run (g : Cfg) (s : S) (acts : List Act) : S := acts.foldl (step g) s

end OwnW
