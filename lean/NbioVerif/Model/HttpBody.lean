/-! `BodyReader` (nbhttp/body.go) at byte level: `append`, `Read`, `Close`, `RawBodyBuffers`, pool release/reuse.

    The allocator (`engine.BodyAllocator`) is environment: `Malloc(n)` returns a buffer of length n whose *capacity*
    (≥ n) the allocator chooses — an explicit input of `append`, because `append` fills the spare capacity of the last
    buffer before allocating a new one. Allocator traffic is part of the output (`AllocEv`), for the ownership view. -/
namespace HttpBody

abbrev Bytes := List UInt8

/-- one `*[]byte` held by the reader -/
structure Buf where
  id : Nat              -- allocation identity
  data : Bytes          -- `(*pbuf)[:len]`
  cap : Nat             -- `cap(*pbuf)`
  deriving DecidableEq, Repr

inductive AllocEv
  | malloc (id n cap : Nat)
  | free (id : Nat)
  deriving DecidableEq, Repr

/-- the fields of `BodyReader` (the engine's `MaxHTTPBodySize` is a parameter of `append`) -/
structure BR where
  index : Nat := 0            -- read index into the first buffer
  left : Nat := 0             -- bytes appended and not yet read
  buffers : List Buf := []
  closed : Bool := false
  nextId : Nat := 0           -- ghost: next allocation identity
  deriving DecidableEq, Repr

/-- `BodyReader.append(data)`; the (at most one) buffer this call allocates gets capacity `len + extra`, `extra` being
    the allocator's choice. `none` = `ErrTooLong`. -/
def append (maxBody : Nat) (br : BR) (data : Bytes) (extra : Nat) : Option (BR × List AllocEv) :=
  if data = [] then some (br, [])
  else if maxBody > 0 ∧ data.length + br.left > maxBody then none
  else
    let br := { br with left := br.left + data.length }
    match br.buffers.getLast? with
    | none =>
      let c := data.length + extra
      some ({ br with buffers := [⟨br.nextId, data, c⟩], nextId := br.nextId + 1 }, [.malloc br.nextId data.length c])
    | some last =>
      let spare := last.cap - last.data.length
      let n := min spare data.length                     -- `copy((*pbuf)[l:], data)` after growing the length
      let last' := { last with data := last.data ++ data.take n }
      let bufs := br.buffers.dropLast ++ [last']
      let rest := data.drop n
      if rest = [] then some ({ br with buffers := bufs }, [])
      else
        let c := rest.length + extra
        some ({ br with buffers := bufs ++ [⟨br.nextId, rest, c⟩], nextId := br.nextId + 1 },
              [.malloc br.nextId rest.length c])

/-- the `for ncopy < need && br.left > 0` loop of `Read`; fuel makes it structurally recursive
    (`readLoop_fuel`: it never runs out). Result: reader, bytes copied, `io.EOF`?, allocator traffic. -/
def readLoop : Nat → BR → Nat → Bytes → List AllocEv → Option (BR × Bytes × Bool × List AllocEv)
  | 0, _, _, _, _ => none
  | fuel + 1, br, need, out, evs =>
    if out.length < need ∧ br.left > 0 then
      match br.buffers with
      | [] => some ({ br with left := 0 }, out, out.isEmpty, evs)   -- `left` and `buffers` diverged: give up
      | b :: bs =>
        if br.index ≥ b.data.length then
          readLoop fuel { br with buffers := bs, index := 0 } need out (evs ++ [.free b.id])
        else
          let nc := min (need - out.length) (b.data.length - br.index)
          let chunk := (b.data.drop br.index).take nc
          if nc + br.index ≥ b.data.length then
            readLoop fuel { br with buffers := bs, index := 0, left := br.left - nc } need (out ++ chunk)
              (evs ++ [.free b.id])
          else
            readLoop fuel { br with index := br.index + nc, left := br.left - nc } need (out ++ chunk) evs
    else some (br, out, false, evs)

/-- `Read(p)` with `len(p) = need`: (reader, bytes copied, io.EOF?, allocator traffic); `none` = out of fuel -/
def read (br : BR) (need : Nat) : Option (BR × Bytes × Bool × List AllocEv) :=
  if br.closed then some (br, [], true, [])
  else if br.left = 0 then some (br, [], true, [])
  else readLoop (2 * br.buffers.length + need + 2) br need [] []

/-- `Close()` -/
def close (br : BR) : BR × List AllocEv :=
  if br.closed then (br, [])
  else ({ br with closed := true, buffers := [], left := 0, index := 0 }, br.buffers.map fun b => .free b.id)

/-- `RawBodyBuffers()` -/
def rawBuffers (br : BR) : List Bytes :=
  match br.buffers with
  | [] => []
  | b :: bs => b.data.drop br.index :: bs.map (·.data)

/-- `releaseRequest`: `Close`, `*br = emptyBodyReader`, back to the pool; `NewBodyReader` resets every field -/
def recycle (br : BR) : BR × List AllocEv :=
  let (br', evs) := close br
  ({ nextId := br'.nextId }, evs)

/-- the bytes appended and not yet read -/
def content (br : BR) : Bytes := ((br.buffers.map (·.data)).flatten).drop br.index

end HttpBody
