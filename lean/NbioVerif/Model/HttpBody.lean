/-! `BodyReader` (nbhttp/body.go) at byte level: `append`, `Read`, `Close`, `RawBodyBuffers`, pool release/reuse.

    The allocator (`engine.BodyAllocator`) is environment: `Malloc(n)` returns a buffer of length n whose *capacity*
    (≥ n) the allocator chooses — an explicit input of `append`, because `append` fills the spare capacity of the last
    buffer before allocating a new one. Allocator traffic is part of the output (`AllocEv`), for the ownership view. -/
namespace HttpBody

abbrev Bytes := List UInt8

/-- one `*[]byte` held by the reader -/
structure Buf where
  id : Nat              -- allocation identity
  data : Bytes          -- `(*pbuf)[:len]`
  cap : Nat             -- `cap(*pbuf)`
  deriving DecidableEq, Repr

inductive AllocEv
  | malloc (id n cap : Nat)
  | free (id : Nat)
  deriving DecidableEq, Repr

/-- the fields of `BodyReader` (the engine's `MaxHTTPBodySize` is a parameter of `append`) -/
structure BR where
  index : Nat := 0            -- read index into the first buffer
  left : Nat := 0             -- bytes appended and not yet read
  buffers : List Buf := []
  closed : Bool := false
  nextId : Nat := 0           -- ghost: next allocation identity
  deriving DecidableEq, Repr

/-- the buffer part of `append`: fill the spare capacity of the last buffer (`copy((*pbuf)[l:], data)` after growing
    its length), put what remains into one new buffer of capacity `len + extra`. Written by recursion on the buffer list
    (the Go code indexes the last element). `data ≠ []`. -/
def appendBufs : List Buf → Bytes → Nat → Nat → List Buf × List AllocEv
  | [], data, extra, id => ([⟨id, data, data.length + extra⟩], [.malloc id data.length (data.length + extra)])
  | [last], data, extra, id =>
    let n := min (last.cap - last.data.length) data.length
    let last' := { last with data := last.data ++ data.take n }
    let rest := data.drop n
    if rest = [] then ([last'], [])
    else ([last', ⟨id, rest, rest.length + extra⟩], [.malloc id rest.length (rest.length + extra)])
  | b :: b' :: bs, data, extra, id =>
    let r := appendBufs (b' :: bs) data extra id
    (b :: r.1, r.2)

/-- `BodyReader.append(data)`; the (at most one) buffer this call allocates gets capacity `len + extra`, `extra` being
    the allocator's choice. `none` = `ErrTooLong`. -/
def append (maxBody : Nat) (br : BR) (data : Bytes) (extra : Nat) : Option (BR × List AllocEv) :=
  if data = [] then some (br, [])
  else if maxBody > 0 ∧ data.length + br.left > maxBody then none
  else
    let r := appendBufs br.buffers data extra br.nextId
    some ({ br with left := br.left + data.length, buffers := r.1, nextId := br.nextId + r.2.length }, r.2)

/-- the `for ncopy < need && br.left > 0` loop of `Read`; fuel makes it structurally recursive
    (`readLoop_fuel`: it never runs out). Result: reader, bytes copied, `io.EOF`?, allocator traffic. -/
def readLoop : Nat → BR → Nat → Bytes → List AllocEv → Option (BR × Bytes × Bool × List AllocEv)
  | 0, _, _, _, _ => none
  | fuel + 1, br, need, out, evs =>
    if out.length < need ∧ br.left > 0 then
      match br.buffers with
      | [] => some ({ br with left := 0 }, out, out.isEmpty, evs)   -- `left` and `buffers` diverged: give up
      | b :: bs =>
        if br.index ≥ b.data.length then
          readLoop fuel { br with buffers := bs, index := 0 } need out (evs ++ [.free b.id])
        else
          let nc := min (need - out.length) (b.data.length - br.index)
          let chunk := (b.data.drop br.index).take nc
          if nc + br.index ≥ b.data.length then
            readLoop fuel { br with buffers := bs, index := 0, left := br.left - nc } need (out ++ chunk)
              (evs ++ [.free b.id])
          else
            readLoop fuel { br with index := br.index + nc, left := br.left - nc } need (out ++ chunk) evs
    else some (br, out, false, evs)

/-- `Read(p)` with `len(p) = need`: (reader, bytes copied, io.EOF?, allocator traffic); `none` = out of fuel -/
def read (br : BR) (need : Nat) : Option (BR × Bytes × Bool × List AllocEv) :=
  if br.closed then some (br, [], true, [])
  else if br.left = 0 then some (br, [], true, [])
  else readLoop (2 * br.buffers.length + need + 2) br need [] []

/-- `Close()` -/
def close (br : BR) : BR × List AllocEv :=
  if br.closed then (br, [])
  else ({ br with closed := true, buffers := [], left := 0, index := 0 }, br.buffers.map fun b => .free b.id)

/-- `RawBodyBuffers()` -/
def rawBuffers (br : BR) : List Bytes :=
  match br.buffers with
  | [] => []
  | b :: bs => b.data.drop br.index :: bs.map (·.data)

/-- `releaseRequest`: `Close`, `*br = emptyBodyReader`, back to the pool; `NewBodyReader` resets every field -/
def recycle (br : BR) : BR × List AllocEv :=
  let (br', evs) := close br
  ({ nextId := br'.nextId }, evs)

/-- the bytes appended and not yet read -/
def content (br : BR) : Bytes := ((br.buffers.map (·.data)).flatten).drop br.index

end HttpBody
