/-! probe: the AsyncRead gate with a saturating increment (the planned repair): no lost edge, counter in {0,1,2},
    at most one task, every unread byte is owed a read — for all interleavings -/
namespace GateFix

inductive T | none | queued | reading | atDec deriving DecidableEq, Repr

structure St where
  kq : Nat := 0          -- bytes in the kernel receive queue
  edge : Bool := false   -- undelivered ET readiness
  re : Nat := 0          -- readEvents
  task : T := .none
  delivered : Nat := 0
  sent : Nat := 0        -- ghost: bytes the peer has sent so far
  deriving DecidableEq, Repr

inductive Act | arrive (n : Nat) | pollEvent | taskStart | taskRead (bufSize : Nat) | taskDec
  deriving Repr

def step (s : St) : Act → Option St
  | .arrive n => if n = 0 then none else some { s with kq := s.kq + n, sent := s.sent + n, edge := true }
  | .pollEvent =>
    if s.edge then
      let s := { s with edge := false }
      if s.re ≥ 2 then some s                                   -- saturated: nothing to do
      else if s.re = 1 then some { s with re := 2 }             -- running task will loop once more
      else some { s with re := 1, task := .queued }             -- first event: start a task
    else none
  | .taskStart => if s.task == .queued then some { s with task := .reading } else none
  | .taskRead b =>
    if s.task == .reading ∧ b > 0 then
      if s.kq = 0 then some { s with task := .atDec }           -- EAGAIN
      else
        let n := min s.kq b
        let s := { s with kq := s.kq - n, delivered := s.delivered + n }
        if n < b then some { s with task := .atDec } else some s
    else none
  | .taskDec =>
    if s.task == .atDec then
      if s.re - 1 = 0 then some { s with re := s.re - 1, task := .none } else some { s with re := s.re - 1, task := .reading }
    else none

/-- the task still owes at least one read from this point on -/
def owed (s : St) : Prop := s.task = .queued ∨ s.task = .reading ∨ (s.task = .atDec ∧ s.re ≥ 2)

structure Inv (s : St) : Prop where
  range   : s.re ≤ 2
  alive   : s.task = .none ↔ s.re = 0
  nolost  : s.kq > 0 → s.edge = true ∨ owed s
  account : s.delivered + s.kq = s.sent

theorem inv_init : Inv {} := by
  constructor <;> simp [owed]

theorem inv_step (s s' : St) (a : Act) (h : Inv s) (hs : step s a = some s') : Inv s' := by
  obtain ⟨h1, h2, h3, h4⟩ := h
  cases a with
  | arrive n =>
    simp only [step] at hs
    split at hs
    · cases hs
    · cases hs
      exact ⟨h1, h2, fun _ => Or.inl rfl, by simp; omega⟩
  | pollEvent =>
    simp only [step] at hs
    split at hs
    · rename_i he
      split at hs
      · rename_i hre
        cases hs
        have hre2 : s.re = 2 := by simp at hre; omega
        refine ⟨h1, h2, ?_, h4⟩
        intro hk
        rcases h3 hk with _ | ho
        · -- edge consumed; the task is alive with re = 2
          have hne : s.task ≠ .none := fun hn => by have := h2.mp hn; omega
          right
          unfold owed
          cases ht : s.task with
          | none => exact absurd ht hne
          | queued => exact Or.inl rfl
          | reading => exact Or.inr (Or.inl rfl)
          | atDec => exact Or.inr (Or.inr ⟨rfl, by simp; omega⟩)
        · exact Or.inr ho
      · split at hs
        · rename_i hre hre1
          cases hs
          have hne : s.task ≠ .none := fun hn => by have := h2.mp hn; omega
          refine ⟨by simp, ?_, ?_, h4⟩
          · simp only; constructor
            · intro hn; exact absurd hn hne
            · intro h0; simp at h0
          · intro _
            right
            unfold owed
            cases ht : s.task with
            | none => exact absurd ht hne
            | queued => exact Or.inl rfl
            | reading => exact Or.inr (Or.inl rfl)
            | atDec => exact Or.inr (Or.inr ⟨rfl, by simp⟩)
        · rename_i hre hre1
          cases hs
          refine ⟨by simp, by simp, fun _ => Or.inr (Or.inl rfl), h4⟩
    · cases hs
  | taskStart =>
    simp only [step] at hs
    split at hs
    · rename_i ht
      cases hs
      have htq : s.task = .queued := by simpa using ht
      refine ⟨h1, ?_, ?_, h4⟩
      · simp only; constructor
        · intro hn; cases hn
        · intro h0; have := h2.mpr h0; rw [htq] at this; cases this
      · intro _; exact Or.inr (Or.inr (Or.inl rfl))
    · cases hs
  | taskRead b =>
    simp only [step] at hs
    split at hs
    · rename_i ht
      have htr : s.task = .reading := by simpa using ht.1
      split at hs
      · rename_i hk0
        cases hs
        refine ⟨h1, ?_, ?_, h4⟩
        · simp only; constructor
          · intro hn; cases hn
          · intro h0; have := h2.mpr h0; rw [htr] at this; cases this
        · intro hk; simp only at hk; omega
      · rename_i hk0
        split at hs
        · rename_i hlt
          cases hs
          refine ⟨h1, ?_, ?_, by simp; omega⟩
          · simp only; constructor
            · intro hn; cases hn
            · intro h0; have := h2.mpr h0; rw [htr] at this; cases this
          · intro hk
            -- short read: the queue was emptied
            simp only at hk
            have : min s.kq b = s.kq := by omega
            omega
        · cases hs
          refine ⟨h1, ?_, ?_, by simp; omega⟩
          · simp only; rw [htr]; constructor
            · intro hn; cases hn
            · intro h0; have := h2.mpr h0; rw [htr] at this; cases this
          · intro _; exact Or.inr (Or.inr (Or.inl htr))
    · cases hs
  | taskDec =>
    simp only [step] at hs
    split at hs
    · rename_i ht
      have hta : s.task = .atDec := by simpa using ht
      have hre : s.re ≠ 0 := fun h0 => by have := h2.mpr h0; rw [hta] at this; cases this
      split at hs
      · rename_i h10
        cases hs
        have hre1 : s.re = 1 := by omega
        refine ⟨by simp; omega, by simp; omega, ?_, h4⟩
        intro hk
        rcases h3 hk with he | ho
        · exact Or.inl he
        · unfold owed at ho
          rcases ho with ho | ho | ho
          · rw [hta] at ho; cases ho
          · rw [hta] at ho; cases ho
          · omega
      · rename_i h10
        cases hs
        refine ⟨by simp; omega, ?_, fun _ => Or.inr (Or.inr (Or.inl rfl)), h4⟩
        simp only; constructor
        · intro hn; cases hn
        · intro h0; omega
    · cases hs

def run (s : St) : List Act → St
  | [] => s
  | a :: as => match step s a with
    | some s' => run s' as
    | none => run s as

theorem inv_run (as : List Act) : ∀ s, Inv s → Inv (run s as) := by
  induction as with
  | nil => intro s h; exact h
  | cons a as ih =>
    intro s h
    simp only [run]
    split
    · rename_i s' hs; exact ih s' (inv_step s s' a h hs)
    · exact ih s h

/-- C02 (async gate, repaired form): for every interleaving of arrivals, poller events and task steps,
    nothing is delivered twice or out of thin air (`delivered + unread = sent`), the counter stays in
    {0,1,2}, a task exists exactly while the counter is non-zero, and unread bytes are never stranded:
    either a readiness notification is still pending or the running task owes another read. -/
theorem c02_gate (as : List Act) :
    let s := run {} as
    s.delivered + s.kq = s.sent ∧ s.re ≤ 2 ∧ (s.task = .none ↔ s.re = 0) ∧
    (s.kq > 0 → s.edge = true ∨ owed s) := by
  have h := inv_run as {} inv_init
  exact ⟨h.account, h.range, h.alive, h.nolost⟩

/-- quiescence: no task and no pending notification ⇒ everything sent has been delivered -/
theorem c02_quiescent_complete (as : List Act) :
    let s := run {} as
    s.task = .none → s.edge = false → s.delivered = s.sent := by
  intro s ht he
  have h := inv_run as {} inv_init
  have hk : s.kq = 0 := by
    by_cases hk : s.kq > 0
    · rcases h.nolost hk with h1 | h1
      · rw [he] at h1; cases h1
      · unfold owed at h1; rw [ht] at h1; rcases h1 with h1 | h1 | h1 <;> simp at h1
    · omega
  have hacc : s.delivered + s.kq = s.sent := h.account
  omega

end GateFix
