import NbioVerif.Model.Resp
/-! M11 Ownership, HTTP side: length-abstracted twins of the response writer (nbhttp/response.go,
releaseResponse in processor.go), of BodyReader (nbhttp/body.go) and of the parser's cache handling
(Parser.Parse / CloseAndClean in nbhttp/parser.go).

The branch decisions of those functions depend on buffer LENGTHS and flags, never on contents.  The
twins keep buffer ids and lengths, erase contents, and route every Malloc / Append / Free, every
conn.Write of a pooled buffer and every reslice through a heap with a live set.  What depends on
contents (is the response chunked, the Content-Length verdict, the length of the encoded head, where
the parser stopped) is an explicit environment answer (`Env`, op arguments) — the theorems quantify
over all of them.  The heap logs the same compact trace as harness/internal/track, so the trace of
the real code can be compared with the twin's. -/
namespace Own

inductive Ev
  | malloc (id size : Nat) | append (id : Nat) | free (id : Nat)
  | write (id : Option Nat) | wfile | doubleFree (id : Nat) | useAfterFree (id : Nat)
  deriving DecidableEq, Repr

inductive Bad | doubleFree (id : Nat) | useAfterFree (id : Nat)
  deriving DecidableEq, Repr

structure Heap where
  next : Nat := 1
  live : Nat → Bool := fun _ => false   -- the live set
  trace : List Ev := []                 -- newest first
  bad : Option Bad := none              -- the first ownership violation

namespace Heap

/-- consecutive appends to the same buffer are one event (as in the tracker) -/
def log (h : Heap) (e : Ev) : Heap :=
  match e, h.trace with
  | .append a, .append b :: _ => if a == b then h else { h with trace := e :: h.trace }
  | _, _ => { h with trace := e :: h.trace }

def flag (h : Heap) (b : Bad) : Heap := if h.bad.isNone then { h with bad := some b } else h

/-- Malloc(size): a fresh id -/
def malloc (h : Heap) (size : Nat) : Heap × Nat :=
  (({ h with next := h.next + 1, live := fun x => x == h.next || h.live x } : Heap).log (.malloc h.next size), h.next)

/-- any use of a buffer (append, read by a conn write, reslice): it must be live -/
def touch (h : Heap) (id : Nat) (e : Option Ev) : Heap :=
  if h.live id then (match e with | some e => h.log e | none => h)
  else (h.flag (.useAfterFree id)).log (.useAfterFree id)

/-- Free: the buffer must be live, and is not afterwards -/
def free (h : Heap) (id : Nat) : Heap :=
  if h.live id then ({ h with live := fun x => x != id && h.live x } : Heap).log (.free id)
  else (h.flag (.doubleFree id)).log (.doubleFree id)

end Heap

abbrev Buf := Nat × Nat      -- (id, len)

/-! ## response writer -/

structure O where
  buffer : Option Buf := none
  bodyBuffer : Option Buf := none
  bodyWritten : Nat := 0
  headEncoded : Bool := false
  attempts : Nat := 0
  heap : Heap := {}

/-- what the twin cannot know because it depends on contents -/
structure Env where
  failAt : Nat := 0          -- first failing conn write call, 0 = never
  sendfile : Bool := false
  chunked : Bool := false    -- Response.chunked after checkChunked
  cl : Option Nat := some 0  -- verdict of contentLength(): none = strconv error
  hl : Nat := 0              -- length of the head if eoncodeHead runs now
  trailerEmpty : Bool := true
  lastLen : Nat := 5         -- length of the last-chunk block

open Resp (maxPacket WRes RKind)

def O.malloc (o : O) (size : Nat) : O × Nat :=
  let (h, id) := o.heap.malloc size
  ({ o with heap := h }, id)
def O.touch (o : O) (id : Nat) (e : Option Ev := none) : O := { o with heap := o.heap.touch id e }
def O.append (o : O) (id : Nat) : O := o.touch id (some (.append id))
def O.free (o : O) (id : Nat) : O := { o with heap := o.heap.free id }

/-- one conn.Write call of `len` bytes lying in pooled buffer `src` (none = memory the pool never owned) -/
def send (e : Env) (o : O) (src : Option Nat) (len : Nat) : O × Bool :=
  let o := { o with attempts := o.attempts + 1 }
  let o := if len == 0 then o else
    match src with
    | some id => o.touch id (some (.write (some id)))
    | none => { o with heap := o.heap.log (.write none) }
  (o, !(e.failAt ≠ 0 && o.attempts ≥ e.failAt))

/-- Response.eoncodeHead: Malloc(1024), reslice, appends -/
def encodeHead (e : Env) (o : O) : O :=
  if o.headEncoded then o else
  let (o, id) := o.malloc 1024
  let o := o.append id
  { o with headEncoded := true, buffer := some (id, e.hl) }

def hexLen (l : Nat) : Nat := (Resp.fmtHex l).length

/-- writeChunk step 3 -/
def chunkTail (e : Env) (o : O) (id n0 l : Nat) : O × WRes :=
  let o := o.append id
  let n := n0 + l + 2
  if n < maxPacket then ({ o with buffer := some (id, n) }, .ok l)
  else
    let (o, ok) := send e o (some id) n
    let o := o.free id
    if ok then (o, .ok l) else (o, .errConn)

/-- Response.writeChunk (repaired: the head buffer is freed only on error, the fresh buffer is reset) -/
def writeChunk (e : Env) (o : O) (l : Nat) : O × WRes :=
  let o := encodeHead e o
  match o.buffer with
  | some (id, bl) =>
    let o := { o with buffer := none }
    if hexLen l + l + 4 + bl < maxPacket then
      let o := o.append id
      ({ o with buffer := some (id, bl + hexLen l + 2 + l + 2) }, .ok l)
    else
      let o := o.append id
      let (o, ok) := send e o (some id) (bl + hexLen l + 2)
      if ok then chunkTail e (o.touch id) id 0 l
      else (o.free id, .errConn)
  | none =>
    let (o, id) := o.malloc (hexLen l + l + 4)
    let o := (o.touch id).append id
    if hexLen l + l + 4 < maxPacket then
      ({ o with buffer := some (id, hexLen l + 2 + l + 2) }, .ok l)
    else chunkTail e o id (hexLen l + 2) l

/-- Write, paragraph `if cl > 0 {...}` -/
def takeHead (e : Env) (o : O) (l cl : Nat) : O × Bool :=
  if cl > 0 then
    let o := encodeHead e o
    let pbuf := o.buffer
    let o := { o with buffer := none }
    match pbuf with
    | none => (o, true)
    | some (id, bl) =>
      if bl + l < maxPacket then ({ o with bodyBuffer := some (id, bl) }, true)
      else
        let (o, ok) := send e o (some id) bl
        (o.free id, ok)
  else (o, true)

def appendTail (e : Env) (o : O) (id bl l cl : Nat) : O × WRes :=
  let o := o.append id
  let o := { o with bodyWritten := o.bodyWritten + l, bodyBuffer := some (id, bl + l) }
  if cl > 0 && bl + l ≥ maxPacket then
    let (o, ok) := send e o (some id) (bl + l)
    if ok then ({ o.touch id with bodyBuffer := some (id, 0) }, .ok l)
    else ({ o.free id with bodyBuffer := none }, .errConn)
  else (o, .ok l)

def sendDirect (e : Env) (o : O) (l : Nat) : O × WRes :=
  let (o, ok) := send e o none l
  if ok then (o, .ok l) else (o, .errConn)

/-- Write: "send the cached buffer first" (`bodyBuffer = some (id, bl)`) -/
def sendCached (e : Env) (o : O) (id bl : Nat) : O × Bool :=
  if bl > 0 then
    let (o, ok) := send e o (some id) bl
    let o := o.touch id
    if ok then ({ o with bodyBuffer := some (id, 0) }, true) else ({ o.free id with bodyBuffer := none }, false)
  else (o, true)

def appendBody (e : Env) (o : O) (l cl : Nat) : O × WRes :=
  match o.bodyBuffer with
  | none =>
    if cl > 0 && l ≥ maxPacket then sendDirect e { o with bodyWritten := o.bodyWritten + l } l
    else
      let (o, id) := o.malloc l
      appendTail e (o.touch id) id 0 l cl
  | some (id, bl) =>
    if cl > 0 && bl + l > maxPacket then
      match sendCached e o id bl with
      | (o, false) => (o, .errConn)
      | (o, true) =>
        if l ≥ maxPacket then
          sendDirect e { o.free id with bodyWritten := o.bodyWritten + l, bodyBuffer := none } l
        else appendTail e o id 0 l cl
    else appendTail e o id bl l cl

/-- Response.Write -/
def write (e : Env) (o : O) (l : Nat) : O × WRes :=
  if l == 0 then (o, .ok 0) else
  if e.chunked then writeChunk e o l else
  match e.cl with
  | none => (o, .errParse)
  | some cl =>
    if cl > 0 && o.bodyWritten + l > cl then (o, .errCL) else
    match takeHead e o l cl with
    | (o, false) => (o, .errConn)
    | (o, true) => appendBody e o l cl

def copyLoop (e : Env) : Nat → O → Nat → Nat → O × Nat × Bool
  | 0, o, _, w => (o, w, true)
  | f+1, o, rem, w =>
    if rem == 0 then (o, w, true) else
    let c := min rem 32768
    let (o, ok) := send e o none c
    if ok then copyLoop e f o (rem - c) (w + c) else (o, w, false)

/-- one Sendfile call -/
def sendFile (e : Env) (o : O) : O × Bool :=
  let o := { o with attempts := o.attempts + 1, heap := o.heap.log .wfile }
  (o, !(e.failAt ≠ 0 && o.attempts ≥ e.failAt))

/-- ReadFrom, first paragraph: conn.Write(*res.buffer); Free; nil — if the head buffer is still there -/
def sendHeadFirst (e : Env) (o : O) : O × Bool :=
  match o.buffer with
  | some (id, bl) =>
    let (o, ok) := send e o (some id) bl
    ({ o.free id with buffer := none }, ok)
  | none => (o, true)

/-- ReadFrom, second paragraph: the body buffer goes out first and is resliced to [:0] -/
def sendBodyFirst (e : Env) (o : O) : O × Bool :=
  match o.bodyBuffer with
  | some (id, bl) =>
    if bl > 0 then
      let (o, ok) := send e o (some id) bl
      ({ o.touch id with bodyBuffer := some (id, 0) }, ok)
    else (o, true)
  | none => (o, true)

def readCopy (e : Env) (o : O) (k : RKind) (n : Nat) : O × WRes :=
  if (k == .limited || k == .limitedMem) && n == 0 then (o, .ok 0) else
  if e.sendfile && (k == .file || k == .limited) then
    let (o, ok) := sendFile e o
    if ok then (o, .ok n) else (o, .errConn)
  else
    let (o, w, ok) := copyLoop e (n + 1) o n 0
    if ok then (o, .ok w) else (o, .errCopy w)

/-- Response.ReadFrom -/
def readFrom (e : Env) (o : O) (k : RKind) (n : Nat) : O × WRes :=
  let o := encodeHead e o
  let p := sendHeadFirst e o
  if !p.2 then (p.1, .errConn) else
  let q := sendBodyFirst e p.1
  if !q.2 then (q.1, .errConn) else readCopy e q.1 k n

/-- Flush, first paragraph: the head buffer -/
def flushBuf (e : Env) (o : O) : O :=
  match o.buffer with
  | some (id, bl) =>
    if bl > 0 then
      let (o, ok) := send e o (some id) bl
      if ok then { o.touch id with buffer := some (id, 0) } else { o.free id with buffer := none }
    else o
  | none => o

/-- Flush, second paragraph: the body buffer -/
def flushBodyBuf (e : Env) (o : O) : O :=
  match o.bodyBuffer with
  | some (id, bl) =>
    if bl > 0 then
      let (o, ok) := send e o (some id) bl
      if ok then { o.touch id with bodyBuffer := some (id, 0) } else { o.free id with bodyBuffer := none }
    else o
  | none => o

/-- Response.Flush -/
def flushOp (e : Env) (o : O) : O := flushBodyBuf e (flushBuf e (encodeHead e o))

/-- flush, identity: head and body buffer both pending (`buffer = some (hid, hl)`): send the head alone
and let the body buffer take its place, or append the body to the head -/
def mergeBody (e : Env) (o : O) (hid hl : Nat) : O × Bool :=
  match o.bodyBuffer with
  | some (bid, bl) =>
    if bl > 0 then
      if hl + bl > maxPacket then
        let (o, ok) := send e o (some hid) hl
        let o := { o.free hid with buffer := none }
        if ok then ({ o with buffer := some (bid, bl), bodyBuffer := none }, true)
        else ({ o.free bid with bodyBuffer := none }, false)
      else
        let o := (o.touch bid).append hid
        ({ o.free bid with buffer := some (hid, hl + bl), bodyBuffer := none }, true)
    else (o, true)
  | none => (o, true)

/-- conn.Write(*res.buffer); Free; nil -/
def sendFreeBuffer (e : Env) (o : O) : O × Bool :=
  match o.buffer with
  | some (id, n) =>
    let (o, ok) := send e o (some id) n
    ({ o.free id with buffer := none }, ok)
  | none => (o, true)

/-- the same for a non-empty body buffer -/
def sendFreeBody (e : Env) (o : O) : O × Bool :=
  match o.bodyBuffer with
  | some (id, n) =>
    if n > 0 then
      let (o, ok) := send e o (some id) n
      ({ o.free id with bodyBuffer := none }, ok)
    else (o, true)
  | none => (o, true)

/-- flush, identity: `if res.buffer != nil { if res.bodyBuffer != nil && len > 0 {...} ...` -/
def mergeStep (e : Env) (o : O) : O × Bool :=
  match o.buffer with
  | some (hid, hl) => mergeBody e o hid hl
  | none => (o, true)

/-- Response.flush, identity branch -/
def flushIdentity (e : Env) (o : O) : O × Bool :=
  let p := mergeStep e o
  if !p.2 then (p.1, false) else
  let q := sendFreeBuffer e p.1
  if !q.2 then (q.1, false) else sendFreeBody e q.1

/-- Response.flush, chunked branch -/
def flushChunked (e : Env) (o : O) : O × Bool :=
  match o.buffer with
  | some (id, bl) =>
    let o := ({ o with buffer := none } : O).append id
    let (o, ok) := send e o (some id) (bl + e.lastLen)
    (o.free id, ok)
  | none =>
    let (o, id) := o.malloc (if e.trailerEmpty then 0 else 512)
    let o := ((if e.trailerEmpty then o else o.touch id) : O).append id
    let (o, ok) := send e o (some id) e.lastLen
    (o.free id, ok)

def releaseBuf (o : O) : O :=
  match o.buffer with | some (id, _) => { o.free id with buffer := none } | none => o
def releaseBody (o : O) : O :=
  match o.bodyBuffer with | some (id, _) => { o.free id with bodyBuffer := none } | none => o
/-- releaseResponse -/
def release (o : O) : O := releaseBody (releaseBuf o)

/-- flushResponse up to `res.flush(conn)` -/
def finishFlush (e : Env) (o : O) : O × Bool :=
  let o := encodeHead e o
  if e.chunked then flushChunked e o else flushIdentity e o

/-- ServerProcessor.flushResponse (releaseRequest — which runs between the flush and releaseResponse —
touches the request's buffers only: `OwnBody.complete`) -/
def finish (e : Env) (o : O) : O × Bool :=
  let p := finishFlush e o
  (release p.1, p.2)

inductive Op
  | write (l : Nat) | flush | readFrom (k : RKind) (n : Nat) | finish

/-- one operation under the environment answers `e` -/
def step (e : Env) (o : O) : Op → O × Option WRes
  | .write l => let (o, w) := write e o l; (o, some w)
  | .flush => (flushOp e o, none)
  | .readFrom k n => let (o, w) := readFrom e o k n; (o, some w)
  | .finish => ((finish e o).1, none)

/-- a handler program with its environment answers (arbitrary per op) -/
def run : O → List (Env × Op) → O
  | o, [] => o
  | o, (e, op) :: rest => run (step e o op).1 rest

end Own

/-! ## the erasure: environment answers of the byte-level model `Resp` -/
namespace Own
open Resp (Cfg R)

/-- state in which `Response.Write` consults checkChunked / contentLength / eoncodeHead -/
def writeEnv (g : Cfg) (r : R) : Env :=
  let r1 := Resp.checkChunked g (Resp.writeHeader200 r)
  let r2 := { r1 with hasBody := true }
  let (r3, cl) := Resp.contentLength r2
  { failAt := g.failAt, sendfile := g.sendfile, chunked := r2.chunked, cl := cl,
    hl := if r2.chunked then (g.head r2).length else (g.head r3).length }

def flushEnv (g : Cfg) (r : R) : Env :=
  let r1 := Resp.checkChunked g (Resp.writeHeader200 r)
  let r2 := Resp.eoncodeHead g r1
  { failAt := g.failAt, sendfile := g.sendfile, chunked := r1.chunked, hl := (g.head r1).length,
    trailerEmpty := r2.trailer.isEmpty, lastLen := (Resp.lastChunk r2).length }

/-- Flush encodes the head after its close-delimiting decision -/
def flushOpEnv (g : Cfg) (r : R) : Env :=
  { flushEnv g r with hl := (g.head (Resp.markDelim (Resp.checkChunked g (Resp.writeHeader200 r)))).length }

def readFromEnv (g : Cfg) (r : R) : Env :=
  let r1 := { Resp.writeHeader200 r with hasBody := true }
  { failAt := g.failAt, sendfile := g.sendfile, hl := (g.head r1).length }

/-- the twin operation and environment that correspond to a byte-level operation (header operations
do not touch pooled buffers) -/
def eraseOp (g : Cfg) (r : R) : Resp.Op → Option (Env × Op)
  | .write d => some (writeEnv g r, .write d.length)
  | .flush => some (flushOpEnv g r, .flush)
  | .readFrom k d => some (readFromEnv g r, .readFrom k d.length)
  | _ => none

def eraseBuf (b : Option Resp.Bytes) : Option Nat := b.map (·.length)

/-- the simulation relation between the byte-level model and the twin: same buffers present with the same
lengths, same counters and flags.  No lemma proves that `Resp.step` and `Own.step ∘ eraseOp` preserve it; the
driver EVALUATES it after every operation of every case (a violation is printed and fails the comparison) and
prints the twin's owner fields, which are compared with the owner fields of the real Response. -/
def sim (r : R) (o : O) : Bool :=
  o.buffer.map (·.2) == eraseBuf r.buffer && o.bodyBuffer.map (·.2) == eraseBuf r.bodyBuffer &&
  o.bodyWritten == r.bodyWritten && o.headEncoded == r.headEncoded && o.attempts == r.attempts

def showOwn (o : O) : String :=
  let f : Option Buf → String := fun | some (id, n) => s!"{id}:{n}" | none => "-"
  s!"{f o.buffer}/{f o.bodyBuffer}"

def showEv : Ev → String
  | .malloc id n => s!"m{id}:{n}"
  | .append id => s!"a{id}"
  | .free id => s!"f{id}"
  | .write (some id) => s!"w{id}"
  | .write none => "w-"
  | .wfile => "wf"
  | .doubleFree id => s!"!df{id}"
  | .useAfterFree id => s!"!uaf{id}"

/-- the events logged since the heap had `n` events, oldest first, in the tracker's format -/
def traceSince (h : Heap) (n : Nat) : String :=
  let evs := (h.trace.take (h.trace.length - n)).reverse
  if evs.isEmpty then "-" else String.intercalate "," (evs.map showEv)

end Own
