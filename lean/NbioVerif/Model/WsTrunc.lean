import NbioVerif.Model.Ws
/-! `truncWriter` (compression.go): the writer between `flate.Writer` and the frame buffer that holds back the last four
    bytes of the deflate stream (the `00 00 ff ff` of the sync flush, which permessage-deflate leaves out). -/
namespace Ws

/-- `truncWriter.Write(c)` with `w` = the bytes held back so far (`w.p[:w.n]`): (bytes passed on, bytes held back after) -/
def twWrite (w c : Bytes) : Bytes × Bytes :=
  -- `if w.n < len(w.p) { n = copy(w.p[w.n:], p); p = p[n:]; w.n += n; if len(p) == 0 { return } }`
  let k := min (4 - w.length) c.length
  let w1 := w ++ c.take k
  let c1 := c.drop k
  if c1.length = 0 then ([], w1)
  else
    -- `m := min(len(p), 4); w.w.Write(w.p[:m]); copy(w.p[:], w.p[m:]); copy(w.p[4-m:], p[len(p)-m:]); w.w.Write(p[:len(p)-m])`
    let m := min c1.length 4
    (w1.take m ++ c1.take (c1.length - m), w1.drop m ++ c1.drop (c1.length - m))

/-- a sequence of `Write` calls: everything passed on, and what is held back at the end -/
def twWrites : Bytes → List Bytes → Bytes × Bytes
  | w, [] => ([], w)
  | w, c :: cs =>
    let r := twWrite w c
    let rs := twWrites r.2 cs
    (r.1 ++ rs.1, rs.2)

end Ws
