/-! C10 (c), pool level: `nbhttp.Client`'s per-host bookkeeping (nbhttp/client.go `hostConns.getConn`,
`releaseConn`, `Client.Do`).

`chConnss` is a buffered channel of capacity `maxConnNum` holding the ClientConns that are free;
`connNum` counts the ClientConns created.  `getConn`: (1) take a free one if there is one, else (2)
create one while `connNum < max`, else (3) block on the channel until one is released or the timer
fires.  `Client.Do` calls `hc.Reset()` (a ClientConn marked closed forgets its dead connection and
dials again) and `hc.Do`; the callback first does `releaseConn(hc)` = `chConnss <- hc`.

One model step = one of these atomic actions.  A send on a channel with blocked receivers hands the
value to the longest-waiting receiver (Go runtime), so `release` with a non-empty `waiting` list is a
direct hand-off.  Conns are numbered in creation order, requests in arrival order.  Core Lean only. -/
namespace ClientPool

structure St where
  count    : Nat := 0               -- connNum = number of ClientConns created
  idle     : List Nat := []         -- chConnss, oldest first
  busy     : List Nat := []         -- ClientConns handed to a request, callback not yet run
  waiting  : List Nat := []         -- requests blocked in step 3, oldest first
  dead     : List Nat := []         -- ClientConns whose `closed` flag is set (server closed, error)
  nreq     : Nat := 0               -- ghost: requests seen
  assigned : List (Nat × Nat) := [] -- ghost: (request, conn) in order of assignment
  failed   : List Nat := []         -- ghost: requests that got ErrClientTimeout
  redials  : List Nat := []         -- ghost: requests whose ClientConn was Reset (dials a new connection)
  deriving Repr, DecidableEq

inductive Op where
  | get                      -- a request enters getConn
  | release (c : Nat)        -- the callback of the request on ClientConn c runs: releaseConn
  | timeout (r : Nat)        -- the timer of blocked request r fires
  | connClosed (c : Nat)     -- ClientConn c is marked closed (closeByConn / CloseWithError)
  deriving Repr, DecidableEq

/-- hand ClientConn `c` to request `r`: `hc.Reset()` then `hc.Do` -/
def assign (s : St) (r c : Nat) : St :=
  { s with busy := s.busy ++ [c], assigned := s.assigned ++ [(r, c)],
           dead := s.dead.filter (· != c),
           redials := if s.dead.contains c then s.redials ++ [r] else s.redials }

def step (max : Nat) (s : St) : Op → Option St
  | .get =>
    let r := s.nreq
    let s := { s with nreq := r + 1 }
    match s.idle with
    | c :: rest => some (assign { s with idle := rest } r c)
    | [] =>
      if s.count < max then some (assign { s with count := s.count + 1 } r s.count)
      else some { s with waiting := s.waiting ++ [r] }
  | .release c =>
    -- exactly one callback per request (C10 (c), `c10_client_exactly_once`): only a busy conn is released
    if s.busy.contains c then
      let s := { s with busy := s.busy.erase c }
      match s.waiting with
      | r :: w => some (assign { s with waiting := w } r c)
      | [] => some { s with idle := s.idle ++ [c] }
    else none
  | .timeout r =>
    if s.waiting.contains r then some { s with waiting := s.waiting.erase r, failed := s.failed ++ [r] }
    else none
  | .connClosed c =>
    if c < s.count && !s.dead.contains c then some { s with dead := s.dead ++ [c] } else none

def run (max : Nat) : St → List Op → St
  | s, [] => s
  | s, op :: ops =>
    match step max s op with
    | some s' => run max s' ops
    | none => run max s ops

/-- what happens without the exactly-once guarantee: a second release of the same conn -/
def releaseUnchecked (s : St) (c : Nat) : St := { s with idle := s.idle ++ [c] }

end ClientPool
