/-! C10 (b): N connections sharing one buffer pool — a shared heap with per-connection ownership.

A buffer (`*[]byte` handle of `mempool`) is identified by an id.  Pool memory is never cleared: the
bytes of a freed buffer stay in place and are what the next `Malloc` of that buffer sees (this is how
defect #16 puts stale bytes of another connection on the wire), so `data` survives `free`/`malloc`
and a buffer is `dirty` until its owner resets it (`reset`) or overwrites all of it (`fill`).

The allocator's freedom — which buffer a `Malloc` returns — is the `b` argument of `malloc`; C20
(live handles pairwise disjoint) appears as "no `allocLive` fault".  C20's frame property (an
operation on one handle leaves every other handle's bytes unchanged) is the point update `set`.
"No `notOwner` fault" is what C11 (no use-after-free / double free) is meant to establish for the real code;
"no `staleRead` fault" (only initialised bytes are read) is established by NO theorem of C11 — it rests on
C09's byte-level differential and the oracle `c10-foreign`.  `apply` is what the code does when nothing checks (the unchecked effect);
`step` = `apply` guarded by the fault test.  Core Lean only. -/
namespace SharedHeap

abbrev Cid := Nat
abbrev Bid := Nat
abbrev Bytes := List UInt8

structure Buf where
  owner : Option Cid := none      -- none: in the pool
  data  : Bytes := []             -- `*pbuf` (the slice the handle points to)
  dirty : Bool := false           -- holds bytes its current owner did not write

structure G where
  heap : Bid → Buf
  wire : Cid → List Bytes         -- the buffers handed to `conn.Write` per connection, one entry per call, in order

inductive Op where
  | malloc (b : Bid) (n : Nat)    -- `mempool.Malloc(n)` returned buffer `b` (len n, contents = what was there)
  | reset (b : Bid)               -- `*p = (*p)[0:0]`
  | fill (b : Bid) (d : Bytes)    -- `copy(*p, d)`: overwrites the first |d| bytes (Malloc(len(d)); copy — conn_unix.go, body.go)
  | append (b : Bid) (d : Bytes)  -- `mempool.Append(p, d...)`
  | send (b : Bid)                -- `conn.Write(*p)`
  | sendLit (d : Bytes)           -- `conn.Write(data)` of memory that is not pooled
  | free (b : Bid)                -- `mempool.Free(p)`

inductive Fault where
  | allocLive                     -- the allocator handed out a live buffer (excluded by C20)
  | notOwner                      -- use after free / double free / foreign buffer (excluded by C11)
  | staleRead                     -- bytes read that the owner never wrote (NOT a theorem of C11: C09 differential + c10-foreign)
  deriving Repr, DecidableEq

def init : G := { heap := fun _ => {}, wire := fun _ => [] }

def set (g : G) (b : Bid) (x : Buf) : G := { g with heap := fun i => if i = b then x else g.heap i }

def emit (g : G) (c : Cid) (d : Bytes) : G :=
  { g with wire := fun i => if i = c then g.wire c ++ [d] else g.wire i }

/-- `Malloc(n)` on recycled memory: length n, old bytes still there -/
def resize (n : Nat) (old : Bytes) : Bytes := (old ++ List.replicate n 0).take n

/-- the unchecked effect of an operation of connection `c` -/
def apply (g : G) (c : Cid) : Op → G
  | .malloc b n => set g b { owner := some c, data := resize n (g.heap b).data, dirty := decide (0 < n) }
  | .reset b => set g b { (g.heap b) with data := [], dirty := false }
  | .fill b d =>
    let old := g.heap b
    set g b { old with data := d ++ old.data.drop d.length, dirty := old.dirty && decide (d.length < old.data.length) }
  | .append b d => set g b { (g.heap b) with data := (g.heap b).data ++ d }
  | .send b => emit g c (g.heap b).data
  | .sendLit d => emit g c d
  | .free b => set g b { (g.heap b) with owner := none }

def fault (g : G) (c : Cid) : Op → Option Fault
  | .malloc b _ => if (g.heap b).owner = none then none else some .allocLive
  | .reset b => if (g.heap b).owner = some c then none else some .notOwner
  | .fill b _ => if (g.heap b).owner = some c then none else some .notOwner
  | .append b _ => if (g.heap b).owner = some c then none else some .notOwner
  | .send b => if (g.heap b).owner = some c then (if (g.heap b).dirty then some .staleRead else none) else some .notOwner
  | .sendLit _ => none
  | .free b => if (g.heap b).owner = some c then none else some .notOwner

/-- checked run: stops at the first fault -/
def run : G → List (Cid × Op) → Except Fault G
  | g, [] => .ok g
  | g, (c, op) :: rest =>
    match fault g c op with
    | some f => .error f
    | none => run (apply g c op) rest

/-- unchecked run: what happens when nobody checks (used for the counterexamples) -/
def runU : G → List (Cid × Op) → G
  | g, [] => g
  | g, (c, op) :: rest => runU (apply g c op) rest

/-- the operations of connection `a` alone, in order -/
def proj (a : Cid) (acts : List (Cid × Op)) : List (Cid × Op) := acts.filter (fun x => x.1 == a)

end SharedHeap
