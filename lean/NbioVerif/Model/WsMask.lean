import NbioVerif.Model.Ws
/-! `maskXOR` (conn.go) as written: a 64-byte stride made of eight 8-byte words, an 8-byte stride, a byte tail.
    An 8-byte word step (little-endian load, xor with `key64 = k | k<<32`, store) is "xor the chunk with key ++ key". -/
namespace Ws

/-- one 8-byte word: `binary.LittleEndian.PutUint64(b, binary.LittleEndian.Uint64(b) ^ key64)` at byte level -/
def word8 (key w : Bytes) : Bytes := (w.zip (key ++ key)).map (fun (x, k) => x ^^^ k)

/-- `for i := 0; i < len(b); i++ { b[i] ^= key[i&3] }` -/
def tailMask (key b : Bytes) : Bytes := (b.zipIdx).map (fun (x, i) => x ^^^ key[i % 4]!)

/-- `for len(b) >= 8 { ...; b = b[8:] }` then the tail -/
def loop8 (key : Bytes) : Nat → Bytes → Bytes
  | 0, b => tailMask key b
  | fuel+1, b => if b.length ≥ 8 then word8 key (b.take 8) ++ loop8 key fuel (b.drop 8) else tailMask key b

/-- the unrolled body of the 64-byte stride: eight words -/
def block64 (key b : Bytes) : Bytes :=
  word8 key (b.take 8) ++ word8 key ((b.drop 8).take 8) ++ word8 key ((b.drop 16).take 8) ++ word8 key ((b.drop 24).take 8)
    ++ word8 key ((b.drop 32).take 8) ++ word8 key ((b.drop 40).take 8) ++ word8 key ((b.drop 48).take 8)
    ++ word8 key ((b.drop 56).take 8)

def loop64 (key : Bytes) : Nat → Bytes → Bytes
  | 0, b => loop8 key b.length b
  | fuel+1, b => if b.length ≥ 64 then block64 key b ++ loop64 key fuel (b.drop 64) else loop8 key b.length b

/-- `maskXOR(b, key)` -/
def maskFast (key b : Bytes) : Bytes := loop64 key b.length b

end Ws
