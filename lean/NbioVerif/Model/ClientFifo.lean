/-! C10 (c): `ClientConn.handlers` — the FIFO of callbacks awaiting responses, under `ClientConn.mux`
(nbhttp/client_conn.go `Do`, `onResponse`, `closeByConn`, `CloseWithError`, `closeWithErrorWithoutLock`,
`Reset`; as repaired: `onResponse` and the parser's close notification carry the connection they come
from and are ignored unless that is still `c.conn`).

One model step = one critical section of `c.mux`.  Requests are numbered in the order of the `Do`
calls.  A connection ("epoch") is dialled by the first `Do` after `conn == nil`.  Ghost state records,
per epoch, which requests were written to it (`sent`) and how many responses its parser has handed
to `onResponse` (`rcvd`): by C10 (a) the server answers in request order, so the j-th response of an
epoch belongs to the j-th request written to it — that is how `onResponse` is labelled here.
Environment inputs are explicit: did the dial / the request write succeed, which epoch's parser
delivers, did `Timeout` expire.  Core Lean only. -/
namespace ClientFifo

inductive Out where
  | resp (belongsTo : Option Nat)     -- a response; `some k`: it answers request k, `none`: unsolicited
  | err                               -- an error (closed, timeout, write/dial failure)
  deriving Repr, DecidableEq

structure St where
  handlers : List Nat := []           -- c.handlers (request ids), head = oldest
  closed   : Bool := false            -- c.closed
  conn     : Option Nat := none       -- c.conn: epoch of the current connection
  nextId   : Nat := 0                 -- ghost: number of Do calls
  sent     : List (List Nat) := []    -- ghost: per epoch, the requests written to it
  rcvd     : List Nat := []           -- ghost: per epoch, responses delivered so far
  calls    : List (Nat × Out) := []   -- ghost: callback invocations, in order
  deriving Repr, DecidableEq

inductive Op where
  | do_ (dialOk sendOk : Bool)        -- ClientConn.Do
  | onResponse (epoch : Nat) (expired : Bool)   -- the parser of `epoch` completed a response
  | closeAll                          -- CloseWithError / Close called by the user (or Client.Close)
  | connClosed (epoch : Nat)          -- the connection `epoch` ended: its parser calls closeByConn
  | reset                             -- Reset (Client.Do calls it before every Do)
  deriving Repr, DecidableEq

/-- `closeWithErrorWithoutLock`: every pending callback gets the error, the list is dropped, the conn
    closed and forgotten.  Note: does NOT set `closed` (only `CloseWithError` does). -/
def failAll (s : St) : St :=
  { s with calls := s.calls ++ s.handlers.map (fun h => (h, Out.err)), handlers := [], conn := none }

/-- `Do` on a closed ClientConn: `handler(nil, nil, ErrClientClosed)` -/
def refuse (s : St) : St := { s with nextId := s.nextId + 1, calls := s.calls ++ [(s.nextId, Out.err)] }

/-- `c.handlers = append(c.handlers, resHandler{…})` -/
def push (s : St) : St := { s with nextId := s.nextId + 1, handlers := s.handlers ++ [s.nextId] }

/-- a new connection: `c.conn = nbc` (a new epoch) -/
def dial (s : St) : St := { s with conn := some s.sent.length, sent := s.sent ++ [[]], rcvd := s.rcvd ++ [0] }

/-- `req.Write(c.conn)` succeeded on epoch `e` -/
def wrote (s : St) (e id : Nat) : St := { s with sent := s.sent.modify e (· ++ [id]) }

/-- the request the next response of epoch `e` answers (C10 (a): j-th response ↔ j-th request) -/
def label (s : St) (e : Nat) : Option Nat := (s.sent.getD e [])[s.rcvd.getD e 0]?

/-- the parser of epoch `e` hands one more response to `onResponse` -/
def deliver (s : St) (e : Nat) : St := { s with rcvd := s.rcvd.modify e (· + 1) }

/-- `head.h(res, c.conn, err); c.handlers = c.handlers[1:]` -/
def pop (s : St) (h : Nat) (rest : List Nat) (lbl : Option Nat) : St :=
  { s with calls := s.calls ++ [(h, Out.resp lbl)], handlers := rest }

def step (s : St) : Op → St
  | .do_ dialOk sendOk =>
    if s.closed then refuse s
    else
      let id := s.nextId
      let s1 := push s
      match s.conn with
      | some e => if sendOk then wrote s1 e id else failAll s1
      | none =>
        if !dialOk then failAll s1
        else if sendOk then wrote (dial s1) s.sent.length id else failAll (dial s1)
  | .onResponse e expired =>
    -- `!c.closed && c.conn == conn && len(c.handlers) > 0`
    if !s.closed && s.conn == some e then
      match s.handlers with
      | h :: rest =>
        let s2 := pop (deliver s e) h rest (label s e)
        -- Timeout > 0 and the next request's deadline already passed: closeWithErrorWithoutLock
        if !rest.isEmpty && expired then failAll s2 else s2
      | [] => deliver s e
    else deliver s e
  | .closeAll =>
    if !s.closed then failAll { s with closed := true } else s
  | .connClosed e =>
    -- `closeByConn`: the parser of connection e was closed (peer closed, read error, deadline)
    if !s.closed && s.conn == some e then failAll { s with closed := true } else s
  | .reset =>
    if s.closed then { s with conn := none, handlers := [], closed := false } else s

def run (s : St) (ops : List Op) : St := ops.foldl step s

/-- number of times request `k`'s callback was invoked -/
def count (s : St) (k : Nat) : Nat := (s.calls.filter (fun c => c.1 == k)).length

end ClientFifo
