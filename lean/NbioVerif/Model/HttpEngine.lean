import NbioVerif.Model.ScanChecked
/-! The engine glue around the HTTP parser (nbhttp/engine.go): how the reads of one connection are fed to
    `Parser.Parse` in each I/O mode, and what happens on a parse error or a read error.

    * `nonBlocking`  — `DataHandler` (engine.go:578): `Parse`; error ⇒ `c.CloseWithError` ⇒ nbio `OnClose` ⇒
                       `CloseAndClean` + `_onClose` (NewEngine's `g.OnClose`)
    * `blocking`     — `readConnBlocking` (engine.go:888): loop `Read`/`Parse`; read error ⇒ return; parse error ⇒
                       `conn.Close()`, return; deferred `CloseAndClean`, `_onClose`
    * `tlsNonBlocking` — `TLSDataHandler` (engine.go:602): per raw read an inner `AppendAndRead` loop; data is parsed
                       first even when it comes with an error; parse error or TLS error ⇒ `CloseWithError`
    * `tlsBlocking`  — `readTLSConnBlocking` (engine.go:944): outer `Read` loop, inner `AppendAndRead` loop; a TLS
                       error is tested *before* the data of the same call is parsed

    Environment inputs (explicit, DESIGN 2.3): the sequence of read results of the transport, and — for TLS — for every
    raw read the sequence of `AppendAndRead` results (plaintext bytes, error flag) the TLS layer produced.
    Assumption A1 (nbio, C03): a non-blocking connection delivers no data callback after `CloseWithError`. -/
namespace HttpEngine
open Scan

abbrev Bytes := List UInt8

/-- what the transport hands to the reader -/
inductive ReadRes
  | data (d : Bytes)         -- `Read` returned n > 0 bytes / the poller delivered a data callback
  | err                      -- `Read` failed (EOF, reset, deadline) / the poller reported the connection closed
  deriving DecidableEq, Repr

/-- one `AppendAndRead` result: decrypted bytes (possibly none) and whether it reported an error -/
structure TlsOut where
  plain : Bytes
  err : Bool
  deriving DecidableEq, Repr

/-- the observable trace of one connection -/
inductive Obs (ε : Type)
  | ev (e : ε)               -- a parser callback (hence every handler call)
  | connClose                -- the engine closes the connection (`conn.Close`, `CloseWithError`, `tlsConn.Close`)
  | parserClose              -- `CloseAndClean` (processor cleaned, parser state := Close)
  | onClose                  -- `engine._onClose`
  deriving DecidableEq, Repr

variable {σ ε : Type}

/-- the parser as the engine holds it -/
structure PC (σ : Type) where
  st : σ
  cache : Bytes
  closed : Bool := false     -- `p.state == stateClose`

/-- connection-level state of a reader -/
structure Conn (σ ε : Type) where
  pc : PC σ
  connClosed : Bool := false   -- the engine has closed the connection
  finished : Bool := false     -- the reader has returned / the close sequence has run
  trace : List (Obs ε) := []

/-- a fresh connection: new parser, nothing closed, empty trace -/
def fresh (st0 : σ) : Conn σ ε := { pc := { st := st0, cache := [] } }

/-- `Parser.Parse(data)` as the engine sees it: `net.ErrClosed` (code 1) without events on a closed parser; nothing on
    empty data; otherwise `parseLC` (ReadLimit test + checked loop). Returns the parser, the events of the call, and
    the error code if `Parse` returned an error. On an error the parser's own fields are left as they were. -/
def parse (M : Machine σ ε) (limit : Nat) (pc : PC σ) (data : Bytes) : PC σ × List ε × Option Nat :=
  if pc.closed then (pc, [], some 1)
  else if data = [] then (pc, [], none)
  else
    match parseLC M limit pc.st pc.cache data [] with
    | ⟨evs, .inl (st', cache')⟩ => ({ pc with st := st', cache := cache' }, evs, none)
    | ⟨evs, .inr e⟩ => (pc, evs, some e)

/-- the glue every reader applies: `Parse`, and on an error `CloseAndClean` (parser state := Close). This is the
    chained function "parse; on error close" whose silence after an error is `parseE_silent`. -/
def parseE (M : Machine σ ε) (limit : Nat) (pc : PC σ) (data : Bytes) : PC σ × List ε × Option Nat :=
  let r := parse M limit pc data
  (if r.2.2.isSome then { r.1 with closed := true } else r.1, r.2.1, r.2.2)

def emit (c : Conn σ ε) (evs : List ε) : Conn σ ε := { c with trace := c.trace ++ evs.map Obs.ev }

/-- one `Parse` call on behalf of the connection: the callbacks go to the trace; returns whether `Parse` failed -/
def feed (M : Machine σ ε) (limit : Nat) (c : Conn σ ε) (d : Bytes) : Conn σ ε × Bool :=
  let r := parse M limit c.pc d
  (emit { c with pc := r.1 } r.2.1, r.2.2.isSome)

/-- nbio closes the connection and runs the engine's `OnClose`: `CloseAndClean`, `_onClose` -/
def closeNB (c : Conn σ ε) : Conn σ ε :=
  if c.connClosed then c
  else { c with connClosed := true, finished := true, pc := { c.pc with closed := true },
                trace := c.trace ++ [.connClose, .parserClose, .onClose] }

/-! ### non-blocking, plain -/

def stepNB (M : Machine σ ε) (limit : Nat) (c : Conn σ ε) : ReadRes → Conn σ ε
  | .data d =>
    if c.connClosed then c   -- A1
    else
      if (feed M limit c d).2 then closeNB (feed M limit c d).1 else (feed M limit c d).1
  | .err => closeNB c

def runNB (M : Machine σ ε) (limit : Nat) (c : Conn σ ε) (rs : List ReadRes) : Conn σ ε := rs.foldl (stepNB M limit) c

/-! ### blocking, plain -/

/-- the deferred function of `readConnBlocking` -/
def deferBlocking (c : Conn σ ε) : Conn σ ε :=
  { c with finished := true, pc := { c.pc with closed := true }, trace := c.trace ++ [.parserClose, .onClose] }

def stepB (M : Machine σ ε) (limit : Nat) (c : Conn σ ε) : ReadRes → Conn σ ε
  | r =>
    if c.finished then c     -- the goroutine has returned: nothing reads any more
    else match r with
      | .err => deferBlocking c
      | .data d =>
        if (feed M limit c d).2 then
          deferBlocking { (feed M limit c d).1 with connClosed := true, trace := (feed M limit c d).1.trace ++ [.connClose] }
        else (feed M limit c d).1

def runB (M : Machine σ ε) (limit : Nat) (c : Conn σ ε) (rs : List ReadRes) : Conn σ ε := rs.foldl (stepB M limit) c

/-! ### TLS, non-blocking: the inner loop of `TLSDataHandler` -/

/-- the `for` loop over `AppendAndRead` results of one raw read; `none` input left = the loop returned -/
def tlsInnerNB (M : Machine σ ε) (limit : Nat) : Conn σ ε → List TlsOut → Conn σ ε
  | c, [] => c
  | c, o :: os =>
    if c.connClosed then c
    else
      -- data first, even when it comes together with an error
      if o.plain = [] then (if o.err then closeNB c else c)
      else if (feed M limit c o.plain).2 then closeNB (feed M limit c o.plain).1
      else if o.err then closeNB (feed M limit c o.plain).1
      else tlsInnerNB M limit (feed M limit c o.plain).1 os

def stepTlsNB (M : Machine σ ε) (limit : Nat) (c : Conn σ ε) : ReadRes × List TlsOut → Conn σ ε
  | (.data _, outs) => if c.connClosed then c else tlsInnerNB M limit c outs
  | (.err, _) => closeNB c

def runTlsNB (M : Machine σ ε) (limit : Nat) (c : Conn σ ε) (rs : List (ReadRes × List TlsOut)) : Conn σ ε :=
  rs.foldl (stepTlsNB M limit) c

/-! ### TLS, blocking: `readTLSConnBlocking` -/

/-- the deferred function: `CloseAndClean`, `tlsConn.Close()`, `_onClose` -/
def deferTlsB (c : Conn σ ε) : Conn σ ε :=
  { c with finished := true, connClosed := true, pc := { c.pc with closed := true },
           trace := c.trace ++ [.parserClose, .connClose, .onClose] }

/-- inner loop; the TLS error is tested before the data of the same call is looked at -/
def tlsInnerB (M : Machine σ ε) (limit : Nat) : Conn σ ε → List TlsOut → Conn σ ε
  | c, [] => c
  | c, o :: os =>
    if c.finished then c
    else if o.err then deferTlsB c
    else if o.plain ≠ [] then
      if (feed M limit c o.plain).2 then deferTlsB (feed M limit c o.plain).1
      else tlsInnerB M limit (feed M limit c o.plain).1 os
    else c   -- nread == 0: break

def stepTlsB (M : Machine σ ε) (limit : Nat) (c : Conn σ ε) : ReadRes × List TlsOut → Conn σ ε
  | (r, outs) =>
    if c.finished then c
    else match r with
      | .err => deferTlsB c
      | .data _ => tlsInnerB M limit c outs

def runTlsB (M : Machine σ ε) (limit : Nat) (c : Conn σ ε) (rs : List (ReadRes × List TlsOut)) : Conn σ ε :=
  rs.foldl (stepTlsB M limit) c

/-! ### trace predicates -/

def Obs.isEv : Obs ε → Bool
  | .ev _ => true
  | _ => false

/-- all parser events come before every closing observation -/
def EvsThenClosings (t : List (Obs ε)) : Prop := ∃ a b, t = a ++ b ∧ a.all Obs.isEv = true ∧ b.all (fun o => !o.isEv) = true

def countObs [DecidableEq ε] (o : Obs ε) (t : List (Obs ε)) : Nat := t.count o

end HttpEngine
