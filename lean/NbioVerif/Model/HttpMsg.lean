import NbioVerif.Model.HttpProc
/-! C07: the grammar of well-formed HTTP/1.x messages on which nbhttp and net/http are compared.

* `Msg` — an abstract message: start line, header fields as written (name, padding after the colon, value),
  body in one of the three framings (none / Content-Length / chunked with extensions and declared trailers)
* `Msg.render : Msg → Bytes` — the wire form (RFC 7230 §3, §4.1)
* `eventsOf : Msg → List Ev` — the parse events the message stands for
* `reqSpec` / `respSpec` — what RFC 7230 / net/http say the recipient gets: a direct reading of the message
* `rfc7230Framing`, `rfc7230Close` — the two decision tables (§3.3.3 and §6.3)
* `wfMsg` — the decidable well-formedness predicate = the agreed domain of the property
-/
namespace Http

structure Hdr where
  name : Bytes                -- field-name as written
  pad : Nat                   -- SPs between the colon and the value
  value : Bytes               -- field-value as written: everything up to CR (may end in OWS)
  deriving DecidableEq, Repr

structure Chunk where
  size : Bytes                -- chunk-size as written (hex digits)
  ext : Bytes                 -- chunk-ext as written ("" or ";…")
  data : Bytes
  deriving DecidableEq, Repr

inductive Body
  | none                                                             -- the message ends at the blank line
  | fixed (d : Bytes)                                                -- Content-Length framing
  | chunked (chunks : List Chunk) (last lastExt : Bytes) (trailers : List Hdr)
  deriving DecidableEq, Repr

inductive Start
  | request (method target proto : Bytes)
  | status (proto code reason : Bytes)
  deriving DecidableEq, Repr

structure Msg where
  start : Start
  headers : List Hdr
  body : Body
  deriving DecidableEq, Repr

/-! ### render -/

def crlf : Bytes := [CR, LF]

def Hdr.render (h : Hdr) : Bytes := h.name ++ [58] ++ List.replicate h.pad SP ++ h.value ++ crlf

def Chunk.render (c : Chunk) : Bytes := c.size ++ c.ext ++ crlf ++ c.data ++ crlf

def Start.render : Start → Bytes
  | .request m t p => m ++ [SP] ++ t ++ [SP] ++ p ++ crlf
  | .status p c r => p ++ [SP] ++ c ++ [SP] ++ r ++ crlf

def Body.render : Body → Bytes
  | .none => []
  | .fixed d => d
  | .chunked cs last ext trs =>
    (cs.map Chunk.render).flatten ++ (last ++ ext ++ crlf) ++ (trs.map Hdr.render).flatten ++ crlf

def Msg.render (m : Msg) : Bytes :=
  m.start.render ++ (m.headers.map Hdr.render).flatten ++ crlf ++ m.body.render

/-! ### events -/

/-- the value nbhttp reports for a field: the bytes after the padding; for an empty value the padding itself
    (`data[start:i]` with `start` right after the colon) -/
def Hdr.evValue (h : Hdr) : Bytes := if h.value = [] then List.replicate h.pad SP else h.value

def Hdr.key (h : Hdr) : Bytes := canonicalKey h.name

/-- decimal value of a digit string -/
def decimal (b : Bytes) : Nat := b.foldl (fun acc c => acc * 10 + digitVal c) 0

/-- hexadecimal value of a hex-digit string -/
def hexadecimal (b : Bytes) : Nat := b.foldl (fun acc c => acc * 16 + digitVal c) 0

/-- the value nbhttp reports for a trailer field (non-empty value): trailing spaces are trimmed -/
def Hdr.trValue (h : Hdr) : Bytes := trimRightSpaces h.value

def Start.events : Start → List Ev
  | .request m t p => [.method m, .url t, .proto p]
  | .status p c r => [.proto p, .status (decimal c) (trimRightSpaces r)]

def Body.events : Body → List Ev
  | .none => [.complete]
  | .fixed d => if d = [] then [.complete] else [.body d, .complete]
  | .chunked cs _ _ trs =>
    cs.map (fun c => Ev.body c.data) ++ trs.map (fun h => Ev.trailer h.key h.trValue) ++ [.complete]

/-- what `OnContentLength` reports: the declared length, -1 when there is none or the body is chunked -/
def Body.declared : Body → Int
  | .fixed d => d.length
  | _ => -1

/-- a response whose status code excludes a body (RFC 7230 §3.3.3 rule 1) -/
def Msg.bodiless (m : Msg) : Bool :=
  match m.start with
  | .status _ c _ => bodilessStatus (decimal c)
  | _ => false

/-- the length reported with the header section: that of a Content-Length body, 0 for a bodiless response, else -1 -/
def Msg.declared (m : Msg) : Int := if m.bodiless then 0 else m.body.declared

def eventsOf (m : Msg) : List Ev :=
  m.start.events ++ m.headers.map (fun h => Ev.header h.key h.evValue) ++ [.contentLength m.declared] ++ m.body.events

/-! ### the two RFC 7230 decision tables -/

/-- the header section as a list of (canonical field-name, field-value) -/
def Msg.fields (m : Msg) : List (Bytes × Bytes) := m.headers.map fun h => (h.key, h.evValue)

def valuesOf (fs : List (Bytes × Bytes)) (k : Bytes) : List Bytes := (fs.filter (·.1 == k)).map (·.2)

/-- elements of a comma-separated list field (RFC 7230 §7): split at commas, trim OWS, drop empty elements -/
def listElems (vs : List Bytes) : List Bytes :=
  (vs.map fun v => ((splitComma v).map trim).filter (· ≠ [])).flatten

inductive Framing
  | none                              -- no body
  | length (n : Nat)                  -- Content-Length: n
  | chunked (declared : List Bytes)   -- Transfer-Encoding: chunked, with the declared trailer field-names
  | invalid                           -- outside the agreed domain (RFC: error, or forms the parsers disagree on)
  deriving DecidableEq, Repr

/-- Content-Length values that may accompany `Transfer-Encoding: chunked` (which overrides them): none, or all equal
    (trailing spaces aside) to one `1*DIGIT` value below 2^62 -/
def clValuesOk : List Bytes → Bool
  | [] => true
  | v :: rest =>
    let d := trimRightSpaces v
    rest.all (fun w => trimRightSpaces w == d) && d ≠ [] && d.all isNum && decimal d < 2 ^ 62

/-- RFC 7230 §3.3.3 for a request / a response with framing headers, restricted to the forms both
    implementations support: a single `Transfer-Encoding: chunked` overrides Content-Length (rule 3); otherwise a
    single Content-Length of 1*DIGIT gives the length (rules 4, 5); neither: no body (rule 6).
    Trailers are only announced (`Trailer`) for chunked messages (§4.1.2, §4.4). -/
def rfc7230Framing (fs : List (Bytes × Bytes)) : Framing :=
  match valuesOf fs (str "Transfer-Encoding") with
  | [v] =>
    if (trim v).map toLower = str "chunked" ∧ clValuesOk (valuesOf fs (str "Content-Length")) = true then
      let announced := declaredKeys (valuesOf fs (str "Trailer"))
      -- §4.1.2: a trailer must not contain fields needed for message framing
      if announced.any forbiddenTrailer then .invalid else .chunked announced.eraseDups
    else .invalid
  | _ :: _ :: _ => .invalid
  | [] =>
    match valuesOf fs (str "Content-Length") with
    | [] => .none
    | [v] =>
      let d := trimRightSpaces v
      if d ≠ [] ∧ d.all isNum ∧ decimal d < 2 ^ 62 then .length (decimal d) else .invalid
    | _ => .invalid

/-- connection options (RFC 7230 §6.1): the elements of all Connection fields, case-insensitive -/
def connectionOptions (fs : List (Bytes × Bytes)) : List Bytes :=
  (listElems (valuesOf fs (str "Connection"))).map (·.map toLower)

/-- RFC 7230 §6.3 persistence, as the Close decision: close iff the `close` option is present, or the version is
    below 1.1 and there is no `keep-alive` option (HTTP/0.x never persists) -/
def rfc7230Close (major minor : Nat) (opts : List Bytes) : Bool :=
  if major < 1 then true
  else if opts.contains (str "close") then true
  else if major == 1 && minor == 0 then !opts.contains (str "keep-alive")
  else false

/-! ### what the recipient gets -/

def Body.bytes : Body → Bytes
  | .none => []
  | .fixed d => d
  | .chunked cs _ _ _ => (cs.map (·.data)).flatten

def Body.trailers : Body → List (Bytes × Bytes)
  | .chunked _ _ _ trs => trs.map fun h => (h.key, h.trValue)
  | _ => []

/-- a field list as a multimap (values of equal names in arrival order) -/
def multimap (fs : List (Bytes × Bytes)) : HMap := fs.foldl (fun h kv => h.add kv.1 kv.2) []

/-- the request a recipient extracts from `m` (for a request message) -/
def reqSpec (m : Msg) : Option Req :=
  match m.start with
  | .request method target proto =>
    let (maj, min) := (parseHTTPVersion proto).getD (0, 0)
    some { method := method, target := target, proto := proto,
           host := (valuesOf m.fields (str "Host")).headD [],
           header := multimap m.fields,
           contentLength := m.body.declared,
           te := valuesOf m.fields (str "Transfer-Encoding"),
           body := m.body.bytes,
           trailer := multimap m.body.trailers,
           close := rfc7230Close maj min (connectionOptions m.fields) }
  | _ => none

/-- the response a recipient extracts from `m` (for a response message) -/
def respSpec (m : Msg) : Option Resp :=
  match m.start with
  | .status proto code reason =>
    some { proto := proto, code := decimal code, status := trimRightSpaces reason,
           header := multimap m.fields,
           contentLength := m.declared,
           body := m.body.bytes,
           trailer := multimap m.body.trailers }
  | _ => none

/-! ### well-formedness = the agreed domain -/

/-- VCHAR -/
def visible (c : UInt8) : Bool := 33 ≤ c.toNat && c.toNat ≤ 126
/-- field-content bytes: VCHAR / SP / HTAB -/
def fieldByte (c : UInt8) : Bool := visible c || c == 32 || c == 9

def Hdr.wf (h : Hdr) : Bool :=
  h.name ≠ [] && h.name.all isToken && h.value.all fieldByte && h.value.head? != some SP

def Chunk.wf (c : Chunk) : Bool :=
  c.size ≠ [] && c.size.all isHex && hexadecimal c.size == c.data.length && c.data ≠ [] && c.data.length < 2 ^ 62 &&
  (c.ext = [] || (c.ext.head? == some 59 && c.ext.all visible))

/-- trailer fields: every declared name is sent exactly once (in any order) with a non-empty value -/
def trailersWf (declared : List Bytes) (trs : List Hdr) : Bool :=
  trs.all (fun h => h.wf && h.value ≠ []) &&
  (trs.map Hdr.key).all declared.contains && decide (trs.map Hdr.key).Nodup && trs.length == declared.length

def bodyMatches : Framing → Body → Bool
  | .none, .none => true
  | .length n, .fixed d => d.length == n
  | .chunked declared, .chunked cs last ext trs =>
    cs.all Chunk.wf && last ≠ [] && last.all (· == 48) &&
    (ext = [] || (ext.head? == some 59 && ext.all visible)) && trailersWf declared trs
  | _, _ => false

def http1x (proto : Bytes) : Bool := proto == str "HTTP/1.1" || proto == str "HTTP/1.0"

def Start.wf : Start → Bool
  | .request m t p =>
    -- origin-form, or the asterisk-form of a server-wide OPTIONS (RFC 7230 §5.3.1, §5.3.4)
    validMethods.contains m && ((t == [42] && m == str "OPTIONS") || (t.head? == some 47 && t.all visible)) && http1x p
  | .status p c r =>
    http1x p && c.length == 3 && c.all isNum && c.head? != some 48 &&
    (match r with | [] => true | r0 :: _ => isAlpha r0) && r.all fieldByte

/-- every Connection field value is a single connection option (no list, no HTAB): the form on which nbhttp's
    whole-value comparison and RFC 7230's token list coincide -/
def connOk (m : Msg) : Bool :=
  (valuesOf m.fields (str "Connection")).all fun v => !v.contains 44 && !v.contains 9

/-- the agreed domain: RFC 7230 messages with token names, field-content values, HTTP/1.x, a framing on which the two
    implementations agree, chunked only on HTTP/1.1, responses self-delimiting -/
def wfMsg (m : Msg) : Bool :=
  m.start.wf && m.headers.all Hdr.wf && connOk m &&
  (let fr := rfc7230Framing m.fields
   bodyMatches fr m.body &&
   (match m.start with
    | .request _ _ p => (match fr with | .chunked _ => p == str "HTTP/1.1" | _ => true)
    | .status p c _ =>
      (match fr with | .chunked _ => p == str "HTTP/1.1" | _ => true) &&
      (if bodilessStatus (decimal c) then fr == .none else fr != .none)))

/-! ### normal form for the comparison with net/http (values modulo optional whitespace, framing fields
    through their promoted form) -/

def framingKeys : List Bytes := [str "Host", str "Transfer-Encoding", str "Content-Length", str "Trailer"]

/-- header multimap of the normal form: without the framing fields (compared through their promoted form:
    host, framing, trailers), for responses also without `Connection` (net/http removes `Connection: close`
    from a response header), values modulo optional whitespace -/
def normHeader (resp : Bool) (h : HMap) : HMap :=
  (h.filter fun kv => !(framingKeys.contains kv.1 || (resp && kv.1 == str "Connection"))).map fun kv => (kv.1, kv.2.map trim)

structure NormMsg where
  line : List Bytes           -- request: method, target, proto, host; response: proto, code, reason
  header : HMap
  framing : Framing
  body : Bytes
  trailer : HMap
  close : Bool
  deriving DecidableEq, Repr

def normReqSpec (m : Msg) : Option NormMsg :=
  (reqSpec m).map fun r =>
    { line := [r.method, r.target, r.proto, trim r.host], header := normHeader false r.header,
      framing := rfc7230Framing m.fields, body := r.body,
      trailer := r.trailer.map (fun kv => (kv.1, kv.2.map trim)), close := r.close }

def normRespSpec (m : Msg) : Option NormMsg :=
  match m.start with
  | .status p c _ =>
    (respSpec m).map fun r =>
      { line := [p, c, trim r.status], header := normHeader true r.header,
        framing := rfc7230Framing m.fields, body := r.body,
        trailer := r.trailer.map (fun kv => (kv.1, kv.2.map trim)), close := false }
  | _ => none

end Http
