/-! M2: the "head starts a drainer" job queue, as a transition system at the granularity of the Go
critical sections (DESIGN §5.1).  Two instances:

* `Kind.conn`  — `Conn.Execute` / `Conn.MustExecute` / `Conn.execute` (conn.go): the closure handed to
  `Engine.Execute` captures the head job; after every job it locks, increments `i`, and either
  resets the list and returns or picks `jobList[i]`.
* `Kind.async` — `Timer.Async` (timer/timer.go): the head submitter starts a goroutine that locks,
  returns when `i == len(asyncList)` (resetting the list) or takes `asyncList[i]`, `i++`, unlocks
  and runs it.

The state keeps an arbitrary *list* of drainer closures, each with its own local variables — that
there is never more than one is a theorem, not a modelling decision.  `taken` is the number of
list entries the closure has consumed so far (`i + 1` of `Conn.execute`, `i` of `Timer.Async`), so
that the locked "take the next or reset and return" paragraph is literally the same for both.

Steps (one per critical section / unlocked region):

* `submit j must` — lock; closed test (`Execute` only); `isHead`; append; unlock; if head, create the
                    drainer closure (it is *spawned*: handed to the executor, not yet running)
* `spawn d`       — the executor starts closure `d` (`conn`: it will call the captured job;
                    `async`: first locked take)
* `start d`       — `job()` is entered       (log `s j`)
* `finish d p`    — `job()` returns, or panics into the recover wrapper when `p` (log `e j`)
* `next d big`    — lock; take the next job or reset the list and return; unlock
* `close`         — `closed = true` (under the mutex, in `closeWithError`)

The reset is modelled branch by branch (`resetList`): `Conn.execute` reslices `jobList[0:0]`;
`Timer.Async` reslices `asyncList[0:0]` unless the backing array has grown past 1024 entries, in
which case it installs `make([]func(), 0, 8)`.  Whether the capacity exceeds 1024 depends on Go's
append growth and is an **input** (`big`) of the steps that can reset.  Both branches leave a list of
length 0 (`resetList_nil`) — this is what the head detection of the next submitter relies on, and what
the correspondence run compares (`len(asyncList)` / `len(jobList)` after every op, including after a
backlog of more than 1024 entries has drained). -/
namespace ExecQ

inductive Kind | conn | async
  deriving DecidableEq, Repr

inductive Ph | spawned | ready | running | finished
  deriving DecidableEq, Repr

structure Drainer where
  taken : Nat        -- list entries consumed by this closure so far
  job   : Nat        -- the closure's `job` / `f` variable
  ph    : Ph
  deriving DecidableEq, Repr

inductive Ev | s (j : Nat) | e (j : Nat)
  deriving DecidableEq, Repr

structure St where
  list   : List Nat := []        -- c.jobList / t.asyncList
  closed : Bool := false
  drs    : List Drainer := []    -- live drainer closures
  crash  : Bool := false         -- an index expression went out of range
  log    : List Ev := []         -- history: job starts and ends
  done   : List Nat := []        -- history: jobs that returned (or panicked), in order
  acc    : List Nat := []        -- history: jobs accepted, in order
  panics : Nat := 0              -- history: number of recovered panics
  deriving DecidableEq, Repr

inductive Act
  | submit (j : Nat) (must : Bool)
  | spawn (d : Nat) (big : Bool)
  | start (d : Nat)
  | finish (d : Nat) (panic : Bool)
  | next (d : Nat) (big : Bool)
  | close
  deriving Repr

/-- Go `make([]func(), len, cap)`: a slice of `len` nil entries (0 stands for nil) -/
def makeList (len _cap : Nat) : List Nat := List.replicate len 0

/-- the list installed when the drainer has consumed everything:
    `Conn.execute`: `c.jobList = c.jobList[0:0]`;
    `Timer.Async`:  `if cap(t.asyncList) > 1024 { t.asyncList = make([]func(), 0, 8) } else { t.asyncList = t.asyncList[0:0] }` -/
def resetList (k : Kind) (big : Bool) (l : List Nat) : List Nat :=
  match k with
  | .conn => l.take 0
  | .async => if big then makeList 0 8 else l.take 0

/-- whichever branch runs, the list is empty afterwards -/
theorem resetList_nil (k : Kind) (big : Bool) (l : List Nat) : resetList k big l = [] := by
  cases k <;> simp [resetList, makeList]

/-- the locked paragraph "`if len == i { reset; return }; job = list[i]`" of closure `d` -/
def take (k : Kind) (big : Bool) (s : St) (d : Nat) (x : Drainer) : St :=
  if s.list.length == x.taken then { s with list := resetList k big s.list, drs := s.drs.eraseIdx d }
  else match s.list[x.taken]? with
    | some j => { s with drs := s.drs.set d { taken := x.taken + 1, job := j, ph := .ready } }
    | none => { s with crash := true }

def step (k : Kind) (s : St) : Act → Option St
  | .submit j must =>
    if k == .conn && !must && s.closed then some s            -- Execute returns false
    else
      let isHead := s.list.isEmpty
      let s' := { s with list := s.list ++ [j], acc := s.acc ++ [j] }
      if isHead then
        some { s' with drs := s.drs ++ [match k with
          | .conn => { taken := 1, job := j, ph := .spawned }
          | .async => { taken := 0, job := j, ph := .spawned }] }
      else some s'
  | .spawn d big =>
    match s.drs[d]? with
    | some x =>
      if x.ph == .spawned then
        match k with
        | .conn => some { s with drs := s.drs.set d { x with ph := .ready } }
        | .async => some (take k big s d x)
      else none
    | none => none
  | .start d =>
    match s.drs[d]? with
    | some x =>
      if x.ph == .ready then some { s with drs := s.drs.set d { x with ph := .running }, log := s.log ++ [.s x.job] }
      else none
    | none => none
  | .finish d p =>
    match s.drs[d]? with
    | some x =>
      if x.ph == .running then
        some { s with drs := s.drs.set d { x with ph := .finished }, log := s.log ++ [.e x.job],
                      done := s.done ++ [x.job], panics := if p then s.panics + 1 else s.panics }
      else none
    | none => none
  | .next d big =>
    match s.drs[d]? with
    | some x => if x.ph == .finished then some (take k big s d x) else none
    | none => none
  | .close => if k == .conn then some { s with closed := true } else none

def init : St := {}

/-- an action sequence; disabled actions are skipped -/
def run (k : Kind) : St → List Act → St
  | s, [] => s
  | s, a :: as => match step k s a with
    | some s' => run k s' as
    | none => run k s as

/-- the log of a strictly serial execution of `js` -/
def serial : List Nat → List Ev
  | [] => []
  | j :: js => .s j :: .e j :: serial js

/-- jobs currently inside `job()` -/
def runningJobs (s : St) : List Nat := (s.drs.filter (·.ph == .running)).map (·.job)

def quiescent (s : St) : Prop := s.drs = []

end ExecQ
