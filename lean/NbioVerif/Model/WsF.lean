/-! probe: websocket frame header encode (writeFrame) / decode (nextFrame) round trip, all three length classes -/
namespace WsF

abbrev Bytes := List UInt8

def b (n : Nat) : UInt8 := UInt8.ofNat n

theorem b_toNat (n : Nat) (h : n < 256) : (b n).toNat = n := by
  simp [b, UInt8.toNat_ofNat', Nat.mod_eq_of_lt h]

/-- little-endian digits base 256 -/
def encLE : Nat → Nat → Bytes
  | 0, _ => []
  | k+1, n => b (n % 256) :: encLE k (n / 256)

def decLE : Bytes → Nat
  | [] => 0
  | x :: xs => x.toNat + 256 * decLE xs

theorem encLE_length (k n : Nat) : (encLE k n).length = k := by
  induction k generalizing n with
  | zero => rfl
  | succ k ih => simp [encLE, ih]

theorem decLE_encLE (k n : Nat) (h : n < 256 ^ k) : decLE (encLE k n) = n := by
  induction k generalizing n with
  | zero => simp at h; subst h; rfl
  | succ k ih =>
    simp only [encLE, decLE]
    rw [b_toNat _ (Nat.mod_lt _ (by decide))]
    have : n / 256 < 256 ^ k := by
      rw [Nat.div_lt_iff_lt_mul (by decide)]
      rw [Nat.pow_succ] at h; exact h
    rw [ih _ this]
    omega

/-- binary.BigEndian.PutUintXX / UintXX -/
def beEnc (k n : Nat) : Bytes := (encLE k n).reverse
def beDec (bs : Bytes) : Nat := decLE bs.reverse

theorem beDec_beEnc (k n : Nat) (h : n < 256 ^ k) : beDec (beEnc k n) = n := by
  simp [beDec, beEnc, decLE_encLE k n h]

theorem beEnc_length (k n : Nat) : (beEnc k n).length = k := by simp [beEnc, encLE_length]

/-! frame header -/

structure Hdr where
  fin : Bool
  rsv1 : Bool
  opcode : Nat          -- < 16
  masked : Bool
  len : Nat
  deriving Repr, DecidableEq

def bit (x : Bool) (w : Nat) : Nat := if x then w else 0

/-- writeFrame's header bytes (rsv2/rsv3 are never set by the writer) -/
def encHdr (h : Hdr) : Bytes :=
  let b0 := b (bit h.fin 128 + bit h.rsv1 64 + h.opcode)
  let m := bit h.masked 128
  if h.len < 126 then [b0, b (m + h.len)]
  else if h.len ≤ 65535 then [b0, b (m + 126)] ++ beEnc 2 h.len
  else [b0, b (m + 127)] ++ beEnc 8 h.len

/-- nextFrame's header decode on a buffer; returns header and header length (without mask key) -/
def decHdr (buf : Bytes) : Option (Hdr × Nat) :=
  match buf with
  | x0 :: x1 :: rest =>
    let opcode := x0.toNat % 16
    let fin := x0.toNat / 128 % 2 == 1
    let rsv1 := x0.toNat / 64 % 2 == 1
    let masked := x1.toNat / 128 % 2 == 1
    let pl := x1.toNat % 128
    if pl = 126 then
      if rest.length ≥ 2 then some (⟨fin, rsv1, opcode, masked, beDec (rest.take 2)⟩, 4) else none
    else if pl = 127 then
      if rest.length ≥ 8 then some (⟨fin, rsv1, opcode, masked, beDec (rest.take 8)⟩, 10) else none
    else some (⟨fin, rsv1, opcode, masked, pl⟩, 2)
  | _ => none

theorem dec_enc (h : Hdr) (tail : Bytes) (hop : h.opcode < 16) (hlen : h.len < 2 ^ 63) :
    decHdr (encHdr h ++ tail) = some (h, (encHdr h).length) := by
  obtain ⟨fin, rsv1, opcode, masked, len⟩ := h
  simp only at hop hlen
  have hb0 : bit fin 128 + bit rsv1 64 + opcode < 256 := by
    unfold bit; split <;> split <;> omega
  have e_op : (bit fin 128 + bit rsv1 64 + opcode) % 16 = opcode := by
    unfold bit; split <;> split <;> omega
  have e_fin : ((bit fin 128 + bit rsv1 64 + opcode) / 128 % 2 == 1) = fin := by
    unfold bit; cases fin <;> cases rsv1 <;> simp <;> omega
  have e_rsv : ((bit fin 128 + bit rsv1 64 + opcode) / 64 % 2 == 1) = rsv1 := by
    unfold bit; cases fin <;> cases rsv1 <;> simp <;> omega
  unfold encHdr
  simp only
  by_cases h1 : len < 126
  · simp only [h1, if_true]
    have hb1 : bit masked 128 + len < 256 := by unfold bit; split <;> omega
    have e_m : ((bit masked 128 + len) / 128 % 2 == 1) = masked := by
      unfold bit; cases masked <;> simp <;> omega
    have e_pl : (bit masked 128 + len) % 128 = len := by unfold bit; split <;> omega
    simp only [decHdr, List.cons_append, List.nil_append, b_toNat _ hb0, b_toNat _ hb1, e_op, e_fin, e_rsv, e_m, e_pl]
    have : ¬ len = 126 := by omega
    have : ¬ len = 127 := by omega
    simp [*]
  · simp only [h1, if_false]
    by_cases h2 : len ≤ 65535
    · simp only [h2, if_true]
      have hb1 : bit masked 128 + 126 < 256 := by unfold bit; split <;> omega
      have e_m : ((bit masked 128 + 126) / 128 % 2 == 1) = masked := by
        unfold bit; cases masked <;> simp
      have e_pl : (bit masked 128 + 126) % 128 = 126 := by unfold bit; split <;> omega
      simp only [decHdr, List.cons_append, List.nil_append, b_toNat _ hb0, b_toNat _ hb1, e_op, e_fin, e_rsv, e_m, e_pl]
      have hl : (beEnc 2 len ++ tail).length ≥ 2 := by simp [beEnc_length]
      have ht : (beEnc 2 len ++ tail).take 2 = beEnc 2 len := by
        rw [List.take_append_of_le_length (by simp [beEnc_length])]
        exact List.take_of_length_le (by simp [beEnc_length])
      simp [hl, ht, beDec_beEnc 2 len (by omega), beEnc_length]
    · simp only [h2, if_false]
      have hb1 : bit masked 128 + 127 < 256 := by unfold bit; split <;> omega
      have e_m : ((bit masked 128 + 127) / 128 % 2 == 1) = masked := by
        unfold bit; cases masked <;> simp
      have e_pl : (bit masked 128 + 127) % 128 = 127 := by unfold bit; split <;> omega
      simp only [decHdr, List.cons_append, List.nil_append, b_toNat _ hb0, b_toNat _ hb1, e_op, e_fin, e_rsv, e_m, e_pl]
      have hl : (beEnc 8 len ++ tail).length ≥ 8 := by simp [beEnc_length]
      have ht : (beEnc 8 len ++ tail).take 8 = beEnc 8 len := by
        rw [List.take_append_of_le_length (by simp [beEnc_length])]
        exact List.take_of_length_le (by simp [beEnc_length])
      have hlt : len < 256 ^ 8 := by
        have : (2:Nat) ^ 63 < 256 ^ 8 := by decide
        omega
      simp [hl, ht, beDec_beEnc 8 len hlt, beEnc_length]

end WsF
