/-! M4 Lifecycle: one nbio connection from its creation to the end of its teardown, at critical-section
granularity — the `closed` flag is flipped under the connection mutex in five places (`closeWithError`, and the
error branches of `Write`, `Writev`, `flush`, `Sendfile`); the teardown (`closeWithErrorWithoutLock`: record the
cause, fail a pending dial, release the write queue, leave the fd table, notify, close the descriptor) runs
outside that critical section and only in the goroutine that flipped the flag; `addConn` is three separate
statements (open notification, fd table, epoll registration); an asynchronous dial is `pending` until the poller
sees writability (`dialed`: SO_ERROR decides) or the close path fails it.

Go code mirrored: conn_unix.go closeWithError / closeWithErrorWithoutLock / dialed / Write / Writev / Sendfile /
flush (closed test and error branch), conn.go Execute (closed test), poller_epoll.go addConn / addDialer /
deleteConn / readWriteLoop (dial branch, error flags), engine_unix.go DialAsyncTimeout. Core Lean only. -/
namespace Life

inductive Err
  | nil | eof | closed | rtimeout | wtimeout | dtimeout | overflow | epipe | refused | reset | unreach
  | again | user (k : Nat) | other
  deriving DecidableEq, Repr

inductive Kind | add | acc | dial | sess | udp deriving DecidableEq, Repr

inductive DialSt | none | pending | done deriving DecidableEq, Repr

inductive Item | buf (n : Nat) | file (n : Nat) deriving DecidableEq, Repr

structure Conn where
  kind : Kind
  visible : Bool := false       -- somebody besides the creating call can reach the conn (callback ran / in fd table)
  pSet : Bool := false          -- c.p is assigned: the teardown notifies the engine
  opens : Nat := 0              -- open notifications
  closed : Bool := false        -- c.closed
  td : Option Err := none       -- the flipper still has to run the teardown, with this cause
  cerr : Err := .nil            -- c.closeErr
  closeN : Nat := 0             -- close notifications
  cause : Option Err := none    -- ghost: argument of the step that flipped `closed`
  dial : DialSt := .none
  dialN : Nat := 0              -- reports of the dial outcome (callback invocations, or the error return)
  dialOk : Nat := 0             -- of which "connected"
  connected : Bool := false     -- ghost: the kernel completed the connect successfully
  inTable : Bool := false
  reg : Bool := false
  q : List Item := []           -- write queue
  rT : Bool := false            -- read deadline armed
  wT : Bool := false            -- write deadline armed
  wTdial : Bool := false        -- … and it is the dial timeout
  log : Nat := 0                -- syscalls issued on the descriptor
  fdOpen : Bool := true
  early : Bool := false         -- ghost: a close notification was issued before the open notification
  add : Nat := 0                -- how many of `addConn`'s three statements have run
  deriving DecidableEq, Repr

/-- the locked test-and-set of `closed` (one of the five places); `stop`: `closeWithError` also stops the timers -/
def flip (c : Conn) (e : Err) (stop : Bool) : Conn :=
  if c.closed then c
  else { c with closed := true, td := some e, cause := some e,
                rT := if stop then false else c.rT, wT := if stop then false else c.wT }

/-- `closeWithErrorWithoutLock`, run by the flipper after the flip -/
def teardown (c : Conn) : Conn :=
  match c.td with
  | none => c
  | some e =>
    { c with td := none, cerr := e,
             dial := if c.dial = .pending then .done else c.dial,
             dialN := if c.dial = .pending then c.dialN + 1 else c.dialN,
             q := [], inTable := false,
             closeN := if c.pSet = true ∧ c.kind ≠ .udp then c.closeN + 1 else c.closeN,
             early := c.early || decide (c.pSet = true ∧ c.kind ≠ .udp ∧ c.opens = 0 ∧ c.kind ≠ .dial),
             log := c.log + 1, fdOpen := false }

/-- `Close` / `CloseWithError` / timer / poller close as one sequential call -/
def closeNow (c : Conn) (e : Err) : Conn := if c.closed then c else teardown (flip c e true)

/-- error branch of a write-like call: flip without touching the timers, then tear down -/
def failNow (c : Conn) (e : Err) : Conn := if c.closed then c else teardown (flip c e false)

inductive OpKind | write | writev | sendfile | execute | read deriving DecidableEq, Repr

/-- a user operation on the conn: refused with the closed indication once the flag is set, and then without
    touching the descriptor; `sys` = number of syscalls it issues when the conn is open -/
def userOp (c : Conn) (sys : Nat) : Conn × Bool :=
  if c.closed then (c, false) else ({ c with log := c.log + sys }, true)

/-- `addConn`'s three statements -/
def addOpen (c : Conn) : Conn := { c with pSet := true, opens := c.opens + 1, visible := true }
def addTable (c : Conn) : Conn := { c with inTable := true }
/-- `addRead`: on a descriptor that was closed meanwhile (a `Close` from inside the open notification) epoll_ctl
    fails, `addConn` takes the conn out of the table again and its `closeWithError` finds the flag already set -/
def addReg (c : Conn) : Conn :=
  if c.fdOpen then { c with reg := true, log := c.log + 1 } else { c with inTable := false }

/-- `DialAsyncTimeout` after a connect that is in progress: conn with the callback stored, `addDialer` -/
def dialStart (c : Conn) (timeout : Bool) : Conn :=
  { c with dial := .pending, pSet := true, inTable := true, reg := true, visible := true, log := c.log + 2,
           wT := timeout, wTdial := timeout }

/-- `DialAsyncTimeout` after a connect that completed at once: the success is reported through `Async` -/
def dialNow (c : Conn) : Conn :=
  { c with dial := .done, dialN := c.dialN + 1, dialOk := c.dialOk + 1, connected := true, pSet := true,
           inTable := true, reg := true, visible := true, log := c.log + 2 }

/-- `dialed`: the poller saw writability on a dialing conn; `soerr = none` means SO_ERROR is 0 -/
def dialed (c : Conn) (soerr : Option Err) : Conn :=
  if c.dial != .pending then c
  else
    let c := { c with log := c.log + 1 }
    match soerr with
    | some e => flip c e true            -- `closeWithError(errno)`: the teardown (separate step) fails the dial
    | none =>
      if c.closed then c
      else { c with dial := .done, dialN := c.dialN + 1, dialOk := c.dialOk + 1, connected := true, wT := false, wTdial := false }

inductive Act
  | addOpen | addTable | addReg
  | dialStart (timeout : Bool) | dialNow
  | dialed (soerr : Option Err)
  | flip (e : Err) (stop : Bool)         -- any goroutine: user, timer, poller, write error branch
  | teardown                            -- the flipper
  | op (sys : Nat)                      -- Write / Writev / Sendfile / Execute / Read by a user
  deriving Repr

/-- enabling conditions = who can reach the conn when: a conn under `addConn` is reachable by others once its open
    notification has run (that is why the notification is the first statement); the poller acts on what is in the
    fd table; the teardown belongs to the flipper; a dial event only matters while the dial is pending -/
def step (c : Conn) : Act → Option Conn
  | .addOpen => if (c.kind == .add || c.kind == .acc || c.kind == .sess) && c.add == 0 then some { addOpen c with add := 1 } else none
  | .addTable => if (c.kind == .add || c.kind == .acc) && c.opens == 1 && c.add == 1 then some { addTable c with add := 2 } else none
  | .addReg => if (c.kind == .add || c.kind == .acc) && c.add == 2 then some { addReg c with add := 3 } else none
  | .dialStart t => if c.kind == .dial && c.dial == .none && !c.closed then some (dialStart c t) else none
  | .dialNow => if c.kind == .dial && c.dial == .none && !c.closed then some (dialNow c) else none
  | .dialed so => if c.kind == .dial && c.inTable then some (dialed c so) else none
  | .flip e st => if c.visible then some (flip c e st) else none
  | .teardown => if c.td.isSome then some (teardown c) else none
  | .op sys => if c.visible then some (userOp c sys).1 else none

def run (c : Conn) : List Act → Conn
  | [] => c
  | a :: as => match step c a with
    | some c' => run c' as
    | none => run c as

end Life
