/-! M4 Lifecycle: one nbio connection from its creation to the end of its teardown, at critical-section
granularity — the `closed` flag is flipped under the connection mutex in five places (`closeWithError`, and the
error branches of `Write`, `Writev`, `flush`, `Sendfile`); the teardown (`closeWithErrorWithoutLock`: record the
cause, fail a pending dial, release the write queue, leave the fd table, notify, close the descriptor) runs
outside that critical section and only in the goroutine that flipped the flag; `addConn` is a closed test and four
statements (`c.p = p` in the critical section of the test; open notification; then closed test, fd table and epoll
registration in a second critical section); an asynchronous dial is `pending` until the
poller sees writability (`dialed`: SO_ERROR decides) or the close path fails it; the dial timeout is armed in a
separate step, only while the dial is pending.

Every state the driver (`Driver/LifeMain.lean`) compares with the code is produced by `step` from `mk kind`: the
theorems of `Properties/C03.lean` apply to exactly those states.

Go code mirrored: conn_unix.go closeWithError / closeWithErrorWithoutLock / dialed / Write / Writev / Sendfile /
flush (closed test and error branch) / setDeadline / readUDP+getConn (session open), conn.go Execute (closed test),
poller_epoll.go addConn / addDialer / deleteConn / readWriteLoop (dial branch, error flags), engine_unix.go
DialAsyncTimeout, engine.go OnOpen/OnClose wrappers (connection wait group). Core Lean only. -/
namespace Life

inductive Err
  | nil | eof | closed | rtimeout | wtimeout | dtimeout | overflow | epipe | refused | reset | unreach
  | again | ebadf | eexist | user (k : Nat) | other
  deriving DecidableEq, Repr

inductive Kind | add | acc | dial | sess | udp deriving DecidableEq, Repr

/-- the engine's epoll mode -/
inductive PMode | lt | et | os deriving DecidableEq, Repr

/-- the interest set every registration of a descriptor carries in that mode, the writing bit aside: EPOLLERR | EPOLLHUP
    | EPOLLRDHUP | EPOLLPRI | EPOLLIN, plus EPOLLET, plus EPOLLONESHOT (what the kernel will report for the descriptor —
    a peer's FIN as EPOLLRDHUP only because it is asked for). `Lemmas/SrcBridgeLife.lean` proves that this is what
    `poller.setRead` / `setReadWrite` (translated from source) pass to `epoll_ctl`. -/
def interest : PMode → UInt32
  | .lt => 0x8 ||| 0x10 ||| 0x2000 ||| 0x2 ||| 0x1
  | .et => 0x8 ||| 0x10 ||| 0x2000 ||| 0x2 ||| 0x1 ||| 0x80000000
  | .os => 0x8 ||| 0x10 ||| 0x2000 ||| 0x2 ||| 0x1 ||| 0x80000000 ||| 0x40000000

inductive DialSt | none | pending | done deriving DecidableEq, Repr

inductive Item | buf (n : Nat) | file (n : Nat) deriving DecidableEq, Repr

structure Conn where
  kind : Kind
  visible : Bool := false       -- somebody besides the creating call can reach the conn (announced / registered)
  pSet : Bool := false          -- c.p is assigned: the teardown notifies the engine
  opens : Nat := 0              -- open notifications
  closed : Bool := false        -- c.closed
  td : Option Err := none       -- the flipper still has to run the teardown, with this cause
  cerr : Err := .nil            -- c.closeErr
  closeN : Nat := 0             -- close notifications
  cause : Option Err := none    -- ghost: argument of the step that flipped `closed`
  dial : DialSt := .none
  dialN : Nat := 0              -- reports of the dial outcome (callback invocations, or the error return)
  dialOk : Nat := 0             -- of which "connected"
  kres : Option (Option Err) := none   -- the kernel's verdict on the connect: not yet / connected / failed with e
  inTable : Bool := false
  reg : Bool := false
  q : List Item := []           -- write queue
  rT : Bool := false            -- read deadline armed
  wT : Bool := false            -- write deadline armed
  wTdial : Bool := false        -- … and it is the dial timeout
  log : Nat := 0                -- syscalls issued on the descriptor
  fdOpen : Bool := true
  add : Nat := 0                -- addConn: 0 not started, 1 closed test passed, 2 `c.p` set, 3 announced, 4 in table, 5 done (or refused after the announcement), 6 refused
  wg : Int := 0                 -- ghost: this conn's contribution to the engine's connection wait group
  early : Bool := false         -- ghost: a close notification was issued before the open notification
  raced : Bool := false         -- ghost: the holder of the *Conn closed it after addConn's `c.p = p` / Unlock and before its open notification
  unmanaged : Bool := false     -- ghost: the teardown ran while no poller owned the conn (no notification)
  byDialTimer : Bool := false   -- ghost: the flag was flipped by the dial timeout
  deriving DecidableEq, Repr

def mk (k : Kind) : Conn := { kind := k }

/-- the locked test-and-set of `closed` (one of the five places); `stop`: `closeWithError` also stops the timers -/
def flip (c : Conn) (e : Err) (stop : Bool) : Conn :=
  if c.closed then c
  else { c with closed := true, td := some e, cause := some e,
                rT := if stop then false else c.rT, wT := if stop then false else c.wT,
                raced := c.raced || decide (c.add = 2) }

/-- `closeWithErrorWithoutLock`, run by the flipper after the flip -/
def teardown (c : Conn) : Conn :=
  match c.td with
  | none => c
  | some e =>
    { c with td := none, cerr := e,
             dial := if c.dial = .pending then .done else c.dial,
             dialN := if c.dial = .pending then c.dialN + 1 else c.dialN,
             q := [], inTable := false,
             closeN := if c.pSet = true ∧ c.kind ≠ .udp then c.closeN + 1 else c.closeN,
             wg := if c.pSet = true ∧ c.kind ≠ .udp then c.wg - 1 else c.wg,
             early := c.early || decide (c.pSet = true ∧ c.kind ≠ .udp ∧ c.opens = 0 ∧ c.kind ≠ .dial),
             unmanaged := c.unmanaged || !c.pSet,
             log := c.log + 1, fdOpen := false }

/-- a user operation on the conn: refused with the closed indication once the flag is set, and then without
    touching the descriptor; `sys` = number of syscalls it issues when the conn is open -/
def userOp (c : Conn) (sys : Nat) : Conn × Bool :=
  if c.closed then (c, false) else ({ c with log := c.log + sys }, true)

/-- `Close` / `CloseWithError` as one sequential call (flipper runs the teardown before it returns) -/
def closeNow (c : Conn) (e : Err) : Conn := if c.closed then c else teardown (flip c e true)

/-- `addConn`: the closed test (an already closed conn is refused), then the four statements -/
def addCheck (c : Conn) : Conn := if c.closed then { c with add := 6 } else { c with add := 1 }
def addP (c : Conn) : Conn := { c with pSet := true, add := 2 }
def addOpen (c : Conn) : Conn := { c with opens := c.opens + 1, visible := true, wg := c.wg + 1, add := 3 }
/-- after the open notification: ONE critical section — closed test (a conn closed from inside its open notification
    is refused: its descriptor number may already belong to another conn, neither the table nor epoll are touched),
    table store, epoll registration -/
def addTable (c : Conn) : Conn := if c.closed then { c with add := 5 } else { c with inTable := true, add := 4 }
def addReg (c : Conn) : Conn := { c with reg := true, log := c.log + 1, add := 5 }

/-- `readUDP`: `getConn` creates the session of a new remote and `onOpen` announces it (under the listener's mutex) -/
def sessOpen (c : Conn) : Conn := { c with pSet := true, opens := c.opens + 1, visible := true, wg := c.wg + 1, add := 5 }

/-- `AddConn` of a UDP listener: `onUDPListen`, table, registration; the listener itself is not counted or notified -/
def udpListen (c : Conn) : Conn := { c with pSet := true, visible := true, inTable := true, reg := true, add := 5, log := c.log + 1 }

/-- `DialAsyncTimeout` after a connect that is in progress: conn with the callback stored, `addDialer` -/
def dialStart (c : Conn) : Conn :=
  { c with dial := .pending, pSet := true, inTable := true, reg := true, visible := true, log := c.log + 2, wg := c.wg + 1 }

/-- `DialAsyncTimeout` fails before anybody can see the conn (connect(2) error, or `addDialer`'s registration fails):
    the error return is the one report, the descriptor is closed, the wait group is released again -/
def dialStartFail (c : Conn) (e : Err) : Conn :=
  { c with dial := .done, dialN := c.dialN + 1, closed := true, cause := some e, cerr := e, fdOpen := false,
           inTable := false, unmanaged := true, log := c.log + 1 }

/-- `DialAsyncTimeout` after a connect that completed at once: the success is reported through `Async` -/
def dialNow (c : Conn) : Conn :=
  { c with dial := .done, dialN := c.dialN + 1, dialOk := c.dialOk + 1, kres := some none, pSet := true,
           inTable := true, reg := true, visible := true, log := c.log + 2, wg := c.wg + 1 }

/-- the dial timeout: armed under the mutex and only while the dial is still pending -/
def armDial (c : Conn) : Conn :=
  if !c.closed && c.dial == .pending then { c with wT := true, wTdial := true } else c

/-- `dialed`: the poller saw writability on a dialing conn, SO_ERROR (= the kernel's verdict) decides -/
def dialed (c : Conn) : Conn :=
  if c.dial != .pending then c
  else
    let c := { c with log := c.log + 1 }
    match c.kres with
    | some (some e) => flip c e true            -- `closeWithError(errno)`: the teardown (separate step) fails the dial
    | _ =>
      if c.closed then c
      else { c with dial := .done, dialN := c.dialN + 1, dialOk := c.dialOk + 1, wT := false, wTdial := false }

/-- the write timer fires: `closeWithError(errWriteTimeout | ErrDialTimeout)` -/
def timerW (c : Conn) : Conn :=
  if c.closed then c
  else { flip c (if c.wTdial then .dtimeout else .wtimeout) true with byDialTimer := c.wTdial }

inductive Act
  | addCheck | addP | addOpen | addTable | addReg
  | sessOpen | udpListen
  | dialStart | dialStartFail (e : Err) | dialNow | armDial
  | kconnect (r : Option Err)            -- the kernel finishes the non-blocking connect
  | dialed
  | flip (e : Err) (stop : Bool)         -- any goroutine: user, poller, write error branch
  | teardown                            -- the flipper
  | timerR | timerW                     -- a deadline timer fires
  | setDl (r w : Bool)                  -- SetReadDeadline / SetWriteDeadline / SetDeadline
  | clearW                              -- a Write that leaves the queue empty (or the dial success path) drops the write deadline
  | setQ (q : List Item)                -- a write-path call changes the write queue (under the mutex)
  | op (sys : Nat)                      -- Write / Writev / Sendfile / Execute / Read by a user
  deriving Repr

/-- not inside one of `addConn`'s two critical sections (whoever needs the conn's mutex waits) -/
def free (c : Conn) : Bool := c.add != 1 && c.add != 4

/-- enabling conditions = who can reach the conn when. The caller of `AddConn` holds the `*Conn` all along, so it can
    flip at any time (`kind = add`); accepted conns, sessions and dialing conns are reachable by others only once
    they were announced / registered. `addConn` tests the flag and assigns `c.p` in ONE critical section of the conn's
    mutex (`addCheck`, then `addP`): nothing that needs the mutex (a flip, a user operation) runs in between
    (`add = 1`). The poller acts on what is in the fd table; the teardown belongs to the flipper;
    writability of a dialing socket is only reported once the kernel has a verdict (assumption). -/
def step (c : Conn) : Act → Option Conn
  | .addCheck => if (c.kind == .add || c.kind == .acc) && c.add == 0 then some (addCheck c) else none
  | .addP => if (c.kind == .add || c.kind == .acc) && c.add == 1 then some (addP c) else none
  | .addOpen => if (c.kind == .add || c.kind == .acc) && c.add == 2 then some (addOpen c) else none
  | .addTable => if (c.kind == .add || c.kind == .acc) && c.add == 3 then some (addTable c) else none
  | .addReg => if (c.kind == .add || c.kind == .acc) && c.add == 4 then some (addReg c) else none
  | .sessOpen => if c.kind == .sess && c.add == 0 && !c.closed then some (sessOpen c) else none
  | .udpListen => if c.kind == .udp && c.add == 0 && !c.closed then some (udpListen c) else none
  | .dialStart => if c.kind == .dial && c.dial == .none && !c.closed then some (dialStart c) else none
  | .dialStartFail e => if c.kind == .dial && c.dial == .none && !c.closed then some (dialStartFail c e) else none
  | .dialNow => if c.kind == .dial && c.dial == .none && !c.closed then some (dialNow c) else none
  | .armDial => if c.kind == .dial && c.visible then some (armDial c) else none
  | .kconnect r => if c.kind == .dial && c.dial == .pending && c.kres.isNone then some { c with kres := some r } else none
  | .dialed => if c.kind == .dial && c.inTable && c.kres.isSome then some (dialed c) else none
  | .flip e st => if (c.visible || c.kind == .add) && free c then some (flip c e st) else none
  | .teardown => if c.td.isSome then some (teardown c) else none
  | .timerR => if c.rT && c.visible && free c then some (flip c .rtimeout true) else none
  | .timerW => if c.wT && c.visible && free c then some (timerW c) else none
  | .setDl r w =>
    if c.visible && !c.closed && free c then
      some { c with rT := c.rT || r, wT := c.wT || w, wTdial := if w && !c.wT then false else c.wTdial }
    else none
  | .clearW => if c.visible && !c.closed && free c then some { c with wT := false, wTdial := false } else none
  | .setQ q => if c.visible && !c.closed && free c then some { c with q := q } else none
  | .op sys => if (c.visible || c.kind == .add) && free c then some (userOp c sys).1 else none

def run (c : Conn) : List Act → Conn
  | [] => c
  | a :: as => match step c a with
    | some c' => run c' as
    | none => run c as

/-- all steps of the list are enabled, in turn (what the driver uses: a disabled step is a model error) -/
def runAll (c : Conn) : List Act → Option Conn
  | [] => some c
  | a :: as => match step c a with
    | some c' => runAll c' as
    | none => none

end Life
