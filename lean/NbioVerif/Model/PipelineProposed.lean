/-! PROPOSED PATCH ONLY (docs/proposed/c10-close-after-flush.patch, NOT applied to the tree): copy of
`Model/Pipeline.lean` in which the close decision waits for the write list (`draining`).  Not run by any driver, not
listed in `Audit/`.

C10 (a): one HTTP server connection as a transition system at the level of whole messages.

Composition of three components that are represented here by what their own properties establish
(explicit structure fields / parameters, not re-proved):

* parser (C06/C07): splits the inbound stream into the requests `cfg.reqs`, in order — step `parse`
  is `ServerProcessor.OnComplete` up to and including `parser.Execute(job)`;
* per-connection job queue (C05): accepted jobs run one at a time, exactly once, in acceptance order —
  field `queue` is `Conn.jobList` seen through that specification (head = running / next to run);
  with `SyncExecutor` (`cfg.sync`, blocking I/O modes) `Execute` never refuses;
* response writer (C09): the job of request `k` (handler + `flushResponse`) performs the conn writes
  `(reqs[k]).pieces`, whose concatenation is the response of request `k`, and nothing else writes to
  the conn — steps `start` / `write` / `finish`.

`finish` is the tail of `flushResponse`: `if req.Close { closeAfterFlush(conn) }` (the repaired code:
the connection is closed once its write list has been flushed).  `extClose` is any close that
does not come from the close decision (peer reset, deadline, parse error, engine stop, failed write).
Between `Conn.Write` and the peer sits the conn's write list (M1, C01/C04): `wire` is what the kernel
took, `pending` what is still queued, `flush` the poller moving it on; `Close` and every other
immediate close (`extClose`) release the queue, the close decision waits for it (`draining`).
Nondeterminism = the order of the actions and the kernel's answers (an arbitrary `List Act`, disabled
actions are skipped).
Core Lean only (linked into `pipedrv`). -/
namespace PipelineProposed

abbrev Bytes := List UInt8

/-! ### the close decision of `ServerProcessor.OnComplete` (processor.go:242-262) -/

/-- ASCII part of `strings.ToLower` (header values are ASCII in the agreed domain) -/
def lowerB (b : UInt8) : UInt8 := if 65 ≤ b.toNat && b.toNat ≤ 90 then b + 32 else b
def lower (v : Bytes) : Bytes := v.map lowerB

def dropSp : Bytes → Bytes
  | [] => []
  | b :: r => if b == 32 then dropSp r else b :: r

/-- `strings.Trim(v, " ")` -/
def trimSp (v : Bytes) : Bytes := (dropSp (dropSp v).reverse).reverse

/-- "close" -/
def sClose : Bytes := [99, 108, 111, 115, 101]
/-- "keep-alive" -/
def sKeepAlive : Bytes := [107, 101, 101, 112, 45, 97, 108, 105, 118, 101]

/-- the `CONNECTION_VALUES` loop over `request.Header["Connection"]` (one entry per header line):
    returns `(hasClose, keepAlive)`, leaving the loop at the first `close` -/
def scanConn : List Bytes → Bool → Bool × Bool
  | [], ka => (false, ka)
  | v :: vs, ka =>
    let t := lower (trimSp v)
    if t == sClose then (true, ka)
    else if t == sKeepAlive then scanConn vs true
    else scanConn vs ka

/-- `request.Close` as computed by `OnComplete` -/
def closeDecision (major minor : Nat) (vals : List Bytes) : Bool :=
  if major < 1 then true
  else
    let r := scanConn vals false
    if major == 1 && minor == 0 then r.1 || !r.2 else r.1

/-! ### RFC 7230 §6.3 persistence rule over the connection options of §6.1 / §3.2.6 list syntax -/

def isOWS (b : UInt8) : Bool := b == 32 || b == 9

def dropOWS : Bytes → Bytes
  | [] => []
  | b :: r => if isOWS b then dropOWS r else b :: r

def trimOWS (v : Bytes) : Bytes := (dropOWS (dropOWS v).reverse).reverse

/-- split at commas (`#connection-option`) -/
def splitComma : Bytes → List Bytes
  | [] => [[]]
  | b :: r =>
    match splitComma r with
    | [] => [[b]]           -- unreachable: splitComma never returns []
    | h :: t => if b == 44 then [] :: h :: t else (b :: h) :: t

/-- the connection options of a request: every header line split at commas, OWS trimmed, empty
    elements dropped, compared case-insensitively -/
def options (vals : List Bytes) : List Bytes :=
  ((vals.flatMap splitComma).map trimOWS).filter (fun o => !o.isEmpty) |>.map lower

/-- RFC 7230 §6.3: does the connection persist after the current response? -/
def rfcPersist (major minor : Nat) (opts : List Bytes) : Bool :=
  if opts.contains sClose then false
  else if major > 1 || (major == 1 && minor ≥ 1) then true
  else if major == 1 && minor == 0 && opts.contains sKeepAlive then true
  else false

/-! ### the connection -/

structure Req (α : Type) where
  major    : Nat
  minor    : Nat
  connVals : List Bytes          -- values of the request's `Connection` header lines
  pieces   : List (List α)       -- conn writes of handler + flushResponse for this request (C09)

def Req.close {α} (r : Req α) : Bool := closeDecision r.major r.minor r.connVals
def Req.resp {α} (r : Req α) : List α := r.pieces.flatten

structure Cfg (α : Type) where
  reqs : List (Req α)            -- what the parser delivers, in order (C06/C07)
  sync : Bool                    -- parser.Execute = SyncExecutor (blocking modes): never refuses

structure St (α : Type) where
  next     : Nat                         -- index of the next request the parser will complete
  queue    : List Nat                    -- jobs accepted by Execute and not yet finished (FIFO, C05)
  cur      : Option (List (List α))      -- remaining conn writes of the running job (head of `queue`)
  wire     : List α                      -- bytes the kernel has accepted = what the peer receives, in order
  pending  : List α                      -- Conn.writeList: taken by Conn.Write, not yet by the kernel (M1)
  closed   : Bool                        -- Conn.closed
  draining : Bool                        -- Conn.closeOnDrain: CloseAfterFlush is waiting for the write list
  byServer : Bool                        -- ghost: closed by the close decision (flushResponse)
  ext      : Bool                        -- ghost: an `extClose` happened
  dropped  : Bool                        -- ghost: a close released a non-empty write list
  fin      : Nat                         -- ghost: number of jobs finished
  handled  : List Nat                    -- ghost: handlers invoked, in order

/-- `write none`: the kernel takes the whole buffer; `write (some k)`: a short write, it takes k bytes
    and `Conn.write` queues the rest.  `flush k`: the poller's EPOLLOUT flush moves k queued bytes to
    the kernel. -/
inductive Act where
  | parse | start | write (k : Option Nat) | flush (k : Nat) | finish | extClose
  deriving Repr, DecidableEq

def init {α} : St α :=
  { next := 0, queue := [], cur := none, wire := [], pending := [], closed := false, draining := false,
    byServer := false, ext := false, dropped := false, fin := 0, handled := [] }

/-- no more bytes are taken from the application: closed, or waiting to close -/
def St.shut {α} (s : St α) : Bool := s.closed || s.draining

def step {α} (cfg : Cfg α) (s : St α) : Act → Option (St α)
  | .parse =>
    -- OnComplete: request `next` is complete; `parser.Execute(job)` refuses on a closed nbio.Conn
    if s.next < cfg.reqs.length then
      if s.closed && !cfg.sync then some { s with next := s.next + 1 }
      else some { s with next := s.next + 1, queue := s.queue ++ [s.next] }
    else none
  | .start =>
    -- the drainer takes the head job: `engine.Handler.ServeHTTP` begins
    match s.cur, s.queue with
    | none, k :: _ =>
      match cfg.reqs[k]? with
      | some r => some { s with cur := some r.pieces, handled := s.handled ++ [k] }
      | none => none
    | _, _ => none
  | .write k =>
    -- one `conn.Write` of the running job.  On a closed (or closing: closeOnDrain) conn it fails and
    -- nothing is taken.  Otherwise `Conn.write`: with an empty write list the kernel is tried first
    -- and the unsent rest is queued; behind a backlog the whole buffer is queued.
    match s.cur with
    | some (p :: ps) =>
      if s.closed || s.draining then some { s with cur := some ps }
      else if s.pending.isEmpty then
        let n := match k with | none => p.length | some k => k
        some { s with cur := some ps, wire := s.wire ++ p.take n, pending := p.drop n }
      else some { s with cur := some ps, pending := s.pending ++ p }
    | _ => none
  | .flush k =>
    -- the poller flushes part of the backlog; `flush()` that empties the list of a connection marked
    -- by CloseAfterFlush closes it
    if !s.closed && !s.pending.isEmpty && k > 0 then
      if (s.pending.drop k).isEmpty && s.draining then
        some { s with wire := s.wire ++ s.pending, pending := [], closed := true, draining := false,
                      byServer := true }
      else some { s with wire := s.wire ++ s.pending.take k, pending := s.pending.drop k }
    else none
  | .finish =>
    -- tail of flushResponse: `if req.Close { closeAfterFlush(conn) }`, then the drainer's `next`.
    -- `Conn.CloseAfterFlush`: nothing queued → close now; else mark the connection, `flush` closes it.
    match s.cur, s.queue with
    | some [], k :: q =>
      let cl := match cfg.reqs[k]? with | some r => r.close | none => false
      if cl && !s.closed && !s.draining then
        if s.pending.isEmpty then
          some { s with cur := none, queue := q, fin := s.fin + 1, closed := true, byServer := true }
        else some { s with cur := none, queue := q, fin := s.fin + 1, draining := true }
      else some { s with cur := none, queue := q, fin := s.fin + 1 }
    | _, _ => none
  | .extClose =>
    -- Close / deadline / peer reset / write error: at once, the write list is released
    some { s with closed := true, ext := true, draining := false, pending := [],
                  dropped := s.dropped || !s.pending.isEmpty }

def run {α} (cfg : Cfg α) : St α → List Act → St α
  | s, [] => s
  | s, a :: as =>
    match step cfg s a with
    | some s' => run cfg s' as
    | none => run cfg s as          -- disabled action: skipped

/-- nothing left to do: every request parsed, every accepted job finished -/
def quiescent {α} (cfg : Cfg α) (s : St α) : Prop := s.next = cfg.reqs.length ∧ s.queue = []

/-- responses of the first `j` requests, concatenated -/
def W {α} (reqs : List (Req α)) (j : Nat) : List α := ((reqs.take j).map Req.resp).flatten

/-- number of requests that get an answer: up to and including the first one whose close decision
    is true, or all -/
def answered {α} : List (Req α) → Nat
  | [] => 0
  | r :: rs => if r.close then 1 else 1 + answered rs

/-- the stream the property demands: `resp₁ ++ … ++ respₘ` -/
def ideal {α} (cfg : Cfg α) : List α := W cfg.reqs (answered cfg.reqs)

def willClose {α} (cfg : Cfg α) : Bool := cfg.reqs.any Req.close

/-! ### what the driver executes: `run` itself, on an explicit action list, plus decidable end checks

`pipedrv` calls `run cfg init (pref ++ completion k)`: the schedule letters of the K line followed by k
rounds of the connection's own actions, and prints a prediction only if `noExt`, `doneB` and
`dropped = false` hold for that very run — the hypotheses of `c10_run_checked`
(Properties/C10.lean), so every printed line is covered by the audited theorems about `run`. -/

/-- one round of the connection's own actions (the kernel takes everything, the backlog is flushed) -/
def round : List Act :=
  [.parse, .start, .flush 1000000000, .write none, .flush 1000000000, .finish]

def completion (k : Nat) : List Act := (List.replicate k round).flatten

/-- no external close in an action list -/
def noExt (acts : List Act) : Bool := acts.all (fun a => a != .extClose)

/-- quiescent and nothing left in the write list -/
def doneB {α} (cfg : Cfg α) (s : St α) : Bool :=
  s.next == cfg.reqs.length && s.queue.isEmpty && s.pending.isEmpty

end PipelineProposed
