/-! The engine's descriptor table as the poller uses it: every event names a descriptor number; the poller looks the
number up (`connsUnix[fd]`) and reads from THAT conn's socket. Several stream conns are live at once; a closed conn's
number is handed out again by the kernel (the new conn takes the slot); events collected for the old conn may still be in
the poller's batch (stale events). Each conn has a socket of its own: what its peer sent (`sent`), what was handed to
its data callback (`got`), what is still queued (`pend`).

Go code mirrored: poller_epoll.go `getConn(fd)` / `readWriteLoop` dispatch, `addConn` (table store), `deleteConn`
(table entry cleared only if it still is this conn). Core Lean only. -/
namespace FdTable

structure Side where
  k : Nat
  slot : Nat                 -- descriptor number
  sent : List UInt8 := []
  got : List UInt8 := []
  pend : List UInt8 := []
  live : Bool := true
  deriving Repr

structure T where
  conns : List Side := []
  deriving Repr

/-- `connsUnix[slot]`: the live conn that was stored there last -/
def owner (t : T) (slot : Nat) : Option Nat :=
  (t.conns.reverse.find? (fun s => s.live && s.slot == slot)).map (·.k)

def upd (t : T) (f : Side → Side) : T := { conns := t.conns.map f }

def add (t : T) (k slot : Nat) : T := { conns := t.conns ++ [{ k, slot }] }

/-- the peer of conn `k` sends -/
def send (t : T) (k : Nat) (b : List UInt8) : T :=
  upd t fun s => if s.k == k && s.live then { s with sent := s.sent ++ b, pend := s.pend ++ b } else s

/-- a readable event for descriptor `slot` (current or stale), drained: the owner of the slot reads its own socket -/
def event (t : T) (slot : Nat) : T :=
  match owner t slot with
  | none => t
  | some k => upd t fun s => if s.k == k && s.live then { s with got := s.got ++ s.pend, pend := [] } else s

def close (t : T) (k : Nat) : T := upd t fun s => if s.k == k then { s with live := false } else s

inductive Act
  | add (k slot : Nat) | send (k : Nat) (b : List UInt8) | event (slot : Nat) | close (k : Nat)

def step (t : T) : Act → T
  | .add k slot => add t k slot
  | .send k b => send t k b
  | .event slot => event t slot
  | .close k => close t k

def run (t : T) : List Act → T
  | [] => t
  | a :: as => run (step t a) as

/-- per conn: handed over ++ still queued = what ITS peer sent — nothing of another conn, nothing lost or reordered -/
def Ok (s : Side) : Prop := s.got ++ s.pend = s.sent

end FdTable
