import NbioVerif.Model.Own
/-! M11 Ownership, request side: length-abstracted twins of BodyReader (nbhttp/body.go: append, Read,
Close), of the parser's cache handling (Parser.Parse entry / label Exit, CloseAndClean in
nbhttp/parser.go) and of releaseRequest (processor.go), sharing ONE heap with the response twin
(`Own.O`) the way the real code shares one allocator.

What the parser does with the BYTES (where a message ends, how a body is sliced into OnBody calls,
how many bytes stay unparsed) is an environment answer: `ParseRes`.  The theorems quantify over all
of them; the driver takes them from the HTTP parser model (`Http.implParse`). -/
namespace Own

/-- one pooled buffer of a BodyReader: id, length, capacity -/
structure BBuf where
  id : Nat
  len : Nat
  cap : Nat
  deriving DecidableEq, Repr

/-- BodyReader -/
structure BR where
  bufs : List BBuf := []
  index : Nat := 0
  left : Nat := 0
  closed : Bool := false

/-- the request side of one connection + the heap (inside the response twin `o`) -/
structure PS where
  cache : Option Buf := none     -- Parser.bytesCached
  closed : Bool := false         -- Parser.state == stateClose
  body : Option BR := none       -- ServerProcessor.request.Body of the message under construction
  o : O := {}                    -- the response twin (owner fields empty between handler calls); its heap is THE heap

def PS.heap (s : PS) : Heap := s.o.heap
def PS.withHeap (s : PS) (h : Heap) : PS := { s with o := { s.o with heap := h } }

/-! ### BodyReader -/

/-- append, first half: fill the spare capacity of the LAST buffer (`cap - len` bytes at most); returns how
many of the `n` bytes went in -/
def fillLast (h : Heap) : List BBuf → Nat → Heap × List BBuf × Nat
  | [], _ => (h, [], 0)
  | [b], n =>
    if b.cap - b.len > 0 then
      let t := if b.cap - b.len > n then n else b.cap - b.len
      (h.touch b.id none, [{ b with len := b.len + t }], t)
    else (h, [b], 0)
  | b :: b2 :: rest, n =>
    let (h, rest', t) := fillLast h (b2 :: rest) n
    (h, b :: rest', t)

/-- the data of OnBody lies in the parser cache when there is one -/
def touchSrc (h : Heap) : Option Nat → Heap
  | some id => h.touch id none
  | none => h

/-- BodyReader.append(data) with len(data) = n; `src` = pooled buffer the data lies in (the parser
cache), `capOf` = capacity the allocator gives a Malloc(size). `false` = ErrTooLong -/
def brAppend (capOf : Nat → Nat) (maxBody : Nat) (h : Heap) (br : BR) (src : Option Nat) (n : Nat) : Heap × BR × Bool :=
  if n == 0 then (h, br, true) else
  if maxBody > 0 && n + br.left > maxBody then (h, br, false) else
  let p := fillLast (touchSrc h src) br.bufs n
  let rem := n - p.2.2
  if rem > 0 then
    let m := p.1.malloc rem
    (m.1.touch m.2 none, { br with left := br.left + n, bufs := p.2.1 ++ [⟨m.2, rem, capOf rem⟩] }, true)
  else (p.1, { br with left := br.left + n, bufs := p.2.1 }, true)

/-- the copy loop of BodyReader.Read(p), len(p) = need -/
def brReadLoop : Nat → Heap → BR → Nat → Nat → Heap × BR × Nat
  | 0, h, br, _, nc => (h, br, nc)
  | f+1, h, br, need, nc =>
    if !(nc < need && br.left > 0) then (h, br, nc) else
    match br.bufs with
    | [] => (h, { br with left := 0 }, nc)
    | b :: rest =>
      if br.index ≥ b.len then brReadLoop f (h.free b.id) { br with bufs := rest, index := 0 } need nc
      else
        let c := min (need - nc) (b.len - br.index)
        let h := h.touch b.id none
        if c + br.index ≥ b.len then
          brReadLoop f (h.free b.id) { br with bufs := rest, index := 0, left := br.left - c } need (nc + c)
        else
          brReadLoop f h { br with index := br.index + c, left := br.left - c } need (nc + c)

/-- BodyReader.Read: (bytes copied, io.EOF?) -/
def brRead (h : Heap) (br : BR) (need : Nat) : Heap × BR × Nat × Bool :=
  if br.closed then (h, br, 0, true) else
  if br.left == 0 then (h, br, 0, true) else
  let (h, br', nc) := brReadLoop (2 * br.bufs.length + need + 2) h br need 0
  -- the loop's early exit `len(buffers) == 0` returns io.EOF when nothing was copied
  (h, br', nc, nc == 0 && br'.left == 0 && need > 0)

def freeAll (h : Heap) : List BBuf → Heap
  | [] => h
  | b :: rest => freeAll (h.free b.id) rest

/-- BodyReader.Close -/
def brClose (h : Heap) (br : BR) : Heap × BR :=
  if br.closed then (h, br) else
  (freeAll h br.bufs, { br with closed := true, bufs := [], left := 0, index := 0 })

/-! ### the parser's cache -/

/-- what one Parse call did with the bytes -/
structure ParseRes where
  evs : List (Option Nat)   -- in order: `some n` = OnBody with n bytes, `none` = OnComplete
  err : Bool                -- Parse returned an error (from the loop: label Exit is not reached)
  left : Nat                -- bytes that stay unparsed (if no error)

/-- one thing the handler does: read the body into a buffer of `n` bytes, close it, or a response
operation (with its environment answers) -/
inductive HOp
  | read (n : Nat) | close | resp (e : Env) (op : Op)

/-- what the handler does with a request, and the environment of the final flushResponse -/
structure Handler where
  ops : List HOp := []
  fin : Env := {}
  rejected : Bool := false   -- parser.Execute refuses the job (the connection is closing): the handler never runs

/-- the handler body: `o` is the response twin (its heap is the shared heap) -/
def runHandler : O → BR → List HOp → O × BR × List (Nat × Bool)
  | o, br, [] => (o, br, [])
  | o, br, .read n :: rest =>
    let (h, br, c, eof) := brRead o.heap br n
    let (o, br, out) := runHandler { o with heap := h } br rest
    (o, br, (c, eof) :: out)
  | o, br, .close :: rest =>
    let (h, br) := brClose o.heap br
    runHandler { o with heap := h } br rest
  | o, br, .resp e op :: rest => runHandler (step e o op).1 br rest

/-- OnComplete: handler, flushResponse with releaseRequest between the flush and releaseResponse -/
def complete (s : PS) (hd : Handler) : PS × List (Nat × Bool) :=
  let br := s.body.getD {}
  -- `if !parser.Execute(..) { releaseRequest(request) }`
  if hd.rejected then ({ s with body := none, o := { heap := (brClose s.heap br).1 } }, []) else
  let h := s.heap
  let o : O := { heap := h }
  let (o, br, out) := runHandler o br hd.ops
  let o := (finishFlush hd.fin o).1
  let (h, _) := brClose o.heap br
  let o := release { o with heap := h }
  ({ s with body := none, o := { heap := o.heap } }, out)

/-- the events of one Parse call -/
def events (capOf : Nat → Nat) (maxBody : Nat) (hd : Handler) : PS → List (Option Nat) → PS × List (Nat × Bool)
  | s, [] => (s, [])
  | s, some n :: rest =>
    let br := s.body.getD {}
    let (h, br, _) := brAppend capOf maxBody s.heap br (s.cache.map (·.1)) n
    events capOf maxBody hd ({ s with body := some br }.withHeap h) rest
  | s, none :: rest =>
    let (s, out) := complete s hd
    let (s, out') := events capOf maxBody hd s rest
    (s, out ++ out')

/-- label Exit of Parser.Parse -/
def parseExit (s : PS) (total left : Nat) : PS :=
  if left > 0 then
    match s.cache with
    | none =>
      let (h, id) := s.heap.malloc left
      { s with cache := some (id, left) }.withHeap (h.touch id none)
    | some (old, _) =>
      if left < total then
        let (h, id) := s.heap.malloc left
        let h := (h.touch id none).touch old none
        { s with cache := some (id, left) }.withHeap (h.free old)
      else s
  else
    match s.cache with
    | some (old, _) => { s with cache := none }.withHeap (s.heap.free old)
    | none => s

inductive PRes | ok | err | closed | tooLong
  deriving DecidableEq, Repr

/-- Parser.Parse(data), len(data) = n, read limit `rl` (0 = none) -/
def parse (capOf : Nat → Nat) (maxBody rl : Nat) (hd : Handler) (s : PS) (n : Nat) (res : ParseRes) :
    PS × PRes × List (Nat × Bool) :=
  if s.closed then (s, .closed, []) else
  if n == 0 then (s, .ok, []) else
  match (match s.cache with
         | some (id, len) =>
           if rl > 0 && len + n > rl then none
           else some ({ s with cache := some (id, len + n) }.withHeap (s.heap.touch id (some (.append id))), len + n)
         | none => some (s, n)) with
  | none => (s, .tooLong, [])
  | some (s, total) =>
    let (s, out) := events capOf maxBody hd s res.evs
    if res.err then (s, .err, out) else (parseExit s total res.left, .ok, out)

/-- Processor.Close → Clean → releaseRequest of the request under construction -/
def closeBody (s : PS) : Heap :=
  match s.body with | some br => (brClose s.heap br).1 | none => s.heap

def freeCache (h : Heap) : Option Buf → Heap
  | some (id, _) => h.free id
  | none => h

/-- Parser.CloseAndClean: Processor.Close (releases the request under construction), frees the cache -/
def closeAndClean (s : PS) : PS :=
  if s.closed then s else
  { closed := true, cache := none, body := none, o := { s.o with heap := freeCache (closeBody s) s.cache } }

inductive POp
  | parse (n : Nat) (res : ParseRes) | close

def pstep (capOf : Nat → Nat) (maxBody rl : Nat) (hd : Handler) (s : PS) : POp → PS
  | .parse n res => (parse capOf maxBody rl hd s n res).1
  | .close => closeAndClean s

def prun (capOf : Nat → Nat) (maxBody rl : Nat) (hd : Handler) : PS → List POp → PS
  | s, [] => s
  | s, op :: ops => prun capOf maxBody rl hd (pstep capOf maxBody rl hd s op) ops

end Own
