/-! probe: nbio Conn write path incl. Writev, epoll arming (LT/ET/ONESHOT), open-before-register, close -/
namespace ConnFull

abbrev Bytes := List UInt8

inductive Mode | lt | et | oneshot deriving DecidableEq, Repr
inductive KAns | wrote (n : Nat) | eagain | eintr | fail deriving DecidableEq, Repr

structure Cfg where
  tcp : Bool          -- c.typ == ConnTypeTCP (else Unix stream)
  mode : Mode
  maxWB : Nat

structure Item where
  data : Bytes
  off : Nat
  deriving Repr

/-- one epoll_ctl call as seen by the kernel: op (true = ADD), wants EPOLLOUT, succeeded -/
structure Ctl where
  add : Bool
  out : Bool
  ok : Bool
  deriving DecidableEq, Repr

structure S where
  closed : Bool := false
  wl : List Item := []
  left : Nat := 0
  isWAdded : Bool := false
  -- kernel side
  reg : Bool := false         -- fd registered with epoll
  kOut : Bool := false        -- EPOLLOUT in the registered interest set
  disarmed : Bool := false    -- ONESHOT: fired and not re-armed
  wire : Bytes := []
  ctl : List Ctl := []
  onClose : Nat := 0

def maxCache : Nat := 65536

/-- newToWriteBuf -/
def enqueue (s : S) (b : Bytes) : S :=
  let s := { s with left := s.left + b.length }
  match s.wl.getLast? with
  | none => { s with wl := [⟨b, 0⟩] }
  | some tail =>
    if tail.data.length + b.length > maxCache then { s with wl := s.wl ++ [⟨b, 0⟩] }
    else { s with wl := s.wl.dropLast ++ [⟨tail.data ++ b, tail.off⟩] }

/-- the kernel's view of an EPOLL_CTL_MOD / ADD -/
def kctl (s : S) (add out : Bool) : S :=
  if add then { s with reg := true, kOut := out, disarmed := false, ctl := s.ctl ++ [⟨true, out, true⟩] }
  else if s.reg then { s with kOut := out, disarmed := false, ctl := s.ctl ++ [⟨false, out, true⟩] }
  else { s with ctl := s.ctl ++ [⟨false, out, false⟩] }      -- ENOENT, ignored by the caller

/-- poller.modWrite / resetRead / addRead per epoll mode -/
def pModWrite (g : Cfg) (s : S) : S := match g.mode with | .et => s | _ => kctl s false true
def pResetRead (g : Cfg) (s : S) : S := match g.mode with | .et => s | _ => kctl s false false
def pAddRead (g : Cfg) (s : S) : S := match g.mode with | .et => kctl s true true | _ => kctl s true false

def cModWrite (g : Cfg) (s : S) : S :=
  if !s.closed && !s.isWAdded then pModWrite g { s with isWAdded := true } else s
def cResetRead (g : Cfg) (s : S) : S :=
  if !s.closed && s.isWAdded then pResetRead g { s with isWAdded := false } else s
def resetPollerEvent (g : Cfg) (s : S) : S :=
  if g.mode == .oneshot && !s.closed then (if s.wl.isEmpty then pResetRead g s else pModWrite g s) else s

def closeNow (s : S) : S := { s with closed := true, wl := [], onClose := s.onClose + 1 }

def overflow (g : Cfg) (s : S) (n : Nat) : Bool := g.maxWB > 0 && s.left + n > g.maxWB

inductive Ret | ok (n : Int) | closed (n : Int) | overflow | io (n : Int) | again (n : Int) deriving DecidableEq, Repr

def kN (k : KAns) (len : Nat) : Nat := match k with | .wrote n => min n len | _ => 0

/-- Write's/Writev's tail -/
def post (g : Cfg) (s : S) : S := if s.wl.isEmpty then s else cModWrite g s

/-- c.write: returns (state, n, hardError?) -/
def writeInner (g : Cfg) (s : S) (b : Bytes) (k : KAns) : S × Ret :=
  if b.length == 0 then (s, .ok 0)
  else if overflow g s b.length then (s, .overflow)
  else if s.wl.isEmpty then
    if k == .fail then (s, .io (-1))
    else
      let n := kN k b.length
      let s := { s with wire := s.wire ++ b.take n }
      if b.length - n > 0 && g.tcp then (enqueue s (b.drop n), .ok b.length) else (s, .ok b.length)
  else (enqueue s b, .ok b.length)

def finishCall (g : Cfg) (r : S × Ret) : S × Ret :=
  match r.2 with
  | .overflow => (closeNow r.1, .overflow)
  | .io n => (closeNow r.1, .io n)
  | _ => (post g r.1, r.2)

def write (g : Cfg) (s : S) (b : Bytes) (k : KAns) : S × Ret :=
  if s.closed then (s, .closed (-1)) else finishCall g (writeInner g s b k)

/-- c.writev (len(in) ≠ 1), with its remainder bookkeeping exactly as written -/
def writevInner (g : Cfg) (s : S) (bs : List Bytes) (k : KAns) : S × Ret :=
  let size := (bs.map List.length).sum
  if overflow g s size then (s, .overflow)
  else if !s.wl.isEmpty then (bs.foldl enqueue s, .ok size)
  else if size == 0 then (s, .ok 0)
  else match k with
    | .fail => (s, .io 0)
    | .eagain | .eintr => (s, .again 0)
    | .wrote n0 =>
      let nwrite := min n0 size
      let s := { s with wire := s.wire ++ (bs.flatten).take nwrite }
      if nwrite > 0 && nwrite < size then
        -- for i…; n > 0: queue only the partially written buffer's tail
        let rec go (s : S) (n : Nat) : List Bytes → S
          | [] => s
          | b :: rest => if n == 0 then s else if n < b.length then enqueue s (b.drop n) else go s (n - b.length) rest
        (go s nwrite bs, .ok nwrite)
      else (s, .ok nwrite)

def writev (g : Cfg) (s : S) (bs : List Bytes) (k : KAns) : S × Ret :=
  if s.closed then (s, .closed 0)
  else match bs with
    | [b] => finishCall g (writeInner g s b k)
    | _ => finishCall g (writevInner g s bs k)

/-- flush; exhausted script = EAGAIN -/
def flush (g : Cfg) : S → List KAns → S
  | s, [] => s
  | s, k :: ks =>
    if s.closed then s else
    match s.wl with
    | [] => s                                  -- `if len(c.writeList) == 0 { return nil }` (no resetRead)
    | h :: tl =>
      match k with
      | .eagain => s
      | .eintr => flush g s ks
      | .fail => closeNow s
      | .wrote n0 =>
        let rest := h.data.drop h.off
        let n := min n0 rest.length
        if n = 0 then flush g s ks
        else
          let s := { s with wire := s.wire ++ rest.take n, left := s.left - n }
          if n = rest.length then
            let s := { s with wl := tl }
            if tl.isEmpty then cResetRead g s else flush g s ks
          else flush g { s with wl := ⟨h.data, h.off + n⟩ :: tl } ks

/-- one event for this conn in readWriteLoop (reads hit EAGAIN at once in this probe) -/
def event (g : Cfg) (s : S) (evOut evIn : Bool) (ks : List KAns) : S :=
  if !s.reg || s.closed then s else
  let s := if g.mode == .oneshot then { s with disarmed := true } else s
  let s := if evOut then flush g s ks else s
  if evIn then resetPollerEvent g s else s

/-- the safety form of C04 -/
def armedOK (g : Cfg) (s : S) : Bool := s.closed || s.wl.isEmpty || (s.reg && s.kOut && !s.disarmed) || (g.mode == .et && s.reg)

end ConnFull
