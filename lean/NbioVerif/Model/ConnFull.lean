/-!
# M1 ConnWrite — the write path of nbio's `Conn` (conn_unix.go, sendfile_unix.go, writev_linux.go,
poller_epoll.go: addConn / EPOLLOUT handling / ResetPollerEvent)

One model step = one mutex-protected section (or one unlocked poller statement) of the Go code:

* `write` / `writev` / `sendfile`   — the whole method body (under `c.mux`)
* `register`                        — `addConn`'s `EPOLL_CTL_ADD` (runs *after* the open callback)
* `registerDial`                    — `addDialer` (DialAsync, connect in progress)
* `evTake`                          — the kernel hands an event to the poller (ONESHOT: disarms the fd),
                                      the poller runs `c.flush()` for the EPOLLOUT part
* `evEnd`                           — what the poller does after the read part: `ResetPollerEvent`
                                      (ONESHOT) and `closeWithError(io.EOF)` for an error event
* `flipClosed`                      — the locked part of `closeWithError` (test-and-set `closed`, stop the timers)
* `teardown`                        — `closeWithErrorWithoutLock`, run after the unlock by the flipper only; the
                                      fatal-error branches of Write / Writev leave it pending too, those of
                                      flush / Sendfile run it inside their critical section (`closeNow`)
* `setWriteDeadline`, `timerExpire`, `timerFire` — SetWriteDeadline; the runtime starts the timer's
                                      goroutine; it takes the mutex in `closeWithError(errWriteTimeout)`

Between `evTake` and `evEnd` other steps may occur (writes from the data callback or from other
goroutines). Kernel answers are explicit inputs; an exhausted answer script means EAGAIN. A
zero-length request is answered `0, nil` by the kernel without needing room: the Go `flush` loop
then neither consumes an answer nor changes state, i.e. it spins; `flushLoop` runs on fuel and
reports that as `hung` (a theorem excludes it).

Static configuration is `Cfg`; ghost field `accepted` records the byte ranges the calls reported as
accepted (it is written, never read, by the step functions; the same holds for `wire`).
Core Lean only.
-/
namespace ConnFull

abbrev Bytes := List UInt8

inductive Mode | lt | et | oneshot deriving DecidableEq, Repr
inductive KAns | wrote (n : Nat) | eagain | eintr | fail deriving DecidableEq, Repr
inductive Err | none | closed | overflow | io deriving DecidableEq, Repr

/-- `(n, err)` as returned by Write / Writev / Sendfile -/
structure Ret where
  n : Int
  err : Err
  deriving DecidableEq, Repr

structure Cfg where
  mode : Mode
  maxWB : Nat
  /-- size and content of the source file of `Sendfile` -/
  fsize : Nat
  file : Nat → UInt8

/-- `toWrite`: a buffer with the offset of its first unsent byte, or a file range -/
inductive Item
  | buf (data : Bytes) (off : Nat)
  | file (off rem : Nat)
  deriving Repr

/-- one epoll_ctl call as seen by the kernel: op (true = ADD), wants EPOLLOUT, succeeded -/
structure Ctl where
  add : Bool
  out : Bool
  ok : Bool
  deriving DecidableEq, Repr

structure S where
  closed : Bool := false
  /-- `flush` is spinning while holding the mutex -/
  hung : Bool := false
  wl : List Item := []
  left : Nat := 0
  isWAdded : Bool := false
  -- poller side: an event of this conn has been taken and its tail is still to run
  rearm : Bool := false       -- … `ResetPollerEvent` is still to come (ONESHOT)
  evErr : Bool := false       -- … `closeWithError(io.EOF)` is still to come
  -- DialAsync: `c.onConnected != nil` (connect in progress) / the poller is running that callback
  connecting : Bool := false
  connEv : Bool := false
  /-- a dial that connected at once was registered for writing with nothing to write (`isWAdded` without a
      backlog and without a pending connected callback); cleared with `isWAdded` by the first `resetRead` -/
  idle : Bool := false
  -- write deadline: `c.wTimer != nil` / the timer has expired and its goroutine has not yet taken the mutex
  wTimer : Bool := false
  firePending : Bool := false
  -- close: the flag is flipped and the flipper has still to run closeWithErrorWithoutLock / it has closed the fd
  tearPending : Bool := false
  fdClosed : Bool := false
  -- ghosts of the kernel's edge-triggered reporting (maintained by `step`, never read by the code paths):
  -- a writability report is due (EPOLL_CTL_ADD reports the current readiness; later the kernel reports
  -- EPOLLOUT again only after it refused or shortened a write) / a call ran on a conn whose async connect had
  -- not yet reached its connected callback (impossible through the API: the conn is handed out by that callback)
  edgeDue : Bool := false
  early : Bool := false
  -- kernel side
  reg : Bool := false         -- fd registered with epoll
  kOut : Bool := false        -- EPOLLOUT in the registered interest set
  disarmed : Bool := false    -- ONESHOT: fired and not re-armed
  wire : Bytes := []
  ctl : List Ctl := []
  onClose : Nat := 0
  -- ghost
  accepted : Bytes := []

def maxCache : Nat := 65536            -- maxWriteCacheOrFlushSize
def maxSendfile : Nat := 4194304       -- maxSendfileSize

/-- bytes `off … off+n-1` of the file, built back to front in one pass (the driver runs this on 4 MiB ranges);
    `fileRange_eq`: it is `(List.range n).map fun i => g.file (off + i)` -/
def fileRangeAux (g : Cfg) (off : Nat) : Nat → Bytes → Bytes
  | 0, acc => acc
  | n + 1, acc => fileRangeAux g off n (g.file (off + n) :: acc)
def fileRange (g : Cfg) (off n : Nat) : Bytes := fileRangeAux g off n []

def total (bs : List Bytes) : Nat := (bs.map List.length).sum

/-! ## queue -/

def pushItem (s : S) (t : Item) : S := { s with wl := s.wl ++ [t] }

/-- newToWriteBuf (an empty slice is ignored) -/
def enqueue (s : S) (b : Bytes) : S :=
  if b.length = 0 then s else
  let s := { s with left := s.left + b.length }
  match s.wl.getLast? with
  | none => pushItem s (.buf b 0)
  | some (.file _ _) => pushItem s (.buf b 0)
  | some (.buf d off) =>
    if d.length + b.length > maxCache then pushItem s (.buf b 0)
    else { s with wl := s.wl.dropLast ++ [.buf (d ++ b) off] }

/-- newToWriteFile -/
def enqueueFile (s : S) (off rem : Nat) : S := pushItem s (.file off rem)

/-! ## epoll -/

/-- the kernel's view of an EPOLL_CTL_ADD / MOD -/
def kctl (s : S) (add out : Bool) : S :=
  if add then { s with reg := true, kOut := out, disarmed := false, ctl := s.ctl ++ [⟨true, out, true⟩] }
  else if s.reg then { s with kOut := out, disarmed := false, ctl := s.ctl ++ [⟨false, out, true⟩] }
  else { s with ctl := s.ctl ++ [⟨false, out, false⟩] }      -- ENOENT, ignored by the caller

/-- poller.modWrite / resetRead / addRead / addReadWrite per epoll mode -/
def pModWrite (g : Cfg) (s : S) : S := match g.mode with | .et => s | _ => kctl s false true
def pResetRead (g : Cfg) (s : S) : S := match g.mode with | .et => s | _ => kctl s false false
def pAddRead (g : Cfg) (s : S) : S := match g.mode with | .et => kctl s true true | _ => kctl s true false
def pAddReadWrite (_g : Cfg) (s : S) : S := kctl s true true

/-- Conn.modWrite -/
def cModWrite (g : Cfg) (s : S) : S :=
  if !s.closed && !s.isWAdded then pModWrite g { s with isWAdded := true } else s
/-- Conn.resetRead: back to read-only, unless something is left to write -/
def cResetRead (g : Cfg) (s : S) : S :=
  if !s.closed && s.isWAdded && s.wl.isEmpty then pResetRead g { s with isWAdded := false, idle := false } else s
/-- Conn.ResetPollerEvent (ONESHOT); back to read-only also clears the conn's belief `isWAdded` -/
def resetPollerEvent (g : Cfg) (s : S) : S :=
  if g.mode == .oneshot && !s.closed then
    (if s.wl.isEmpty then pResetRead g { s with isWAdded := false, idle := false } else pModWrite g s) else s

/-- `c.closed = true` under the mutex: the caller (only it) will run closeWithErrorWithoutLock. The
    fatal-error branches of Write / Writev do exactly this before they unlock (no timer is stopped). -/
def flip (s : S) : S := { s with closed := true, tearPending := true }

/-- closeWithErrorWithoutLock, run by the flipper: release the queue, notify (table slot, OnClose), close the fd -/
def teardown (s : S) : S :=
  if s.tearPending then { s with wl := [], onClose := s.onClose + 1, fdClosed := true, tearPending := false } else s

/-- flip and teardown in one critical section: the fatal-error branches of flush and Sendfile call
    closeWithErrorWithoutLock while they still hold the mutex (deferred unlock) -/
def closeNow (s : S) : S := { s with closed := true, wl := [], onClose := s.onClose + 1, fdClosed := true }

/-- `if c.wTimer != nil { c.wTimer.Stop(); c.wTimer = nil }` -/
def stopTimer (s : S) : S := { s with wTimer := false }

/-- the locked part of closeWithError on an open conn: flag, stop the timers (teardown follows the unlock) -/
def flipWE (s : S) : S := flip (stopTimer s)

def overflow (g : Cfg) (s : S) (n : Nat) : Bool := g.maxWB > 0 && s.left + n > g.maxWB

def kN (k : KAns) (len : Nat) : Nat := match k with | .wrote n => min n len | _ => 0

/-! ## Write / Writev -/

/-- c.write -/
def writeInner (g : Cfg) (s : S) (b : Bytes) (k : KAns) : S × Ret :=
  if b.length = 0 then (s, ⟨0, .none⟩)
  else if overflow g s b.length then (s, ⟨-1, .overflow⟩)
  else if s.wl.isEmpty then
    if k = .fail then (s, ⟨-1, .io⟩)
    else
      let n := kN k b.length
      let s := { s with wire := s.wire ++ b.take n, accepted := s.accepted ++ b }
      if b.length - n > 0 then (enqueue s (b.drop n), ⟨b.length, .none⟩) else (s, ⟨b.length, .none⟩)
  else (enqueue { s with accepted := s.accepted ++ b } b, ⟨b.length, .none⟩)

/-- the tail of Write / Writev: fatal error ⇒ close; nothing left to write ⇒ clear the write deadline;
    backlog ⇒ arm EPOLLOUT -/
def finishCall (g : Cfg) (r : S × Ret) : S × Ret :=
  if r.2.err = .none then ((if r.1.wl.isEmpty then stopTimer r.1 else cModWrite g r.1), r.2)
  else (flip r.1, r.2)

def write (g : Cfg) (s : S) (b : Bytes) (k : KAns) : S × Ret :=
  if s.hung then (s, ⟨0, .none⟩)
  else if s.closed then (s, ⟨-1, .closed⟩) else finishCall g (writeInner g s b k)

/-- the remainder bookkeeping of c.writev: `n` bytes of `bs` went out, queue the rest -/
def queueRest : S → Nat → List Bytes → S
  | s, _, [] => s
  | s, n, b :: rest =>
    if n = 0 then queueRest (enqueue s b) 0 rest
    else if n < b.length then queueRest (enqueue s (b.drop n)) 0 rest
    else queueRest s (n - b.length) rest

/-- c.writev (len(in) ≠ 1) -/
def writevInner (g : Cfg) (s : S) (bs : List Bytes) (k : KAns) : S × Ret :=
  let size := total bs
  if overflow g s size then (s, ⟨-1, .overflow⟩)
  else if !s.wl.isEmpty then (bs.foldl enqueue { s with accepted := s.accepted ++ bs.flatten }, ⟨size, .none⟩)
  else if size = 0 then (s, ⟨0, .none⟩)                     -- no iovec: no syscall
  else if k = .fail then (s, ⟨0, .io⟩)
  else
    let nwrite := kN k size
    let s := { s with wire := s.wire ++ bs.flatten.take nwrite, accepted := s.accepted ++ bs.flatten }
    if nwrite < size then (queueRest s nwrite bs, ⟨size, .none⟩) else (s, ⟨nwrite, .none⟩)

def writev (g : Cfg) (s : S) (bs : List Bytes) (k : KAns) : S × Ret :=
  if s.hung then (s, ⟨0, .none⟩)
  else if s.closed then (s, ⟨0, .closed⟩)
  else match bs with
    | [b] => finishCall g (writeInner g s b k)
    | _ => finishCall g (writevInner g s bs k)

/-! ## Sendfile -/

/-- the direct loop of Sendfile: one syscall per iteration, at most `maxSendfile` bytes each;
    `true` = fatal error -/
def sendfileLoop (g : Cfg) : S → Nat → Nat → List KAns → S × Bool
  | s, off, rem, [] =>
    if rem = 0 then (s, false)
    else (cModWrite g (enqueueFile { s with accepted := s.accepted ++ fileRange g off rem } off rem), false)
  | s, off, rem, k :: ks =>
    if rem = 0 then (s, false)
    else match k with
      | .eagain => (cModWrite g (enqueueFile { s with accepted := s.accepted ++ fileRange g off rem } off rem), false)
      | .eintr => sendfileLoop g s off rem ks
      | .fail => (closeNow s, true)
      | .wrote n0 =>
        let n := min n0 (min maxSendfile rem)
        if n = 0 then (s, false)                             -- `n == 0 && err == nil`: source exhausted
        else sendfileLoop g { s with wire := s.wire ++ fileRange g off n, accepted := s.accepted ++ fileRange g off n }
               (off + n) (rem - n) ks

/-- the range Sendfile will send: file position `off`, requested `len` (≤ 0 or too large = to EOF) -/
def sendRange (g : Cfg) (off len : Nat) : Nat := if len = 0 || len > g.fsize - off then g.fsize - off else len

/-- Conn.Sendfile with the file positioned at `off` -/
def sendfile (g : Cfg) (s : S) (off len : Nat) (ks : List KAns) : S × Ret :=
  if s.hung then (s, ⟨0, .none⟩)
  else if s.closed then (s, ⟨0, .closed⟩)
  else
    let rem := sendRange g off len
    if rem = 0 then (s, ⟨0, .none⟩)                          -- nothing to send
    else if !s.wl.isEmpty then
      (enqueueFile { s with accepted := s.accepted ++ fileRange g off rem } off rem, ⟨rem, .none⟩)
    else
      let r := sendfileLoop g s off rem ks
      if r.2 then (r.1, ⟨0, .io⟩) else (r.1, ⟨rem, .none⟩)

/-! ## flush -/

/-- the loop of Conn.flush; every iteration that reaches the kernel with a non-empty request
    consumes one answer -/
def flushLoop (g : Cfg) : Nat → S → List KAns → S
  | 0, s, _ => { s with hung := true }
  | fuel + 1, s, ks =>
    match s.wl with
    | [] => cResetRead g (stopTimer s)                       -- drained: clear the write deadline, resetRead
    | .buf d off :: tl =>
      let rest := d.drop off
      if rest.length = 0 then flushLoop g fuel s ks        -- write(fd, "", 0) = 0: nothing changes, loop again
      else match ks with
        | [] => s                                           -- script exhausted: EAGAIN
        | .eagain :: _ => s
        | .eintr :: ks => flushLoop g fuel s ks
        | .fail :: _ => closeNow s
        | .wrote n0 :: ks =>
          let n := min n0 rest.length
          if n = 0 then flushLoop g fuel s ks
          else
            let s := { s with wire := s.wire ++ rest.take n, left := s.left - n }
            if n = rest.length then flushLoop g fuel { s with wl := tl } ks
            else flushLoop g fuel { s with wl := .buf d (off + n) :: tl } ks
    | .file off rem :: tl =>
      if rem = 0 then flushLoop g fuel s ks                 -- `for v.remain > 0` not entered, item stays
      else match ks with
        | [] => s
        | .eagain :: _ => s
        | .eintr :: ks => flushLoop g fuel s ks
        | .fail :: _ => closeNow s
        | .wrote n0 :: ks =>
          let n := min n0 rem
          if n = 0 then flushLoop g fuel s ks
          else
            let s := { s with wire := s.wire ++ fileRange g off n }
            if n = rem then flushLoop g fuel { s with wl := tl } ks
            else flushLoop g fuel { s with wl := .file (off + n) (rem - n) :: tl } ks

/-- Conn.flush; with nothing to flush the writing event is dropped (`c.resetRead()`: a dial that connected at
    once was registered with it) -/
def flush (g : Cfg) (s : S) (ks : List KAns) : S :=
  if s.closed then s else if s.wl.isEmpty then cResetRead g s else flushLoop g (ks.length + 1) s ks

/-! ## registration and events -/

/-- addConn's registration (after the open callback): interest chosen by the queue state -/
def register (g : Cfg) (s : S) : S :=
  if s.hung || s.reg || s.closed then s
  else if s.wl.isEmpty then pAddRead g s else pAddReadWrite g s

/-- addDialer (DialAsync with the connect in progress): write interest is registered from the start and
    the connected callback is pending -/
def registerDial (g : Cfg) (s : S) : S :=
  if s.hung || s.reg || s.closed then s
  else pAddReadWrite g { s with isWAdded := true, connecting := true }

/-- addDialer for a dial whose connect() finished at once (unix sockets): the same registration (read+write,
    `isWAdded`), but no connected callback is pending — the callback runs on its own goroutine like any other
    caller, and the first EPOLLOUT is handled by `flush` -/
def registerDialNow (g : Cfg) (s : S) : S :=
  if s.hung || s.reg || s.closed then s
  else pAddReadWrite g { s with isWAdded := true, idle := true }

/-- which parts of a requested event the kernel can deliver in this state (no data arrives on a
    connection that is not yet established; the poller handles one event of a conn at a time) -/
def deliverable (s : S) (out inn err : Bool) : Bool × Bool × Bool :=
  if s.hung || !s.reg || s.closed || s.disarmed || s.rearm || s.evErr || s.connEv then (false, false, false)
  else (out && s.kOut, inn && !s.connecting, err)

/-- the kernel reports an event, the poller runs the EPOLLOUT part -/
def evTake (g : Cfg) (s : S) (out inn err : Bool) (ks : List KAns) : S :=
  let d := deliverable s out inn err
  if !(d.1 || d.2.1 || d.2.2) then s else
  let s := if g.mode == .oneshot then { s with disarmed := true } else s
  -- EPOLLOUT: the connected callback if the connect was in progress (its calls are separate steps),
  -- else flush
  let s := if d.1 then (if s.connecting then { s with connEv := true } else flush g s ks) else s
  { s with rearm := g.mode == .oneshot && (d.1 || d.2.1), evErr := d.2.2 }

/-- the tail of the poller's handling of the event -/
def evEnd (g : Cfg) (s : S) : S :=
  if s.hung then s else
  -- after the connected callback: `c.onConnected = nil; c.resetRead()` under the mutex
  let s := if s.connEv then cResetRead g { s with connecting := false, connEv := false } else s
  let s := if s.rearm then resetPollerEvent g { s with rearm := false } else s
  if s.evErr then (if s.closed then { s with evErr := false } else flipWE { s with evErr := false }) else s

/-! The tail of an event consists of three separately scheduled actions of the poller goroutine; other
goroutines may run between them. `evEnd` is their composition (`evEnd_eq` in Lemmas/ConnEvEnd.lean); the
poller performs them in this order, hence the guards. -/

/-- the tail of the connected callback: `c.onConnected = nil; c.resetRead()` under the mutex -/
def evConnEnd (g : Cfg) (s : S) : S :=
  if s.hung then s
  else if s.connEv then cResetRead g { s with connecting := false, connEv := false } else s

/-- `ResetPollerEvent` after the read part (or after a write-only event), ONESHOT -/
def evRearm (g : Cfg) (s : S) : S :=
  if s.hung || s.connEv then s
  else if s.rearm then resetPollerEvent g { s with rearm := false } else s

/-- `closeWithError(io.EOF)` for an event that carried an error part (its locked part) -/
def evErrClose (s : S) : S :=
  if s.hung || s.connEv || s.rearm then s
  else if s.evErr then (if s.closed then { s with evErr := false } else flipWE { s with evErr := false }) else s

/-- Close / CloseWithError: the locked part of closeWithError -/
def flipClosed (s : S) : S := if s.hung || s.closed then s else flipWE s

/-! ## write deadline -/

/-- SetWriteDeadline: zero time clears, anything else arms (AfterFunc) or re-arms (Reset) -/
def setWriteDeadline (s : S) (zero : Bool) : S :=
  if s.hung || s.closed then s else { s with wTimer := !zero }

/-- the runtime fires the timer (only a timer that is set and was not stopped): its goroutine starts -/
def timerExpire (s : S) : S := if s.wTimer then { s with firePending := true } else s

/-- the timer goroutine gets the mutex: closeWithError(errWriteTimeout) -/
def timerFire (s : S) : S :=
  if !s.firePending || s.hung then s
  else if s.closed then { s with firePending := false } else flipWE { s with firePending := false }

/-! ## transition system -/

/-! ## the kernel's edge-triggered reporting (ghost) -/

/-- the answer the direct write of Write / Writev ends with: interrupted attempts (EINTR) are retried;
    an exhausted script means EAGAIN -/
def directAns : List KAns → KAns
  | [] => .eagain
  | .eintr :: ks => directAns ks
  | k :: _ => k

/-- the kernel refused (part of) a request of `len` bytes: EAGAIN or a short count. The socket buffer is
    full then, so a writability report will follow. -/
def refused (k : KAns) (len : Nat) : Bool :=
  match k with
  | .eagain => true
  | .wrote n => n < len
  | _ => false

/-- Write / Writev issue a direct write of `n` bytes and the kernel refuses (part of) it -/
def directRefused (g : Cfg) (s : S) (n : Nat) (k : KAns) : Bool :=
  !s.hung && !s.closed && n != 0 && !overflow g s n && s.wl.isEmpty && refused k n

/-- some request of the direct loop of Sendfile (range of `rem` bytes) is refused -/
def sendfileRefused : Nat → List KAns → Bool
  | 0, _ => false
  | _ + 1, [] => true
  | rem + 1, k :: ks =>
    match k with
    | .eagain => true
    | .eintr => sendfileRefused (rem + 1) ks
    | .fail => false
    | .wrote n0 =>
      let cnt := min maxSendfile (rem + 1)
      if n0 < cnt then true else sendfileRefused (rem + 1 - cnt) ks

/-- some request of the flush loop over the queue `wl` is refused (mirrors the control flow of `flushLoop`
    on sizes and answers only) -/
def flushRefused : Nat → List Item → List KAns → Bool
  | 0, _, _ => false
  | _ + 1, [], _ => false
  | fuel + 1, .buf d off :: tl, ks =>
    let len := d.length - off
    if len = 0 then flushRefused fuel (.buf d off :: tl) ks
    else match ks with
      | [] => true
      | .eagain :: _ => true
      | .eintr :: ks => flushRefused fuel (.buf d off :: tl) ks
      | .fail :: _ => false
      | .wrote n0 :: ks => if n0 < len then true else flushRefused fuel tl ks
  | fuel + 1, .file off rem :: tl, ks =>
    if rem = 0 then flushRefused fuel (.file off rem :: tl) ks
    else match ks with
      | [] => true
      | .eagain :: _ => true
      | .eintr :: ks => flushRefused fuel (.file off rem :: tl) ks
      | .fail :: _ => false
      | .wrote n0 :: ks => if n0 < rem then true else flushRefused fuel tl ks

/-- update of the two ghosts -/
def ghost (s : S) (edge early : Bool) : S := { s with edgeDue := edge, early := early }

/-- a call on a conn whose async connect is in progress and whose connected callback has not started -/
def isEarly (s : S) : Bool := s.connecting && !s.connEv

def writeOp (g : Cfg) (s : S) (b : Bytes) (ks : List KAns) : S × Ret :=
  let r := write g s b (directAns ks)
  (ghost r.1 (s.edgeDue || directRefused g s b.length (directAns ks)) (s.early || isEarly s), r.2)

def writevOp (g : Cfg) (s : S) (bs : List Bytes) (ks : List KAns) : S × Ret :=
  let r := writev g s bs (directAns ks)
  (ghost r.1 (s.edgeDue || directRefused g s (total bs) (directAns ks)) (s.early || isEarly s), r.2)

def sendfileOp (g : Cfg) (s : S) (off len : Nat) (ks : List KAns) : S × Ret :=
  let r := sendfile g s off len ks
  (ghost r.1 (s.edgeDue || (!s.hung && !s.closed && s.wl.isEmpty && sendfileRefused (sendRange g off len) ks))
    (s.early || isEarly s), r.2)

/-- the kernel's answers as `Sendfile` acts on them when dup(2) of the source descriptor fails: a refused
    request (EAGAIN, or the exhausted script) can not be queued and is fatal like any other error -/
def denyDup1 : KAns → KAns
  | .eagain => .fail
  | k => k
def denyDup (ks : List KAns) : List KAns := ks.map denyDup1 ++ [.fail]

/-- `Sendfile` while dup(2) fails (descriptor table full). Behind a backlog the call fails before it queues
    anything and the conn stays as it is; on the direct path it is `Sendfile` with the answers `denyDup ks`
    (fixed code: the conn is closed with the error instead of dropping the remainder). No new `Op`: the call is
    a stutter or the op `.sendfile off len (denyDup ks)`, see `sendfileNoDup_step`. -/
def sendfileNoDupOp (g : Cfg) (s : S) (off len : Nat) (ks : List KAns) : S × Ret :=
  if !s.hung && !s.closed && sendRange g off len != 0 && !s.wl.isEmpty then (s, ⟨0, .io⟩)
  else sendfileOp g s off len (denyDup ks)

/-- EPOLL_CTL_ADD reports the current readiness -/
def registerOp (g : Cfg) (s : S) : S :=
  ghost (register g s) (s.edgeDue || (!s.hung && !s.reg && !s.closed)) s.early

def registerDialOp (g : Cfg) (s : S) : S :=
  ghost (registerDial g s) (s.edgeDue || (!s.hung && !s.reg && !s.closed))
    (s.early || (!s.hung && !s.reg && !s.closed && !s.wl.isEmpty))

def registerDialNowOp (g : Cfg) (s : S) : S :=
  ghost (registerDialNow g s) (s.edgeDue || (!s.hung && !s.reg && !s.closed)) s.early

/-- the parts of a requested event that are delivered (ET: EPOLLOUT only when a report is due) -/
def evDeliv (g : Cfg) (s : S) (out inn err : Bool) : Bool × Bool × Bool :=
  deliverable s (out && (g.mode != .et || s.edgeDue)) inn err

/-- ET reports EPOLLOUT only when a report is due and consumes it; the flush it triggers may earn the next one -/
def evTakeOp (g : Cfg) (s : S) (out inn err : Bool) (ks : List KAns) : S :=
  let out := out && (g.mode != .et || s.edgeDue)
  let d := deliverable s out inn err
  let t := evTake g s out inn err ks
  ghost t ((if d.1 && g.mode == .et then false else s.edgeDue) ||
      (d.1 && !s.connecting && flushRefused (ks.length + 1) s.wl ks)) s.early

inductive Op
  | write (b : Bytes) (ks : List KAns)
  | writev (bs : List Bytes) (ks : List KAns)
  | sendfile (off len : Nat) (ks : List KAns)
  | register
  | registerDial
  | registerDialNow
  | evTake (out inn err : Bool) (ks : List KAns)
  | evEnd
  | evConnEnd
  | evRearm
  | evErrClose
  | flipClosed
  | teardown
  | setWriteDeadline (zero : Bool)
  | timerExpire
  | timerFire

def step (g : Cfg) (s : S) : Op → S
  | .write b ks => (writeOp g s b ks).1
  | .writev bs ks => (writevOp g s bs ks).1
  | .sendfile off len ks => (sendfileOp g s off len ks).1
  | .register => registerOp g s
  | .registerDial => registerDialOp g s
  | .registerDialNow => registerDialNowOp g s
  | .evTake o i e ks => evTakeOp g s o i e ks
  | .evEnd => evEnd g s
  | .evConnEnd => evConnEnd g s
  | .evRearm => evRearm g s
  | .evErrClose => evErrClose s
  | .flipClosed => flipClosed s
  | .teardown => teardown s
  | .setWriteDeadline z => setWriteDeadline s z
  | .timerExpire => timerExpire s
  | .timerFire => timerFire s

def run (g : Cfg) (s : S) (ops : List Op) : S := ops.foldl (step g) s

def init : S := {}

/-! ## abstract quantities the properties are about -/

def Item.rest (g : Cfg) : Item → Bytes
  | .buf d off => d.drop off
  | .file off rem => fileRange g off rem

/-- the bytes still queued, in order -/
def pending (g : Cfg) (wl : List Item) : Bytes := (wl.map (Item.rest g)).flatten

/-- fold over a file range without building it (`foldFile_eq`); for the driver's hash of `pending` -/
def foldFile {α : Type} (g : Cfg) (f : α → UInt8 → α) : Nat → Nat → α → α
  | _, 0, a => a
  | off, rem + 1, a => foldFile g f (off + 1) rem (f a (g.file off))

/-- `(pending g wl).foldl f a` without building the list (`foldPending_eq`) -/
def foldPending {α : Type} (g : Cfg) (f : α → UInt8 → α) : List Item → α → α
  | [], a => a
  | .buf d off :: tl, a => foldPending g f tl ((d.drop off).foldl f a)
  | .file off rem :: tl, a => foldPending g f tl (foldFile g f off rem a)

def Item.held : Item → Nat
  | .buf d off => d.length - off
  | .file _ _ => 0

/-- unsent bytes held in queued buffers (what `left` accounts for; file ranges are not held) -/
def unsent (wl : List Item) : Nat := (wl.map Item.held).sum

def Item.todo : Item → Nat
  | .buf d off => d.length - off
  | .file _ rem => rem

/-- everything still to be transmitted, file ranges included (the progress measure) -/
def backlog (wl : List Item) : Nat := (wl.map Item.todo).sum

/-- EPOLLOUT will be reported when the kernel has room -/
def outArmed (s : S) : Prop := s.reg = true ∧ s.kOut = true ∧ s.disarmed = false

end ConnFull
