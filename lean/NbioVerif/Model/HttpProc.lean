import NbioVerif.Model.Http
/-! The processor glue of nbhttp as pure functions of the parse-event list (nbhttp/processor.go):
    `ServerProcessor` builds an `http.Request` from the callbacks and delivers it in `OnComplete`
    (Host, TransferEncoding, Close decision); `ClientProcessor` builds an `http.Response`.
    `http.Header` is an insertion-ordered association list (the order of keys is not observable in Go; every
    consumer of `HMap` below looks keys up, and the driver prints keys sorted). -/
namespace Http

/-- `http.Header`: key ↦ values in arrival order -/
abbrev HMap := List (Bytes × List Bytes)

/-- `h[k] = append(h[k], v)` -/
def HMap.add : HMap → Bytes → Bytes → HMap
  | [], k, v => [(k, [v])]
  | (k', vs) :: t, k, v => if k' = k then (k', vs ++ [v]) :: t else (k', vs) :: HMap.add t k v

/-- `h[k]` (nil when absent) -/
def HMap.get (h : HMap) (k : Bytes) : List Bytes := (h.lookup k).getD []

/-- `h.Get(k)`: first value or "" -/
def HMap.first (h : HMap) (k : Bytes) : Bytes := (h.get k).headD []

/-- http.ParseHTTPVersion (go1.23): the two fast-path strings, else exactly `HTTP/d.d` -/
def parseHTTPVersion (b : Bytes) : Option (Nat × Nat) :=
  if b = str "HTTP/1.1" then some (1, 1)
  else if b = str "HTTP/1.0" then some (1, 0)
  else match b with
    | [72, 84, 84, 80, 47, x, 46, y] => if isNum x && isNum y then some (x.toNat - 48, y.toNat - 48) else none
    | _ => none

/-- the request a handler receives -/
structure Req where
  method : Bytes
  target : Bytes              -- RequestURI
  proto : Bytes
  host : Bytes
  header : HMap
  contentLength : Int
  te : List Bytes             -- TransferEncoding
  body : Bytes
  trailer : HMap
  close : Bool
  deriving DecidableEq, Repr

/-- the response a client callback receives -/
structure Resp where
  proto : Bytes
  code : Nat
  status : Bytes
  header : HMap
  contentLength : Int
  body : Bytes
  trailer : HMap
  deriving DecidableEq, Repr

inductive Delivered
  | req (r : Req)
  | resp (r : Resp)
  deriving DecidableEq, Repr

/-- request / response under construction (`ServerProcessor.request`, `ClientProcessor.response`) -/
structure Building where
  method : Bytes := []
  target : Bytes := []
  proto : Bytes := []
  code : Nat := 0
  status : Bytes := []
  header : HMap := []
  contentLength : Int := 0
  body : Bytes := []
  trailer : HMap := []
  deriving DecidableEq, Repr

/-- `strings.Trim(v, " ")` -/
def trimSpaces (b : Bytes) : Bytes := trimRightSpaces (b.dropWhile (· == 32))

/-- the loop over `request.Header["Connection"]` in `ServerProcessor.OnComplete`:
    (hasClose, keepAlive); a value equal to "close" stops the scan -/
def scanConnection : List Bytes → Bool × Bool
  | [] => (false, false)
  | v :: vs =>
    let t := (trimSpaces v).map toLower
    if t = str "close" then (true, false)
    else
      let (c, k) := scanConnection vs
      if t = str "keep-alive" then (c, true) else (c, k)

/-- `request.Close` as computed by `ServerProcessor.OnComplete` (nbhttp/processor.go:242-262) -/
def closeDecision (major minor : Nat) (conn : List Bytes) : Bool :=
  if major < 1 then true
  else
    let (hasClose, keepAlive) := scanConnection conn
    if major == 1 && minor == 0 then hasClose || !keepAlive else hasClose

/-- `request.URL.Host == ""` after `ServerProcessor.OnURL`. The parser only admits targets that start with `/` or
    `*`; `url.ParseRequestURI` leaves `URL.Host` empty for those, except that `OnURL` parses `"http://" + target`
    when the method is CONNECT and the target does not start with `/` (then the host is the non-empty `*…`). -/
def urlHostEmpty (method target : Bytes) : Bool :=
  !(method == str "CONNECT" && target.head? != some 47)

/-- `ServerProcessor.OnComplete`: Host from the Host header when `URL.Host` is empty (else `request.Host` is left
    at its zero value), TransferEncoding, Close -/
def deliverReq (b : Building) : Req :=
  let (maj, min) := (parseHTTPVersion b.proto).getD (0, 0)
  { method := b.method, target := b.target, proto := b.proto,
    host := if urlHostEmpty b.method b.target then b.header.first (str "Host") else [],
    header := b.header, contentLength := b.contentLength,
    te := b.header.get (str "Transfer-Encoding"),
    body := b.body, trailer := b.trailer,
    close := closeDecision maj min (b.header.get (str "Connection")) }

def deliverResp (b : Building) : Resp :=
  { proto := b.proto, code := b.code, status := b.status, header := b.header,
    contentLength := b.contentLength, body := b.body, trailer := b.trailer }

/-- `ServerProcessor`: one callback. `none` = the Go code would dereference a nil request (never happens on event
    lists the parser produces: the first event of a message, `method`, creates the request). -/
def serverStep (cur : Option Building) (e : Ev) : Option (Option Building × List Delivered) :=
  match cur with
  | none =>
    match e with
    | .method m => some (some { method := m }, [])
    | .status _ _ => some (none, [])
    | .complete => some (none, [])
    | _ => none
  | some b =>
    match e with
    | .method m => some (some { b with method := m }, [])
    | .url u => some (some { b with target := u }, [])
    | .proto p => some (some { b with proto := p }, [])
    | .status _ _ => some (some b, [])
    | .header k v => some (some { b with header := b.header.add k v }, [])
    | .contentLength n => some (some { b with contentLength := n }, [])
    | .body d => some (some { b with body := b.body ++ d }, [])
    | .trailer k v => some (some { b with trailer := b.trailer.add (canonicalKey k) v }, [])
    | .complete => some (none, [.req (deliverReq b)])

/-- `ClientProcessor`: one callback (`proto` creates the response; `Header.Add`/`Trailer.Add` canonicalise the name) -/
def clientStep (cur : Option Building) (e : Ev) : Option (Option Building × List Delivered) :=
  match cur with
  | none =>
    match e with
    | .method _ => some (none, [])
    | .url _ => some (none, [])
    | .proto p => some (some { proto := p }, [])
    | _ => none
  | some b =>
    match e with
    | .method _ => some (some b, [])
    | .url _ => some (some b, [])
    | .proto p => some (some { b with proto := p }, [])
    | .status c s => some (some { b with code := c, status := s }, [])
    | .header k v => some (some { b with header := b.header.add (canonicalKey k) v }, [])
    | .contentLength n => some (some { b with contentLength := n }, [])
    | .body d => some (some { b with body := b.body ++ d }, [])
    | .trailer k v => some (some { b with trailer := b.trailer.add (canonicalKey k) v }, [])
    | .complete => some (none, [.resp (deliverResp b)])

/-- one processor callback -/
def procStep (isClient : Bool) (cur : Option Building) (e : Ev) : Option (Option Building × List Delivered) :=
  if isClient then clientStep cur e else serverStep cur e

/-- run the processor over an event list -/
def procRun (isClient : Bool) : Option Building → List Ev → List Delivered → Option (Option Building × List Delivered)
  | cur, [], acc => some (cur, acc)
  | cur, e :: es, acc =>
    match procStep isClient cur e with
    | none => none
    | some (cur', out) => procRun isClient cur' es (acc ++ out)

/-- the processor driven `Parse` call by `Parse` call: the messages delivered during each call (what the harness
    observes and the driver prints per line); `procCalls_flatten`: the same as one run over all the events -/
def procCalls (isClient : Bool) : Option Building → List (List Ev) → Option (Option Building × List (List Delivered))
  | cur, [] => some (cur, [])
  | cur, evs :: rest =>
    match procRun isClient cur evs [] with
    | none => none
    | some (cur', out) => (procCalls isClient cur' rest).map fun r => (r.1, out :: r.2)

/-- the messages delivered for an event list, starting with no message under construction -/
def deliveredOf (isClient : Bool) (evs : List Ev) : List Delivered :=
  match procRun isClient none evs [] with
  | some (_, out) => out
  | none => []

/-- the requests delivered to the handler for an event list (server side) -/
def requestsOf (evs : List Ev) : List Req :=
  (deliveredOf false evs).filterMap fun | .req r => some r | _ => none

/-- the responses delivered to the callback for an event list (client side) -/
def responsesOf (evs : List Ev) : List Resp :=
  (deliveredOf true evs).filterMap fun | .resp r => some r | _ => none

end Http
