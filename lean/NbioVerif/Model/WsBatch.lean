import NbioVerif.Model.Ws
/-!
# A batch of `WriteMessage` calls through the bounded send queue, as the model driver runs it

The deflater is observed, not modelled: the harness reports what `compress/flate` produced for each compressed message of
the batch (`defl=`), and the i-th compressible message of the batch is given the i-th reported output.  `batchQ` is the
function `wsdrv` calls for a `B` line of a `sendq=` case; nothing drains the queue during the batch (the sender's conn is
gated by the harness).
-/
namespace Ws

/-- result of a batch: the endpoint's state, the bytes handed to the conn writer, the error code of each call (0 = accepted) -/
structure BQ where
  k : K
  wire : Bytes
  codes : List Nat

/-- `ci` = number of compressible messages seen so far (index into the observed deflate outputs), `q` = queue length -/
def batchQ (g : Cfg) (base : Env) (defls : List Bytes) (size : Nat) : K → Nat → Nat → List (Nat × Bytes) → BQ
  | k, _, _, [] => ⟨k, [], []⟩
  | k, ci, q, (op, x) :: ms =>
    let r := appWriteQ g { base with deflate := fun _ => defls.getD ci [] } k size q op x
    let rest := batchQ g base defls size r.k (if g.writeCompression && (op == 1 || op == 2) then ci + 1 else ci) r.qlen ms
    ⟨rest.k, r.wrote.flatten ++ rest.wire, (match r.err with | some er => er.code | none => 0) :: rest.codes⟩

/-- the messages of a batch whose call returned 0 -/
def acceptedOf : List (Nat × Bytes) → List Nat → List (Nat × Bytes)
  | m :: ms, c :: cs => if c == 0 then m :: acceptedOf ms cs else acceptedOf ms cs
  | _, _ => []

end Ws
