import NbioVerif.Model.JobQ
/-!
# WebSocket callback plumbing = per-frame receive steps ∘ the connection's job queue (JobQ instance)

Go code modelled (poller-driven path, `nbhttp/websocket`):

* `Upgrader.Upgrade` runs inside the HTTP request's job (`parser.Execute` = `nbc.Execute`, conn.go:185); the open
  handler is called inside that job (upgrader.go:546) — job id `0`.
* `Conn.Parse` (one caller at a time: the poller / the single read task) delivers each complete message with
  `handleMessage` → `c.Execute(job)` (conn.go:201-223, non-must: refused once the conn is closed) — message number
  `i` in wire order is job id `i + 2`.
* `closeWithError` sets `closed` (model: `flip`), then the engine's OnClose runs
  `c.MustExecute(CloseAndClean → onClose)` (nbhttp/engine.go:1167-1181) — job id `1`, submitted once (`notify`).
* `run` / `next` are the job queue's drainer steps (JobQ).

The state embeds `JobQ.St` and every step is `JobQ.step`, so JobQ's invariant (FIFO, exactly once, single drainer)
applies verbatim; what this module adds is *which* jobs are submitted in *which* order.
-/
namespace WsCb

def jobOpen : Nat := 0
def jobClose : Nat := 1
def jobMsg (i : Nat) : Nat := i + 2

structure St where
  q        : JobQ.St
  upgraded : Bool
  wireMsgs : Nat      -- complete messages parsed so far
  accMsgs  : Nat      -- ghost: messages whose job was accepted
  notified : Bool     -- the close job has been submitted
  deriving Repr

def init : St := { q := JobQ.init, upgraded := false, wireMsgs := 0, accMsgs := 0, notified := false }

inductive Act
  | upgrade       -- the upgrade request's job is submitted (Execute)
  | recv          -- the parser completes the next message and submits its job (Execute)
  | flip          -- closeWithError wins the test-and-set
  | notify        -- engine OnClose → MustExecute(close job)
  | run           -- drainer runs the current job
  | next          -- drainer takes the lock: next job or exit
  deriving Repr

def jstep (q : JobQ.St) (a : JobQ.Act) : JobQ.St := (JobQ.step q a).getD q

def step (s : St) : Act → Option St
  | .upgrade =>
    if s.upgraded || s.q.closed then none
    else some { s with q := jstep s.q (.submit jobOpen false), upgraded := true }
  | .recv =>
    if !s.upgraded then none
    else some { s with q := jstep s.q (.submit (jobMsg s.wireMsgs) false), wireMsgs := s.wireMsgs + 1,
                       accMsgs := if s.q.closed then s.accMsgs else s.accMsgs + 1 }
  | .flip => some { s with q := jstep s.q .close }
  | .notify =>
    if s.q.closed && !s.notified && s.upgraded then
      some { s with q := jstep s.q (.submit jobClose true), notified := true }
    else none
  | .run => (JobQ.step s.q .run).map fun q => { s with q := q }
  | .next => (JobQ.step s.q .next).map fun q => { s with q := q }

def run : St → List Act → St
  | s, [] => s
  | s, a :: as => match step s a with
    | some s' => run s' as
    | none => run s as

/-- the callback sequence the property prescribes for the jobs accepted so far -/
def expected (s : St) : List Nat :=
  (if s.upgraded then [jobOpen] else []) ++ (List.range s.accMsgs).map jobMsg ++ (if s.notified then [jobClose] else [])

end WsCb
