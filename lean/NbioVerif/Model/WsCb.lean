import NbioVerif.Model.JobQ
/-!
# WebSocket callback plumbing = per-frame receive steps ∘ the connection's job queue (JobQ instance)

Go code modelled (poller-driven path, `nbhttp/websocket`):

* `Upgrader.Upgrade` runs inside the HTTP request's job (`parser.Execute` = `nbc.Execute`, conn.go:185); the open
  handler is called inside that job (upgrader.go:546) — job id `0`.
* `Conn.Parse` (one caller at a time: the poller / the single read task) delivers each complete message with
  `handleMessage` → `c.Execute(job)` (conn.go:201-223, non-must: refused once the conn is closed) — message number
  `i` in wire order is job id `i + 2`.
* `closeWithError` sets `closed` (model: `flip`), then the engine's OnClose runs
  `c.MustExecute(CloseAndClean → onClose)` (nbhttp/engine.go:1167-1181) — job id `1`, submitted once (`notify`).
* `run` / `next` are the job queue's drainer steps (JobQ).

The state embeds `JobQ.St` and every step is `JobQ.step`, so JobQ's invariant (FIFO, exactly once, single drainer)
applies verbatim; what this module adds is *which* jobs are submitted in *which* order.
-/
namespace WsCb

def jobOpen : Nat := 0
def jobClose : Nat := 1
def jobMsg (i : Nat) : Nat := i + 2

structure St where
  q        : JobQ.St
  upgraded : Bool
  wireMsgs : Nat      -- complete messages parsed so far
  accMsgs  : Nat      -- ghost: messages whose job was accepted
  notified : Bool     -- the close job has been submitted
  deriving Repr

def init : St := { q := JobQ.init, upgraded := false, wireMsgs := 0, accMsgs := 0, notified := false }

inductive Act
  | upgrade       -- the upgrade request's job is submitted (Execute)
  | recv          -- the parser completes the next message and submits its job (Execute)
  | flip          -- closeWithError wins the test-and-set
  | notify        -- engine OnClose → MustExecute(close job)
  | run           -- drainer runs the current job
  | next          -- drainer takes the lock: next job or exit
  deriving Repr

def jstep (q : JobQ.St) (a : JobQ.Act) : JobQ.St := (JobQ.step q a).getD q

def step (s : St) : Act → Option St
  | .upgrade =>
    if s.upgraded || s.q.closed then none
    else some { s with q := jstep s.q (.submit jobOpen false), upgraded := true }
  | .recv =>
    if !s.upgraded then none
    else some { s with q := jstep s.q (.submit (jobMsg s.wireMsgs) false), wireMsgs := s.wireMsgs + 1,
                       accMsgs := if s.q.closed then s.accMsgs else s.accMsgs + 1 }
  | .flip => some { s with q := jstep s.q .close }
  | .notify =>
    if s.q.closed && !s.notified && s.upgraded then
      some { s with q := jstep s.q (.submit jobClose true), notified := true }
    else none
  | .run => (JobQ.step s.q .run).map fun q => { s with q := q }
  | .next => (JobQ.step s.q .next).map fun q => { s with q := q }

def run : St → List Act → St
  | s, [] => s
  | s, a :: as => match step s a with
    | some s' => run s' as
    | none => run s as

/-- the callback sequence the property prescribes for the jobs accepted so far -/
def expected (s : St) : List Nat :=
  (if s.upgraded then [jobOpen] else []) ++ (List.range s.accMsgs).map jobMsg ++ (if s.notified then [jobClose] else [])

/-! ## the transferred path (`UpgradeAndTransferConnToPoller`, upgrader.go:465-506)

There `Upgrade` runs in the blocking server's handler goroutine: it registers the conn with the poller
(`AddTransferredConn`), writes the 101 response, and only then calls the open handler — **outside** the conn's job
queue. Messages the client sends on receipt of the response are parsed by the poller and dispatched through the job
queue while the open handler may still be running. `TSt.log` records completed callbacks of both kinds. -/

structure TSt where
  base : St
  log  : List Nat
  openDone : Bool
  deriving Repr

def tinit : TSt := { base := init, log := [], openDone := false }

inductive TAct
  | register      -- AddTransferredConn + 101 response: the poller may deliver messages from now on
  | openCb        -- the open handler (called by Upgrade after the response) completes
  | recv | flip | notify | run | next
  deriving Repr

def tstep (s : TSt) : TAct → Option TSt
  | .register => if s.base.upgraded then none else some { s with base := { s.base with upgraded := true } }
  | .openCb =>
    if s.base.upgraded && !s.openDone then some { s with log := s.log ++ [jobOpen], openDone := true } else none
  | .recv => (step s.base .recv).map fun b => { s with base := b }
  | .flip => (step s.base .flip).map fun b => { s with base := b }
  | .notify => (step s.base .notify).map fun b => { s with base := b }
  | .run =>
    match s.base.q.drainer, s.base.q.list[s.base.q.idx]? with
    | some false, some j => (step s.base .run).map fun b => { s with base := b, log := s.log ++ [j] }
    | _, _ => none
  | .next => (step s.base .next).map fun b => { s with base := b }

def trun : TSt → List TAct → TSt
  | s, [] => s
  | s, a :: as => match tstep s a with
    | some s' => trun s' as
    | none => trun s as

end WsCb
