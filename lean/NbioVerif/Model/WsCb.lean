import NbioVerif.Model.ExecQ
/-!
# WebSocket callback plumbing = per-message receive steps ∘ the connection's job queue (`ExecQ`, instance `conn`)

The job queue is **`ExecQ`** — the transition system C05's theorems are about and `jobqdrv` ties to
`Conn.Execute/MustExecute/execute` — not a copy: the state embeds `ExecQ.St`, every step of this module performs
exactly one `ExecQ.step .conn` (`step_q`), so every reachable queue state here is an `ExecQ`-reachable state
(`run_q_reachable`) and C05's theorems (one at a time, FIFO, exactly once, no lost job) apply verbatim. What this
module adds is *which* jobs are submitted in *which* order:

* `upgrade` — the upgrade request's job is submitted (`parser.Execute` = `nbc.Execute`, conn.go:185), job id `0`.
  `Upgrader.Upgrade` runs inside that job: it installs the ws session, writes the 101 response and **then** calls the
  open handler (upgrader.go:534-548). If the connection has been closed before the job is entered, the response write
  fails, `Upgrade` returns the error, the ws session is cleared: **no** open callback and, later, no ws close callback
  (`established = some false`).
* `recv` — `Conn.Parse` (one caller at a time) completes the next message and dispatches it with `c.Execute(job)`
  (conn.go:201-223; refused once the conn is closed) — message `i` in wire order is job id `i + 2`. A client sends
  frames only after it has received the 101 response, i.e. once `established = some true`.
* `flip` — `closeWithError` wins the test-and-set of `closed`.
* `notify` — the engine's OnClose runs `c.MustExecute(CloseAndClean → onClose)` (nbhttp/engine.go:1167-1181), job
  id `1`, submitted once (the "once" is C03's/C18's close-callback-exactly-once; listed as an assumption).
* `q a` — a drainer step of the queue itself: `spawn d`, `start d`, `finish d p`, `next d` (ExecQ's own actions;
  `submit`/`close` are only available through the four steps above). Entering job `0` (`start`) decides `established`
  (once: the job is accepted once, hence entered once — ExecQ's exactly-once).
-/
namespace WsCb

def jobOpen : Nat := 0
def jobClose : Nat := 1
def jobMsg (i : Nat) : Nat := i + 2

structure St where
  q           : ExecQ.St
  upgraded    : Bool          -- the upgrade job has been accepted
  wireMsgs    : Nat           -- complete messages parsed so far
  accMsgs     : Nat           -- ghost: messages whose job was accepted
  notified    : Bool          -- the close job has been submitted
  established : Option Bool   -- none: the upgrade job has not been entered; some b: entered with the conn open = b
  deriving Repr

def init : St :=
  { q := ExecQ.init, upgraded := false, wireMsgs := 0, accMsgs := 0, notified := false, established := none }

inductive Act
  | upgrade
  | recv
  | flip
  | notify
  | q (a : ExecQ.Act)
  deriving Repr

/-- the drainer actions of the queue (submissions and the close flag go through `upgrade/recv/notify/flip`) -/
def drainerAct : ExecQ.Act → Bool
  | .submit _ _ => false
  | .close => false
  | _ => true

/-- does `a` enter the upgrade job? -/
def entersOpen (q : ExecQ.St) : ExecQ.Act → Bool
  | .start d =>
    match q.drs[d]? with
    | some x => x.ph == .ready && x.job == jobOpen
    | none => false
  | _ => false

/-- `established` after drainer action `a`: decided when the upgrade job is entered for the first time -/
def nextEst (s : St) (a : ExecQ.Act) : Option Bool :=
  if entersOpen s.q a && s.established.isNone then some (!s.q.closed) else s.established

def step (s : St) : Act → Option St
  | .upgrade =>
    if s.upgraded || s.q.closed then none
    else (ExecQ.step .conn s.q (.submit jobOpen false)).map fun q => { s with q := q, upgraded := true }
  | .recv =>
    if s.established != some true then none
    else (ExecQ.step .conn s.q (.submit (jobMsg s.wireMsgs) false)).map fun q =>
      { s with q := q, wireMsgs := s.wireMsgs + 1, accMsgs := if s.q.closed then s.accMsgs else s.accMsgs + 1 }
  | .flip => (ExecQ.step .conn s.q .close).map fun q => { s with q := q }
  | .notify =>
    if s.q.closed && !s.notified && s.upgraded then
      (ExecQ.step .conn s.q (.submit jobClose true)).map fun q => { s with q := q, notified := true }
    else none
  | .q a =>
    if !drainerAct a then none
    else (ExecQ.step .conn s.q a).map fun q =>
      { s with q := q, established := nextEst s a }

def run : St → List Act → St
  | s, [] => s
  | s, a :: as => match step s a with
    | some s' => run s' as
    | none => run s as

/-- the job sequence the property prescribes for what has been accepted so far -/
def expected (s : St) : List Nat :=
  (if s.upgraded then [jobOpen] else []) ++ (List.range s.accMsgs).map jobMsg ++ (if s.notified then [jobClose] else [])

/-- does job `j` of this connection invoke a WebSocket callback? Not when the upgrade failed: then job `0` returns
    the error without calling the open handler and job `1` only cleans the HTTP parser up. -/
def isCallback (s : St) (_j : Nat) : Bool := s.established != some false

/-- the WebSocket callbacks that have completed, in order -/
def callbacks (s : St) : List Nat := s.q.done.filter (isCallback s)

/-! ## the transferred path (`UpgradeAndTransferConnToPoller`, upgrader.go:465-506)

There `Upgrade` runs in the blocking server's handler goroutine: it registers the conn with the poller
(`AddTransferredConn`), writes the 101 response, and only then calls the open handler — **outside** the conn's job
queue. Messages the client sends on receipt of the response are parsed by the poller and dispatched through the job
queue while the open handler may still be running. `TSt.log` records completed callbacks of both kinds. -/

structure TSt where
  base : St
  log  : List Nat
  openDone : Bool
  deriving Repr

def tinit : TSt := { base := init, log := [], openDone := false }

inductive TAct
  | register      -- AddTransferredConn + 101 response: the poller may deliver messages from now on
  | openCb        -- the open handler (called by Upgrade after the response) completes
  | recv | flip | notify
  | q (a : ExecQ.Act)
  deriving Repr

def tstep (s : TSt) : TAct → Option TSt
  | .register =>
    if s.base.upgraded then none else some { s with base := { s.base with upgraded := true, established := some true } }
  | .openCb =>
    if s.base.upgraded && !s.openDone then some { s with log := s.log ++ [jobOpen], openDone := true } else none
  | .recv => (step s.base .recv).map fun b => { s with base := b }
  | .flip => (step s.base .flip).map fun b => { s with base := b }
  | .notify => (step s.base .notify).map fun b => { s with base := b }
  | .q a =>
    (step s.base (.q a)).map fun b =>
      { s with base := b, log := if b.q.done.length > s.base.q.done.length then s.log ++ b.q.done.drop s.base.q.done.length
                                  else s.log }

def trun : TSt → List TAct → TSt
  | s, [] => s
  | s, a :: as => match tstep s a with
    | some s' => trun s' as
    | none => trun s as

end WsCb
