/-!
# nbhttp.Engine: connection bookkeeping, Stop and Shutdown (nbhttp/engine.go)

The HTTP engine keeps its own table of connections, `engine.conns` (a map keyed by the conn's address, guarded by
`engine.mux`), on top of the core engine's: blocking-mode conns are served by one reader goroutine each and are unknown
to the core engine, non-blocking conns are registered in a poller by `engine.AddConn`. `Stop` and `Shutdown` have to
get rid of both kinds. One model step per atomic operation of the Go code:

Per connection (the add path runs on the listener goroutine that accepted it):

* `accept k`    — `ln.Accept()` returns a conn in the `listen` loop. With `e.shutdown` already set the conn is not
                  added: the pinned loop drops it **without closing it** (`Cfg.closeLate = false`).
* `insert c`    — `engine.mux.Lock(); len(conns) >= MaxLoad ⇒ close, return; conns[key] = {}; Unlock()`.
* `userOpen c`  — `engine._onOpen(conn)`.
* `coreOpen c`  — non-blocking: `engine.AddConn(nbc)`, first part (`poller.addConn`): `c.p = p; g.onOpen(c)`, which
                  takes one `wgConn` count. The repaired code (`Cfg.checkClosed`) looks at `c.closed` under the
                  conn's mutex first and fails with `net.ErrClosed`.
* `coreReg c ok`— second part: table store + `epoll_ctl(ADD)`. It fails (`ok = false`, or always when the descriptor has
                  been closed) ⇒ `closeWithError`, which is a **no-op on a conn that is already closed**.
* `delFail c`   — `AddConn` returned an error: `Lock(); delete(conns, key); Unlock()`.
* `spawn c`     — blocking: `go engine.readConnBlocking(conn, …)`.
* `transfer c`  — blocking: the request handler upgrades and hands the conn to the poller (`Trasfered = true`,
                  `AddTransferredConn`: a new non-blocking conn with its own key is inserted).
* `readerExit c`— blocking: `Read` failed (socket closed) or `Trasfered`: the deferred function runs — `CloseAndClean`
                  unless transferred, `Lock(); delete(conns, key); Unlock()`, `_onClose`.
* `close c`     — the socket is closed (peer, user, `closeAllConns`, the core engine's Stop). Non-blocking conn known to
                  a poller (`c.p != nil`): the core close callback runs — `wgConn.Done()`, and nbhttp's handler submits
                  the **close job** through the conn's executor (`MustExecute`); after `onStop` the executor is a no-op
                  and the job is dropped. A conn that is not yet known to a poller is just marked closed.
* `runJob c`    — the close job: `CloseAndClean`, `_onClose`, `Lock(); delete(conns, key); Unlock()`.

Engine (`Stop()` / `Shutdown(ctx)`):

* `stopFlag graceful` — `e.shutdown = true`.
* `stopListeners`     — the listeners are closed: no `accept` any more.
* `sweep`             — `closeAllConns()`: under `engine.mux`, `Close()` on every conn in the map (atomic with respect
                        to `insert`/`delete`, which take the same mutex; the individual closes touch only their own conn).
* `tick`              — Shutdown's loop, `<-ticker.C`: `len(conns) == 0` ⇒ leave the loop (`drained`).
* `coreBegin`         — `Engine.Stop` of the core engine: gives back its own `wgConn` count and closes every conn in
                        the core table. Stop: after the sweep [fix 93cc237]; Shutdown: after `drained`.
* `coreWaited`        — `wgConn.Wait()` returns (no conn holds a count), then `onStop`: the executor stops.
* `coreFinish`        — pollers stopped, `g.Wait()` returns once the listener goroutines have returned (no conn is in
                        its add path any more); Stop/Shutdown returns nil.
* `ctxExpire`         — Shutdown's context ends first: it returns `ctx.Err()`.
-/
namespace HttpStop

inductive Kind | nb | blk
  deriving DecidableEq, Repr

inductive Ph | accepted | inserted | opened | coreOpen | live | failed | done | refused
  deriving DecidableEq, Repr

inductive Job | none | pending | ran | dropped
  deriving DecidableEq, Repr

structure C where
  kind   : Kind
  ph     : Ph := .accepted
  closed : Bool := false     -- the socket has been closed
  inMap  : Bool := false     -- key ∈ engine.conns
  wg     : Bool := false     -- holds one wgConn count
  job    : Job := .none      -- non-blocking: the close job
  tr     : Bool := false     -- blocking: Trasfered
  opens  : Nat := 0          -- _onOpen calls
  closes : Nat := 0          -- _onClose calls
  ins    : Nat := 0          -- ghost: inserts into engine.conns
  dels   : Nat := 0          -- ghost: deletes that removed the key
  deriving DecidableEq, Repr

structure Cfg where
  checkClosed : Bool    -- repaired poller.addConn
  closeLate   : Bool    -- repaired listen loop
  maxLoad     : Nat
  deriving Repr

/-- what a conn-level step reads from the engine -/
structure Env where
  execOn   : Bool
  room     : Bool     -- len(engine.conns) < MaxLoad
  shutdown : Bool

inductive CAct
  | insert | userOpen | coreOpen | coreReg (ok : Bool) | delFail | spawn | transfer | readerExit | close | runJob
  deriving DecidableEq, Repr

def delKey (c : C) : C := if c.inMap then { c with inMap := false, dels := c.dels + 1 } else c

/-- `Close()` on a conn -/
def closeC (e : Env) (c : C) : C :=
  if c.closed then c
  else match c.kind with
    | .blk => { c with closed := true }
    | .nb =>
      if c.ph = .coreOpen ∨ c.ph = .live then     -- c.p != nil: the core close callback runs
        { c with closed := true, wg := false, job := if e.execOn then .pending else .dropped }
      else { c with closed := true }

def cstep (g : Cfg) (e : Env) (c : C) : CAct → Option C
  | .insert =>
    if c.ph = .accepted then
      if e.room then some { c with ph := .inserted, inMap := true, ins := c.ins + 1 }
      else some { c with ph := .refused, closed := true }
    else none
  | .userOpen => if c.ph = .inserted then some { c with ph := .opened, opens := c.opens + 1 } else none
  | .coreOpen =>
    if c.kind = .nb ∧ c.ph = .opened then
      if g.checkClosed && c.closed then some { c with ph := .failed }
      else some { c with ph := .coreOpen, wg := true }
    else none
  | .coreReg ok =>
    if c.ph = .coreOpen then
      if ok && !c.closed then some { c with ph := .live }
      else some { (closeC e c) with ph := .failed }      -- closeWithError: nothing happens if already closed
    else none
  | .delFail => if c.ph = .failed then some { (delKey c) with ph := .done } else none
  | .spawn => if c.kind = .blk ∧ c.ph = .opened then some { c with ph := .live } else none
  | .transfer => if c.kind = .blk ∧ c.ph = .live ∧ !c.closed ∧ !c.tr then some { c with tr := true } else none
  | .readerExit =>
    if c.kind = .blk ∧ c.ph = .live ∧ (c.closed ∨ c.tr) then
      some { (delKey c) with ph := .done, closes := c.closes + 1, closed := true }
    else none
  | .close => if c.closed ∨ c.ph = .accepted ∨ c.ph = .refused then none else some (closeC e c)
  | .runJob => if c.job = .pending then some { (delKey c) with job := .ran, closes := c.closes + 1 } else none

inductive Sp | idle | flagged | sweeping | coreWait | coreStopped | returned
  deriving DecidableEq, Repr

inductive Ret | none | ok | ctxErr
  deriving DecidableEq, Repr

structure St where
  conns    : List C := []
  shutdown : Bool := false
  lnOpen   : Bool := true
  sp       : Sp := .idle
  graceful : Bool := false
  drained  : Bool := false
  execOn   : Bool := true
  ret      : Ret := .none
  sweeps   : Nat := 0
  deriving DecidableEq, Repr

inductive Act
  | accept (k : Kind)
  | conn (i : Nat) (a : CAct)
  | stopFlag (graceful : Bool) | stopListeners | sweep | tick | coreBegin | coreWaited | coreFinish | ctxExpire
  deriving DecidableEq, Repr

def online (s : St) : Nat := (s.conns.filter (·.inMap)).length

def env (g : Cfg) (s : St) : Env := { execOn := s.execOn, room := online s < g.maxLoad, shutdown := s.shutdown }

/-- the add path of the conn is still running on its listener goroutine -/
def inAddPath (c : C) : Bool :=
  match c.ph with
  | .accepted | .inserted | .opened | .coreOpen | .failed => true
  | .live => false
  | _ => false

def closeWhere (p : C → Bool) (e : Env) (cs : List C) : List C := cs.map fun c => if p c then closeC e c else c

/-- `closeAllConns`: everything in the map -/
def sweepAll (e : Env) (cs : List C) : List C := closeWhere (·.inMap) e cs

/-- the core engine's Stop closes what is in its table -/
def coreCloseAll (e : Env) (cs : List C) : List C := closeWhere (fun c => c.kind == .nb && c.ph == .live) e cs

def step (g : Cfg) (s : St) : Act → Option St
  | .accept k =>
    if s.lnOpen then
      if s.shutdown then some { s with conns := s.conns ++ [{ kind := k, ph := .refused, closed := g.closeLate }] }
      else some { s with conns := s.conns ++ [{ kind := k }] }
    else none
  | .conn i a =>
    match s.conns[i]? with
    | some c =>
      match cstep g (env g s) c a with
      | some c' =>
        let cs := s.conns.set i c'
        -- a transfer hands the descriptor to a new non-blocking conn (AddTransferredConn: its add path starts)
        if a = .transfer then some { s with conns := cs ++ [{ kind := .nb }] } else some { s with conns := cs }
      | none => none
    | none => none
  | .stopFlag gr => if s.sp = .idle then some { s with sp := .flagged, shutdown := true, graceful := gr } else none
  | .stopListeners => if s.sp = .flagged then some { s with sp := .sweeping, lnOpen := false } else none
  | .sweep =>
    if s.sp = .sweeping ∧ s.ret = .none ∧ (s.graceful ∨ s.sweeps = 0) ∧ !s.drained then
      some { s with conns := sweepAll (env g s) s.conns, sweeps := s.sweeps + 1 }
    else none
  | .tick =>
    if s.sp = .sweeping ∧ s.graceful ∧ s.ret = .none ∧ s.sweeps ≥ 1 ∧ !s.drained ∧ online s = 0 then some { s with drained := true }
    else none
  | .coreBegin =>
    if s.sp = .sweeping ∧ s.ret = .none ∧ s.sweeps ≥ 1 ∧ (s.graceful → s.drained) then
      some { s with sp := .coreWait, conns := coreCloseAll (env g s) s.conns }
    else none
  | .coreWaited =>
    if s.sp = .coreWait ∧ s.conns.all (fun c => !c.wg) then some { s with sp := .coreStopped, execOn := false } else none
  | .coreFinish =>
    if s.sp = .coreStopped ∧ s.conns.all (fun c => !inAddPath c) then
      some { s with sp := .returned, ret := if s.ret = .none then .ok else s.ret }
    else none
  | .ctxExpire =>
    if s.graceful ∧ s.ret = .none ∧ s.sp ≠ .idle ∧ s.sp ≠ .flagged ∧ s.sp ≠ .returned then
      some { s with ret := .ctxErr, conns := if s.sp = .sweeping then sweepAll (env g s) s.conns else s.conns }
    else none

def init : St := {}

def run (g : Cfg) : St → List Act → St
  | s, [] => s
  | s, a :: as => match step g s a with
    | some s' => run g s' as
    | none => run g s as

def fixed : Cfg := { checkClosed := true, closeLate := true, maxLoad := 1000 }
def pinned : Cfg := { checkClosed := false, closeLate := false, maxLoad := 1000 }

/-- the conn has nothing left to do -/
def settled (c : C) : Bool :=
  match c.ph with
  | .refused | .done => c.job = .none ∨ c.job = .ran
  | .live => c.kind = .nb ∧ c.job = .ran
  | _ => false

end HttpStop
