import NbioVerif.Model.Scan
/-! probe: the concrete nbhttp parser as a `Scan.Machine` (hand translation of nbhttp/parser.go) -/
namespace Http
open Scan

abbrev Bytes := List UInt8

inductive PState
  | close | methodBefore | method | pathBefore | path | protoBefore | proto | protoLF
  | clientProtoBefore | clientProto | statusCodeBefore | statusCode | statusBefore | status | statusLF
  | headerKeyBefore | headerValueLF | headerKey | headerValueBefore | headerValue
  | bodyContentLength | headerOverLF | chunkSizeBefore | chunkSize | chunkSizeLF
  | chunkData | chunkDataCR | chunkDataLF
  | trValueLF | trKeyBefore | trKey | trValueBefore | trValue
  | tailCR | tailLF
  deriving DecidableEq, Repr

/-- all states, in the order of the Go enum (nbhttp/state.go); `PState.num` is the value of the Go constant.
    Tied to the code by `Lemmas/HttpTables.lean` against the regenerated `Generated/HttpTables.lean`. -/
def PState.names : List (PState × String) :=
  [(.close, "close"), (.methodBefore, "methodBefore"), (.method, "method"), (.pathBefore, "pathBefore"), (.path, "path"),
   (.protoBefore, "protoBefore"), (.proto, "proto"), (.protoLF, "protoLF"), (.clientProtoBefore, "clientProtoBefore"),
   (.clientProto, "clientProto"), (.statusCodeBefore, "statusCodeBefore"), (.statusCode, "statusCode"),
   (.statusBefore, "statusBefore"), (.status, "status"), (.statusLF, "statusLF"), (.headerKeyBefore, "headerKeyBefore"),
   (.headerValueLF, "headerValueLF"), (.headerKey, "headerKey"), (.headerValueBefore, "headerValueBefore"),
   (.headerValue, "headerValue"), (.bodyContentLength, "bodyContentLength"), (.headerOverLF, "headerOverLF"),
   (.chunkSizeBefore, "chunkSizeBefore"), (.chunkSize, "chunkSize"), (.chunkSizeLF, "chunkSizeLF"), (.chunkData, "chunkData"),
   (.chunkDataCR, "chunkDataCR"), (.chunkDataLF, "chunkDataLF"), (.trValueLF, "trValueLF"), (.trKeyBefore, "trKeyBefore"),
   (.trKey, "trKey"), (.trValueBefore, "trValueBefore"), (.trValue, "trValue"), (.tailCR, "tailCR"), (.tailLF, "tailLF")]
def PState.all : List PState := PState.names.map (·.1)
/-- value of the Go state constant -/
def PState.num (s : PState) : Nat := PState.all.idxOf s

inductive Ev
  | method (m : Bytes) | url (u : Bytes) | proto (p : Bytes) | status (code : Nat) (s : Bytes)
  | header (k v : Bytes) | contentLength (n : Int) | body (d : Bytes) | trailer (k v : Bytes) | complete
  deriving DecidableEq, Repr

/-- error codes (small enum, same on the Go side) -/
inductive E
  | closed | invalidMethod | invalidURI | lfExpected | crExpected | invalidCharInHeader
  | invalidStatusCode | invalidStatus | invalidChunkSize | trailerExpected | tooLong
  | badTE | badCL | badTrailerKey | invalidTrailer | badProto | badURL | atoi | badVersionTail | unreachable
  deriving DecidableEq, Repr

def E.code : E → Nat
  | .closed => 1 | .invalidMethod => 2 | .invalidURI => 3 | .lfExpected => 4 | .crExpected => 5
  | .invalidCharInHeader => 6 | .invalidStatusCode => 7 | .invalidStatus => 8 | .invalidChunkSize => 9
  | .trailerExpected => 10 | .tooLong => 11 | .badTE => 12 | .badCL => 13 | .badTrailerKey => 14
  | .invalidTrailer => 15 | .badProto => 16 | .badURL => 17 | .atoi => 18 | .badVersionTail => 19 | .unreachable => 99

structure Cfg where
  isClient : Bool
  maxBody  : Nat                -- MaxHTTPBodySize, 0 = unlimited
  urlOk    : Bytes → Bool       -- Processor.OnURL succeeds (url.ParseRequestURI), parameter
  protoOk  : Bytes → Bool       -- http.ParseHTTPVersion succeeds, parameter

structure P where
  st : PState
  proto : Bytes := []
  statusCode : Nat := 0
  status : Bytes := []
  hKey : Bytes := []
  hVal : Bytes := []
  te : List Bytes := []         -- p.header["Transfer-Encoding"]
  tr : List Bytes := []         -- p.header["Trailer"]
  cl : List Bytes := []         -- p.header["Content-Length"]
  trailer : List Bytes := []    -- p.trailer key set
  contentLength : Int := 0
  chunkSize : Int := 0
  chunked : Bool := false
  chunkExt : Bool := false      -- the ';' of a chunk extension has been seen on the current chunk-size line
  noBody : Bool := false        -- 1xx/204/304 response: ends with its header section (RFC 7230 §3.3.3 rule 1)
  headerExists : Bool := false
  bodyHeld : Nat := 0           -- BodyReader.left of the message under construction
  deriving Repr

/-! character classes (to be replaced by regenerated tables) -/
def ch (c : Char) : UInt8 := UInt8.ofNat c.toNat
def isNum (c : UInt8) : Bool := 48 ≤ c.toNat && c.toNat ≤ 57
def isUpper (c : UInt8) : Bool := 65 ≤ c.toNat && c.toNat ≤ 90
def isLower (c : UInt8) : Bool := 97 ≤ c.toNat && c.toNat ≤ 122
def isAlpha (c : UInt8) : Bool := isUpper c || isLower c
def isHex (c : UInt8) : Bool := isNum c || (65 ≤ c.toNat && c.toNat ≤ 70) || (97 ≤ c.toNat && c.toNat ≤ 102)
def isToken (c : UInt8) : Bool :=
  isNum c || isAlpha c || [33,35,36,37,38,39,42,43,45,46,94,95,96,124,126].contains c.toNat
def toUpper (c : UInt8) : UInt8 := if isLower c then c - 32 else c
def toLower (c : UInt8) : UInt8 := if isUpper c then c + 32 else c
def str (s : String) : Bytes := s.toList.map ch
/-- keys of `validMethods` (nbhttp/table.go), sorted -/
def validMethods : List Bytes :=
  ["CONNECT","DELETE","GET","HEAD","OPTIONS","PATCH","POST","PRI","PUT","TRACE"].map str
def isValidMethodChar (c : UInt8) : Bool := validMethods.any (·.contains (toUpper c))

def SP : UInt8 := 32
def CR : UInt8 := 13
def LF : UInt8 := 10

/-- textproto.TrimString: spaces and tabs on both ends -/
def trim (b : Bytes) : Bytes :=
  let ws (c : UInt8) := c == 32 || c == 9
  ((b.dropWhile ws).reverse.dropWhile ws).reverse

def trimRightSpaces (b : Bytes) : Bytes := (b.reverse.dropWhile (· == 32)).reverse

/-- textproto's canonicalisation loop: upper-case the first letter and every letter after a `-`, lower-case the rest -/
def canonAux : Bool → Bytes → Bytes
  | _, [] => []
  | up, c :: cs => (if up then toUpper c else toLower c) :: canonAux (c == 45) cs

/-- http.CanonicalHeaderKey: names made of token characters are canonicalised, anything else is returned unchanged -/
def canonicalKey (b : Bytes) : Bytes :=
  if b.all isToken then canonAux true b else b

def digitVal (c : UInt8) : Nat :=
  if isNum c then c.toNat - 48 else if isUpper c then c.toNat - 55 else c.toNat - 87

/-- strconv.ParseInt(s, base, 63) restricted to what can reach it; none = error -/
def parseNat (base : Nat) (ok : UInt8 → Bool) (b : Bytes) : Option Nat :=
  if b = [] then none
  else if b.all ok then
    let v := b.foldl (fun acc c => acc * base + digitVal c) 0
    if v < 2 ^ 62 then some v else none
  else none

def parseHexSize (b : Bytes) : Option Nat := parseNat 16 isHex b

/-- ParseInt(cl, 10, 63): optional sign, digits; negative values rejected by the caller -/
def parseCLValue (b : Bytes) : Option Int :=
  match b with
  | 43 :: r => (parseNat 10 isNum r).map Int.ofNat
  | 45 :: r => match parseNat 10 isNum r with
      | some v => some (-(Int.ofNat v))
      | none => if r ≠ [] ∧ r.all isNum ∧ r.foldl (fun acc c => acc * 10 + digitVal c) 0 = 2 ^ 62 then some (-(2:Int)^62) else none
  | _ => (parseNat 10 isNum b).map Int.ofNat

def forbiddenTrailer (k : Bytes) : Bool :=
  k == str "Transfer-Encoding" || k == str "Trailer" || k == str "Content-Length"

def splitComma (b : Bytes) : List Bytes :=
  (b.foldr (fun c (acc : List Bytes) =>
    if c == 44 then [] :: acc else match acc with
      | [] => [[c]]
      | h :: t => (c :: h) :: t) [[]])

/-- `parseContentLength` (parser.go:730-765): absent, or the first value with trailing spaces removed through
    `ParseInt(·, 10, 63)` (an empty value is an error like any other non-numeric one); negative values rejected; every
    further Content-Length value must be equal to the first (trailing spaces aside) -/
def parseCL (p : P) : Except E P :=
  match p.cl with
  | [] => pure { p with contentLength := -1 }
  | v :: rest =>
    if rest.any (fun w => trimRightSpaces w != trimRightSpaces v) then throw E.badCL
    else match parseCLValue (trimRightSpaces v) with
      | none => throw E.badCL
      | some l => if l < 0 then throw E.badCL else pure { p with contentLength := l }

/-- `parseTransferEncoding` (parser.go): absent, or exactly one value equal to `chunked` (trimmed, any case); a
    Content-Length next to it is validated (`parseContentLength`) before it is discarded -/
def parseTE (p : P) : Except E P :=
  match p.te with
  | [] => pure p
  | [v] =>
    if (trim v).map toLower ≠ str "chunked" then throw E.badTE
    else match p.cl with
      | [] => pure { p with te := [], cl := [], chunked := true }
      | _ :: _ =>
        match parseCL p with
        | .error e => throw e
        | .ok _ => pure { p with te := [], cl := [], chunked := true }
  | _ :: _ :: _ => throw E.badTE

/-- parseTransferEncoding; parseContentLength at the blank line -/
def endOfHeaders (p : P) : Except E P := do
  let p ← parseTE p
  parseCL p

/-- the field names announced by the `Trailer` values (`parseTrailer`): each value is trimmed, split at commas when
    it contains one, the elements trimmed, empty ones dropped, the rest canonicalised -/
def declaredKeys (trs : List Bytes) : List Bytes :=
  (trs.map fun v =>
    let v := trim v
    if v = [] then []
    else if !v.contains 44 then [canonicalKey v]
    else ((splitComma v).map trim).filter (· ≠ []) |>.map canonicalKey).flatten

def addTrailerKeys (p : P) : Except E P :=
  if !p.chunked then pure p
  else if p.tr = [] then pure p
  else
    let keys := declaredKeys p.tr
    if keys.any forbiddenTrailer then throw E.badTrailerKey
    else pure { p with tr := [], trailer := keys.eraseDups }

/-- status codes for which a response never has a body (RFC 7230 §3.3.3 rule 1) -/
def bodilessStatus (code : Nat) : Bool := code / 100 == 1 || code == 204 || code == 304

/-- after the framing fields have been validated: a bodiless response has no body whatever they say -/
def noBodyOverride (p : P) : P := if p.noBody then { p with chunked := false, contentLength := 0 } else p

def handleMessage (g : Cfg) (p : P) : P :=
  { p with chunked := false, noBody := false, te := [], tr := [], cl := [], trailer := [], bodyHeld := 0,
           st := if g.isClient then .clientProtoBefore else .methodBefore }

def setSpecial (p : P) (k v : Bytes) : P :=
  if k == str "Transfer-Encoding" then { p with te := p.te ++ [v] }
  else if k == str "Trailer" then { p with tr := p.tr ++ [v] }
  else if k == str "Content-Length" then { p with cl := p.cl ++ [v] }
  else p

/-- lazily parse the chunk-size token the first time a non-hex byte is seen -/
def parseChunk (p : P) (tok : Bytes) : Except E P :=
  if p.chunkSize < 0 then
    match parseHexSize tok with
    | some n => pure { p with chunkSize := n }
    | none => throw E.invalidChunkSize
  else pure p

theorem parseChunk_st (p p' : P) (tok : Bytes) (h : parseChunk p tok = .ok p') : p'.st = p.st := by
  unfold parseChunk at h
  split at h
  · split at h
    · cases h; rfl
    · cases h
  · cases h; rfl

def ok (p : P) (u : Upd := .keep) (evs : List Ev := []) : Out P Ev := .ok p u evs
def er (e : E) (evs : List Ev := []) : Out P Ev := .err e.code evs

def byteStep (g : Cfg) (p : P) (tok : Bytes) (c : UInt8) : Out P Ev :=
  match p.st with
  | .close => er .closed
  | .methodBefore =>
    if isValidMethodChar c then ok { p with st := .method } .here else er .invalidMethod
  | .method =>
    if c == SP then
      let m := tok.map toUpper
      if validMethods.contains m then ok { p with st := .pathBefore } .next [.method m] else er .invalidMethod
    else if !isAlpha c then er .invalidMethod else ok p
  | .pathBefore =>
    if c == 47 || c == 42 then ok { p with st := .path } .here
    else if c == SP then ok p else er .invalidURI
  | .path =>
    if c == SP then
      if g.urlOk tok then ok { p with st := .protoBefore } .next [.url tok] else er .badURL
    else ok p
  | .protoBefore => if c != SP then ok { p with st := .proto } .here else ok p
  | .proto =>
    if c == SP then ok { p with proto := if p.proto = [] then tok else p.proto }
    else if c == CR then
      let pr := if p.proto = [] then tok else p.proto
      if g.protoOk pr then ok { p with proto := [], st := .protoLF } .keep [.proto pr] else er .badProto
    else if p.proto ≠ [] then er .badVersionTail     -- after the version only spaces may precede the CR
    else ok p
  | .protoLF => if c == LF then ok { p with st := .headerKeyBefore } .next else er .lfExpected
  | .clientProtoBefore => if c == 72 then ok { p with st := .clientProto } .here else er .invalidMethod
  | .clientProto =>
    if c == SP then
      let pr := if p.proto = [] then tok else p.proto
      if g.protoOk pr then ok { p with proto := [], st := .statusCodeBefore } .keep [.proto pr] else er .badProto
    else ok p
  | .statusCodeBefore =>
    if c == SP then er .invalidStatusCode
    else if isNum c then ok { p with st := .statusCode } .here else er .invalidStatusCode
  | .statusCode =>
    if c == SP then
      match parseNat 10 isNum tok with
      | some code => ok { p with statusCode := code, noBody := bodilessStatus code, st := .statusBefore }
      | none => er .atoi
    else if !isNum c then er .invalidStatusCode else ok p
  | .statusBefore =>
    if c == SP || c == LF then er .invalidStatus
    else if c == CR then ok { p with statusCode := 0, st := .statusLF } .keep [.status p.statusCode []]
    else if isAlpha c then ok { p with st := .status } .here else ok p
  | .status =>
    if c == LF then er .invalidStatus
    else if c == CR then
      let s := if p.status = [] then trimRightSpaces tok else p.status
      ok { p with statusCode := 0, status := [], st := .statusLF } .keep [.status p.statusCode s]
    else ok p
  | .statusLF => if c == LF then ok { p with st := .headerKeyBefore } else er .lfExpected
  | .headerValueLF => if c == LF then ok { p with st := .headerKeyBefore } .next else er .lfExpected
  | .headerKeyBefore =>
    if c == SP then (if !p.headerExists then er .invalidCharInHeader else ok p)
    else if c == CR then
      match endOfHeaders p with
      | .error e => er e
      | .ok p0 =>
        let p1 := noBodyOverride p0
        match addTrailerKeys p1 with
        | .error e => er e [.contentLength p1.contentLength]
        | .ok p2 => ok { p2 with st := .headerOverLF } .next [.contentLength p1.contentLength]
    else if c == LF then er .invalidCharInHeader
    else if isToken c then ok { p with st := .headerKey, headerExists := true } .here
    else er .invalidCharInHeader
  | .headerKey =>
    if c == SP then ok { p with hKey := if p.hKey = [] then canonicalKey tok else p.hKey }
    else if c == 58 then
      ok { p with hKey := if p.hKey = [] then canonicalKey tok else p.hKey, st := .headerValueBefore } .next
    else if c == CR || c == LF then er .invalidCharInHeader
    else if !isToken c then er .invalidCharInHeader else ok p
  | .headerValueBefore =>
    if c == SP then ok p
    else if c == CR then
      let v := if p.hVal = [] then tok else p.hVal
      ok { setSpecial p p.hKey v with hKey := [], hVal := [], st := .headerValueLF } .next [.header p.hKey v]
    else if c == LF then er .invalidCharInHeader
    else ok { p with st := .headerValue } .here
  | .headerValue =>
    if c == CR then
      let v := if p.hVal = [] then tok else p.hVal
      ok { setSpecial p p.hKey v with hKey := [], hVal := [], st := .headerValueLF } .next [.header p.hKey v]
    else if c == LF then er .invalidCharInHeader
    else ok p
  | .headerOverLF =>
    if c == LF then
      let p := { p with headerExists := false }
      if p.chunked then ok { p with st := .chunkSizeBefore } .next
      else if p.contentLength > 0 then ok { p with st := .bodyContentLength } .next
      else ok (handleMessage g p) .next [.complete]
    else er .lfExpected
  | .bodyContentLength => er .unreachable
  | .chunkSizeBefore =>
    if isHex c then ok { p with chunkSize := -1, chunkExt := false, st := .chunkSize } .here else er .invalidChunkSize
  | .chunkSize =>
    if c == LF then er .invalidChunkSize
    else if c == CR then
      match parseChunk p tok with | .ok p => ok { p with st := .chunkSizeLF } .next | .error e => er e
    else if p.chunkSize < 0 then
      -- the size token: hex digits, ended by whitespace or the ';' of a chunk extension
      if isHex c then ok p
      else if c != SP && c != 9 && c != 59 then er .invalidChunkSize
      else match parseChunk p tok with | .ok p => ok { p with chunkExt := c == 59 } | .error e => er e
    else if !p.chunkExt then
      -- after the size only whitespace or a chunk extension
      if c == SP || c == 9 then ok p
      else if c == 59 then ok { p with chunkExt := true }
      else er .invalidChunkSize
    else ok p
  | .chunkSizeLF =>
    if c == LF then
      if p.chunkSize > 0 then ok { p with st := .chunkData } .next
      else if p.trailer ≠ [] then ok { p with st := .trKeyBefore } .next
      else ok { p with st := .tailCR } .next
    else er .lfExpected
  | .chunkData => er .unreachable
  | .chunkDataCR => if c == CR then ok { p with st := .chunkDataLF } else er .crExpected
  | .chunkDataLF => if c == LF then ok { p with st := .chunkSizeBefore } else er .lfExpected
  | .trValueLF => if c == LF then ok { p with st := .trKeyBefore } .here else er .lfExpected
  | .trKeyBefore =>
    if isToken c then ok { p with st := .trKey } .here
    else if c == CR then
      if p.trailer ≠ [] then er .trailerExpected else ok { p with st := .tailLF } .next
    else if c != SP then er .invalidCharInHeader   -- only spaces may precede a trailer field name
    else ok p
  | .trKey =>
    if c == SP then ok { p with hKey := if p.hKey = [] then canonicalKey tok else p.hKey }
    else if c == 58 then
      ok { p with hKey := if p.hKey = [] then canonicalKey tok else p.hKey, st := .trValueBefore } .next
    else if !isToken c then er .invalidCharInHeader else ok p
  | .trValueBefore =>
    if c == SP then ok p
    else if c == CR then
      let v := if p.hVal = [] then tok else p.hVal
      ok { p with hKey := [], hVal := [], st := .trValueLF } .next [.trailer p.hKey v]
    else if c == LF then er .invalidCharInHeader
    else ok { p with st := .trValue } .here
  | .trValue =>
    if c == LF then er .invalidCharInHeader
    else if c == CR then
      let v := if p.hVal = [] then trimRightSpaces tok else p.hVal
      if p.trailer = [] then er .invalidTrailer
      else ok { p with trailer := p.trailer.erase p.hKey, hKey := [], hVal := [], st := .trValueLF } .next
             [.trailer p.hKey v]
    else ok p
  | .tailCR => if c == CR then ok { p with st := .tailLF } else er .crExpected
  | .tailLF => if c == LF then ok (handleMessage g p) .next [.complete] else er .lfExpected

def block (p : P) : Option Nat :=
  match p.st with
  | .bodyContentLength => if p.contentLength > 0 then some p.contentLength.toNat else none
  | .chunkData => if p.chunkSize > 0 then some p.chunkSize.toNat else none
  | _ => none

def blockDone (g : Cfg) (p : P) (d : Bytes) : Out P Ev :=
  if g.maxBody > 0 && d.length + p.bodyHeld > g.maxBody then er .tooLong
  else
    let p := { p with bodyHeld := p.bodyHeld + d.length }
    match p.st with
    | .bodyContentLength => ok (handleMessage g p) .next [.body d, .complete]
    | .chunkData => ok { p with st := .chunkDataCR } .next [.body d]
    | _ => er .unreachable

def machine (g : Cfg) : Machine P Ev := ⟨byteStep g, block, blockDone g⟩

def init (g : Cfg) : P := { st := if g.isClient then .clientProtoBefore else .methodBefore }

end Http
