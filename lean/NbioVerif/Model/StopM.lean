/-!
# M4 + Stop: `Engine.Stop` (engine.go:200-245) against connection registration and closing

One model step = one critical section / one unlocked statement of the Go code (DESIGN §5.1):

| step | Go code |
|------|---------|
| `new .listener` | `acceptorLoop`: `Accept()` returned, `NBConn(conn)` — only while the listeners are open |
| `new .transfer` | `Engine.AddConn(conn)` from a user goroutine (transferred / hand-made conns) — any time |
| `new .dial`     | `DialAsync`: `wgConn.Add(1)`; `addDialer` (table store, `addReadWrite`) — any time |
| `open c`     | `addConn`₁: `g.onOpen(c)` = `wgConn.Add(1)`; user handler |
| `store c`    | `addConn`₂: `g.connsUnix[fd] = c` |
| `register c ok` | `addConn`₃: `addRead(fd)`; on failure `connsUnix[fd] = nil; c.closeWithError(err)` |
| `flip c`     | somebody else's `closeWithError` wins the test-and-set of `c.closed` (poller EOF, timer, user, peer) |
| `teardown c` | `closeWithErrorWithoutLock`: `deleteConn` (table slot, `onClose` → `g.Async(closeCb)`), `close(fd)` |
| `asyncRun`   | the `timer.Async` drainer runs the head function: `closeConn c` = Stop's `cc.Close()` (test-and-set +
|              | teardown, a no-op on a closed conn), `closeCb c` = `defer wgConn.Done(); h(c, err)` |
| `stopListeners` | `for l in listeners: l.stop()` |
| `snapshot`   | `g.mux` section copying the table *slice header*, then `wgConn.Done()` |
| `scan c`     | one iteration of `for _, c := range connsUnix`: reads the slot **now** (the copy shares the backing array) |
| `scanEnd`    | loop finished (every slot that existed at the snapshot has been read) |
| `waitReturn` | `wgConn.Wait()` returns: only enabled when the counter is 0 |
| `onStop`, `stopPollers` | `g.onStop()`; `pollers[i].stop()` + `g.Wait()` |

`timer.Async` is a head-starts-drainer queue: C05's `ExecQ` with `Kind.async` (FIFO, exactly once, single drainer:
`c19_async_fifo_exactly_once`, `c19_async_completes` in `Properties/C19.lean`); here it is a plain FIFO list in the
state — its specification, assumed of the implementation, not re-proved or linked by a lemma in this file.

Ghost state: `scanned`, `cbs` (how often the close callback ran), `snapIn` (conns in the table at the snapshot),
`raced` (a registration raced the snapshot: a conn was created after the snapshot, or its slot was read while its
`addConn` had not yet stored it).
-/
namespace StopM

inductive Ph | accepted | opening | tabled | live | closing | torn | done
  deriving DecidableEq, Repr

inductive Job | closeConn (c : Nat) | closeCb (c : Nat)
  deriving DecidableEq, Repr

inductive SP | idle | listenersStopped | scanning | waiting | onStop | pollers | returned
  deriving DecidableEq, Repr

inductive NewKind | listener | transfer | dial
  deriving DecidableEq, Repr

structure C where
  ph      : Ph
  inTable : Bool
  scanned : Bool
  cbs     : Nat
  deriving DecidableEq, Repr

structure St where
  conns     : List C
  wg        : Int
  asyncQ    : List Job
  sp        : SP
  accepting : Bool
  toScan    : Nat
  snapIn    : List Nat
  raced     : Bool
  deriving Repr

def init : St :=
  { conns := [], wg := 1, asyncQ := [], sp := .idle, accepting := true, toScan := 0, snapIn := [], raced := false }

inductive Act
  | new (k : NewKind)
  | open (c : Nat)
  | store (c : Nat)
  | register (c : Nat) (ok : Bool)
  | flip (c : Nat)
  | teardown (c : Nat)
  | asyncRun
  | stopListeners
  | snapshot
  | scan (c : Nat)
  | scanEnd
  | waitReturn
  | onStop
  | stopPollers
  deriving DecidableEq, Repr

/-- steps the engine takes by itself (no peer, user, timer or new connection needed) -/
def Act.internal : Act → Bool
  | .new _ => false
  | .flip _ => false
  | _ => true

def isOpen (p : Ph) : Bool := p == .tabled || p == .live

/-- counted in `wgConn`: opened, close callback not yet finished -/
def counted (p : Ph) : Bool := p != .accepted && p != .done

def St.setC (s : St) (c : Nat) (x : C) : St := { s with conns := s.conns.set c x }

/-- ids of the conns that are in the table -/
def tableIds : List C → Nat → List Nat
  | [], _ => []
  | x :: xs, i => if x.inTable then i :: tableIds xs (i + 1) else tableIds xs (i + 1)

def allScannedBelow (l : List C) (n : Nat) : Bool :=
  (List.range n).all fun i => match l[i]? with
    | some x => x.scanned
    | none => true

/-- Stop has taken its snapshot: later creations race it -/
def pastSnapshot (p : SP) : Bool := p != .idle && p != .listenersStopped

def fresh (p : Ph) (t : Bool) : C := { ph := p, inTable := t, scanned := false, cbs := 0 }

def stepNew (s : St) : NewKind → Option St
  | .listener =>
    if s.accepting then
      some { s with conns := s.conns ++ [fresh .accepted false], raced := s.raced || pastSnapshot s.sp }
    else none
  | .transfer =>
    some { s with conns := s.conns ++ [fresh .accepted false], raced := s.raced || pastSnapshot s.sp }
  | .dial =>
    some { s with conns := s.conns ++ [fresh .live true], wg := s.wg + 1, raced := s.raced || pastSnapshot s.sp }

def stepOpen (s : St) (c : Nat) : Option St :=
  match s.conns[c]? with
  | some x => if x.ph = .accepted then some { (s.setC c { x with ph := .opening }) with wg := s.wg + 1 } else none
  | none => none

def stepStore (s : St) (c : Nat) : Option St :=
  match s.conns[c]? with
  | some x => if x.ph = .opening then some (s.setC c { x with ph := .tabled, inTable := true }) else none
  | none => none

def stepRegister (s : St) (c : Nat) (ok : Bool) : Option St :=
  match s.conns[c]? with
  | some x =>
    if x.ph = .tabled then
      some (s.setC c (if ok then { x with ph := .live } else { x with ph := .closing, inTable := false }))
    else none
  | none => none

def stepFlip (s : St) (c : Nat) : Option St :=
  match s.conns[c]? with
  | some x => if isOpen x.ph then some (s.setC c { x with ph := .closing }) else none
  | none => none

def stepTeardown (s : St) (c : Nat) : Option St :=
  match s.conns[c]? with
  | some x =>
    if x.ph = .closing then
      some { (s.setC c { x with ph := .torn, inTable := false }) with asyncQ := s.asyncQ ++ [.closeCb c] }
    else none
  | none => none

/-- Stop's `cc.Close()` inside the Async queue -/
def runCloseConn (s : St) (c : Nat) (q : List Job) : St :=
  match s.conns[c]? with
  | some x =>
    if isOpen x.ph then { (s.setC c { x with ph := .torn, inTable := false }) with asyncQ := q ++ [.closeCb c] }
    else { s with asyncQ := q }
  | none => { s with asyncQ := q }

/-- the wrapped OnClose handler: `defer wgConn.Done(); h(c, err)` -/
def runCloseCb (s : St) (c : Nat) (q : List Job) : St :=
  match s.conns[c]? with
  | some x => { (s.setC c { x with ph := .done, cbs := x.cbs + 1 }) with asyncQ := q, wg := s.wg - 1 }
  | none => { s with asyncQ := q, wg := s.wg - 1 }

def stepAsync (s : St) : Option St :=
  match s.asyncQ with
  | [] => none
  | .closeConn c :: q => some (runCloseConn s c q)
  | .closeCb c :: q => some (runCloseCb s c q)

def stepScan (s : St) (c : Nat) : Option St :=
  if s.sp = .scanning then
    match s.conns[c]? with
    | some x =>
      if x.scanned then none
      else
        some { (s.setC c { x with scanned := true }) with
               asyncQ := if x.inTable then s.asyncQ ++ [.closeConn c] else s.asyncQ,
               raced := s.raced || (x.ph == .accepted || x.ph == .opening) }
    | none => none
  else none

def step (s : St) : Act → Option St
  | .new k => stepNew s k
  | .open c => stepOpen s c
  | .store c => stepStore s c
  | .register c ok => stepRegister s c ok
  | .flip c => stepFlip s c
  | .teardown c => stepTeardown s c
  | .asyncRun => stepAsync s
  | .stopListeners =>
    if s.sp = .idle then some { s with sp := .listenersStopped, accepting := false } else none
  | .snapshot =>
    if s.sp = .listenersStopped then
      some { s with sp := .scanning, toScan := s.conns.length, snapIn := tableIds s.conns 0, wg := s.wg - 1 }
    else none
  | .scan c => stepScan s c
  | .scanEnd =>
    if s.sp = .scanning ∧ allScannedBelow s.conns s.toScan = true then some { s with sp := .waiting } else none
  | .waitReturn =>
    if s.sp = .waiting ∧ s.wg = 0 then some { s with sp := .onStop } else none
  | .onStop => if s.sp = .onStop then some { s with sp := .pollers } else none
  | .stopPollers => if s.sp = .pollers then some { s with sp := .returned } else none

def run : St → List Act → St
  | s, [] => s
  | s, a :: as => match step s a with
    | some s' => run s' as
    | none => run s as      -- disabled action: skipped

/-- the engine-internal actions that could apply to a state with `n` conns -/
def candidates (n : Nat) : List Act :=
  [.asyncRun, .stopListeners, .snapshot, .scanEnd, .waitReturn, .onStop, .stopPollers] ++
  (List.range n).flatMap fun c => [.open c, .store c, .register c true, .teardown c, .scan c]

/-- no engine-internal action is enabled -/
def stuck (s : St) : Bool := (candidates s.conns.length).all fun a => (step s a).isNone

end StopM
