/-! The WebSocket opening handshake (nbhttp/websocket/upgrader.go `commCheck` / `selectSubprotocol` / `commResponse` /
    `acceptKeyBytes` / `headerContains` / `parseExtensions` / `nextToken…`; dialer.go request rendering and response
    validation; conn.go `newConn`): what decides the configuration the C12/C13/C15 theorems quantify over.
    Requests and responses are structured (method, header list with canonical keys as the HTTP parser delivers them):
    HTTP syntax itself is C06–C09's business.  SHA-1 is a parameter (`sha1`), compared through the harness. -/
namespace WsH

abbrev Bytes := List UInt8

def s (x : String) : Bytes := x.toList.map (fun c => UInt8.ofNat c.toNat)

/-! ### token scanning (upgrader.go) -/

/-- `isTokenOctet` (RFC 7230 tchar) -/
def isTokenOctet (b : UInt8) : Bool :=
  let x := b.toNat
  (48 ≤ x && x ≤ 57) || (65 ≤ x && x ≤ 90) || (97 ≤ x && x ≤ 122) ||
    x == 33 || (35 ≤ x && x ≤ 39) || x == 42 || x == 43 || x == 45 || x == 46 || x == 94 || x == 95 || x == 96 || x == 124 || x == 126

def isSpace (b : UInt8) : Bool := b == 32 || b == 9

def skipSpace (x : Bytes) : Bytes := x.dropWhile isSpace

def nextToken (x : Bytes) : Bytes × Bytes := (x.takeWhile isTokenOctet, x.dropWhile isTokenOctet)

def lower (b : UInt8) : UInt8 := if 65 ≤ b.toNat && b.toNat ≤ 90 then b + 32 else b

/-- `equalASCIIFold` on byte strings (exact for the ASCII tokens and constants it is used on) -/
def eqFold (a b : Bytes) : Bool := a.map lower == b.map lower

/-- the loop of `headerContains` over one header value -/
def containsTok (value : Bytes) : Nat → Bytes → Bool
  | 0, _ => false
  | fuel+1, x =>
    let (t, r) := nextToken (skipSpace x)
    if t.isEmpty then false else
    let r := skipSpace r
    if !r.isEmpty && r.head? != some 44 then false
    else if eqFold t value then true
    else if r.isEmpty then false
    else containsTok value fuel (r.drop 1)

abbrev Header := List (Bytes × Bytes)

def values (h : Header) (name : Bytes) : List Bytes := (h.filter (·.1 == name)).map (·.2)

/-- `http.Header.Get` -/
def get (h : Header) (name : Bytes) : Bytes := (values h name).headD []

def headerContains (h : Header) (name value : Bytes) : Bool :=
  (values h name).any fun v => containsTok value (v.length + 1) v

/-! ### Sec-WebSocket-Extensions (parseExtensions) -/

/-- `nextTokenOrQuoted`: a token, or a quoted string with backslash escapes; ("", "") when the quote is not closed -/
def quotedLoop : Nat → Bytes → Bytes → Bool → Bytes × Bytes
  | 0, _, _, _ => ([], [])
  | fuel+1, acc, x, escape =>
    match x with
    | [] => ([], [])
    | b :: r =>
      if escape then quotedLoop fuel (acc ++ [b]) r false
      else if b == 92 then quotedLoop fuel acc r true
      else if b == 34 then (acc, r)
      else quotedLoop fuel (acc ++ [b]) r false

def nextTokenOrQuoted (x : Bytes) : Bytes × Bytes :=
  match x with
  | 34 :: r => quotedLoop (r.length + 1) [] r false
  | _ => nextToken x

structure Ext where
  name : Bytes
  params : List (Bytes × Bytes)
  deriving Repr, DecidableEq

/-- the parameter loop of one extension: `none` = malformed (abandon this header value) -/
def extParams : Nat → Bytes → List (Bytes × Bytes) → Option (List (Bytes × Bytes) × Bytes)
  | 0, _, _ => none
  | fuel+1, x, acc =>
    let x := skipSpace x
    if x.head? != some 59 then some (acc, x)
    else
      let (k, r) := nextToken (skipSpace (x.drop 1))
      if k.isEmpty then none else
      let r := skipSpace r
      let (v, r) := if r.head? == some 61 then
          let (v, r) := nextTokenOrQuoted (skipSpace (r.drop 1)); (v, skipSpace r)
        else ([], r)
      if !r.isEmpty && r.head? != some 44 && r.head? != some 59 then none
      else extParams fuel r (acc ++ [(k, v)])

/-- the extensions of one header value (those parsed before a malformed spot are kept, as in Go) -/
def extsOf : Nat → Bytes → List Ext → List Ext
  | 0, _, acc => acc
  | fuel+1, x, acc =>
    let (t, r) := nextToken (skipSpace x)
    if t.isEmpty then acc else
    match extParams (r.length + 1) r [] with
    | none => acc
    | some (ps, r) =>
      if !r.isEmpty && r.head? != some 44 then acc
      else
        let acc := acc ++ [{ name := t, params := ps }]
        if r.isEmpty then acc else extsOf fuel (r.drop 1) acc

def parseExtensions (h : Header) : List Ext :=
  (values h (s "Sec-Websocket-Extensions")).flatMap fun v => extsOf (v.length + 1) v []

def hasParam (e : Ext) (k : Bytes) : Bool := e.params.any (·.1 == k)

/-! ### Sec-WebSocket-Accept -/

def b64c (n : Nat) : UInt8 :=
  UInt8.ofNat (if n < 26 then 65 + n else if n < 52 then 97 + (n - 26) else if n < 62 then 48 + (n - 52) else if n == 62 then 43 else 47)

/-- `base64.StdEncoding.Encode` -/
def b64enc : Bytes → Bytes
  | a :: b :: c :: r =>
    let n := a.toNat * 65536 + b.toNat * 256 + c.toNat
    b64c (n / 262144) :: b64c (n / 4096 % 64) :: b64c (n / 64 % 64) :: b64c (n % 64) :: b64enc r
  | [a, b] =>
    let n := a.toNat * 65536 + b.toNat * 256
    [b64c (n / 262144), b64c (n / 4096 % 64), b64c (n / 64 % 64), 61]
  | [a] =>
    let n := a.toNat * 65536
    [b64c (n / 262144), b64c (n / 4096 % 64), 61, 61]
  | [] => []

def b64val (c : UInt8) : Option Nat :=
  let x := c.toNat
  if 65 ≤ x && x ≤ 90 then some (x - 65) else if 97 ≤ x && x ≤ 122 then some (x - 71)
  else if 48 ≤ x && x ≤ 57 then some (x + 4) else if x == 43 then some 62 else if x == 47 then some 63 else none

/-- a well-formed challenge key per RFC 6455 §4.2.1: 24 base64 characters ending in "==" that stand for 16 bytes.
    NOT what `commCheck` tests (it accepts any non-empty key: documented leniency); used to describe the Dialer's keys. -/
def validKey (k : Bytes) : Bool :=
  k.length == 24 && (k.take 22).all (fun c => (b64val c).isSome) && k.drop 22 == [61, 61] &&
    (match b64val (k.getD 21 0) with | some v => v % 16 == 0 | none => false)

def keyGUID : Bytes := s "258EAFA5-E914-47DA-95CA-C5AB0DC85B11"

/-- `acceptKeyBytes` -/
def acceptKey (sha1 : Bytes → Bytes) (key : Bytes) : Bytes := b64enc (sha1 (key ++ keyGUID))

/-! ### server: Upgrader -/

structure Req where
  method : Bytes
  header : Header
  deriving Repr

structure UCfg where
  enableCompression : Bool
  subprotocols : Option (List Bytes)      -- Upgrader.Subprotocols (nil = take it from responseHeader)
  originOk : Bool                         -- verdict of the CheckOrigin hook (or checkSameOrigin) on this request
  respHeader : Header                     -- the responseHeader argument of Upgrade

inductive HErr | tokenNotFound | methodNotGet | badVersion | unsupportedExt | origin | badKey
  deriving Repr, DecidableEq

def HErr.status : HErr → Nat
  | .tokenNotFound => 400 | .methodNotGet => 405 | .badVersion => 400 | .unsupportedExt => 500 | .origin => 403 | .badKey => 400

def HErr.code : HErr → Nat
  | .tokenNotFound => 1 | .methodNotGet => 2 | .badVersion => 3 | .unsupportedExt => 4 | .origin => 5 | .badKey => 6

def trimSpace (x : Bytes) : Bytes :=
  let sp (b : UInt8) : Bool := b == 32 || b == 9 || b == 10 || b == 11 || b == 12 || b == 13
  ((x.dropWhile sp).reverse.dropWhile sp).reverse

/-- `strings.Split(h, ",")` -/
def splitComma : Bytes → Bytes → List Bytes
  | [], cur => [cur]
  | b :: r, cur => if b == 44 then cur :: splitComma r [] else splitComma r (cur ++ [b])

/-- `subprotocols(r)` -/
def clientProtocols (r : Req) : List Bytes :=
  let h := trimSpace (get r.header (s "Sec-Websocket-Protocol"))
  if h.isEmpty then [] else (splitComma h []).map trimSpace

/-- `selectSubprotocol` -/
def selectSubprotocol (u : UCfg) (r : Req) : Bytes :=
  match u.subprotocols with
  | some sps =>
    let cps := clientProtocols r
    ((sps.filter fun sp => cps.contains sp).head?).getD []
  | none => get u.respHeader (s "Sec-Websocket-Protocol")

structure Negotiated where
  key : Bytes
  subprotocol : Bytes
  compress : Bool
  deriving Repr, DecidableEq

/-- `commCheck` -/
def commCheck (u : UCfg) (r : Req) : Except HErr Negotiated :=
  if !headerContains r.header (s "Connection") (s "upgrade") then .error .tokenNotFound
  else if !headerContains r.header (s "Upgrade") (s "websocket") then .error .tokenNotFound
  else if r.method != s "GET" then .error .methodNotGet
  else if !headerContains r.header (s "Sec-Websocket-Version") (s "13") then .error .badVersion
  else if (values u.respHeader (s "Sec-Websocket-Extensions")).length > 0 then .error .unsupportedExt
  else if !u.originOk then .error .origin
  else if (get r.header (s "Sec-Websocket-Key")).isEmpty then .error .badKey
  else
    let compress := u.enableCompression && (parseExtensions r.header).any (fun e => e.name == s "permessage-deflate")
    .ok { key := get r.header (s "Sec-Websocket-Key"), subprotocol := selectSubprotocol u r, compress }

def pmdResponse : Bytes := s "permessage-deflate; server_no_context_takeover; client_no_context_takeover"

/-- the header fields `commResponse` writes, in order (control characters of extra values become spaces) -/
def responseHeader (sha1 : Bytes → Bytes) (u : UCfg) (n : Negotiated) : Header :=
  [(s "Upgrade", s "websocket"), (s "Connection", s "Upgrade"), (s "Sec-WebSocket-Accept", acceptKey sha1 n.key)] ++
  (if n.subprotocol.isEmpty then [] else [(s "Sec-WebSocket-Protocol", n.subprotocol)]) ++
  (if n.compress then [(s "Sec-WebSocket-Extensions", pmdResponse)] else []) ++
  ((u.respHeader.filter fun kv => kv.1 != s "Sec-Websocket-Protocol").map fun kv =>
    (kv.1, kv.2.map fun b => if b.toNat ≤ 31 then 32 else b))

/-- the bytes of the 101 response -/
def render101 (h : Header) : Bytes :=
  s "HTTP/1.1 101 Switching Protocols\r\n" ++ (h.flatMap fun kv => kv.1 ++ s ": " ++ kv.2 ++ s "\r\n") ++ s "\r\n"

/-- what the two ends of a connection end up with (`newConn`): RSV1 accepted on receive, messages compressed on send -/
structure ConnCfg where
  enableCompression : Bool
  writeCompression : Bool
  subprotocol : Bytes
  deriving Repr, DecidableEq

/-- `Upgrade`: refuse with a status, or answer 101 and build the server conn -/
def upgradeDecision (sha1 : Bytes → Bytes) (u : UCfg) (r : Req) : Except HErr (Header × ConnCfg) :=
  match commCheck u r with
  | .error e => .error e
  | .ok n => .ok (responseHeader sha1 u n,
      { enableCompression := u.enableCompression && n.compress, writeCompression := n.compress, subprotocol := n.subprotocol })

/-! ### client: Dialer -/

structure DCfg where
  enableCompression : Bool
  subprotocols : List Bytes
  host : Bytes

/-- the handshake request `DialContext` sends (canonical header keys as the server's parser will see them) -/
def dialRequest (d : DCfg) (key : Bytes) : Req :=
  { method := s "GET",
    header := [(s "Host", d.host), (s "Upgrade", s "websocket"), (s "Connection", s "Upgrade"), (s "Sec-Websocket-Key", key),
               (s "Sec-Websocket-Version", s "13")] ++
      (if d.subprotocols.isEmpty then [] else [(s "Sec-Websocket-Protocol", (d.subprotocols.intersperse (s ", ")).flatten)]) ++
      (if d.enableCompression then [(s "Sec-Websocket-Extensions", s "permessage-deflate; server_no_context_takeover; client_no_context_takeover")] else []) }

inductive DErr | badHandshake | invalidCompression
  deriving Repr, DecidableEq

/-- first permessage-deflate extension of the response decides (the loop of DialContext) -/
def dialExt : List Ext → Except DErr Bool
  | [] => .ok false
  | e :: r =>
    if e.name != s "permessage-deflate" then dialExt r
    else if !(hasParam e (s "server_no_context_takeover") && hasParam e (s "client_no_context_takeover")) then .error .invalidCompression
    else .ok true

/-- the response validation of `DialContext` (header keys canonical as the client's parser delivers them) and `newConn` -/
def dialerAccepts (sha1 : Bytes → Bytes) (d : DCfg) (key : Bytes) (status : Nat) (h : Header) : Except DErr ConnCfg :=
  if status != 101 || !headerContains h (s "Upgrade") (s "websocket") || !headerContains h (s "Connection") (s "upgrade") ||
      get h (s "Sec-Websocket-Accept") != acceptKey sha1 key then .error .badHandshake
  else
    match dialExt (parseExtensions h) with
    | .error e => .error e
    | .ok remote => .ok { enableCompression := d.enableCompression && remote, writeCompression := remote,
                          subprotocol := get h (s "Sec-Websocket-Protocol") }

/-- `http.CanonicalHeaderKey` on token names (what turns the bytes on the wire into the keys above) -/
def canonKey : Bytes → Bool → Bytes
  | [], _ => []
  | b :: r, up =>
    let c := if up then (if 97 ≤ b.toNat && b.toNat ≤ 122 then b - 32 else b) else lower b
    c :: canonKey r (b == 45)

def canonHeader (h : Header) : Header := h.map fun kv => (canonKey kv.1 true, kv.2)

end WsH
