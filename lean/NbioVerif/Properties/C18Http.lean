import NbioVerif.Lemmas.LmuxInv
import NbioVerif.Lemmas.HttpStopRun
/-!
# C18, part 2: the listener mux (lmux/lmux.go) and the HTTP engine's Stop / Shutdown (nbhttp/engine.go)

The core engine's Stop is `Properties/C18.lean`. This file covers what C18 names beyond it: "listener … goroutines",
`lmux/lmux.go`, "both the core engine and the HTTP engine", "transferred connections".
-/

/-! ## lmux.ListenerMux -/
namespace Lmux

/-- **Every accepted conn is in exactly one place** — held by the mux goroutine, queued for A, queued for B, handed to
    A's consumer, handed to B's consumer, or closed by Stop — and no other id is anywhere: nothing is handed out twice,
    nothing is lost, on either tree, for every interleaving (including the random choice of a consumer's `select`). -/
theorem c18_lmux_each_conn_in_one_place (g : Cfg) (m : Nat) (as : List Act) (c : Nat) :
    let s := run g (init m) as
    (located s).count c = if c < s.nextId then 1 else 0 :=
  (inv_run as (inv_init m)).once c

/-- **The A budget.** `onlineA` = conns routed to A (queued or handed) − `Decrease` calls, and never above
    `maxOnlineA`: at most `maxOnlineA` conns of A are alive at any time (one `Decrease` per ended conn). -/
theorem c18_lmux_a_budget (g : Cfg) (m : Nat) (as : List Act) :
    let s := run g (init m) as
    s.onlineA + s.decs = (connsIn s.chA).length + s.handedA.length ∧ s.onlineA ≤ m := by
  intro s
  have h := (inv_run (g := g) as (inv_init m)).budget
  have hm : s.maxA = m := by
    have : ∀ (as : List Act) (s : St), (run g s as).maxA = s.maxA := by
      intro as
      induction as with
      | nil => intro s; rfl
      | cons a as ih =>
        intro s
        simp only [run]
        split
        · rename_i s' hs
          rw [ih s']
          cases a <;> simp only [step] at hs
          · split at hs <;> first | (cases hs; rfl) | cases hs
          · split at hs
            · split at hs <;> (cases hs; rfl)
            · cases hs
          · split at hs <;> first | (cases hs; rfl) | cases hs
          · cases ht : take s.chClosed ‹Bool› s.chA with
            | none => simp [ht] at hs
            | some p => obtain ⟨r, ch⟩ := p; simp [ht] at hs; cases hs; cases r <;> rfl
          · cases ht : take s.chClosed ‹Bool› s.chB with
            | none => simp [ht] at hs
            | some p => obtain ⟨r, ch⟩ := p; simp [ht] at hs; cases hs; cases r <;> rfl
          · split at hs <;> first | (cases hs; rfl) | cases hs
          · split at hs
            · cases hs
            · split at hs <;> (cases hs; rfl)
          · split at hs <;> first | (cases hs; rfl) | cases hs
        · exact ih s
    exact this as (init m)
  exact ⟨h.1, by rw [← hm]; exact h.2.1⟩

/-- on the repaired tree, once `chClose` is closed nothing is queued or in flight any more -/
structure Drained (s : St) : Prop where
  d : s.chClosed = true → s.muxAlive = false ∧ s.held = none ∧ s.chA = [] ∧ s.chB = []

theorem drained_step {s s' : St} {a : Act} (hi : Inv s) (h : Drained s) (hs : step fixed s a = some s') : Drained s' := by
  constructor
  intro hc'
  cases a with
  | accept =>
    simp only [step] at hs
    split at hs
    · rename_i hg
      cases hs
      simp only [Bool.and_eq_true] at hg
      have := h.d hc'
      rw [this.1] at hg; simp at hg
    · cases hs
  | route =>
    simp only [step] at hs
    split at hs
    · rename_i c hh
      have hcl : s.chClosed = true := by split at hs <;> (cases hs; exact hc')
      have := (h.d hcl).2.1
      rw [this] at hh; cases hh
    · cases hs
  | acceptErr =>
    simp only [step] at hs
    split at hs
    · rename_i hg
      cases hs
      simp only [Bool.and_eq_true] at hg
      have := h.d hc'
      rw [this.1] at hg; simp at hg
    · cases hs
  | takeA gc =>
    simp only [step] at hs
    cases ht : take s.chClosed gc s.chA with
    | none => simp [ht] at hs
    | some p =>
      obtain ⟨r, ch⟩ := p
      simp [ht] at hs
      have hcl : s.chClosed = true := by cases hs; cases r <;> exact hc'
      obtain ⟨h1, h2, h3, h4⟩ := h.d hcl
      rw [h3] at ht
      simp [take, hcl] at ht
      obtain ⟨rfl, rfl⟩ := ht
      cases hs
      exact ⟨h1, h2, rfl, h4⟩
  | takeB gc =>
    simp only [step] at hs
    cases ht : take s.chClosed gc s.chB with
    | none => simp [ht] at hs
    | some p =>
      obtain ⟨r, ch⟩ := p
      simp [ht] at hs
      have hcl : s.chClosed = true := by cases hs; cases r <;> exact hc'
      obtain ⟨h1, h2, h3, h4⟩ := h.d hcl
      rw [h4] at ht
      simp [take, hcl] at ht
      obtain ⟨rfl, rfl⟩ := ht
      cases hs
      exact ⟨h1, h2, h3, rfl⟩
  | decrease =>
    simp only [step] at hs
    split at hs
    · cases hs; exact h.d hc'
    · cases hs
  | stop =>
    simp only [step] at hs
    split at hs
    · cases hs
    · simp only [fixed, if_true] at hs
      cases hs
      exact h.d hc'
  | stopFinish =>
    simp only [step] at hs
    split at hs
    · rename_i hg
      simp only [Bool.and_eq_true, Bool.not_eq_true'] at hg
      cases hs
      refine ⟨hg.2, ?_, rfl, rfl⟩
      cases hq : s.held with
      | none => rfl
      | some c => have := hi.alive.1 (by simp [hq]); rw [hg.2] at this; cases this
    · cases hs

theorem drained_run (as : List Act) : ∀ (s : St), Inv s → Drained s → Drained (run fixed s as) := by
  induction as with
  | nil => intro s _ h; exact h
  | cons a as ih =>
    intro s hi h
    simp only [run]
    split
    · rename_i s' hs; exact ih s' (inv_step hi hs) (drained_step hi h hs)
    · exact ih s hi h

/-- **After Stop every accepted conn has been handed to exactly one listener or closed** (repaired tree): once
    `chClose` is closed, `located` is just `handedA ++ handedB ++ closedByStop` — with
    `c18_lmux_each_conn_in_one_place`: each accepted conn is in exactly one of the three, and nothing is accepted,
    queued or in flight any more. -/
theorem c18_lmux_stop_hands_or_closes (m : Nat) (as : List Act) :
    let s := run fixed (init m) as
    s.chClosed = true → located s = s.handedA ++ s.handedB ++ s.closedByStop ∧ s.muxAlive = false := by
  intro s hc
  have hd := (drained_run as (init m) (inv_init m) ⟨by simp [init]⟩).d hc
  have h2 : s.held = none := hd.2.1
  have h3 : s.chA = [] := hd.2.2.1
  have h4 : s.chB = [] := hd.2.2.2
  refine ⟨?_, hd.1⟩
  simp [located, h2, h3, h4, connsIn]

/-- **Stop unblocks everybody** (repaired tree). After Stop's first part the mux goroutine always has an enabled step
    until it has returned (it routes the conn it holds, then its `Accept` fails); then `stopFinish` is enabled; and once
    `chClose` is closed every consumer's `Accept` returns (whatever the `select` picks): no goroutine stays blocked. -/
theorem c18_lmux_stop_unblocks (m : Nat) (as : List Act) :
    let s := run fixed (init m) as
    s.stopping = true →
      (s.muxAlive = true → (step fixed s .route).isSome ∨ (step fixed s .acceptErr).isSome) ∧
      (s.muxAlive = false → s.chClosed = false → (step fixed s .stopFinish).isSome) ∧
      (s.chClosed = true → ∀ gc, (step fixed s (.takeA gc)).isSome ∧ (step fixed s (.takeB gc)).isSome) := by
  intro s hst
  have hi : Inv s := inv_run as (inv_init m)
  have hopen : s.open_ = false := by rw [hi.alive.2.1, hst]; rfl
  refine ⟨?_, ?_, ?_⟩
  · intro ha
    cases hh : s.held with
    | some c => left; simp only [step, hh]; split <;> simp
    | none => right; simp [step, ha, hopen, hh]
  · intro ha hc
    simp [step, fixed, hst, hc, ha]
  · intro hc gc
    have hd := (drained_run as (init m) (inv_init m) ⟨by simp [init]⟩).d hc
    have h3 : s.chA = [] := hd.2.2.1
    have h4 : s.chB = [] := hd.2.2.2
    simp [step, take, hc, h3, h4]

/-- **Defect on the pinned tree**: `Stop` closes `chClose` without looking at what is queued. A conn the mux has
    accepted and queued, whose consumer's `select` then picks `chClose` (or who stops accepting, as nbhttp's listener
    loop does at shutdown), is neither handed to anybody nor closed: it stays in the channel for ever. -/
theorem c18_lmux_pinned_strands_counterexample :
    let s := run pinned (init 1) [.accept, .route, .stop, .acceptErr, .takeA true]
    s.chClosed = true ∧ stranded s = [0] ∧ s.handedA = [] ∧ s.handedB = [] ∧ s.closedByStop = [] := by
  decide

/-- the same schedule on the repaired tree: the queued conn is closed by Stop -/
example :
    let s := run fixed (init 1) [.accept, .route, .stop, .acceptErr, .stopFinish, .takeA true]
    s.chClosed = true ∧ stranded s = [] ∧ s.closedByStop = [0] ∧ s.onlineA = 0 := by
  decide

/-- non-vacuity: three conns with a budget of one, one Decrease, Stop with one conn still queued -/
example :
    let s := run fixed (init 1) [.accept, .route, .accept, .route, .takeA false, .takeB false, .decrease, .accept, .route,
      .stop, .acceptErr, .stopFinish, .takeA false, .takeB true]
    s.handedA = [0] ∧ s.handedB = [1] ∧ s.closedByStop = [2] ∧ s.onlineA = 0 ∧ s.muxAlive = false := by
  decide

end Lmux

/-! ## nbhttp.Engine: `engine.conns`, Stop, Shutdown -/
namespace HttpStop

/-- **Bookkeeping of `engine.conns`, both trees, every interleaving.** For every conn the engine has ever seen:
    its key is in the map iff it was inserted (once) and not deleted yet; it is inserted at most once and effectively
    deleted at most once; `_onOpen` and `_onClose` run at most once each and `_onClose` never without `_onOpen`. -/
theorem c18_http_conns_bookkeeping (g : Cfg) (as : List Act) :
    ∀ c ∈ (run g init as).conns,
      (c.inMap = true ↔ (c.ins = 1 ∧ c.dels = 0)) ∧ c.ins ≤ 1 ∧ c.dels ≤ c.ins ∧
      c.opens ≤ 1 ∧ c.closes ≤ c.opens := by
  intro c hc
  have h := allCInv_run as init allCInv_init c hc
  exact ⟨h.map_ins, h.ins_le, h.dels_le, h.opens_le, h.cl_op⟩

/-- **Every exit path removes the key, exactly once.** A conn that has nothing left to do — refused at the door, its
    `AddConn` failed and the add path has finished, its close job has run, or its blocking reader goroutine has
    returned — is not in `engine.conns`, and was deleted exactly as often as it was inserted. -/
theorem c18_http_every_exit_deletes (g : Cfg) (as : List Act) :
    ∀ c ∈ (run g init as).conns, settled c = true → c.inMap = false ∧ c.dels = c.ins := by
  intro c hc hs
  exact settled_out (allCInv_run as init allCInv_init c hc) hs

/-- **`transferred ⇒ deleted`** (the mechanism of seed C18-b): once the reader goroutine of a blocking conn has returned
    — because the socket was closed *or because the conn was transferred to the poller* — its key is out of the map and
    `_onClose` has been called exactly once. -/
theorem c18_http_reader_exit_deletes (g : Cfg) (as : List Act) :
    ∀ c ∈ (run g init as).conns, c.kind = .blk → c.ph = .done → c.inMap = false ∧ c.closes = 1 := by
  intro c hc hk hp
  have h := allCInv_run as init allCInv_init c hc
  exact ⟨h.done_out hp, (h.blk_cl hk).1.mpr hp⟩

/-- **No conn gets stuck on its way out.** A conn that is not settled has an enabled step of its own, in every state
    of the engine — unless it is a served conn whose socket is still open (that is what `closeAllConns` is for), or
    its close job was dropped by a stopped executor. Together with `c18_http_conn_steps_bounded`: under fair
    scheduling every closed conn becomes settled, hence leaves the map. -/
theorem c18_http_unsettled_can_step (g : Cfg) (as : List Act) :
    let s := run g init as
    ∀ c ∈ s.conns, settled c = false → c.job ≠ .dropped → (c.closed = true ∨ c.ph ≠ .live) →
      ∃ a, a ≠ CAct.close ∧ (cstep g (env g s) c a).isSome = true := by
  intro s c hc hs hj hw
  exact unsettled_can_step g _ (allCInv_run as init allCInv_init c hc) hs hj hw

/-- every step of a conn strictly decreases `rank` (≤ 11): a conn takes at most 11 steps in any schedule -/
theorem c18_http_conn_steps_bounded (g : Cfg) (as : List Act) :
    let s := run g init as
    ∀ c ∈ s.conns, ∀ a c', cstep g (env g s) c a = some c' → rank c' < rank c ∧ rank c ≤ 11 := by
  intro s c hc a c' hs
  refine ⟨cstep_rank_lt g _ (allCInv_run as init allCInv_init c hc) hs, ?_⟩
  unfold rank
  cases c.ph <;> cases c.job <;> cases c.closed <;> cases c.tr <;> simp [phRank, jobRank]

/-- **`closeAllConns` closes everything in the map**, blocking-mode conns included [fix 93cc237] -/
theorem c18_http_sweep_closes_all (g : Cfg) (s s' : St) (hs : step g s .sweep = some s') :
    ∀ c ∈ s'.conns, c.inMap = true → c.closed = true := by
  simp only [step] at hs
  split at hs
  · cases hs
    intro x hx hm
    rcases mem_closeWhere hx with hx' | ⟨c, _, hpc, rfl⟩
    · -- untouched: it was not in the map
      unfold sweepAll closeWhere at hx
      obtain ⟨c, hc, he⟩ := List.mem_map.mp hx
      by_cases hp : c.inMap = true
      · simp only [hp, if_true] at he; subst he
        unfold closeC; split
        · assumption
        · split <;> (try split) <;> rfl
      · simp only [hp] at he; subst he; exact absurd hm hp
    · unfold closeC; split
      · assumption
      · split <;> (try split) <;> rfl
  · cases hs

/-- **Order of Stop's statements**, every run: the core engine's Stop (`coreBegin` and later) starts only after the
    listeners have been closed and `closeAllConns` has run at least once, and for Shutdown only after the map was
    seen empty; the executor is stopped exactly from `onStop` on; no close job is dropped while the executor runs. -/
theorem c18_http_stop_order (g : Cfg) (as : List Act) :
    let s := run g init as
    (s.sp = .coreWait ∨ s.sp = .coreStopped ∨ s.sp = .returned →
      s.lnOpen = false ∧ s.sweeps ≥ 1 ∧ (s.graceful = true → s.drained = true)) ∧
    (s.execOn = false ↔ (s.sp = .coreStopped ∨ s.sp = .returned)) ∧
    (s.execOn = true → ∀ c ∈ s.conns, c.job ≠ .dropped) := by
  intro s
  have h := (inv_run (g := g) as init allCInv_init ginv_init).2
  refine ⟨?_, h.ex, h.nodrop⟩
  intro hsp
  have := h.ord hsp
  refine ⟨?_, this.1, this.2⟩
  cases hl : s.lnOpen with
  | false => rfl
  | true => rcases h.ln.mp hl with h1 | h1 <;> rcases hsp with h2 | h2 | h2 <;> rw [h1] at h2 <;> cases h2

/-- **Shutdown returns nil only if the map drained**: with a live context Shutdown returns nil only after a tick saw
    `len(conns) == 0` with the listeners closed … -/
theorem c18_http_shutdown_nil_only_if_drained (g : Cfg) (as : List Act) :
    let s := run g init as
    s.graceful = true → s.ret = .ok → s.drained = true := by
  intro s hg hr
  have h := (inv_run (g := g) as init allCInv_init ginv_init).2
  exact (h.ord (Or.inr (Or.inr (h.rt hr)))).2 hg

/-- … where `drained` is set by a tick that finds the map empty (and no later sweep or insert matters) -/
theorem c18_http_tick_sees_empty (g : Cfg) (s s' : St) (hs : step g s .tick = some s') :
    online s = 0 ∧ s.sweeps ≥ 1 ∧ s'.drained = true := by
  simp only [step] at hs
  split at hs
  · rename_i h; cases hs; exact ⟨h.2.2.2.2.2, h.2.2.2.1, rfl⟩
  · cases hs

/-- **Repaired tree: a `wgConn` count is held only by an open, registered conn** — so closing every conn releases every
    count, and the core engine's `wgConn.Wait()` returns. -/
theorem c18_http_wg_only_open_registered (as : List Act) :
    ∀ c ∈ (run fixed init as).conns, c.wg = true → c.kind = .nb ∧ c.closed = false ∧ (c.ph = .coreOpen ∨ c.ph = .live) := by
  intro c hc
  exact (allCF_run as init (by intro c hc; simp [init] at hc) c hc).2

/-- **Repaired tree: `wgConn.Wait()` returns once every conn is closed.** -/
theorem c18_http_wait_returns (as : List Act) :
    let s := run fixed init as
    s.sp = .coreWait → (∀ c ∈ s.conns, c.closed = true) → (step fixed s .coreWaited).isSome = true := by
  intro s hsp hall
  have hw : s.conns.all (fun c => !c.wg) = true := by
    rw [List.all_eq_true]
    intro c hc
    cases hwg : c.wg with
    | false => rfl
    | true =>
      have := (c18_http_wg_only_open_registered as c hc hwg).2.1
      rw [hall c hc] at this; cases this
  simp [step, hsp, hw]

/-- **… and if the map drains, Shutdown goes on to return nil** (any tree): each of its remaining statements is
    enabled in turn — the tick that sees the empty map, the core engine's Stop, (`wgConn.Wait()`:
    `c18_http_wait_returns`), and the final `g.Wait()` once no listener goroutine is inside an add path — and the
    value returned is nil when the context has not expired. With `c18_http_unsettled_can_step` and
    `c18_http_conn_steps_bounded` (the map does drain under fair scheduling once the listeners are closed and the
    sweep has closed every conn): Shutdown with a live context returns nil iff the map drains. -/
theorem c18_http_shutdown_steps_enabled (g : Cfg) (s : St) :
    (s.sp = .sweeping → s.graceful = true → s.ret = .none → s.sweeps ≥ 1 → s.drained = false → online s = 0 →
      (step g s .tick).isSome = true) ∧
    (s.sp = .sweeping → s.ret = .none → s.sweeps ≥ 1 → (s.graceful = true → s.drained = true) →
      (step g s .coreBegin).isSome = true) ∧
    (s.sp = .coreStopped → s.ret = .none → (s.conns.all fun c => !inAddPath c) = true →
      (step g s .coreFinish).map (·.ret) = some .ok) := by
  refine ⟨?_, ?_, ?_⟩
  · intro h1 h2 h3 h4 h5 h6; simp [step, h1, h2, h3, h4, h5, h6]
  · intro h1 h2 h3 h4; simp [step, h1, h2, h3]; exact h4
  · intro h1 h2 h3; simp [step, h1, h2, h3]

/-- settled conns on the repaired tree: closed or never registered, no count held, not in an add path -/
theorem settled_facts {c : C} (h : CF c) (hs : settled c = true) :
    c.wg = false ∧ inAddPath c = false ∧ (c.kind = .nb → c.ph = .live → c.closed = true) := by
  obtain ⟨hc, hf⟩ := h
  have hwg : c.wg = false := by
    cases hw : c.wg with
    | false => rfl
    | true =>
      have h3 := hf hw
      unfold settled at hs
      rcases h3.2.2 with hp | hp
      · simp [hp] at hs
      · simp only [hp, decide_eq_true_eq] at hs
        have := (hc.job_cl (by rw [hs.2]; simp)).1
        rw [h3.2.1] at this; cases this
  refine ⟨hwg, ?_, ?_⟩
  · unfold settled at hs
    unfold inAddPath
    cases hp : c.ph <;> simp [hp] at hs ⊢
  · intro _ hp
    unfold settled at hs
    simp only [hp, decide_eq_true_eq] at hs
    exact (hc.job_cl (by rw [hs.2]; simp)).1

/-- **The HTTP engine's Stop / Shutdown returns nil once every conn is settled** (repaired tree, one theorem): from any
    reachable state in which the listeners are closed, `closeAllConns` has run, the context has not expired and every
    conn is settled, the remaining statements of Stop / Shutdown — the tick that sees the empty map (Shutdown only),
    the core engine's Stop, `wgConn.Wait()`, `onStop`, the final `g.Wait()` — all run, in this order, and the value
    returned is nil. With `c18_http_unsettled_can_step` + `c18_http_conn_steps_bounded` (every closed conn becomes
    settled under fair scheduling) and `c18_http_sweep_closes_all`: Stop, and Shutdown with a live context, return. -/
theorem c18_http_stop_returns_when_settled (as : List Act) :
    let s := run fixed init as
    s.sp = .sweeping → s.ret = .none → s.sweeps ≥ 1 → (∀ c ∈ s.conns, settled c = true) →
      let s' := run fixed s [.tick, .coreBegin, .coreWaited, .coreFinish]
      s'.ret = .ok ∧ s'.sp = .returned ∧ s'.conns = s.conns := by
  intro s hsp hret hsw hset
  have hcf : AllC CF s := allCF_run as init (by intro c hc; simp [init] at hc)
  have hci : AllC CInv s := fun c hc => (hcf c hc).1
  have hg := (inv_run (g := fixed) as init allCInv_init ginv_init).2
  have hon : online s = 0 := online_zero_of_settled hci hset
  have hfacts := fun c hc => settled_facts (hcf c hc) (hset c hc)
  -- the core engine's Stop finds nothing open in its table
  have hcc : ∀ e, coreCloseAll e s.conns = s.conns := by
    intro e
    unfold coreCloseAll
    apply closeWhere_id
    intro c hc hp
    simp only [Bool.and_eq_true, beq_iff_eq] at hp
    exact (hfacts c hc).2.2 hp.1 hp.2
  have hwg : (s.conns.all fun c => !c.wg) = true := by
    rw [List.all_eq_true]; intro c hc; simp [(hfacts c hc).1]
  have hap : (s.conns.all fun c => !inAddPath c) = true := by
    rw [List.all_eq_true]; intro c hc; simp [(hfacts c hc).2.1]
  have hdr : s.drained = true → s.graceful = true := fun h => (hg.dr h).1
  -- case split on the flags the tick looks at
  cases hgr : s.graceful <;> cases hd : s.drained
  · -- Stop: no tick
    simp [run, step, hsp, hret, hgr, hd, hsw, hon, hcc, hwg, hap]
  · exact absurd (hdr hd) (by simp [hgr])
  · -- Shutdown, map not yet seen empty: the tick sees it
    simp [run, step, hsp, hret, hgr, hd, hsw, hon, hcc, hwg, hap]
  · -- Shutdown, already drained
    simp [run, step, hsp, hret, hgr, hd, hsw, hon, hcc, hwg, hap]


/-- **The HTTP engine's Stop / Shutdown returns — for one kind of schedule, from an assumed start** (repaired tree only:
    `fixed`). Exactly what is stated, no more:

    * **Start (assumed):** a reachable state with `sp = sweeping` (listeners closed), `ret = none`, `sweeps ≥ 1` and
      `Swept` = *every* conn's socket closed and no close job dropped. `Swept` is a **hypothesis**: no lemma derives it
      from the sweep step (`c18_http_sweep_closes_all` covers the conns that are in the map only; a conn still outside
      the map on its way in — the acceptor mid-add-path — is not closed by the sweep and is thereby excluded).
    * **Continuation (restricted):** `as` consists of conn steps only (`∀ x ∈ as, ∃ i a, x = .conn i a`): no accept, no
      further sweep or tick, and no `ctxExpire` — Shutdown's context stays live throughout.
    * **Fairness and quiescence are hypotheses on the schedule:** the end state `s1` is assumed to have no conn-level
      step (other than `close`) enabled. That such a schedule exists / is reached is not proved here (per conn at most
      11 own steps: `c18_http_conn_steps_bounded`).
    * **Conclusion:** every conn of `s1` is settled, `online s1 = 0`, and the run `[tick, coreBegin, coreWaited,
      coreFinish]` ends with `ret = nil`.
    * **The core engine's Stop is three abstract acts here** (`coreBegin`, `coreWaited`, `coreFinish`); there is no
      refinement to `StopM`, so `c18_stop_returns` (core engine) and its exclusions are neither used nor inherited.

    The prefix stopFlag → stopListeners → sweep is `c18_http_stop_order` / `c18_http_sweep_closes_all`. -/
theorem c18_http_stop_returns_fair (as0 as : List Act) :
    let s := run fixed init as0
    s.sp = .sweeping → s.ret = .none → s.sweeps ≥ 1 → Swept s →
    (∀ x ∈ as, ∃ i a, x = Act.conn i a) →
    let s1 := run fixed s as
    (∀ i a, a ≠ CAct.close → step fixed s1 (.conn i a) = none) →
      (∀ c ∈ s1.conns, settled c = true) ∧ online s1 = 0 ∧
      (run fixed s1 [.tick, .coreBegin, .coreWaited, .coreFinish]).ret = .ok := by
  intro s hsp hret hsw hswept hall s1 hq
  obtain ⟨h1, h2, h3, h4⟩ := conn_run_swept (g := fixed) as hall s hswept
  have hreach : s1 = run fixed init (as0 ++ as) := (run_append fixed as0 as init).symm
  have hci : AllC CInv s1 := by rw [hreach]; exact allCInv_run _ init allCInv_init
  have hset := quiescent_settled hci h1 hq
  refine ⟨hset, online_zero_of_settled hci hset, ?_⟩
  have := c18_http_stop_returns_when_settled (as0 ++ as)
  simp only at this
  rw [← hreach] at this
  exact (this (h2.trans hsp) (h3.trans hret) (by rw [h4]; exact hsw) hset).1

/-- non-vacuity: two conns swept by Shutdown (one registered, one blocking), their own steps in an interleaving,
    quiescence, and the return -/
example :
    let s := run fixed init [.accept .nb, .conn 0 .insert, .conn 0 .userOpen, .conn 0 .coreOpen, .conn 0 (.coreReg true),
      .accept .blk, .conn 1 .insert, .conn 1 .userOpen, .conn 1 .spawn, .stopFlag true, .stopListeners, .sweep]
    let s1 := run fixed s [.conn 1 .readerExit, .conn 0 .runJob]
    s.sp = .sweeping ∧ s.sweeps = 1 ∧ (s.conns.all fun c => c.closed && c.job != .dropped) = true ∧
    (s1.conns.all settled) = true ∧ (run fixed s1 [.tick, .coreBegin, .coreWaited, .coreFinish]).ret = .ok := by
  decide


/-- **At `onStop` every registered conn's close job has been handed to the executor** (both trees): when
    `wgConn.Wait()` returns, every conn that was registered in a poller has been closed and its close job — which
    deletes the key and calls `_onClose` — was submitted while the executor was still running; none is dropped. -/
theorem c18_http_jobs_submitted_before_onstop (g : Cfg) (as : List Act) (s' : St) :
    let s := run g init as
    step g s .coreWaited = some s' →
      ∀ c ∈ s.conns, c.kind = .nb → c.ph = .live → c.job = .pending ∨ c.job = .ran := by
  intro s hs c hc hk hp
  have hinv := inv_run (g := g) as init allCInv_init ginv_init
  have hci := hinv.1 c hc
  simp only [step] at hs
  split at hs
  · rename_i h
    have hw : c.wg = false := by
      have := List.all_eq_true.mp h.2 c hc
      simpa using this
    have hcl : c.closed = true := by
      cases hcc : c.closed with
      | true => rfl
      | false => have := hci.reg_wg hk (Or.inr hp) hcc; rw [hw] at this; cases this
    have hj := hci.live_job hk hp hcl
    have hex : s.execOn = true := by
      cases he : s.execOn with
      | true => rfl
      | false => rcases hinv.2.ex.mp he with h1 | h1 <;> rw [h.1] at h1 <;> cases h1
    have hnd := hinv.2.nodrop hex c hc
    cases hjj : c.job <;> simp_all
  · cases hs

/-- **Defect on the pinned tree (closeAllConns racing AddConn).** A non-blocking conn is in `engine.conns` but not yet
    handed to `engine.AddConn` (its listener goroutine is inside `_onOpen`); Shutdown's `closeAllConns` closes it
    (it is unknown to the poller: only marked closed); then `AddConn` runs the open callback, which takes a `wgConn`
    count, registration fails, `closeWithError` does nothing on the closed conn: the count is never returned. The
    map drains, Shutdown calls the core engine's Stop, and `wgConn.Wait()` never returns: no step is enabled any more
    except the context's expiry, Shutdown returns `ctx.Err()`. -/
theorem c18_http_addconn_race_counterexample :
    let s := run pinned init [.accept .nb, .conn 0 .insert, .stopFlag true, .stopListeners, .sweep, .conn 0 .userOpen,
      .conn 0 .coreOpen, .conn 0 (.coreReg true), .conn 0 .delFail, .tick, .coreBegin]
    s.sp = .coreWait ∧ online s = 0 ∧ (s.conns.all fun c => c.closed && settled c) = true ∧
      (s.conns.any fun c => c.wg) = true ∧ (step pinned s .coreWaited).isNone = true ∧
      (run pinned s [.coreWaited, .coreFinish, .ctxExpire]).ret = .ctxErr := by
  decide

/-- the same schedule on the repaired tree: `AddConn` refuses the closed conn, Shutdown returns nil -/
example :
    let s := run fixed init [.accept .nb, .conn 0 .insert, .stopFlag true, .stopListeners, .sweep, .conn 0 .userOpen,
      .conn 0 .coreOpen, .conn 0 (.coreReg true), .conn 0 .delFail, .tick, .coreBegin, .coreWaited, .coreFinish, .ctxExpire]
    s.ret = .ok ∧ online s = 0 ∧ (s.conns.all fun c => !c.wg) = true := by
  decide

/-- **Defect on the pinned tree (late accept).** `Accept` returns a conn after `e.shutdown` was set and before the
    listener is closed: the `listen` loop neither adds nor closes it. -/
theorem c18_http_late_accept_counterexample :
    let s := run pinned init [.stopFlag false, .accept .blk, .stopListeners, .sweep, .coreBegin, .coreWaited, .coreFinish]
    s.ret = .ok ∧ (s.conns.any fun c => !c.closed) = true := by
  decide

/-- the same schedule on the repaired tree: the late conn is closed at the door -/
example :
    let s := run fixed init [.stopFlag false, .accept .blk, .stopListeners, .sweep, .coreBegin, .coreWaited, .coreFinish]
    s.ret = .ok ∧ (s.conns.all fun c => c.closed && c.ph == .refused) = true := by
  decide

/-- non-vacuity: a blocking conn served and transferred, a non-blocking conn closed by its peer, a third one swept
    by Shutdown; the map drains and Shutdown returns nil -/
example :
    let s := run fixed init [.accept .blk, .conn 0 .insert, .conn 0 .userOpen, .conn 0 .spawn, .conn 0 .transfer,
      .conn 1 .insert, .conn 1 .userOpen, .conn 1 .coreOpen, .conn 1 (.coreReg true), .conn 0 .readerExit,
      .accept .nb, .conn 2 .insert, .conn 2 .userOpen, .conn 2 .coreOpen, .conn 2 (.coreReg true),
      .conn 1 .close, .conn 1 .runJob,
      .stopFlag true, .stopListeners, .sweep, .tick, .conn 2 .runJob, .tick, .coreBegin, .coreWaited, .coreFinish]
    s.ret = .ok ∧ online s = 0 ∧ (s.conns.all settled) = true ∧ (s.conns.map (·.closes)) = [1, 1, 1] := by
  decide

end HttpStop
