import NbioVerif.Lemmas.C08Meta
/-! # C07, PROPOSED PATCH ONLY — not a statement about the tree

`docs/proposed/c07-client-head.patch` (`ClientConn.Do` records for each request sent whether it is a HEAD request;
the client parser asks `ClientProcessor.ResponseToHead` once per response header section and completes the reply to
HEAD at the blank line) was written, verified and then NOT applied: it adds a second queue beside `handlers` and an
interface probe from the parser into the processor, a design addition for the maintainers to shape (docs/http.md §13).
On the tree the reply to HEAD stays the known finding `HTTP-CLIENT-HEAD` (`Http.c07_head_response_counterexample`,
`Http.c07_head_response_partial`).

This file records the model of the *patched* parser as a delta over the tree's model — the two bytes of the blank line
of a response — and RFC 7230 §3.3.3 rule 1 at full strength for it. It is deliberately not listed in `Audit/C07.lean`
and is executed by no driver. (The full patched model — `Cfg.head`, `P.respNo` inside `Model/Http.lean`, run by the
driver against the patched code in all parser streams and through the real client — is verif commit 16a46f1.) -/
namespace HttpProposed
open Http Scan

/-- the patched parser: the tree's state plus the number of response header sections read (index into the request
    context `head k` = "the k-th response on this connection answers a HEAD request", known to `ClientConn.Do`) -/
structure PP where
  p : P
  respNo : Nat := 0

/-- `if ok && r.ResponseToHead() { p.noBody = true }; if p.noBody { p.chunked = false }` — after the tree's
    `noBodyOverride` (1xx / 204 / 304: length 0) -/
def headOverride (head : Nat → Bool) (s : PP) : PP :=
  { p := if head s.respNo then { s.p with noBody := true, chunked := false } else s.p, respNo := s.respNo + 1 }

def lift (s : PP) : Out P Ev → Out PP Ev
  | .ok p u evs => .ok { s with p := p } u evs
  | .err e evs => .err e evs

/-- the patched step: the tree's `byteStep` except at the CR and the LF of the blank line on a client parser -/
def byteStepP (g : Cfg) (head : Nat → Bool) (s : PP) (tok : Bytes) (c : UInt8) : Out PP Ev :=
  if g.isClient && s.p.st == .headerKeyBefore && c == CR then
    match endOfHeaders s.p with
    | .error e => .err e.code []
    | .ok p0 =>
      let s1 := headOverride head { s with p := noBodyOverride p0 }
      match addTrailerKeys s1.p with
      | .error e => .err e.code [.contentLength s1.p.contentLength]
      | .ok p2 => .ok { s1 with p := { p2 with st := .headerOverLF } } .next [.contentLength s1.p.contentLength]
  else if g.isClient && s.p.st == .headerOverLF && c == LF then
    let p := { s.p with headerExists := false }
    if p.chunked then .ok { s with p := { p with st := .chunkSizeBefore } } .next []
    else if p.contentLength > 0 && !p.noBody then .ok { s with p := { p with st := .bodyContentLength } } .next []
    else .ok { s with p := handleMessage g p } .next [.complete]
  else lift s (byteStep g s.p tok c)

/-- the patch changes nothing on a server parser … -/
theorem server_unchanged (g : Cfg) (head : Nat → Bool) (s : PP) (tok : Bytes) (c : UInt8) (hs : g.isClient = false) :
    byteStepP g head s tok c = lift s (byteStep g s.p tok c) := by
  simp [byteStepP, hs]

/-- … and nothing for a response that does not answer a HEAD request, the counter aside -/
theorem no_head_unchanged (g : Cfg) (head : Nat → Bool) (s : PP) (tok : Bytes) (hst : s.p.st = .headerKeyBefore)
    (hh : head s.respNo = false) :
    byteStepP g head s tok CR =
      (match byteStep g s.p tok CR with
       | .ok p u evs => .ok { p := p, respNo := if g.isClient then s.respNo + 1 else s.respNo } u evs
       | .err e evs => .err e evs) := by
  cases hc : g.isClient with
  | false => simp [byteStepP, hc, lift]
  | true =>
    simp only [byteStepP, hc, hst, beq_self_eq_true, Bool.and_self, if_true, byteStep, headOverride, hh,
      Bool.false_eq_true, if_false]
    have : (CR == SP) = false := by decide
    simp only [this, Bool.false_eq_true, if_false]
    cases endOfHeaders s.p with
    | error e => simp [er]
    | ok p0 =>
      simp only
      cases addTrailerKeys (noBodyOverride p0) with
      | error e => simp [er]
      | ok p2 => simp [ok]

/-- **RFC 7230 §3.3.3 rule 1 for the patched parser.** At the blank line of a response whose status code excludes a
    body (`noBody`, set by the status line) or that answers a HEAD request (`head s.respNo`), whatever framing fields
    the header section carried — as long as they pass validation — the message is complete right there: the CR step
    reports the length (0 for 1xx / 204 / 304, the announced one for a reply to HEAD, as net/http does), the LF step
    completes the message, no body, chunk or trailer is read, and the parser is in its start state with no framing
    state left and the response counter advanced. -/
theorem c07_response_without_body_proposed (g : Cfg) (head : Nat → Bool) (s : PP) (p0 : P) (tok : Bytes)
    (hcli : g.isClient = true) (hst : s.p.st = .headerKeyBefore) (hE : endOfHeaders s.p = .ok p0)
    (hno : s.p.noBody = true ∨ head s.respNo = true) :
    ∃ s1 s2,
      byteStepP g head s tok CR = .ok s1 .next [.contentLength (if s.p.noBody then 0 else p0.contentLength)] ∧
      byteStepP g head s1 [] LF = .ok s2 .next [.complete] ∧
      s2.p.st = .clientProtoBefore ∧ s2.p.chunked = false ∧ s2.p.noBody = false ∧ s2.p.te = [] ∧ s2.p.cl = [] ∧
      s2.p.tr = [] ∧ s2.p.trailer = [] ∧ s2.respNo = s.respNo + 1 := by
  have e1 := endOfHeaders_noBody s.p p0 hE
  -- the state after the override
  let q : PP := headOverride head { s with p := noBodyOverride p0 }
  have hq : q.p.chunked = false ∧ q.p.noBody = true ∧
      q.p.contentLength = (if s.p.noBody then 0 else p0.contentLength) ∧ q.respNo = s.respNo + 1 := by
    rw [← e1] at hno ⊢
    simp only [q, headOverride, noBodyOverride]
    by_cases hb : p0.noBody = true
    · by_cases hd : head s.respNo = true <;> simp [hb, hd]
    · have hb' : p0.noBody = false := by simpa using hb
      have hd : head s.respNo = true := by
        rcases hno with h | h
        · exact absurd h hb
        · exact h
      simp [hb', hd]
  obtain ⟨q1, q2, q3, q4⟩ := hq
  have hT : addTrailerKeys q.p = .ok q.p := by simp [addTrailerKeys, q1, pure, Except.pure]
  refine ⟨{ q with p := { q.p with st := .headerOverLF } },
          { q with p := handleMessage g { q.p with st := .headerOverLF, headerExists := false } }, ?_, ?_, ?_⟩
  · simp only [byteStepP, hcli, hst, beq_self_eq_true, Bool.and_self, if_true, hE]
    show (match addTrailerKeys q.p with
          | .error e => Out.err e.code [Ev.contentLength q.p.contentLength]
          | .ok p2 => Out.ok { q with p := { p2 with st := .headerOverLF } } .next [Ev.contentLength q.p.contentLength]) = _
    rw [hT]
    simp [q3]
  · have hne : (PState.headerOverLF == PState.headerKeyBefore) = false := by decide
    simp [byteStepP, hcli, hne, q1, q2]
  · simp [handleMessage, hcli, q4]

end HttpProposed
