import NbioVerif.Lemmas.C11Own
import NbioVerif.Lemmas.C11Body
/-! C11 pooled-buffer ownership, HTTP side — property theorems over the length-abstracted twins `Own`
(nbhttp/response.go + releaseResponse; body.go and the parser cache in `OwnBody`). -/
namespace Own
open Resp (maxPacket WRes RKind)

/-- **C11 (response writer), freed at most once / never used after free.** For EVERY handler program —
any sequence of Write (any sizes, so every 64 KiB threshold crossing), Flush, ReadFrom and the final
flushResponse + releaseResponse — and EVERY environment answer per operation (chunked or not, any
Content-Length verdict, any head length, conn write errors at any write, Sendfile or io.Copy), the heap
never records a double free or a use after free: every Malloc'd buffer of nbhttp.Response is returned at
most once and is neither appended to, resliced, handed to conn.Write nor freed after that. -/
theorem c11_response_no_double_free_no_use_after_free (prog : List (Env × Op)) :
    (run {} prog).heap.bad = none :=
  (run_inv (B := 0) (S := fun _ => false) {} prog inv_init).ok

/-- **C11 (response writer), never shared.** In every reachable state the two owner fields of the
response (`buffer`, `bodyBuffer`) hold live buffers and never the same one. -/
theorem c11_response_unique_owner (prog : List (Env × Op)) :
    let o := run {} prog
    (∀ id n, o.buffer = some (id, n) → o.heap.live id = true) ∧
    (∀ id n, o.bodyBuffer = some (id, n) → o.heap.live id = true) ∧
    (∀ a m b n, o.buffer = some (a, m) → o.bodyBuffer = some (b, n) → a ≠ b) :=
  let h := run_inv (B := 0) (S := fun _ => false) {} prog inv_init
  ⟨h.b1, h.b2, h.ne⟩

/-- **C11 (response writer), nothing is kept.** After flushResponse (which ends with releaseResponse)
the response holds no pooled buffer any more, whatever happened before (errors included). -/
theorem c11_response_released (e : Env) (prog : List (Env × Op)) :
    (finish e (run {} prog)).1.buffer = none ∧ (finish e (run {} prog)).1.bodyBuffer = none := by
  unfold finish
  exact release_empty _

/-! ### non-vacuity -/

/-- a chunked response whose first flush crosses 64 KiB (the shape on which defect #8 freed the head
buffer and went on using it): head buffer #1 is appended to, written, reused for the data and freed once -/
example :
    let e : Env := { chunked := true, hl := 100 }
    let o := (finish e (run {} [(e, .write 70000), (e, .write 10)])).1
    o.heap.bad = none ∧ o.heap.trace.reverse =
      [.malloc 1 1024, .append 1, .write (some 1), .append 1, .write (some 1), .free 1,
       .malloc 2 15, .append 2, .write (some 2), .free 2] := by decide

/-- the heap does notice the pre-repair code: freeing the head buffer right after sending head+length
(as `writeChunk` did) and then appending to it is flagged as a use after free, and the final Free as a
double free would be next -/
example :
    let h0 : Heap := {}
    let (h1, id) := h0.malloc 1024
    let h2 := (h1.touch id (some (.append id))).free id
    (h2.touch id (some (.append id))).bad = some (.useAfterFree id) ∧
      (h2.free id).bad = some (.doubleFree id) := by decide

/-- an injected conn error at the first write: the head buffer is freed exactly once, by the error path -/
example :
    let e : Env := { chunked := true, hl := 100, failAt := 1 }
    let o := (finish e (run {} [(e, .write 70000)])).1
    o.heap.bad = none ∧ o.heap.live 1 = false := by decide

/-! ## request side: parser cache, BodyReader, and the response inside the handler, on one heap -/

/-- **C11 (HTTP connection: parser cache + BodyReader + response), freed at most once / never used after
free.** For EVERY history of a connection — any sequence of Parse calls with any segment lengths and ANY
verdict of the parser on the bytes (how bodies are sliced into OnBody calls, where messages complete,
errors at any point, how many bytes stay cached), any allocator capacities, any body limit and read
limit, any handler (body reads of any sizes, Close, reads after Close, any response program with any
environment answers, conn write errors), and CloseAndClean at any point, also with cached bytes and a
half-received body — the shared heap never records a double free or a use after free. -/
theorem c11_http_no_double_free_no_use_after_free (capOf : Nat → Nat) (maxBody rl : Nat) (hd : Handler)
    (ops : List POp) : (prun capOf maxBody rl hd {} ops).heap.bad = none :=
  (prun_inv capOf maxBody rl hd ops {} pinv_init).rinv.ok

/-- **C11 (HTTP connection), never shared.** In every reachable state between calls the parser's cache
buffer and the buffers of the BodyReader under construction are live, pairwise distinct, and the response
holds nothing. -/
theorem c11_http_unique_owner (capOf : Nat → Nat) (maxBody rl : Nat) (hd : Handler) (ops : List POp) :
    let s := prun capOf maxBody rl hd {} ops
    (∀ id n, s.cache = some (id, n) → s.heap.live id = true) ∧
    (∀ id ∈ bids (s.body.getD {}), s.heap.live id = true) ∧
    (bids (s.body.getD {})).Nodup ∧
    (∀ id n, s.cache = some (id, n) → id ∉ bids (s.body.getD {})) ∧
    s.o.buffer = none ∧ s.o.bodyBuffer = none := by
  intro s
  have h := prun_inv capOf maxBody rl hd ops {} pinv_init
  refine ⟨?_, h.rinv.bl, h.rinv.nd, ?_, h.e1, h.e2⟩
  · intro id n hc; exact h.rinv.cl id (by rw [hc]; rfl)
  · intro id n hc; exact h.rinv.dj id (by rw [hc]; rfl)

/-- **C11 (handler), the response never touches the request's buffers.** While the handler runs, whatever
the response writer does (any operation, any environment answer) leaves every buffer of the parser cache
and of the BodyReader live: no response path frees or reuses a buffer it did not allocate. -/
theorem c11_response_frames_request {B : Nat} (o : O) (c : Option Nat) (br : BR) (e : Env) (op : Op)
    (h : HInv B o c br) : HInv B (step e o op).1 c br :=
  hinv_resp o _ c br h (fun _ hi => step_inv e o op hi)

/-- **C11 (HTTP connection), close releases everything.** CloseAndClean on an open parser — in any
reachable state, e.g. with cached bytes and a half-received body — frees what is held exactly once and
leaves no owner field set. -/
theorem c11_http_close_releases (capOf : Nat → Nat) (maxBody rl : Nat) (hd : Handler) (ops : List POp)
    (hopen : (prun capOf maxBody rl hd {} ops).closed = false) :
    (closeAndClean (prun capOf maxBody rl hd {} ops)).heap.bad = none ∧
    (closeAndClean (prun capOf maxBody rl hd {} ops)).closed = true ∧
    (closeAndClean (prun capOf maxBody rl hd {} ops)).cache = none ∧
    (closeAndClean (prun capOf maxBody rl hd {} ops)).body = none := by
  have h := closeAndClean_inv _ (prun_inv capOf maxBody rl hd ops {} pinv_init)
  refine ⟨h.rinv.ok, ?_⟩
  have e : closeAndClean (prun capOf maxBody rl hd {} ops) =
      { closed := true, cache := none, body := none,
        o := { (prun capOf maxBody rl hd {} ops).o with
                heap := freeCache (closeBody (prun capOf maxBody rl hd {} ops)) (prun capOf maxBody rl hd {} ops).cache } } := by
    unfold closeAndClean
    rw [if_neg (by simp [hopen])]
  rw [e]
  exact ⟨rfl, rfl, rfl⟩

/-! ### non-vacuity -/

/-- a body that arrives in two segments, is cached, read in pieces by the handler and answered with a
small response, then closed with 7 cached bytes: eleven allocator events, nothing flagged -/
example :
    let capOf := fun n => max 64 ((n + 63) / 64 * 64)
    let hd : Handler := { ops := [.read 3, .resp { chunked := true, hl := 90 } (.write 5)], fin := { chunked := true, hl := 90 } }
    let s := prun capOf 0 0 hd {} [.parse 40 { evs := [], err := false, left := 40 },
                                   .parse 30 { evs := [some 10, none], err := false, left := 7 }, .close]
    s.heap.bad = none ∧ s.closed = true ∧ s.heap.trace.length = 11 := by decide

end Own
