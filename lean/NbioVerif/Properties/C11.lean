import NbioVerif.Lemmas.C11Own
/-! C11 pooled-buffer ownership, HTTP side — property theorems over the length-abstracted twins `Own`
(nbhttp/response.go + releaseResponse; body.go and the parser cache in `OwnBody`). -/
namespace Own
open Resp (maxPacket WRes RKind)

/-- **C11 (response writer), freed at most once / never used after free.** For EVERY handler program —
any sequence of Write (any sizes, so every 64 KiB threshold crossing), Flush, ReadFrom and the final
flushResponse + releaseResponse — and EVERY environment answer per operation (chunked or not, any
Content-Length verdict, any head length, conn write errors at any write, Sendfile or io.Copy), the heap
never records a double free or a use after free: every Malloc'd buffer of nbhttp.Response is returned at
most once and is neither appended to, resliced, handed to conn.Write nor freed after that. -/
theorem c11_response_no_double_free_no_use_after_free (prog : List (Env × Op)) :
    (run {} prog).heap.bad = none :=
  (run_inv {} prog inv_init).ok

/-- **C11 (response writer), never shared.** In every reachable state the two owner fields of the
response (`buffer`, `bodyBuffer`) hold live buffers and never the same one. -/
theorem c11_response_unique_owner (prog : List (Env × Op)) :
    let o := run {} prog
    (∀ id n, o.buffer = some (id, n) → o.heap.live id = true) ∧
    (∀ id n, o.bodyBuffer = some (id, n) → o.heap.live id = true) ∧
    (∀ a m b n, o.buffer = some (a, m) → o.bodyBuffer = some (b, n) → a ≠ b) :=
  let h := run_inv {} prog inv_init
  ⟨h.b1, h.b2, h.ne⟩

/-- **C11 (response writer), nothing is kept.** After flushResponse (which ends with releaseResponse)
the response holds no pooled buffer any more, whatever happened before (errors included). -/
theorem c11_response_released (e : Env) (prog : List (Env × Op)) :
    (finish e (run {} prog)).1.buffer = none ∧ (finish e (run {} prog)).1.bodyBuffer = none := by
  unfold finish
  exact release_empty _

/-! ### non-vacuity -/

/-- a chunked response whose first flush crosses 64 KiB (the shape on which defect #8 freed the head
buffer and went on using it): head buffer #1 is appended to, written, reused for the data and freed once -/
example :
    let e : Env := { chunked := true, hl := 100 }
    let o := (finish e (run {} [(e, .write 70000), (e, .write 10)])).1
    o.heap.bad = none ∧ o.heap.trace.reverse =
      [.malloc 1 1024, .append 1, .write (some 1), .append 1, .write (some 1), .free 1,
       .malloc 2 15, .append 2, .write (some 2), .free 2] := by decide

/-- the heap does notice the pre-repair code: freeing the head buffer right after sending head+length
(as `writeChunk` did) and then appending to it is flagged as a use after free, and the final Free as a
double free would be next -/
example :
    let h0 : Heap := {}
    let (h1, id) := h0.malloc 1024
    let h2 := (h1.touch id (some (.append id))).free id
    (h2.touch id (some (.append id))).bad = some (.useAfterFree id) ∧
      (h2.free id).bad = some (.doubleFree id) := by decide

/-- an injected conn error at the first write: the head buffer is freed exactly once, by the error path -/
example :
    let e : Env := { chunked := true, hl := 100, failAt := 1 }
    let o := (finish e (run {} [(e, .write 70000)])).1
    o.heap.bad = none ∧ o.heap.live 1 = false := by decide

end Own
