import NbioVerif.Lemmas.C11Own
import NbioVerif.Lemmas.C11Body
import NbioVerif.Lemmas.C11Conn
import NbioVerif.Lemmas.C11Ws
/-! C11 pooled-buffer ownership, HTTP side — property theorems over the length-abstracted twins `Own`
(nbhttp/response.go + releaseResponse; body.go and the parser cache in `OwnBody`). -/
namespace Own
open Resp (maxPacket WRes RKind)

/-- **C11 (response writer), freed at most once / never used after free.** For EVERY handler program —
any sequence of Write (any sizes, so every 64 KiB threshold crossing), Flush, ReadFrom and the final
flushResponse + releaseResponse — and EVERY environment answer per operation (chunked or not, any
Content-Length verdict, any head length, conn write errors at any write, Sendfile or io.Copy), the heap
never records a double free or a use after free: every Malloc'd buffer of nbhttp.Response is returned at
most once and is neither appended to, resliced, handed to conn.Write nor freed after that. -/
theorem c11_response_no_double_free_no_use_after_free (prog : List (Env × Op)) :
    (run {} prog).heap.bad = none :=
  (run_inv (B := 0) (S := fun _ => false) {} prog inv_init).ok

/-- **C11 (response writer), never shared.** In every reachable state the two owner fields of the
response (`buffer`, `bodyBuffer`) hold live buffers and never the same one. -/
theorem c11_response_unique_owner (prog : List (Env × Op)) :
    let o := run {} prog
    (∀ id n, o.buffer = some (id, n) → o.heap.live id = true) ∧
    (∀ id n, o.bodyBuffer = some (id, n) → o.heap.live id = true) ∧
    (∀ a m b n, o.buffer = some (a, m) → o.bodyBuffer = some (b, n) → a ≠ b) :=
  let h := run_inv (B := 0) (S := fun _ => false) {} prog inv_init
  ⟨h.b1, h.b2, h.ne⟩

/-- **C11 (response writer), nothing is kept.** After flushResponse (which ends with releaseResponse)
the response holds no pooled buffer any more, whatever happened before (errors included) — the two
`= none` conjuncts hold by definition of `release`; the content is in the other three: the heap has not
flagged, and whatever the response still held when its flush returned (`finishFlush`) has really gone back to
the pool: it is dead afterwards.  (NOT claimed: that no other buffer stays live — leak freedom is not part of
C11 and `Inv` has no "every live id has an owner" clause; no oracle checks leaks either.) -/
theorem c11_response_released (e : Env) (prog : List (Env × Op)) :
    let p := (finishFlush e (run {} prog)).1
    let o := (finish e (run {} prog)).1
    o.buffer = none ∧ o.bodyBuffer = none ∧ o.heap.bad = none ∧
      (∀ id n, p.buffer = some (id, n) → o.heap.live id = false) ∧
      (∀ id n, p.bodyBuffer = some (id, n) → o.heap.live id = false) := by
  intro p o
  have hp : Inv 0 (fun _ => false) p := finishFlush_inv e _ (run_inv (B := 0) (S := fun _ => false) {} prog inv_init)
  have ho : o = release p := rfl
  have hd := release_dead p hp
  rw [ho]
  exact ⟨(release_empty p).1, (release_empty p).2, (release_inv p hp).ok, hd.1, hd.2⟩

/-! ### non-vacuity -/

/-- a chunked response whose first flush crosses 64 KiB (the shape on which defect #8 freed the head
buffer and went on using it): head buffer #1 is appended to, written, reused for the data and freed once -/
example :
    let e : Env := { chunked := true, hl := 100 }
    let o := (finish e (run {} [(e, .write 70000), (e, .write 10)])).1
    o.heap.bad = none ∧ o.heap.trace.reverse =
      [.malloc 1 1024, .append 1, .write (some 1), .append 1, .write (some 1), .free 1,
       .malloc 2 15, .append 2, .write (some 2), .free 2] := by decide

/-- the heap does notice the pre-repair code: freeing the head buffer right after sending head+length
(as `writeChunk` did) and then appending to it is flagged as a use after free, and the final Free as a
double free would be next -/
example :
    let h0 : Heap := {}
    let (h1, id) := h0.malloc 1024
    let h2 := (h1.touch id (some (.append id))).free id
    (h2.touch id (some (.append id))).bad = some (.useAfterFree id) ∧
      (h2.free id).bad = some (.doubleFree id) := by decide

/-- an injected conn error at the first write: the head buffer is freed exactly once, by the error path -/
example :
    let e : Env := { chunked := true, hl := 100, failAt := 1 }
    let o := (finish e (run {} [(e, .write 70000)])).1
    o.heap.bad = none ∧ o.heap.live 1 = false := by decide

/-! ## request side: parser cache, BodyReader, and the response inside the handler, on one heap -/

/-- **C11 (HTTP connection: parser cache + BodyReader + response), freed at most once / never used after
free.** For EVERY history of a connection — any sequence of Parse calls with any segment lengths and ANY
verdict of the parser on the bytes (how bodies are sliced into OnBody calls, where messages complete,
errors at any point, how many bytes stay cached), any allocator capacities, any body limit and read
limit, any handler (body reads of any sizes, Close, reads after Close, any response program with any
environment answers, conn write errors), and CloseAndClean at any point, also with cached bytes and a
half-received body — the shared heap never records a double free or a use after free. -/
theorem c11_http_no_double_free_no_use_after_free (capOf : Nat → Nat) (maxBody rl : Nat) (hd : Handler)
    (ops : List POp) : (prun capOf maxBody rl hd {} ops).heap.bad = none :=
  (prun_inv capOf maxBody rl hd ops {} pinv_init).rinv.ok

/-- **C11 (HTTP connection), never shared.** In every reachable state between calls the parser's cache
buffer and the buffers of the BodyReader under construction are live, pairwise distinct, and the response
holds nothing. -/
theorem c11_http_unique_owner (capOf : Nat → Nat) (maxBody rl : Nat) (hd : Handler) (ops : List POp) :
    let s := prun capOf maxBody rl hd {} ops
    (∀ id n, s.cache = some (id, n) → s.heap.live id = true) ∧
    (∀ id ∈ bids (s.body.getD {}), s.heap.live id = true) ∧
    (bids (s.body.getD {})).Nodup ∧
    (∀ id n, s.cache = some (id, n) → id ∉ bids (s.body.getD {})) ∧
    s.o.buffer = none ∧ s.o.bodyBuffer = none := by
  intro s
  have h := prun_inv capOf maxBody rl hd ops {} pinv_init
  refine ⟨?_, h.rinv.bl, h.rinv.nd, ?_, h.e1, h.e2⟩
  · intro id n hc; exact h.rinv.cl id (by rw [hc]; rfl)
  · intro id n hc; exact h.rinv.dj id (by rw [hc]; rfl)

/-- **C11 (handler), the response never touches the request's buffers.** While the handler runs, whatever
the response writer does (any operation, any environment answer) leaves every buffer of the parser cache
and of the BodyReader live: no response path frees or reuses a buffer it did not allocate. -/
theorem c11_response_frames_request {B : Nat} (o : O) (c : Option Nat) (br : BR) (e : Env) (op : Op)
    (h : HInv B o c br) : HInv B (step e o op).1 c br :=
  hinv_resp o _ c br h (fun _ hi => step_inv e o op hi)

/-- **C11 (HTTP connection), close releases everything.** CloseAndClean on an open parser — in any
reachable state, e.g. with cached bytes and a half-received body — frees what is held exactly once and
leaves no owner field set. -/
theorem c11_http_close_releases (capOf : Nat → Nat) (maxBody rl : Nat) (hd : Handler) (ops : List POp)
    (hopen : (prun capOf maxBody rl hd {} ops).closed = false) :
    (closeAndClean (prun capOf maxBody rl hd {} ops)).heap.bad = none ∧
    (closeAndClean (prun capOf maxBody rl hd {} ops)).closed = true ∧
    (closeAndClean (prun capOf maxBody rl hd {} ops)).cache = none ∧
    (closeAndClean (prun capOf maxBody rl hd {} ops)).body = none := by
  have h := closeAndClean_inv _ (prun_inv capOf maxBody rl hd ops {} pinv_init)
  refine ⟨h.rinv.ok, ?_⟩
  have e : closeAndClean (prun capOf maxBody rl hd {} ops) =
      { closed := true, cache := none, body := none,
        o := { (prun capOf maxBody rl hd {} ops).o with
                heap := freeCache (closeBody (prun capOf maxBody rl hd {} ops)) (prun capOf maxBody rl hd {} ops).cache } } := by
    unfold closeAndClean
    rw [if_neg (by simp [hopen])]
  rw [e]
  exact ⟨rfl, rfl, rfl⟩

/-! ### non-vacuity -/

/-- a body that arrives in two segments, is cached, read in pieces by the handler and answered with a
small response, then closed with 7 cached bytes: eleven allocator events, nothing flagged -/
example :
    let capOf := fun n => max 64 ((n + 63) / 64 * 64)
    let hd : Handler := { ops := [.read 3, .resp { chunked := true, hl := 90 } (.write 5)], fin := { chunked := true, hl := 90 } }
    let s := prun capOf 0 0 hd {} [.parse 40 { evs := [], err := false, left := 40 },
                                   .parse 30 { evs := [some 10, none], err := false, left := 7 }, .close]
    s.heap.bad = none ∧ s.closed = true ∧ s.heap.trace.length = 11 := by decide

end Own

/-! ## core connection: the write queue -/
namespace OwnC

/-- **C11 (core Conn write queue), freed at most once / never used after free / never shared.** For EVERY
sequence of Write, Writev, Sendfile, flush (writable events) and Close on a connection, every kernel
answer to every syscall (short writes of any length, EAGAIN, EINTR, fatal errors; an exhausted script is
EAGAIN), any allocator capacities and any write-buffer limit: the heap never flags, every buffer in the
write list is live and no buffer is queued twice.  (Covers newToWriteBuf's merge-with-growth path —
Malloc, copy, Free of the old tail, Append —, release on complete flush, and the release of the whole
backlog by closeWithErrorWithoutLock after a fatal error, an overflow or Close.) -/
theorem c11_conn_write_queue (capOf : Nat → Nat) (maxWB : Nat) (ops : List COp) :
    let s := crun capOf maxWB {} ops
    s.heap.bad = none ∧ (∀ id ∈ cids s.wl, s.heap.live id = true) ∧ (cids s.wl).Nodup := by
  intro s
  have h := crun_inv capOf maxWB ops {} cinv_init
  exact ⟨h.ok, h.bl, h.nd⟩

/-- after Close (or any fatal error) the queue holds nothing -/
theorem c11_conn_close_releases (capOf : Nat → Nat) (maxWB : Nat) (ops : List COp)
    (hopen : (crun capOf maxWB {} ops).closed = false) :
    (close (crun capOf maxWB {} ops)).wl = [] ∧ (close (crun capOf maxWB {} ops)).heap.bad = none := by
  have h := close_inv _ (crun_inv capOf maxWB ops {} cinv_init)
  refine ⟨?_, h.ok⟩
  unfold close
  rw [if_neg (by simp [hopen])]
  rfl

/-- non-vacuity: a backlog that is merged with growth, partly flushed, and released by a fatal error -/
example :
    let capOf := fun n => max 64 ((n + 63) / 64 * 64)
    let s := crun capOf 0 {} [.write 100 [.eagain], .write 3000 [.eagain], .write 70000 [.eagain],
                               .flush [.wrote 1000], .flush [.fail]]
    s.heap.bad = none ∧ s.closed = true ∧ s.wl = [] ∧
      s.heap.trace.reverse = [.write none, .malloc 1 100, .malloc 2 3100, .free 1, .append 2, .malloc 3 70000,
        .write (some 2), .write (some 2), .write (some 2), .free 2, .free 3] := by decide

end OwnC

/-! ## websocket Conn: send queue, sender goroutine, receive buffers -/
namespace OwnW
open Own (Heap Ev Bad)

/-- **C11 (websocket Conn), freed at most once / never used after free / never shared.** For EVERY
interleaving — any list of the critical sections of the writers (WriteMessage with any fragment sizes and
conn answers, data or control), of the sender goroutine of the async send queue (enter conn.Write, return
from it with or without an error, Free, take the next slot), of the closer (CloseAndClean) and of the reader
(Parse: append to the cache, one section per frame with any frame geometry/kind/fin flag, the handler calls
with or without ReleasePayload, with the default pong) in any order, actions that are not enabled being
no-ops — the heap never flags, and the buffers held by the send queue slots, by the sender goroutine
(in flight inside conn.Write), by `bytesCached`, by `message`, by Parse's local variables and by the handler jobs
the executor has queued (`rxQueue`/`jobRun`: a conn served by a poller only queues the job, which then owns its
payload) are all live and pairwise distinct: no buffer has two owners. -/
theorem c11_ws_ownership (g : Cfg) (acts : List Act) :
    let s := run g {} acts
    s.heap.bad = none ∧ (∀ id ∈ owned s, s.heap.live id = true) ∧ (owned s).Nodup := by
  intro s
  have h := run_inv g acts {} winv_init
  exact ⟨h.ok, h.bl, h.nd⟩

/-- **C11 (websocket Conn), a queued job's payload stays live until the job has run**: whatever happens between the
hand-over (`rxQueue`) and the job (`jobRun`) — further Parse calls that allocate again, writers, the sender goroutine,
CloseAndClean, ReleasePayload on or off — every payload a queued handler job will read is live, and it belongs to
nobody else (it is in no queue slot, not the cache, not the message, not in flight). -/
theorem c11_ws_queued_payload_live (g : Cfg) (acts : List Act) :
    let s := run g {} acts
    (∀ id ∈ s.jobs, s.heap.live id = true) ∧ s.jobs.Nodup ∧
    (∀ id ∈ s.jobs, id ∉ s.qrest ∧ s.inflight ≠ some id ∧ id ∉ oid s.cache ∧ id ∉ oid s.message ∧ id ∉ s.held) := by
  intro s
  have h : WInv s := run_inv g acts {} winv_init
  clear_value s
  have hcnt := List.nodup_iff_count.mp h.nd
  refine ⟨fun id hid => h.bl id (by simp only [owned, List.mem_append]; exact Or.inr hid), ?_, ?_⟩
  · rw [List.nodup_iff_count]
    intro a
    have := hcnt a
    simp only [owned, List.count_append] at this
    omega
  · intro id hid
    have hj : 0 < s.jobs.count id := List.count_pos_iff.mpr hid
    have hc := hcnt id
    simp only [owned, List.count_append] at hc
    refine ⟨?_, ?_, ?_, ?_, ?_⟩
    · intro hx; have := List.count_pos_iff.mpr hx; omega
    · intro hx
      rw [hx] at hc
      simp at hc
      omega
    · intro hx; have := List.count_pos_iff.mpr hx; omega
    · intro hx; have := List.count_pos_iff.mpr hx; omega
    · intro hx; have := List.count_pos_iff.mpr hx; omega

/-- non-vacuity and sensitivity: a data frame is handed to a queued job with ReleasePayload on, another Parse call
allocates again, then the job runs: payload #2 read and freed once.  If the frame were freed at the hand-over (the
single `defer Free` at the top of handleDataFrame) the job's read is flagged as a use after free. -/
example :
    let g : Cfg := { rp := true }
    let s := run g {} [.rxAppend 12, .rxFrame ⟨12, 10, false, true⟩, .rxQueue, .rxAppend 5, .jobRun false (0, true)]
    s.heap.bad = none ∧ s.jobs = [] ∧
      s.heap.trace.reverse = [.malloc 1 12, .malloc 2 10, .free 1, .malloc 3 5, .free 2] := by decide

example :
    let g : Cfg := { rp := true }
    let s := run g {} [.rxAppend 12, .rxFrame ⟨12, 10, false, true⟩, .rxQueue]
    let s := { s with heap := s.heap.free 2 }            -- the mutant: freed when handleDataFrame returns
    (run g s [.rxAppend 5, .jobRun false (0, true)]).heap.bad = some (.useAfterFree 2) := by decide

/-- CloseAndClean leaves no buffer in the queue, the cache or the message field — and the frame the sender
goroutine is writing stays ITS buffer (live until its own Free), whatever the interleaving before. -/
theorem c11_ws_close_releases (g : Cfg) (acts : List Act) (hopen : (run g {} acts).closed = false) :
    let s := close (run g {} acts)
    s.qrest = [] ∧ s.cache = none ∧ s.message = none ∧ s.heap.bad = none ∧
      (∀ id, s.inflight = some id → s.heap.live id = true) := by
  intro s
  have h : WInv s := close_inv _ (run_inv g acts {} winv_init)
  have hs : s = close (run g {} acts) := rfl
  unfold close at hs
  rw [if_neg (by simp [hopen])] at hs
  refine ⟨by rw [hs], by rw [hs], by rw [hs], h.ok, ?_⟩
  intro id hid
  exact h.bl id (by simp [owned, hid])

/-- non-vacuity: three frames queued, CloseAndClean while the first is inside conn.Write and two are
waiting; the sender goroutine then comes back from the write and frees ITS frame: every buffer freed exactly
once -/
example :
    let s := run { async := true } {} [.send false [(100, true)], .send false [(200, true), (300, true)],
                                       .dStart, .close, .dEnd true, .dFree, .dAdvance]
    s.heap.bad = none ∧ s.qtaken = 3 ∧ s.qrest = [] ∧ s.inflight = none ∧ s.phase = .idle ∧
      s.heap.trace.reverse = [.malloc 1 100, .malloc 2 200, .malloc 3 300, .write (some 1), .free 2, .free 3, .free 1] := by
  decide

/-- non-vacuity, receive path: a fragmented message with a ping between the fragments, ReleasePayload on:
cache, message and payloads all change hands and are freed once -/
example :
    let s := run { rp := true } {} [.rxAppend 40, .rxFrame ⟨12, 10, false, false⟩, .rxFrame ⟨6, 4, true, true⟩,
                                     .rxHandle true (6, true), .rxFrame ⟨22, 20, false, true⟩, .rxHandle false (0, true)]
    s.heap.bad = none ∧ s.cache = none ∧ s.message = none ∧ s.held = [] ∧
      s.heap.trace.reverse = [.malloc 1 40, .malloc 2 10, .malloc 3 4, .malloc 4 6, .write (some 4), .free 4, .free 3,
        .append 2, .free 1, .free 2] := by
  decide

/-- the model's heap is not blind: a sender goroutine that takes the next frame WITHOUT clearing its slot
(the slot keeps the buffer the goroutine will free) is flagged as soon as CloseAndClean runs on the backlog -/
def dAdvanceKeepingSlot (s : S) : S :=
  match s.phase, s.qrest with
  | .advance, id :: _ => { s with inflight := some id, phase := .ready }
  | _, _ => s

example :
    let g : Cfg := { async := true }
    let s := run g {} [.send false [(100, true)], .send false [(200, true)], .dStart, .dEnd true, .dFree]
    let s := run g (dAdvanceKeepingSlot s) [.dStart, .close, .dEnd true, .dFree]
    s.heap.bad = some (.useAfterFree 2) := by
  decide

end OwnW
