import NbioVerif.Model.Alloc
/-! C20: allocator contracts (model level). -/
namespace Alloc

theorem lookup_bind_self (s : St) (h : Nat) (x : Handle) : (s.bind h x).lookup h = some x := by
  simp [St.bind, St.lookup, List.find?]

end Alloc
