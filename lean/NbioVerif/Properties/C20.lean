import NbioVerif.Lemmas.AllocContent
/-! C20: allocator contracts — sizes, content preservation, no aliasing.

Model: `Alloc` (the three allocators of package mempool over an abstract heap).  All theorems hold
for **each allocator** (`g.kind` arbitrary: pooled, size-aligned, standard), **every operation
sequence** of a well-formed client (`run`: operations on unknown / duplicate handle names and stores
outside the buffer are rejected by `step`), **every pool choice** (`Choice.fresh` or any pooled entry —
a choice naming an entry that is not in the pool is rejected as impossible) and **every growth** of
Go's `append` (any capacity that is large enough).

* `c20_invariant`          the heap invariant holds in every reachable state
* `c20_malloc_len`         `Malloc(n)` returns a buffer of length `n`
* `c20_append`             `Append`/`AppendString` return the previous contents followed by the new bytes
* `c20_realloc`            `Realloc(n)` returns a buffer of length `n` whose first `min n old` bytes are the old ones
* `c20_disjoint`           handles live at the same time have different backing arrays, none of which is in a pool
* `c20_frame`              an operation on one handle (Malloc, the client's own stores, Append, Realloc, Free)
                           leaves every other live handle and its bytes unchanged
* `c20_accepts`            the model never rejects a well-formed operation with possible environment answers
                           (fresh pool answer, large enough growth): the other theorems are not vacuous
* `c20_no_panic`           no operation panics (the aligned allocator's reslice stays within the capacity)
* `c20_aligned_foreign_cap_counterexample`   outside the contract: freeing a *foreign* buffer of capacity 96 files
                           it under the 128 class and the next `Malloc(100)` panics -/
namespace Alloc

/-- the client's name the operation is about -/
def Op.name : Op → Nat
  | .malloc h _ _ _ | .write h _ _ | .append h _ _ _ _ | .realloc h _ _ _ _ | .free h _ | .foreign h _ _ => h

theorem foreignOk_alignedCap (cap : Nat) (h : foreignOk cap = true) : alignedCap cap := by
  simp only [foreignOk, Bool.or_eq_true, beq_iff_eq, bne_iff_ne, decide_eq_true_eq, List.any_eq_true,
    List.mem_range] at h
  rcases h with ((h | h) | h) | ⟨i, hi, hc⟩
  · exact .inr (.inl h)
  · exact .inr (.inr h)
  · exact .inl (.inl h)
  · exact .inl (.inr ⟨i, hi, hc⟩)

/-- a foreign buffer enters the heap like a fresh allocation -/
theorem foreign_ok (g : Cfg) (h : Nat) (s : St) (cap len : Nat) (hi : Inv g s) (hl : len ≤ cap)
    (hf : g.kind = .aligned → foreignOk cap = true) :
    OpOK g h s (s.alloc cap []).1 ⟨(s.alloc cap []).2, len⟩ := by
  obtain ⟨h1, h2, h3, h4⟩ := alloc_ok g h s cap [] (hi.exempt h) (fun ha => foreignOk_alignedCap cap (hf ha))
  exact OpOK.of_ext h1 h2 h3 (by show len ≤ ((s.alloc cap []).1.region s.regions.length).cap; rw [h4]; exact hl)

theorem step_inv (g : Cfg) (s s' : St) (o : Op) (hi : Inv g s) (hs : step g s o = .ok s') : Inv g s' := by
  cases o with
  | malloc h size c grow =>
    simp only [step] at hs
    split at hs
    · cases hs
    · cases hm : doMalloc g s size c grow with
      | error e => rw [hm] at hs; cases hs
      | ok p =>
        obtain ⟨s1, y⟩ := p
        rw [hm] at hs
        simp only at hs
        cases hs
        exact bind_ok g h s s1 y (doMalloc_ok g h s s1 size grow c y hi hm).1
  | write h off data =>
    simp only [step] at hs
    split at hs
    · cases hs
    · rename_i x hx
      split at hs
      · rename_i hfit
        cases hs
        obtain ⟨hxs, hxl, hxo⟩ := live_facts hi hx
        obtain ⟨w1, w2⟩ := write_ok g h s x.rid off data (hi.exempt h) hxs (by omega)
        refine ⟨w1.regs, ?_, w1.pool, w1.acap, w1.acls⟩
        intro k y _ hl
        by_cases hk : k = h
        · subst hk
          have hl' : s.lookup k = some y := by simpa [St.lookup, St.write] using hl
          rw [hx] at hl'; cases hl'
          have hreg : (s.write x.rid off data).region x.rid =
              { s.region x.rid with bytes := overwrite (s.region x.rid).bytes off data } :=
            region_modify_self s x.rid _ hxs.1
          rw [hreg]
          exact ⟨by simpa [St.write] using hxs.1, hxo, hxl⟩
        · exact w1.live k y (by simp; exact hk) hl
      · cases hs
  | append h more c grow tag =>
    simp only [step] at hs
    split at hs
    · cases hs
    · rename_i x hx
      cases hm : doAppend g s x more c grow tag with
      | error e => rw [hm] at hs; cases hs
      | ok p =>
        obtain ⟨s1, y⟩ := p
        rw [hm] at hs
        simp only at hs
        cases hs
        exact bind_ok g h s s1 y (doAppend_ok g h s s1 x y more grow tag c hi hx hm).1
  | realloc h size c grow tag =>
    simp only [step] at hs
    split at hs
    · cases hs
    · rename_i x hx
      cases hm : doRealloc g s x size c grow tag with
      | error e => rw [hm] at hs; cases hs
      | ok p =>
        obtain ⟨s1, y⟩ := p
        rw [hm] at hs
        simp only at hs
        cases hs
        exact bind_ok g h s s1 y (doRealloc_ok g h s s1 x y size grow tag c hi hx hm).1
  | foreign h cap len =>
    simp only [step] at hs
    split at hs
    · cases hs
    · split at hs
      · rename_i hc
        cases hs
        exact bind_ok g h s _ _ (foreign_ok g h s cap len hi hc.1 hc.2)
      · cases hs
  | free h tag =>
    simp only [step] at hs
    split at hs
    · cases hs
    · rename_i x hx
      cases hs
      exact remove_ok g h _ (doFree_core g h s x tag hi hx).1

theorem run_inv (g : Cfg) (ops : List Op) : ∀ s, Inv g s → Inv g (run g s ops) := by
  induction ops with
  | nil => intro s h; exact h
  | cons o os ih =>
    intro s h
    simp only [run]
    split
    · rename_i s' hs; exact ih s' (step_inv g s s' o h hs)
    · exact ih s h

/-- The heap invariant — region contents as long as their capacity, every live handle inside its
    region and recorded as its owner, every pool entry recorded as owner of its region (aligned
    allocator: with exactly its class's capacity) — holds after every program. -/
theorem c20_invariant (g : Cfg) (ops : List Op) : Inv g (run g {} ops) := run_inv g ops {} (inv_init g)

/-- `Malloc(n)` returns a buffer of length `n`. -/
theorem c20_malloc_len (g : Cfg) (ops : List Op) (h n grow : Nat) (c : Choice) (s' : St)
    (hs : step g (run g {} ops) (.malloc h n c grow) = .ok s') :
    ∃ y, s'.lookup h = some y ∧ y.len = n ∧ (s'.read h).map List.length = some n := by
  have hi := c20_invariant g ops
  generalize run g {} ops = s at hi hs
  simp only [step] at hs
  split at hs
  · cases hs
  · cases hm : doMalloc g s n c grow with
    | error e => rw [hm] at hs; cases hs
    | ok p =>
      obtain ⟨s1, y⟩ := p
      rw [hm] at hs
      simp only at hs
      cases hs
      obtain ⟨ok, hlen⟩ := doMalloc_ok g h s s1 n grow c y hi hm
      refine ⟨y, lookup_bind_self s1 h y, hlen, ?_⟩
      rw [read_bind_self, Option.map_some, content_length ok, hlen]

/-- `Append` / `AppendString`: the returned buffer holds the previous contents followed by the new bytes. -/
theorem c20_append (g : Cfg) (ops : List Op) (h grow tag : Nat) (more old : Bytes) (c : Choice) (s' : St)
    (hs : step g (run g {} ops) (.append h more c grow tag) = .ok s')
    (hold : (run g {} ops).read h = some old) : s'.read h = some (old ++ more) := by
  have hi := c20_invariant g ops
  generalize run g {} ops = s at hi hs hold
  simp only [step] at hs
  split at hs
  · cases hs
  · rename_i x hx
    cases hm : doAppend g s x more c grow tag with
    | error e => rw [hm] at hs; cases hs
    | ok p =>
      obtain ⟨s1, y⟩ := p
      rw [hm] at hs
      simp only at hs
      cases hs
      have hc := doAppend_content g h s s1 x y more grow tag c hi hx hm
      rw [read_bind_self, hc]
      simp only [St.read, hx, Option.map_some] at hold
      cases hold
      rfl

/-- `Realloc(n)`: the returned buffer has length `n` and its first `min n |old|` bytes are the old ones
    (cut or extended to the requested size; the extension is unspecified stale or zero bytes). -/
theorem c20_realloc (g : Cfg) (ops : List Op) (h n grow tag : Nat) (old : Bytes) (c : Choice) (s' : St)
    (hs : step g (run g {} ops) (.realloc h n c grow tag) = .ok s')
    (hold : (run g {} ops).read h = some old) :
    ∃ new, s'.read h = some new ∧ new.length = n ∧ new.take (min n old.length) = old.take (min n old.length) := by
  have hi := c20_invariant g ops
  generalize run g {} ops = s at hi hs hold
  simp only [step] at hs
  split at hs
  · cases hs
  · rename_i x hx
    cases hm : doRealloc g s x n c grow tag with
    | error e => rw [hm] at hs; cases hs
    | ok p =>
      obtain ⟨s1, y⟩ := p
      rw [hm] at hs
      simp only at hs
      cases hs
      obtain ⟨ok, hlen⟩ := doRealloc_ok g h s s1 x y n grow tag c hi hx hm
      have hc := doRealloc_content g h s s1 x y n grow tag c hi hx hm
      simp only [St.read, hx, Option.map_some] at hold
      cases hold
      refine ⟨content s1 y, read_bind_self s1 h y, by rw [content_length ok, hlen], ?_⟩
      have hol : (content s x).length = x.len := content_length_live hi hx
      show (content s1 y).take (min n (content s x).length) = (content s x).take (min n (content s x).length)
      rw [hol]; exact hc

/-- No aliasing: two handles that are live at the same time never share a backing array, and no live
    handle's backing array sits in a pool (from where it could be handed out a second time). -/
theorem c20_disjoint (g : Cfg) (ops : List Op) :
    let s := run g {} ops
    (∀ h k x y, h ≠ k → s.lookup h = some x → s.lookup k = some y → x.rid ≠ y.rid) ∧
    (∀ h x e, s.lookup h = some x → e ∈ s.pool → e.rid ≠ x.rid) := by
  have hi := c20_invariant g ops
  generalize run g {} ops = s at hi
  refine ⟨?_, ?_⟩
  · intro h k x y hne hx hy heq
    have h1 := (hi.live h x (by simp) hx).2.1
    have h2 := (hi.live k y (by simp) hy).2.1
    rw [heq, h2] at h1
    injection h1 with h1
    exact hne h1.symm
  · intro h x e hx he heq
    have h1 := (hi.live h x (by simp) hx).2.1
    have h2 := (hi.pool e he).2
    rw [heq, h1] at h2
    cases h2

/-- Frame: whatever one handle does — `Malloc` of a new handle, the client's own stores into its buffer,
    `Append`, `Realloc`, `Free` — every other live handle stays live with the same length and exactly
    the same bytes. -/
theorem c20_frame (g : Cfg) (ops : List Op) (o : Op) (s' : St)
    (hs : step g (run g {} ops) o = .ok s') (k : Nat) (hk : k ≠ o.name) :
    s'.lookup k = (run g {} ops).lookup k ∧ s'.read k = (run g {} ops).read k := by
  have hi := c20_invariant g ops
  generalize run g {} ops = s at hi hs
  -- the common part: an OpOK step followed by bind
  have after_bind : ∀ (h : Nat) (s1 : St) (y : Handle), k ≠ h → OpOK g h s s1 y →
      (s1.bind h y).lookup k = s.lookup k ∧ (s1.bind h y).read k = s.read k := by
    intro h s1 y hkh ok
    have hl : (s1.bind h y).lookup k = s.lookup k := by
      rw [lookup_bind_other s1 h k y hkh, lookup_live_eq ok.live]
    refine ⟨hl, ?_⟩
    simp only [St.read, hl]
    cases hlk : s.lookup k with
    | none => rfl
    | some xk =>
      obtain ⟨h1, h2, _⟩ := hi.live k xk (by simp) hlk
      have hkeep := ok.keep xk.rid k h1 h2 hkh
      have hne : xk.rid ≠ y.rid := by
        intro he
        have := ok.yscr.2
        rw [← he, hkeep, h2] at this
        rcases this with this | this <;> cases this
        exact hkh rfl
      have : (s1.bind h y).region xk.rid = s1.region xk.rid := region_own_other s1 y.rid xk.rid _ hne
      simp only [Option.map_some, this, hkeep]
  cases o with
  | malloc h size c grow =>
    simp only [step] at hs
    split at hs
    · cases hs
    · cases hm : doMalloc g s size c grow with
      | error e => rw [hm] at hs; cases hs
      | ok p =>
        obtain ⟨s1, y⟩ := p
        rw [hm] at hs
        simp only at hs
        cases hs
        exact after_bind h s1 y hk (doMalloc_ok g h s s1 size grow c y hi hm).1
  | write h off data =>
    simp only [step] at hs
    split at hs
    · cases hs
    · rename_i x hx
      split at hs
      · rename_i hfit
        cases hs
        obtain ⟨hxs, hxl, hxo⟩ := live_facts hi hx
        obtain ⟨_, w2⟩ := write_ok g h s x.rid off data (hi.exempt h) hxs (by omega)
        have hl : (s.write x.rid off data).lookup k = s.lookup k := lookup_live_eq w2.live k
        refine ⟨hl, ?_⟩
        simp only [St.read, hl]
        cases hlk : s.lookup k with
        | none => rfl
        | some xk =>
          obtain ⟨h1, h2, _⟩ := hi.live k xk (by simp) hlk
          simp only [Option.map_some, w2.keep xk.rid k h1 h2 hk]
      · cases hs
  | append h more c grow tag =>
    simp only [step] at hs
    split at hs
    · cases hs
    · rename_i x hx
      cases hm : doAppend g s x more c grow tag with
      | error e => rw [hm] at hs; cases hs
      | ok p =>
        obtain ⟨s1, y⟩ := p
        rw [hm] at hs
        simp only at hs
        cases hs
        exact after_bind h s1 y hk (doAppend_ok g h s s1 x y more grow tag c hi hx hm).1
  | realloc h size c grow tag =>
    simp only [step] at hs
    split at hs
    · cases hs
    · rename_i x hx
      cases hm : doRealloc g s x size c grow tag with
      | error e => rw [hm] at hs; cases hs
      | ok p =>
        obtain ⟨s1, y⟩ := p
        rw [hm] at hs
        simp only at hs
        cases hs
        exact after_bind h s1 y hk (doRealloc_ok g h s s1 x y size grow tag c hi hx hm).1
  | foreign h cap len =>
    simp only [step] at hs
    split at hs
    · cases hs
    · split at hs
      · rename_i hc
        cases hs
        exact after_bind h _ _ hk (foreign_ok g h s cap len hi hc.1 hc.2)
      · cases hs
  | free h tag =>
    simp only [step] at hs
    split at hs
    · cases hs
    · rename_i x hx
      cases hs
      obtain ⟨_, _, hlive, hoth⟩ := doFree_core g h s x tag hi hx
      have hl : ((doFree g s x tag).remove h).lookup k = s.lookup k := by
        rw [lookup_remove_other _ h k hk, lookup_live_eq hlive]
      refine ⟨hl, ?_⟩
      simp only [St.read, hl]
      cases hlk : s.lookup k with
      | none => rfl
      | some xk =>
        have hne : xk.rid ≠ x.rid := by
          intro he
          have h1 := (hi.live k xk (by simp) hlk).2.1
          have h2 := (hi.live h x (by simp) hx).2.1
          rw [he, h2] at h1
          injection h1 with h1
          exact hk h1.symm
        have : ((doFree g s x tag).remove h).region xk.rid = (doFree g s x tag).region xk.rid := rfl
        simp only [Option.map_some, this, hoth xk.rid hne]

/-- No operation of a well-formed client panics: in particular the aligned allocator's reslice
    `pooled[:size]` never exceeds the capacity of the buffer its class pool hands out. -/
theorem c20_no_panic (g : Cfg) (ops : List Op) (o : Op) : step g (run g {} ops) o ≠ .error .panic := by
  have hi := c20_invariant g ops
  generalize run g {} ops = s at hi
  cases o with
  | malloc h size c grow =>
    simp only [step]
    split
    · simp
    · cases hm : doMalloc g s size c grow with
      | error e =>
        simp only
        intro he
        have : e = .panic := by injection he
        rw [this] at hm
        exact doMalloc_no_panic g s size grow c hi hm
      | ok p => simp
  | write h off data =>
    simp only [step]
    split
    · simp
    · split <;> simp
  | append h more c grow tag =>
    simp only [step]
    split
    · simp
    · rename_i x hx
      cases hm : doAppend g s x more c grow tag with
      | error e =>
        simp only
        intro he
        have : e = .panic := by injection he
        rw [this] at hm
        exact doAppend_no_panic g h s x more grow tag c hi hm
      | ok p => simp
  | realloc h size c grow tag =>
    simp only [step]
    split
    · simp
    · rename_i x hx
      cases hm : doRealloc g s x size c grow tag with
      | error e =>
        simp only
        intro he
        have : e = .panic := by injection he
        rw [this] at hm
        exact doRealloc_no_panic g h s x size grow tag c hi hm
      | ok p => simp
  | foreign h cap len =>
    simp only [step]
    split
    · simp
    · split <;> simp
  | free h tag =>
    simp only [step]
    split <;> simp


/-! ### the model does not reject what can happen (the theorems above are not vacuous) -/

theorem goAppend_accepts (s : St) (rid keep grow : Nat) (more : Bytes) (h : keep + more.length ≤ grow) :
    ∃ p, goAppend s rid keep more grow = .ok p := by
  simp only [goAppend]
  split
  · exact ⟨_, rfl⟩
  · split
    · omega
    · exact ⟨_, rfl⟩

theorem mpGet_accepts (g : Cfg) (s : St) (size grow : Nat) (h : size ≤ grow) :
    ∃ p, mpGet g s size .fresh grow = .ok p := by
  simp only [mpGet, poolGet]
  split
  · rename_i hlt
    exact goAppend_accepts _ _ _ _ _ (by simp [zeros] at hlt ⊢; omega)
  · exact ⟨_, rfl⟩

theorem alMalloc_accepts (s : St) (size : Nat) : ∃ p, alMalloc s size .fresh = .ok p := by
  simp only [alMalloc, poolGet]
  split
  · rename_i hsz
    have hc : size ≤ ((s.alloc (classSize (classOf size)) []).1.region (s.alloc (classSize (classOf size)) []).2).cap := by
      rw [alloc_cap]; exact (classOf_spec size hsz).1
    simp only [hc, if_true]
    exact ⟨_, rfl⟩
  · exact ⟨_, rfl⟩

theorem doMalloc_accepts (g : Cfg) (s : St) (size grow : Nat) (h : size ≤ grow) :
    ∃ p, doMalloc g s size .fresh grow = .ok p := by
  unfold doMalloc
  split
  · simp only [mpMalloc]
    split
    · exact ⟨_, rfl⟩
    · obtain ⟨p, hp⟩ := mpGet_accepts g s size grow h
      rw [hp]; exact ⟨_, rfl⟩
  · exact alMalloc_accepts s size
  · exact ⟨_, rfl⟩

theorem doAppend_accepts (g : Cfg) (s : St) (x : Handle) (more : Bytes) (grow tag : Nat)
    (h : x.len + more.length ≤ grow) : ∃ p, doAppend g s x more .fresh grow tag = .ok p := by
  have mp : ∃ p, mpAppend s x more grow = .ok p := by
    simp only [mpAppend]
    obtain ⟨p, hp⟩ := goAppend_accepts s x.rid x.len grow more h
    rw [hp]; exact ⟨_, rfl⟩
  unfold doAppend
  split
  · exact mp
  · exact mp
  · simp only [alAppend]
    split
    · exact ⟨_, rfl⟩
    · obtain ⟨p, hp⟩ := alMalloc_accepts s (x.len + more.length)
      rw [hp]; exact ⟨_, rfl⟩

theorem doRealloc_accepts (g : Cfg) (s : St) (x : Handle) (size grow tag : Nat) (h : size ≤ grow) :
    ∃ p, doRealloc g s x size .fresh grow tag = .ok p := by
  unfold doRealloc
  split
  · simp only [mpRealloc]
    split
    · exact ⟨_, rfl⟩
    · rename_i hnofit
      split
      · obtain ⟨p, hp⟩ := mpGet_accepts g s size grow h
        rw [hp]; exact ⟨_, rfl⟩
      · obtain ⟨p, hp⟩ := goAppend_accepts s x.rid (s.region x.rid).cap grow (zeros (size - (s.region x.rid).cap))
          (by simp [zeros]; omega)
        rw [hp]; exact ⟨_, rfl⟩
  · simp only [alRealloc]
    split
    · exact ⟨_, rfl⟩
    · obtain ⟨p, hp⟩ := alMalloc_accepts s size
      rw [hp]; exact ⟨_, rfl⟩
  · exact ⟨_, rfl⟩

/-- The model never rejects a well-formed operation whose environment answers are possible: with the
    pool answering `New()` (`Choice.fresh`, always possible) and any growth capacity that is large enough,
    `Malloc` under an unused name, `Append`/`Realloc`/`Free` of a live handle and a store inside the buffer
    are all accepted — in every state.  So the contract theorems above speak about every such operation
    (`run` skips only ill-formed ones), for every allocator. -/
theorem c20_accepts (g : Cfg) (s : St) (h : Nat) :
    (∀ size grow, s.lookup h = none → size ≤ grow → ∃ s', step g s (.malloc h size .fresh grow) = .ok s') ∧
    (∀ x more grow tag, s.lookup h = some x → x.len + more.length ≤ grow →
        ∃ s', step g s (.append h more .fresh grow tag) = .ok s') ∧
    (∀ x size grow tag, s.lookup h = some x → size ≤ grow → ∃ s', step g s (.realloc h size .fresh grow tag) = .ok s') ∧
    (∀ x tag, s.lookup h = some x → ∃ s', step g s (.free h tag) = .ok s') ∧
    (∀ x off data, s.lookup h = some x → off + data.length ≤ x.len → ∃ s', step g s (.write h off data) = .ok s') := by
  refine ⟨?_, ?_, ?_, ?_, ?_⟩
  · intro size grow hl hg
    obtain ⟨p, hp⟩ := doMalloc_accepts g s size grow hg
    simp only [step, hl, hp]; exact ⟨_, rfl⟩
  · intro x more grow tag hl hg
    obtain ⟨p, hp⟩ := doAppend_accepts g s x more grow tag hg
    simp only [step, hl, hp]; exact ⟨_, rfl⟩
  · intro x size grow tag hl hg
    obtain ⟨p, hp⟩ := doRealloc_accepts g s x size grow tag hg
    simp only [step, hl, hp]; exact ⟨_, rfl⟩
  · intro x tag hl
    simp only [step, hl]; exact ⟨_, rfl⟩
  · intro x off data hl hfit
    simp only [step, hl, hfit, if_true]; exact ⟨_, rfl⟩

/-! ### foreign buffers (not handed out by the allocator) -/

/-- Aligned allocator: **every pooled buffer of class `i` has exactly the capacity of class `i`** — for every program,
    including programs that bring foreign buffers (`Op.foreign`: empty / `nil` slices, odd capacities, capacities above the
    threshold, capacities that are a class size) and pass them to `Append`, `Realloc`, `Free`.  This is what makes the
    reslice `pooled[:size]` of `Malloc` safe (`c20_no_panic`); it needs `Free` to ignore a zero capacity (the repair). -/
theorem c20_pooled_class_cap (ops : List Op) :
    ∀ e ∈ (run { kind := .aligned } {} ops).pool,
      ((run { kind := .aligned } {} ops).region e.rid).cap = classSize e.cls :=
  (c20_invariant { kind := .aligned } ops).acls rfl

/-- the sequence of the defect report on the repaired model: `Append` to an empty foreign slice takes the slow path and
    frees the empty slice, which is ignored; the next `Malloc(1)` gets a fresh 32-byte buffer of length 1.  A foreign
    buffer whose capacity is a class size (64) *is* pooled by `Free` and handed out again (by design). -/
example :
    let g : Cfg := { kind := .aligned }
    let s := run g {} [.foreign 0 0 0, .append 0 [120] .fresh 0 1, .malloc 1 1 .fresh 0,
                       .foreign 2 64 3, .free 2 7, .malloc 3 50 (.reuse 7) 0]
    s.pool = [] ∧ s.read 0 = some [120] ∧ (s.read 1).map List.length = some 1 ∧
      (s.lookup 3).map (·.rid) = some 3 ∧ (s.read 3).map List.length = some 50 := by
  decide

/-! ### outside the contract (documented, not a finding: DESIGN §6 C20) -/

/-- A *foreign* buffer of capacity 96 (not obtained from this allocator; here planted directly in the
    heap) is filed by `Free` under the 128-byte class, and the next `Malloc(100)` that is handed this
    entry reslices beyond its capacity: panic.  Only reachable by freeing a buffer the allocator did
    not allocate, which the client contract excludes (`c20_no_panic` covers well-formed clients). -/
def isPanic : Except Err St → Bool | .error .panic => true | _ => false

theorem c20_aligned_foreign_cap_counterexample :
    let s0 : St := { regions := [⟨96, zeros 96, .live 0⟩], live := [(0, ⟨0, 96⟩)] }
    let s1 := (doFree { kind := .aligned } s0 ⟨0, 96⟩ 7).remove 0
    s1.pool = [⟨7, 2, 0⟩] ∧ isPanic (step { kind := .aligned } s1 (.malloc 1 100 (.reuse 7) 0)) = true := by
  decide

/-! ### non-vacuity -/

/-- a MemPool program that reuses a pooled buffer, grows it, reallocates through the pool and frees -/
example :
    let g := newPoolCfg 4 16
    let s := run g {} [.malloc 0 3 .fresh 0, .write 0 0 [1, 2, 3], .malloc 1 2 .fresh 0, .write 1 0 [9, 9],
                       .free 0 1, .malloc 2 6 (.reuse 1) 8, .append 1 [7, 7, 7] .fresh 8 0,
                       .realloc 1 9 .fresh 16 2]
    s.read 1 = some [9, 9, 7, 7, 7, 0, 0, 0, 0] ∧ (s.read 2).map List.length = some 6 ∧ s.pool.length = 1 := by
  decide

end Alloc
