import NbioVerif.Model.Resp
/-! C09 HTTP response framing — property theorems over the model `Resp` (nbhttp/response.go). -/
namespace Resp

/-- a result that, if it is a success, reports exactly `|data|` -/
def RetOK (data : Bytes) (w : WRes) : Prop := ∀ n, w = .ok n → n = data.length

theorem retOK_ok (data : Bytes) : RetOK data (.ok data.length) := by intro n h; cases h; rfl
theorem retOK_errConn (data : Bytes) : RetOK data .errConn := by intro n h; cases h
theorem retOK_errCL (data : Bytes) : RetOK data .errCL := by intro n h; cases h
theorem retOK_errParse (data : Bytes) : RetOK data .errParse := by intro n h; cases h

theorem chunkTail_ret (g : Cfg) (r : R) (nb data : Bytes) : RetOK data (chunkTail g r nb data).2 := by
  unfold chunkTail
  dsimp only
  repeat' split
  all_goals first | exact retOK_ok _ | exact retOK_errConn _

theorem writeChunk_ret (g : Cfg) (r : R) (data : Bytes) : RetOK data (writeChunk g r data).2 := by
  unfold writeChunk chunkSmall
  dsimp only
  repeat' split
  all_goals first | exact retOK_ok _ | exact retOK_errConn _ | apply chunkTail_ret

theorem sendDirect_ret (g : Cfg) (r : R) (data : Bytes) : RetOK data (sendDirect g r data).2 := by
  unfold sendDirect
  dsimp only
  repeat' split
  all_goals first | exact retOK_ok _ | exact retOK_errConn _

theorem appendTail_ret (g : Cfg) (r : R) (bb data : Bytes) (cl : Nat) : RetOK data (appendTail g r bb data cl).2 := by
  unfold appendTail
  dsimp only
  repeat' split
  all_goals first | exact retOK_ok _ | exact retOK_errConn _

theorem appendBody_ret (g : Cfg) (r : R) (data : Bytes) (cl : Nat) : RetOK data (appendBody g r data cl).2 := by
  unfold appendBody
  dsimp only
  repeat' split
  all_goals first | exact retOK_errConn _ | apply sendDirect_ret | apply appendTail_ret

/-- **C09, return value.** Every successful `Response.Write`/`WriteString` reports exactly the number of
bytes it was given — for every state, every payload, every conn behaviour (including injected write
errors) and every head encoder. (Defect #7 made this fail when the body buffer landed on 65 536.) -/
theorem c09_write_returns_len (g : Cfg) (r : R) (data : Bytes) (n : Nat)
    (h : (write g r data).2 = .ok n) : n = data.length := by
  have : RetOK data (write g r data).2 := by
    unfold write
    dsimp only
    repeat' split
    all_goals first
      | exact retOK_errConn _ | exact retOK_errCL _ | exact retOK_errParse _
      | apply writeChunk_ret | apply appendBody_ret
      | (intro n h; simp_all)
  exact this n h

end Resp
