import NbioVerif.Lemmas.C09Stage2
/-! C09 HTTP response framing — property theorems over the model `Resp` (nbhttp/response.go). -/
namespace Resp

/-- a result that, if it is a success, reports exactly `|data|` -/
def RetOK (data : Bytes) (w : WRes) : Prop := ∀ n, w = .ok n → n = data.length

theorem retOK_ok (data : Bytes) : RetOK data (.ok data.length) := by intro n h; cases h; rfl
theorem retOK_errConn (data : Bytes) : RetOK data .errConn := by intro n h; cases h
theorem retOK_errCL (data : Bytes) : RetOK data .errCL := by intro n h; cases h
theorem retOK_errParse (data : Bytes) : RetOK data .errParse := by intro n h; cases h

theorem chunkTail_ret (g : Cfg) (r : R) (nb data : Bytes) : RetOK data (chunkTail g r nb data).2 := by
  unfold chunkTail
  dsimp only
  repeat' split
  all_goals first | exact retOK_ok _ | exact retOK_errConn _

theorem writeChunk_ret (g : Cfg) (r : R) (data : Bytes) : RetOK data (writeChunk g r data).2 := by
  unfold writeChunk
  dsimp only
  repeat' split
  all_goals first | exact retOK_ok _ | exact retOK_errConn _ | apply chunkTail_ret

theorem sendDirect_ret (g : Cfg) (r : R) (data : Bytes) : RetOK data (sendDirect g r data).2 := by
  unfold sendDirect
  dsimp only
  repeat' split
  all_goals first | exact retOK_ok _ | exact retOK_errConn _

theorem appendTail_ret (g : Cfg) (r : R) (bb data : Bytes) (cl : Nat) : RetOK data (appendTail g r bb data cl).2 := by
  unfold appendTail
  dsimp only
  repeat' split
  all_goals first | exact retOK_ok _ | exact retOK_errConn _

theorem appendBody_ret (g : Cfg) (r : R) (data : Bytes) (cl : Nat) : RetOK data (appendBody g r data cl).2 := by
  unfold appendBody
  dsimp only
  repeat' split
  all_goals first | exact retOK_errConn _ | apply sendDirect_ret | apply appendTail_ret

/-- **C09, return value.** Every successful `Response.Write`/`WriteString` reports exactly the number of
bytes it was given — for every state, every payload, every conn behaviour (including injected write
errors) and every head encoder. (Defect #7 made this fail when the body buffer landed on 65 536.) -/
theorem c09_write_returns_len (g : Cfg) (r : R) (data : Bytes) (n : Nat)
    (h : (write g r data).2 = .ok n) : n = data.length := by
  have : RetOK data (write g r data).2 := by
    unfold write writeBody writeIdent
    dsimp only
    repeat' split
    all_goals first
      | exact retOK_errConn _ | exact retOK_errCL _ | exact retOK_errParse _
      | apply writeChunk_ret | apply appendBody_ret
      | (intro n h; simp_all)
  exact this n h

/-! ## Stage 1: framing

The handler first sets headers / calls WriteHeader (any header map `hdr`, any status `sc`/`st`: the state
`start hdr sc st`), then performs body-phase operations `ops : List BOp` — Write/WriteString of any size,
Flush, and header changes that do not touch Content-Length (trailer values, typically) — and returns;
flushResponse (`finish`) runs.  `runB` also returns the payloads of the writes that were accepted. -/

/-- the state in which the body phase begins: `WriteHeader(200); checkChunked()` have run -/
abbrev body0 (g : Cfg) (hdr : Header) (sc : Nat) (st : Bytes) : R :=
  checkChunked g (writeHeader200 (start hdr sc st))
/-- the state when the handler returns -/
abbrev endState (g : Cfg) (hdr : Header) (sc : Nat) (st : Bytes) (ops : List BOp) : R :=
  (runB g (body0 g hdr sc st) ops).1
/-- the payloads of the writes that were accepted (returned `.ok`) -/
abbrev accepted (g : Cfg) (hdr : Header) (sc : Nat) (st : Bytes) (ops : List BOp) : List Bytes :=
  (runB g (body0 g hdr sc st) ops).2
/-- everything the connection received, flushResponse included -/
abbrev wireOf (g : Cfg) (hdr : Header) (sc : Nat) (st : Bytes) (ops : List BOp) : Bytes :=
  (finish g (endState g hdr sc st ops)).1.wire.flatten

/-- the payloads that produce a chunk -/
def nonEmpty (ds : List Bytes) : List Bytes := ds.filter (fun d => !d.isEmpty)

theorem framed_chunked (ds : List Bytes) : framed true ds = ((nonEmpty ds).map chunkEnc).flatten := by
  have e : framed true ds = (ds.map fun d => if d = [] then [] else chunkEnc d).flatten := by
    simp [framed, frame]
  rw [e]
  clear e
  unfold nonEmpty
  induction ds with
  | nil => rfl
  | cons d t ih =>
    cases d with
    | nil => simpa [List.filter_cons] using ih
    | cons a x => simp [List.filter_cons, ih]

theorem framed_identity (ds : List Bytes) : framed false ds = ds.flatten := by
  have e : framed false ds = (ds.map fun d => if d = [] then [] else d).flatten := by
    simp [framed, frame]
  rw [e]
  clear e
  induction ds with
  | nil => rfl
  | cons d t ih =>
    cases d with
    | nil => simpa using ih
    | cons a x => simp [ih]

theorem nonEmpty_flatten (ds : List Bytes) : (nonEmpty ds).flatten = ds.flatten := by
  unfold nonEmpty
  induction ds with
  | nil => rfl
  | cons d t ih =>
    cases d with
    | nil => simpa [List.filter_cons] using ih
    | cons a x => simp [List.filter_cons, ih]

theorem nonEmpty_ne (ds : List Bytes) : ∀ d ∈ nonEmpty ds, d ≠ [] ∧ d ∈ ds := by
  intro d hd
  unfold nonEmpty at hd
  rw [List.mem_filter] at hd
  refine ⟨?_, hd.1⟩
  intro hc; rw [hc] at hd; simp at hd

/-- **C09 stage 1, wire shape.** For every head encoder (so: every head byte string), every header map and
status, every body-phase program and a connection that accepts the writes: the bytes on the wire are
`H ++ framing(accepted writes) ++ terminator`, where `H` is what the head encoder made of a state with the
handler's status line and the chosen framing flag, the framing is chunk-by-chunk or the plain
concatenation according to the flag decided by `checkChunked`, and the terminator (last chunk, trailer
section) is present exactly in chunked mode.  No byte of the body is lost, duplicated, reordered or
preceded by foreign bytes, whatever the write sizes (all 64 KiB threshold branches) and wherever Flush is
called.  (Defect #16 broke exactly this: stale pool bytes in front of a chunk header.) -/
theorem c09_wire_shape_K (g : Cfg) (hg : g.failAt = 0) (hdr : Header) (sc : Nat) (st : Bytes)
    (ops : List BOp) (hok : ∀ op ∈ ops, op.ok)
    (K : Header → Prop) (hK0 : K (body0 g hdr sc st).header) (hKops : ∀ op ∈ ops, ∀ h, K h → K (op.onHeader h)) :
    ∃ rE : R, Line K (body0 g hdr sc st).statusCode (body0 g hdr sc st).status (body0 g hdr sc st).chunked rE ∧
      wireOf g hdr sc st ops =
        g.head rE ++ framed (body0 g hdr sc st).chunked (accepted g hdr sc st ops) ++
          (if (body0 g hdr sc st).chunked then lastChunk (eoncodeHead g (endState g hdr sc st ops)) else []) ∧
      (finish g (endState g hdr sc st ops)).2 = g.reqClose := by
  have hf : Fresh (body0 g hdr sc st) := fresh_prelude g _ ⟨rfl, rfl, rfl, rfl⟩
  have hp : Pre (body0 g hdr sc st) := pre_prelude g _
  have hw := start_winv _ hf hp
  obtain ⟨hd', i1, _, i3, i4, i5⟩ :=
    runB_spec g hg (verdict (body0 g hdr sc st)) ops hok K hKops _ _ _
      (body0 g hdr sc st) none [] hw ⟨rfl, rfl, rfl, hK0⟩ (by intro H hH; cases hH)
  obtain ⟨f1, f2, f3⟩ := finish_spec g hg _ _ hd' _ i1
  have i5' := headOf_after g _ _ _ _ (runB g (body0 g hdr sc st) ops).1 hd' i4 i5
  cases hh : hdAfter g (runB g (body0 g hdr sc st) ops).1 hd' with
  | none => rw [hh] at f3; simp at f3
  | some H =>
    obtain ⟨rE, e1, e2⟩ := i5' H hh
    refine ⟨rE, e2, ?_, f2⟩
    show (finish g (runB g (body0 g hdr sc st) ops).1).1.wire.flatten = _
    rw [f1, hh, i3, e1]
    simp

theorem c09_wire_shape (g : Cfg) (hg : g.failAt = 0) (hdr : Header) (sc : Nat) (st : Bytes)
    (ops : List BOp) (hok : ∀ op ∈ ops, op.ok) :
    ∃ rE : R, Line (fun _ => True) (body0 g hdr sc st).statusCode (body0 g hdr sc st).status (body0 g hdr sc st).chunked rE ∧
      wireOf g hdr sc st ops =
        g.head rE ++ framed (body0 g hdr sc st).chunked (accepted g hdr sc st ops) ++
          (if (body0 g hdr sc st).chunked then lastChunk (eoncodeHead g (endState g hdr sc st ops)) else []) ∧
      (finish g (endState g hdr sc st ops)).2 = g.reqClose :=
  c09_wire_shape_K g hg hdr sc st ops hok (fun _ => True) trivial (fun _ _ _ _ => trivial)

/-- **C09 stage 1, framing.** Under the stage-1 hypotheses and for payloads the length formatter can
express (`≤ 2^31-1` bytes), a reference decoder recovers exactly the concatenation of the accepted
writes from what follows the head: identity framing IS the concatenation; chunked framing decodes (RFC
7230 §4.1 reference decoder `unchunk`) to the concatenation, leaving the trailer section. -/
theorem c09_stage1_unframe (g : Cfg) (hg : g.failAt = 0) (hdr : Header) (sc : Nat) (st : Bytes)
    (ops : List BOp) (hok : ∀ op ∈ ops, op.ok)
    (hsz : ∀ d ∈ accepted g hdr sc st ops, d.length ≤ maxChunk) :
    ∃ (rE : R) (F : Bytes),
      Line (fun _ => True) (body0 g hdr sc st).statusCode (body0 g hdr sc st).status (body0 g hdr sc st).chunked rE ∧
      wireOf g hdr sc st ops = g.head rE ++ F ∧
      ((body0 g hdr sc st).chunked = false → F = (accepted g hdr sc st ops).flatten) ∧
      ((body0 g hdr sc st).chunked = true →
        ∃ T, unchunk ((nonEmpty (accepted g hdr sc st ops)).length + 1) F =
              some ((accepted g hdr sc st ops).flatten, T) ∧
          str "0\r\n" ++ T = lastChunk (eoncodeHead g (endState g hdr sc st ops))) := by
  obtain ⟨rE, l1, w1, _⟩ := c09_wire_shape g hg hdr sc st ops hok
  refine ⟨rE, framed (body0 g hdr sc st).chunked (accepted g hdr sc st ops) ++
      (if (body0 g hdr sc st).chunked then lastChunk (eoncodeHead g (endState g hdr sc st ops)) else []),
    l1, ?_, ?_, ?_⟩
  · rw [w1, List.append_assoc]
  · intro hc
    rw [hc]; simp [framed_identity]
  · intro hc
    have hT : ∃ T, str "0\r\n" ++ T = lastChunk (eoncodeHead g (endState g hdr sc st ops)) := by
      unfold lastChunk
      split
      · exact ⟨CRLF, by decide⟩
      · exact ⟨_, rfl⟩
    obtain ⟨T, hT⟩ := hT
    refine ⟨T, ?_, hT⟩
    rw [hc]
    simp only [↓reduceIte, framed_chunked, ← hT]
    have := unchunk_encode (nonEmpty (accepted g hdr sc st ops)) T
      (fun d hd => (nonEmpty_ne _ d hd).1) (fun d hd => hsz d (nonEmpty_ne _ d hd).2)
    rw [nonEmpty_flatten] at this
    exact this

/-- **C09 stage 1, framing choice.** With satisfiable framing requests (`saneFraming`: chunked/trailers
only asked on HTTP/1.1, syntactically valid Content-Length) the framing decided by `checkChunked` is the
RFC 7230 §3.3 rule evaluated on the request version, the handler's headers and the status. -/
theorem c09_framing_choice (g : Cfg) (hdr : Header) (sc : Nat) (st : Bytes) (hs : saneFraming g hdr = true) :
    (checkChunked g (writeHeader200 (start hdr sc st))).chunked =
      rfcChunked g.proto11 hdr (if sc = 0 then 200 else sc) :=
  framing_choice g hdr sc st hs

/-! ### `Sane` and the combined stage-1 statement -/

def BOp.sizeOk : BOp → Bool
  | .write d => decide (d.length ≤ maxChunk)
  | _ => true

instance (op : BOp) : Decidable op.ok := by cases op <;> unfold BOp.ok <;> infer_instance

/-- **`Sane`** (stage 1), a decidable predicate on the handler's header map and body-phase program:
satisfiable framing requests (`saneFraming`), no change of Content-Length once the body phase has begun,
payloads within the range of the chunk-length formatter (2^31-1 bytes). -/
def sane (g : Cfg) (hdr : Header) (ops : List BOp) : Bool :=
  saneFraming g hdr && ops.all fun op => decide op.ok && op.sizeOk

theorem runB_accepted_mem (g : Cfg) (ops : List BOp) (r : R) : ∀ d ∈ (runB g r ops).2, BOp.write d ∈ ops := by
  induction ops generalizing r with
  | nil => intro d hd; simp [runB] at hd
  | cons op rest ih =>
    intro d hd
    cases op with
    | write d' =>
      simp only [runB] at hd
      generalize write g r d' = p at hd
      obtain ⟨r', w⟩ := p
      dsimp only at hd
      rcases List.mem_append.mp hd with h1 | h1
      · cases w <;> simp at h1
        subst h1; exact List.mem_cons_self ..
      · exact List.mem_cons_of_mem _ (ih r' d h1)
    | flush => simp only [runB] at hd; exact List.mem_cons_of_mem _ (ih _ d hd)
    | setH k v => simp only [runB] at hd; exact List.mem_cons_of_mem _ (ih _ d hd)
    | addH k v => simp only [runB] at hd; exact List.mem_cons_of_mem _ (ih _ d hd)
    | delH k => simp only [runB] at hd; exact List.mem_cons_of_mem _ (ih _ d hd)

/-- **C09 stage 1.** For every head encoder `g.head` (every head byte string `H`), every header map, status
and body-phase program with `sane g hdr ops`, on a connection that accepts the writes:
`wire = H ++ F`; the framing is chunked iff the RFC 7230 §3.3 rule says so for (request version, handler
headers, status); identity: `F` is the concatenation of the accepted writes; chunked: the reference decoder
turns `F` into that concatenation (and the trailer section).  Together with `c09_write_returns_len`
(every successful write returns `|data|`) this is the framing half of C09. -/
theorem c09_stage1 (g : Cfg) (hg : g.failAt = 0) (hdr : Header) (sc : Nat) (st : Bytes) (ops : List BOp)
    (hs : sane g hdr ops = true) :
    (body0 g hdr sc st).chunked = rfcChunked g.proto11 hdr (if sc = 0 then 200 else sc) ∧
    ∃ (H F : Bytes), wireOf g hdr sc st ops = H ++ F ∧
      ((body0 g hdr sc st).chunked = false → F = (accepted g hdr sc st ops).flatten) ∧
      ((body0 g hdr sc st).chunked = true →
        ∃ T, unchunk ((nonEmpty (accepted g hdr sc st ops)).length + 1) F =
              some ((accepted g hdr sc st ops).flatten, T)) := by
  unfold sane at hs
  simp only [Bool.and_eq_true, List.all_eq_true, decide_eq_true_eq] at hs
  obtain ⟨hf, hall⟩ := hs
  have hok : ∀ op ∈ ops, op.ok := fun op hop => (hall op hop).1
  have hsz : ∀ d ∈ accepted g hdr sc st ops, d.length ≤ maxChunk := by
    intro d hd
    have := (hall _ (runB_accepted_mem g ops _ d hd)).2
    simpa [BOp.sizeOk] using this
  refine ⟨c09_framing_choice g hdr sc st hf, ?_⟩
  obtain ⟨rE, F, _, w, h1, h2⟩ := c09_stage1_unframe g hg hdr sc st ops hok hsz
  refine ⟨g.head rE, F, w, h1, ?_⟩
  intro hc
  obtain ⟨T, hT, _⟩ := h2 hc
  exact ⟨T, hT⟩

/-! ## Stage 2: the head

With the concrete head encoder `headBytes` (`g.head = headBytes g`), for programs whose body-phase header
operations only concern declared trailers, a reference head parser (`parseHead`: status line, `name: value`
lines, empty line) reads the wire back. -/

/-- the handler's header names/values and status are printable as a head (token-ish names without colon,
no CR anywhere, a three-digit status, a protocol string without space) -/
structure SaneHeaders (g : Cfg) (r : R) : Prop where
  proto : ∀ c ∈ g.proto, c ≠ 13 ∧ c ≠ 32
  status : noCR r.status
  code : r.statusCode ≤ 999
  names : ∀ p ∈ handlerPairs (hget r.header kTrailer) r.header, nameOk p.1
  values : ∀ p ∈ handlerPairs (hget r.header kTrailer) r.header, noCR p.2

/-- **C09 stage 2, head round trip.** Under the stage-1 hypotheses, with the real head encoder, header
operations during the body phase restricted to declared trailer keys, and printable headers: the reference
parser reads the wire as (i) the status line `proto SP code SP reason` of the handler's status — which
`parseStatusLine` splits back into protocol, code and reason —, (ii) the header fields = the automatic ones
of the encoding state followed by EXACTLY the handler's non-trailer header values (every value of every key,
in map order), and (iii) the framed body `F` of stage 1. -/
theorem c09_stage2_head (g : Cfg) (hg : g.failAt = 0) (hreal : g.head = headBytes g)
    (hdr : Header) (sc : Nat) (st : Bytes) (ops : List BOp) (hok : ∀ op ∈ ops, op.ok)
    (htr : ∀ op ∈ ops, op.trailerOnly (body0 g hdr sc st).header)
    (hs : SaneHeaders g (body0 g hdr sc st)) :
    ∃ (rE : R) (F : Bytes),
      parseHead (wireOf g hdr sc st ops) =
        some (statusBody g (body0 g hdr sc st),
              autoPairs g rE ++ handlerPairs (hget (body0 g hdr sc st).header kTrailer) (body0 g hdr sc st).header, F) ∧
      parseStatusLine (statusBody g (body0 g hdr sc st)) =
        some (g.proto, (body0 g hdr sc st).statusCode, (body0 g hdr sc st).status) ∧
      rE.chunked = (body0 g hdr sc st).chunked ∧
      F = framed (body0 g hdr sc st).chunked (accepted g hdr sc st ops) ++
          (if (body0 g hdr sc st).chunked then lastChunk (eoncodeHead g (endState g hdr sc st ops)) else []) := by
  obtain ⟨rE, ⟨l1, l2, l3, l4⟩, w1, _⟩ := c09_wire_shape_K g hg hdr sc st ops hok
    (SameHead (body0 g hdr sc st).header) ⟨rfl, fun _ _ => rfl⟩
    (fun op hop h hh => sameHead_op _ h op (htr op hop) hh)
  refine ⟨rE, _, ?_, ?_, l3, rfl⟩
  · rw [w1, hreal, List.append_assoc]
    have hsE : SaneHead g rE := by
      refine ⟨fun c hc => (hs.proto c hc).1, by rw [l2]; exact hs.status, by rw [l1]; exact hs.code, ?_, ?_⟩
      · rw [l4.1]; exact hs.names
      · rw [l4.1]; exact hs.values
    rw [parseHead_headBytes g rE _ hsE, l4.1]
    have : statusBody g rE = statusBody g (body0 g hdr sc st) := by unfold statusBody; rw [l1, l2]
    rw [this]
  · exact parseStatusLine_statusBody g _ (fun c hc => (hs.proto c hc).2) hs.code

/-- **C09 stage 2, trailer section.** What follows the last-chunk line `0 CRLF` is the rendering of the
trailer fields — the keys declared in `Trailer` when the head was encoded, each with the value the header map
holds when the handler returns (late values included) — and the reference field parser reads it back. -/
theorem c09_stage2_trailers (r : R) (X : Bytes)
    (hk : ∀ p ∈ trailerPairs r, nameOk p.1) (hv : ∀ p ∈ trailerPairs r, noCR p.2) :
    lastChunk r = str "0\r\n" ++ (renderPairs (trailerPairs r) ++ 13 :: 10 :: []) ∧
    parseHeaders ((trailerPairs r).length + 1) (renderPairs (trailerPairs r) ++ 13 :: 10 :: X) =
      some (trailerPairs r, X) :=
  ⟨lastChunk_normal r, parseHeaders_trailers r X hk hv⟩

/-- trailer split: no declared trailer key appears among the head's handler fields -/
theorem c09_stage2_split (tk : List Bytes) (h : Header) : ∀ p ∈ handlerPairs tk h, tk.contains p.1 = false := by
  intro p hp
  unfold handlerPairs at hp
  simp only [List.mem_flatten, List.mem_map] at hp
  obtain ⟨l, ⟨e, _, he⟩, hpl⟩ := hp
  subst he
  split at hpl
  · cases hpl
  · rename_i hc
    simp only [List.mem_map] at hpl
    obtain ⟨v, _, hv⟩ := hpl
    subst hv
    simpa using hc

/-! ### what is still wrong in the tree (known findings): the full statement fails, witnesses -/

section witnesses
set_option maxRecDepth 100000

/-- the concrete head encoder for HTTP/1.0 keep-alive and HTTP/1.1 -/
def cfg10 : Cfg :=
  let g : Cfg := { proto := str "HTTP/1.0", proto11 := false, reqClose := false, head := fun _ => [] }
  { g with head := headBytes g }
def cfg11 : Cfg :=
  let g : Cfg := { proto := str "HTTP/1.1", proto11 := true, reqClose := false, head := fun _ => [] }
  { g with head := headBytes g }

/-- **finding resp-flush-identity-nocl.** The full C09 statement would need "the head announces the length
of the body" for identity framing.  Witness against it: HTTP/1.0, no Content-Length, Write "a", Flush,
Write "b" — the head (encoded by the Flush) announces `Content-Length: 1`, two body bytes follow. -/
theorem c09_flush_identity_counterexample :
    (finish cfg10 (run cfg10 (start [(kDate, [str "D"])] 0 [])
        [.write (str "a"), .flush, .write (str "b")]).1).1.wire.flatten =
      str "HTTP/1.0 200 OK\r\nContent-Type: text/plain; charset=utf-8\r\nContent-Length: 1\r\nDate: D\r\n\r\nab" := by
  decide

/-- **finding resp-head-body.** nbhttp.Response never reads the request method (the model has no such
input): the response to a handler that writes nothing on HTTP/1.1 is a chunked head followed by the
5-byte last chunk — also when the request was HEAD, where nothing may follow the head. -/
theorem c09_head_counterexample :
    (finish cfg11 (start [(kDate, [str "D"])] 0 [])).1.wire.flatten =
      str "HTTP/1.1 200 OK\r\nDate: D\r\nTransfer-Encoding: chunked\r\n\r\n" ++ str "0\r\n\r\n" := by
  decide

/-- **finding resp-readfrom-nil-head.** ReadFrom after a Write on a response with Content-Length: the
head buffer has moved into the body buffer and `*res.buffer` is a nil dereference. -/
theorem c09_readfrom_after_write_counterexample :
    (run cfg11 (start [(kDate, [str "D"]), (kCL, [str "20"])] 0 [])
        [.write (str "0123456789"), .readFrom .plain (str "0123456789")]).2 =
      [some (.ok 10), some .panic] := by
  decide

end witnesses

/-- **partial statement for identity framing without Content-Length.** If the handler never calls Flush
(and never touches Content-Length), the head is encoded by flushResponse on the state whose body buffer
holds the whole body: the automatic `Content-Length` of `headBytes` is computed from exactly the bytes
that follow. -/
theorem c09_identity_auto_length_partial (g : Cfg) (hg : g.failAt = 0) (hdr : Header) (sc : Nat) (st : Bytes)
    (ops : List BOp) (hok : ∀ op ∈ ops, op.ok) (hnf : ∀ op ∈ ops, op ≠ .flush)
    (hid : (body0 g hdr sc st).chunked = false)
    (hv : verdict (body0 g hdr sc st) = none ∨ verdict (body0 g hdr sc st) = some 0) :
    wireOf g hdr sc st ops = g.head (endState g hdr sc st ops) ++ (accepted g hdr sc st ops).flatten ∧
      (endState g hdr sc st ops).bodyBuffer.getD [] = (accepted g hdr sc st ops).flatten := by
  have hf : Fresh (body0 g hdr sc st) := fresh_prelude g _ ⟨rfl, rfl, rfl, rfl⟩
  have hp : Pre (body0 g hdr sc st) := pre_prelude g _
  have hw := start_winv _ hf hp
  obtain ⟨hd', i1, _, i3, _, _⟩ :=
    runB_spec g hg (verdict (body0 g hdr sc st)) ops hok (fun _ => True) (fun _ _ _ _ => trivial) _ _ _
      (body0 g hdr sc st) none [] hw ⟨rfl, rfl, rfl, trivial⟩ (by intro H hH; cases hH)
  have hne := runB_noenc g (verdict (body0 g hdr sc st)) ops hnf hok _ hp hid hf.henc hv rfl
  have hc : (runB g (body0 g hdr sc st) ops).1.chunked = false := by rw [i3]; exact hid
  obtain ⟨hi, _⟩ := i1.idn hc
  obtain ⟨f1, _, _⟩ := finish_spec g hg _ _ hd' _ i1
  have hb : (runB g (body0 g hdr sc st) ops).1.buffer = none := hi.nobuf hne
  have hwr : (runB g (body0 g hdr sc st) ops).1.wire.flatten = [] := hi.nowire hne
  have hdn : hd' = none := by
    cases hd' with
    | none => rfl
    | some x => have := hi.henc; rw [hne] at this; simp at this
  subst hdn
  have hbytes := hi.bytes []
  simp only [bufB, bodyB, hb, hwr, Option.getD_none, List.nil_append, List.append_nil] at hbytes
  rw [hid, framed_identity] at hbytes
  refine ⟨?_, hbytes⟩
  show (finish g (runB g (body0 g hdr sc st) ops).1).1.wire.flatten = _
  rw [f1, hc]
  unfold hdAfter
  simp [hne, hid, framed_identity]

/-! ### non-vacuity -/

section nonvacuity
set_option maxRecDepth 100000

/-- a chunked program with a Flush in the middle and a late trailer value: the hypotheses hold and the
wire is what a client expects -/
example :
    let hdr : Header := [(kDate, [str "D"]), (kTrailer, [str "X-Sum"])]
    let ops : List BOp := [.write (str "hello "), .flush, .write (str "world"), .setH (str "X-Sum") (str "11")]
    sane cfg11 hdr ops = true ∧
    wireOf cfg11 hdr 0 [] ops =
      str ("HTTP/1.1 200 OK\r\nContent-Type: text/plain; charset=utf-8\r\nDate: D\r\nTrailer: X-Sum\r\n" ++
           "Transfer-Encoding: chunked\r\n\r\n6\r\nhello \r\n5\r\nworld\r\n0\r\nX-Sum: 11\r\n\r\n") := by
  refine ⟨by decide, by decide⟩

/-- the reference decoder on that wire's framing part -/
example : unchunk 3 (str "6\r\nhello \r\n5\r\nworld\r\n0\r\nX-Sum: 11\r\n\r\n") =
    some (str "hello world", str "X-Sum: 11\r\n\r\n") := by decide

/-- stage 2 on the same program: the hypotheses hold and the reference parser returns the handler's header
fields (Date, Trailer; X-Sum is a trailer and absent) after the automatic ones -/
example :
    let hdr : Header := [(kDate, [str "D"]), (kTrailer, [str "X-Sum"])]
    let ops : List BOp := [.write (str "hello "), .flush, .write (str "world"), .setH (str "X-Sum") (str "11")]
    cfg11.head = headBytes cfg11 ∧
    (parseHead (wireOf cfg11 hdr 0 [] ops)).map (fun p => (p.1, p.2.1)) =
      some (str "HTTP/1.1 200 OK",
            [(kCT, str "text/plain; charset=utf-8"), (kDate, str "D"), (kTrailer, str "X-Sum"), (kTE, str "chunked")]) ∧
    parseStatusLine (str "HTTP/1.1 200 OK") = some (str "HTTP/1.1", 200, str "OK") := by
  refine ⟨rfl, by decide, by decide⟩

end nonvacuity

end Resp
