import NbioVerif.Lemmas.C09Stage2
import NbioVerif.Lemmas.C09Bridge
import NbioVerif.Lemmas.C09Rfc
import NbioVerif.Lemmas.C09AutoLen
import NbioVerif.Lemmas.C09Account
import NbioVerif.Lemmas.C09ReadFrom
import NbioVerif.Lemmas.C09FlushClose
import NbioVerif.Lemmas.C09Trailer
import NbioVerif.Lemmas.C09Decode
/-! C09 HTTP response framing — property theorems over the model `Resp` (nbhttp/response.go). -/
namespace Resp

/-- a result that, if it is a success, reports exactly `|data|` -/
def RetOK (data : Bytes) (w : WRes) : Prop := ∀ n, w = .ok n → n = data.length

theorem retOK_ok (data : Bytes) : RetOK data (.ok data.length) := by intro n h; cases h; rfl
theorem retOK_errConn (data : Bytes) : RetOK data .errConn := by intro n h; cases h
theorem retOK_errCL (data : Bytes) : RetOK data .errCL := by intro n h; cases h
theorem retOK_errParse (data : Bytes) : RetOK data .errParse := by intro n h; cases h

theorem chunkTail_ret (g : Cfg) (r : R) (nb data : Bytes) : RetOK data (chunkTail g r nb data).2 := by
  unfold chunkTail
  dsimp only
  repeat' split
  all_goals first | exact retOK_ok _ | exact retOK_errConn _

theorem writeChunk_ret (g : Cfg) (r : R) (data : Bytes) : RetOK data (writeChunk g r data).2 := by
  unfold writeChunk
  dsimp only
  repeat' split
  all_goals first | exact retOK_ok _ | exact retOK_errConn _ | apply chunkTail_ret

theorem sendDirect_ret (g : Cfg) (r : R) (data : Bytes) : RetOK data (sendDirect g r data).2 := by
  unfold sendDirect
  dsimp only
  repeat' split
  all_goals first | exact retOK_ok _ | exact retOK_errConn _

theorem appendTail_ret (g : Cfg) (r : R) (bb data : Bytes) (cl : Nat) : RetOK data (appendTail g r bb data cl).2 := by
  unfold appendTail
  dsimp only
  repeat' split
  all_goals first | exact retOK_ok _ | exact retOK_errConn _

theorem appendBody_ret (g : Cfg) (r : R) (data : Bytes) (cl : Nat) : RetOK data (appendBody g r data cl).2 := by
  unfold appendBody
  dsimp only
  repeat' split
  all_goals first | exact retOK_errConn _ | apply sendDirect_ret | apply appendTail_ret

/-- **C09, return value.** Every successful `Response.Write`/`WriteString` reports exactly the number of
bytes it was given — for every state, every payload, every conn behaviour (including injected write
errors) and every head encoder. (Defect #7 made this fail when the body buffer landed on 65 536.) -/
theorem c09_write_returns_len (g : Cfg) (r : R) (data : Bytes) (n : Nat)
    (h : (write g r data).2 = .ok n) : n = data.length := by
  have : RetOK data (write g r data).2 := by
    unfold write writeBody writeIdent
    dsimp only
    repeat' split
    all_goals first
      | exact retOK_errConn _ | exact retOK_errCL _ | exact retOK_errParse _
      | apply writeChunk_ret | apply appendBody_ret
      | (intro n h; simp_all)
  exact this n h

/-! ## Stage 1: framing

The handler first sets headers / calls WriteHeader (any header map `hdr`, any status `sc`/`st`: the state
`start hdr sc st`), then performs body-phase operations `ops : List BOp` — Write/WriteString of any size,
Flush, and header changes that do not touch Content-Length (trailer values, typically) — and returns;
flushResponse (`finish`) runs.  `runB` also returns the payloads of the writes that were accepted. -/

/-- the state in which the body phase begins: `WriteHeader(200); checkChunked()` have run -/
abbrev body0 (g : Cfg) (hdr : Header) (sc : Nat) (st : Bytes) : R :=
  checkChunked g (writeHeader200 (start hdr sc st))
/-- the state when the handler returns -/
abbrev endState (g : Cfg) (hdr : Header) (sc : Nat) (st : Bytes) (ops : List BOp) : R :=
  (runB g (body0 g hdr sc st) ops).1
/-- the payloads of the writes that were accepted (returned `.ok`) -/
abbrev accepted (g : Cfg) (hdr : Header) (sc : Nat) (st : Bytes) (ops : List BOp) : List Bytes :=
  (runB g (body0 g hdr sc st) ops).2
/-- everything the connection received, flushResponse included -/
abbrev wireOf (g : Cfg) (hdr : Header) (sc : Nat) (st : Bytes) (ops : List BOp) : Bytes :=
  (finish g (endState g hdr sc st ops)).1.wire.flatten

/-- the payloads that produce a chunk -/
def nonEmpty (ds : List Bytes) : List Bytes := ds.filter (fun d => !d.isEmpty)

theorem framed_chunked (ds : List Bytes) : framed true ds = ((nonEmpty ds).map chunkEnc).flatten := by
  have e : framed true ds = (ds.map fun d => if d = [] then [] else chunkEnc d).flatten := by
    simp [framed, frame]
  rw [e]
  clear e
  unfold nonEmpty
  induction ds with
  | nil => rfl
  | cons d t ih =>
    cases d with
    | nil => simpa [List.filter_cons] using ih
    | cons a x => simp [List.filter_cons, ih]

theorem framed_identity (ds : List Bytes) : framed false ds = ds.flatten := by
  have e : framed false ds = (ds.map fun d => if d = [] then [] else d).flatten := by
    simp [framed, frame]
  rw [e]
  clear e
  induction ds with
  | nil => rfl
  | cons d t ih =>
    cases d with
    | nil => simpa using ih
    | cons a x => simp [ih]

theorem nonEmpty_flatten (ds : List Bytes) : (nonEmpty ds).flatten = ds.flatten := by
  unfold nonEmpty
  induction ds with
  | nil => rfl
  | cons d t ih =>
    cases d with
    | nil => simpa [List.filter_cons] using ih
    | cons a x => simp [List.filter_cons, ih]

theorem nonEmpty_ne (ds : List Bytes) : ∀ d ∈ nonEmpty ds, d ≠ [] ∧ d ∈ ds := by
  intro d hd
  unfold nonEmpty at hd
  rw [List.mem_filter] at hd
  refine ⟨?_, hd.1⟩
  intro hc; rw [hc] at hd; simp at hd

/-- **C09 stage 1, wire shape.** For every head encoder (so: every head byte string), every header map and
status, every body-phase program and a connection that accepts the writes: the bytes on the wire are
`H ++ framing(accepted writes) ++ terminator`, where `H` is what the head encoder made of a state with the
handler's status line and the chosen framing flag, the framing is chunk-by-chunk or the plain
concatenation according to the flag decided by `checkChunked`, and the terminator (last chunk, trailer
section) is present exactly in chunked mode.  No byte of the body is lost, duplicated, reordered or
preceded by foreign bytes, whatever the write sizes (all 64 KiB threshold branches) and wherever Flush is
called.  (Defect #16 broke exactly this: stale pool bytes in front of a chunk header.) -/
theorem c09_wire_shape_K (g : Cfg) (hg : g.failAt = 0) (hdr : Header) (sc : Nat) (st : Bytes)
    (ops : List BOp) (hok : ∀ op ∈ ops, op.ok)
    (K : Header → Prop) (hK0 : K (body0 g hdr sc st).header) (hKops : ∀ op ∈ ops, ∀ h, K h → K (op.onHeader h)) :
    ∃ rE : R, Line K (body0 g hdr sc st).statusCode (body0 g hdr sc st).status (body0 g hdr sc st).chunked rE ∧
      wireOf g hdr sc st ops =
        g.head rE ++ framed (body0 g hdr sc st).chunked (accepted g hdr sc st ops) ++
          (if (body0 g hdr sc st).chunked then lastChunk (eoncodeHead g (endState g hdr sc st ops)) else []) ∧
      (finish g (endState g hdr sc st ops)).2 = (g.reqClose || (endState g hdr sc st ops).closeDelim) := by
  have hf : Fresh (body0 g hdr sc st) := fresh_prelude g _ ⟨rfl, rfl, rfl, rfl⟩
  have hp : Pre (body0 g hdr sc st) := pre_prelude g _
  have hw := start_winv _ hf hp
  obtain ⟨hd', i1, _, i3, i4, i5⟩ :=
    runB_spec g hg (verdict (body0 g hdr sc st)) ops hok K hKops _ _ _
      (body0 g hdr sc st) none [] hw ⟨rfl, rfl, rfl, hK0⟩ (by intro H hH; cases hH)
  obtain ⟨f1, f2, f3⟩ := finish_spec g hg _ _ hd' _ i1
  have i5' := headOf_after g _ _ _ _ (runB g (body0 g hdr sc st) ops).1 hd' i4 i5
  cases hh : hdAfter g (runB g (body0 g hdr sc st) ops).1 hd' with
  | none => rw [hh] at f3; simp at f3
  | some H =>
    obtain ⟨rE, e1, e2⟩ := i5' H hh
    refine ⟨rE, e2, ?_, f2⟩
    show (finish g (runB g (body0 g hdr sc st) ops).1).1.wire.flatten = _
    rw [f1, hh, i3, e1]
    simp

theorem c09_wire_shape (g : Cfg) (hg : g.failAt = 0) (hdr : Header) (sc : Nat) (st : Bytes)
    (ops : List BOp) (hok : ∀ op ∈ ops, op.ok) :
    ∃ rE : R, Line (fun _ => True) (body0 g hdr sc st).statusCode (body0 g hdr sc st).status (body0 g hdr sc st).chunked rE ∧
      wireOf g hdr sc st ops =
        g.head rE ++ framed (body0 g hdr sc st).chunked (accepted g hdr sc st ops) ++
          (if (body0 g hdr sc st).chunked then lastChunk (eoncodeHead g (endState g hdr sc st ops)) else []) ∧
      (finish g (endState g hdr sc st ops)).2 = (g.reqClose || (endState g hdr sc st ops).closeDelim) :=
  c09_wire_shape_K g hg hdr sc st ops hok (fun _ => True) trivial (fun _ _ _ _ => trivial)

/-- **C09 stage 1, framing.** Under the stage-1 hypotheses and for payloads the length formatter can
express (`≤ 2^31-1` bytes), a reference decoder recovers exactly the concatenation of the accepted
writes from what follows the head: identity framing IS the concatenation; chunked framing decodes (RFC
7230 §4.1 reference decoder `unchunk`) to the concatenation, leaving the trailer section. -/
theorem c09_stage1_unframe (g : Cfg) (hg : g.failAt = 0) (hdr : Header) (sc : Nat) (st : Bytes)
    (ops : List BOp) (hok : ∀ op ∈ ops, op.ok)
    (hsz : ∀ d ∈ accepted g hdr sc st ops, d.length ≤ maxChunk) :
    ∃ (rE : R) (F : Bytes),
      Line (fun _ => True) (body0 g hdr sc st).statusCode (body0 g hdr sc st).status (body0 g hdr sc st).chunked rE ∧
      wireOf g hdr sc st ops = g.head rE ++ F ∧
      ((body0 g hdr sc st).chunked = false → F = (accepted g hdr sc st ops).flatten) ∧
      ((body0 g hdr sc st).chunked = true →
        ∃ T, unchunk ((nonEmpty (accepted g hdr sc st ops)).length + 1) F =
              some ((accepted g hdr sc st ops).flatten, T) ∧
          str "0\r\n" ++ T = lastChunk (eoncodeHead g (endState g hdr sc st ops))) := by
  obtain ⟨rE, l1, w1, _⟩ := c09_wire_shape g hg hdr sc st ops hok
  refine ⟨rE, framed (body0 g hdr sc st).chunked (accepted g hdr sc st ops) ++
      (if (body0 g hdr sc st).chunked then lastChunk (eoncodeHead g (endState g hdr sc st ops)) else []),
    l1, ?_, ?_, ?_⟩
  · rw [w1, List.append_assoc]
  · intro hc
    rw [hc]; simp [framed_identity]
  · intro hc
    have hT : ∃ T, str "0\r\n" ++ T = lastChunk (eoncodeHead g (endState g hdr sc st ops)) := by
      unfold lastChunk
      split
      · exact ⟨CRLF, by decide⟩
      · exact ⟨_, rfl⟩
    obtain ⟨T, hT⟩ := hT
    refine ⟨T, ?_, hT⟩
    rw [hc]
    simp only [↓reduceIte, framed_chunked, ← hT]
    have := unchunk_encode (nonEmpty (accepted g hdr sc st ops)) T
      (fun d hd => (nonEmpty_ne _ d hd).1) (fun d hd => hsz d (nonEmpty_ne _ d hd).2)
    rw [nonEmpty_flatten] at this
    exact this

/-- **C09 stage 1, framing choice.** With satisfiable framing requests (`saneFraming`: chunked/trailers
only asked on HTTP/1.1, syntactically valid Content-Length) the framing decided by `checkChunked` is the
RFC 7230 §3.3 rule evaluated on the request version, the handler's headers and the status. -/
theorem c09_framing_choice (g : Cfg) (hdr : Header) (sc : Nat) (st : Bytes) (hs : saneFraming g hdr = true) :
    (checkChunked g (writeHeader200 (start hdr sc st))).chunked =
      rfcChunked g.proto11 hdr (if sc = 0 then 200 else sc) :=
  framing_choice g hdr sc st hs

/-- **C09 stage 1, framing against the RFC, independent side.** `RfcFraming` (Lemmas/C09Rfc.lean) states RFC
7230 §3.3.1–§3.3.3/§4.1.2 as constraints on what a server announces — Transfer-Encoding only towards
HTTP/1.1 and never on 1xx/204/304, never together with Content-Length, trailers only in chunked coding, a
possible body on a persistent connection always self-delimiting — without mentioning how the decision is
computed.  For satisfiable requests (`saneFraming`) and a sane status (`saneStatus`: a final status, no
chunked/trailers asked on 204/304) the decision of `checkChunked` AND the header map it leaves (which the head
encoder prints: `c09_stage2_head`, `c09_stage2_head_framing`) satisfy them.  (`c09_framing_choice` only says
that the code computes the decision table `rfcChunked`, which mirrors the code's three disjuncts.) -/
theorem c09_framing_rfc (g : Cfg) (hdr : Header) (sc : Nat) (st : Bytes) (hs : saneFraming g hdr = true)
    (hst : saneStatus hdr (if sc = 0 then 200 else sc) = true) :
    RfcFraming g.proto11 (body0 g hdr sc st).statusCode
      ((hget hdr kTE).contains (str "chunked")) (decide (hget hdr kTrailer ≠ []))
      ((hget (body0 g hdr sc st).header kTE).contains (str "chunked"))
      (decide (hget (body0 g hdr sc st).header kCL ≠ [])) (body0 g hdr sc st).chunked :=
  framing_rfc g hdr sc st hs hst

/-! ### `Sane` and the combined stage-1 statement -/

def BOp.sizeOk : BOp → Bool
  | .write d => decide (d.length ≤ maxChunk)
  | _ => true

instance (op : BOp) : Decidable op.ok := by cases op <;> unfold BOp.ok <;> infer_instance

/-- **`Sane`** (stage 1), a decidable predicate on the handler's header map and body-phase program:
satisfiable framing requests (`saneFraming`), no change of Content-Length once the body phase has begun,
payloads within the range of the chunk-length formatter (2^31-1 bytes). -/
def sane (g : Cfg) (hdr : Header) (ops : List BOp) : Bool :=
  saneFraming g hdr && ops.all fun op => decide op.ok && op.sizeOk

theorem runB_accepted_mem (g : Cfg) (ops : List BOp) (r : R) : ∀ d ∈ (runB g r ops).2, BOp.write d ∈ ops := by
  induction ops generalizing r with
  | nil => intro d hd; simp [runB] at hd
  | cons op rest ih =>
    intro d hd
    cases op with
    | write d' =>
      simp only [runB] at hd
      generalize write g r d' = p at hd
      obtain ⟨r', w⟩ := p
      dsimp only at hd
      rcases List.mem_append.mp hd with h1 | h1
      · cases w <;> simp at h1
        subst h1; exact List.mem_cons_self ..
      · exact List.mem_cons_of_mem _ (ih r' d h1)
    | flush => simp only [runB] at hd; exact List.mem_cons_of_mem _ (ih _ d hd)
    | setH k v => simp only [runB] at hd; exact List.mem_cons_of_mem _ (ih _ d hd)
    | addH k v => simp only [runB] at hd; exact List.mem_cons_of_mem _ (ih _ d hd)
    | delH k => simp only [runB] at hd; exact List.mem_cons_of_mem _ (ih _ d hd)

/-- **C09 stage 1.** For every head encoder `g.head` (every head byte string `H`), every header map, status
and body-phase program with `sane g hdr ops`, on a connection that accepts the writes:
`wire = H ++ F` where `H` is what the head encoder made of a state `rE` with the handler's status code, reason
phrase and the decided framing flag; the framing is chunked iff the RFC 7230 §3.3 rule says so for (request version, handler
headers, status); identity: `F` is the concatenation of the accepted writes; chunked: the reference decoder
turns `F` into that concatenation (and the trailer section).  Together with `c09_write_returns_len`
(every successful write returns `|data|`) this is the framing half of C09. -/
theorem c09_stage1 (g : Cfg) (hg : g.failAt = 0) (hdr : Header) (sc : Nat) (st : Bytes) (ops : List BOp)
    (hs : sane g hdr ops = true) :
    (body0 g hdr sc st).chunked = rfcChunked g.proto11 hdr (if sc = 0 then 200 else sc) ∧
    ∃ (rE : R) (F : Bytes),
      Line (fun _ => True) (body0 g hdr sc st).statusCode (body0 g hdr sc st).status (body0 g hdr sc st).chunked rE ∧
      wireOf g hdr sc st ops = g.head rE ++ F ∧
      ((body0 g hdr sc st).chunked = false → F = (accepted g hdr sc st ops).flatten) ∧
      ((body0 g hdr sc st).chunked = true →
        ∃ T, unchunk ((nonEmpty (accepted g hdr sc st ops)).length + 1) F =
              some ((accepted g hdr sc st ops).flatten, T)) := by
  unfold sane at hs
  simp only [Bool.and_eq_true, List.all_eq_true, decide_eq_true_eq] at hs
  obtain ⟨hf, hall⟩ := hs
  have hok : ∀ op ∈ ops, op.ok := fun op hop => (hall op hop).1
  have hsz : ∀ d ∈ accepted g hdr sc st ops, d.length ≤ maxChunk := by
    intro d hd
    have := (hall _ (runB_accepted_mem g ops _ d hd)).2
    simpa [BOp.sizeOk] using this
  refine ⟨c09_framing_choice g hdr sc st hf, ?_⟩
  obtain ⟨rE, F, hl, w, h1, h2⟩ := c09_stage1_unframe g hg hdr sc st ops hok hsz
  refine ⟨rE, F, hl, w, h1, ?_⟩
  intro hc
  obtain ⟨T, hT, _⟩ := h2 hc
  exact ⟨T, hT⟩

/-! ### the function the driver runs

`respdrv` executes `step` op by op from the empty response and `finish` at the end, i.e.
`finish g (run g {} prog)`.  A handler program is a header phase `pre` (header changes, WriteHeader,
zero-length writes: `Op.headerPhase`) followed by a body phase (`bodyStart`: it begins with a Flush or a
non-empty Write — or is empty).  `run_bridge` (Lemmas/C09Bridge.lean) identifies that run with the
`runB`/`body0` form all theorems of this file are stated in. -/

/-- **C09, model run = model proved.** The wire and the close verdict the driver computes for
`pre ++ body` are `wireOf`/`finish ∘ endState` of the theorems, for the header map and status the header
phase left behind. -/
theorem c09_driver_run (g : Cfg) (pre : List Op) (hpre : ∀ op ∈ pre, op.headerPhase = true)
    (bops : List BOp) (hb : bodyStart bops) :
    (finish g (run g {} (pre ++ bops.map BOp.toOp)).1).1.wire.flatten =
      wireOf g (run g {} pre).1.header (run g {} pre).1.statusCode (run g {} pre).1.status bops ∧
    (finish g (run g {} (pre ++ bops.map BOp.toOp)).1).2 =
      (finish g (endState g (run g {} pre).1.header (run g {} pre).1.statusCode (run g {} pre).1.status bops)).2 := by
  rw [run_bridge g pre hpre bops hb]
  exact ⟨rfl, rfl⟩

/-- **C09, the `accepted` of the theorems is what the driver prints.** The per-operation results `n=`/`err=` that
`respdrv` prints (and the check compares with the implementation's) are `(run g {} prog).2`; the list `accepted` all
framing theorems speak about is read off them: the payloads of the Writes whose printed result is a success. -/
theorem c09_driver_results (g : Cfg) (pre : List Op) (hpre : ∀ op ∈ pre, op.headerPhase = true)
    (bops : List BOp) (hb : bodyStart bops) :
    accepted g (run g {} pre).1.header (run g {} pre).1.statusCode (run g {} pre).1.status bops =
      acceptedOf bops ((run g {} (pre ++ bops.map BOp.toOp)).2.drop pre.length) := by
  obtain ⟨h1, _⟩ := run_pre g pre [] {} hpre rfl
  obtain ⟨r1, r2⟩ := run_pre_res g pre (bops.map BOp.toOp) {} hpre rfl
  rw [r1, ← r2, List.drop_left]
  rw [← runB_results]
  show (runB g (checkChunked g (writeHeader200 (start _ _ _))) bops).2 = _
  unfold HeaderOnly at h1
  rw [← h1]
  by_cases hne : bops = []
  · subst hne; rfl
  · have := runB_prelude_ne g bops (run g {} pre).1 hne hb
    unfold prelude at this
    rw [this]

/-- **C09, bridge for a ReadFrom after the body phase**: for `pre ++ body ++ [ReadFrom]` with a non-empty body phase
the driver's final state is `readFrom` applied to the theorems' `endState` (so `c09_readfrom_appends` speaks about
the function the driver runs; with an empty body phase that is `c09_readfrom_serve_content`). -/
theorem c09_driver_run_readfrom (g : Cfg) (pre : List Op) (hpre : ∀ op ∈ pre, op.headerPhase = true)
    (bops : List BOp) (hne : bops ≠ []) (hb : bodyStart bops) (k : RKind) (data : Bytes) :
    finish g (run g {} (pre ++ (bops.map BOp.toOp ++ [.readFrom k data]))).1 =
      finish g (readFrom g (endState g (run g {} pre).1.header (run g {} pre).1.statusCode (run g {} pre).1.status bops)
        k data).1 := by
  rw [run_bridge_readFrom g pre hpre bops hne hb k data]

/-- **C09 stage 1 on the driver's function**: `c09_stage1` restated for `finish (run g {} (pre ++ body))`. -/
theorem c09_stage1_driver (g : Cfg) (hg : g.failAt = 0) (pre : List Op) (hpre : ∀ op ∈ pre, op.headerPhase = true)
    (bops : List BOp) (hb : bodyStart bops) (hs : sane g (run g {} pre).1.header bops = true) :
    let r0 := (run g {} pre).1
    let wire := (finish g (run g {} (pre ++ bops.map BOp.toOp)).1).1.wire.flatten
    let acc := accepted g r0.header r0.statusCode r0.status bops
    let ch := rfcChunked g.proto11 r0.header (if r0.statusCode = 0 then 200 else r0.statusCode)
    ∃ (rE : R) (F : Bytes),
      Line (fun _ => True) (body0 g r0.header r0.statusCode r0.status).statusCode
        (body0 g r0.header r0.statusCode r0.status).status ch rE ∧
      wire = g.head rE ++ F ∧
      (ch = false → F = acc.flatten) ∧
      (ch = true → ∃ T, unchunk ((nonEmpty acc).length + 1) F = some (acc.flatten, T)) := by
  intro r0 wire acc ch
  obtain ⟨e, rE, F, hl, w, h1, h2⟩ := c09_stage1 g hg r0.header r0.statusCode r0.status bops hs
  refine ⟨rE, F, by rw [e] at hl; exact hl, ?_, ?_, ?_⟩
  · show (finish g (run g {} (pre ++ bops.map BOp.toOp)).1).1.wire.flatten = _
    rw [(c09_driver_run g pre hpre bops hb).1]; exact w
  · intro hc; exact h1 (by rw [e]; exact hc)
  · intro hc; exact h2 (by rw [e]; exact hc)

/-! ## Stage 2: the head

With the concrete head encoder `headBytes` (`g.head = headBytes g`), for programs whose body-phase header
operations only concern declared trailers, a reference head parser (`parseHead`: status line, `name: value`
lines, empty line) reads the wire back. -/

/-- the handler's header names/values and status are printable as a head (token-ish names without colon,
no CR anywhere, a three-digit status, a protocol string without space) -/
structure SaneHeaders (g : Cfg) (r : R) : Prop where
  proto : ∀ c ∈ g.proto, c ≠ 13 ∧ c ≠ 32
  status : noCR r.status
  code : r.statusCode ≤ 999
  names : ∀ p ∈ handlerPairs (hget r.header kTrailer) r.header, nameOk p.1
  values : ∀ p ∈ handlerPairs (hget r.header kTrailer) r.header, noCR p.2

/-- **C09 stage 2, head round trip.** Under the stage-1 hypotheses, with the real head encoder, header
operations during the body phase restricted to declared trailer keys, and printable headers: the reference
parser reads the wire as (i) the status line `proto SP code SP reason` of the handler's status — which
`parseStatusLine` splits back into protocol, code and reason —, (ii) the header fields = the automatic ones
of the encoding state followed by EXACTLY the handler's non-trailer header values (every value of every key,
in map order), and (iii) the framed body `F` of stage 1. -/
theorem c09_stage2_head (g : Cfg) (hg : g.failAt = 0) (hreal : g.head = headBytes g)
    (hdr : Header) (sc : Nat) (st : Bytes) (ops : List BOp) (hok : ∀ op ∈ ops, op.ok)
    (htr : ∀ op ∈ ops, op.trailerOnly (body0 g hdr sc st).header)
    (hs : SaneHeaders g (body0 g hdr sc st)) :
    ∃ (rE : R) (F : Bytes),
      parseHead (wireOf g hdr sc st ops) =
        some (statusBody g (body0 g hdr sc st),
              autoPairs g rE ++ handlerPairs (hget (body0 g hdr sc st).header kTrailer) (body0 g hdr sc st).header, F) ∧
      parseStatusLine (statusBody g (body0 g hdr sc st)) =
        some (g.proto, (body0 g hdr sc st).statusCode, (body0 g hdr sc st).status) ∧
      rE.chunked = (body0 g hdr sc st).chunked ∧
      F = framed (body0 g hdr sc st).chunked (accepted g hdr sc st ops) ++
          (if (body0 g hdr sc st).chunked then lastChunk (eoncodeHead g (endState g hdr sc st ops)) else []) := by
  obtain ⟨rE, ⟨l1, l2, l3, l4⟩, w1, _⟩ := c09_wire_shape_K g hg hdr sc st ops hok
    (SameHead (body0 g hdr sc st).header) ⟨rfl, fun _ _ => rfl⟩
    (fun op hop h hh => sameHead_op _ h op (htr op hop) hh)
  refine ⟨rE, _, ?_, ?_, l3, rfl⟩
  · rw [w1, hreal, List.append_assoc]
    have hsE : SaneHead g rE := by
      refine ⟨fun c hc => (hs.proto c hc).1, by rw [l2]; exact hs.status, by rw [l1]; exact hs.code, ?_, ?_⟩
      · rw [l4.1]; exact hs.names
      · rw [l4.1]; exact hs.values
    rw [parseHead_headBytes g rE _ hsE, l4.1]
    have : statusBody g rE = statusBody g (body0 g hdr sc st) := by unfold statusBody; rw [l1, l2]
    rw [this]
  · exact parseStatusLine_statusBody g _ (fun c hc => (hs.proto c hc).2) hs.code

/-- **C09 stage 2, head and framing agree.** Under the hypotheses of `c09_stage2_head`, with satisfiable
framing requests and `Transfer-Encoding` not declared as a trailer: in chunked mode the parsed head contains the
field `Transfer-Encoding: chunked` and NO `Content-Length` field (neither the handler's nor an automatic one).
(Only this direction is stated; for identity framing see `c09_framing_rfc` on the header map.) -/
theorem c09_stage2_head_framing (g : Cfg) (hg : g.failAt = 0) (hreal : g.head = headBytes g)
    (hdr : Header) (sc : Nat) (st : Bytes) (ops : List BOp) (hok : ∀ op ∈ ops, op.ok)
    (htr : ∀ op ∈ ops, op.trailerOnly (body0 g hdr sc st).header)
    (hs : SaneHeaders g (body0 g hdr sc st)) (hsf : saneFraming g hdr = true)
    (htk : (hget (body0 g hdr sc st).header kTrailer).contains kTE = false) :
    ∃ (fields : List (Bytes × Bytes)) (F : Bytes),
      parseHead (wireOf g hdr sc st ops) = some (statusBody g (body0 g hdr sc st), fields, F) ∧
      ((body0 g hdr sc st).chunked = true →
        (kTE, str "chunked") ∈ fields ∧ ∀ p ∈ fields, p.1 ≠ kCL) := by
  obtain ⟨rE, F, hp, _, hch, _⟩ := c09_stage2_head g hg hreal hdr sc st ops hok htr hs
  refine ⟨_, F, hp, ?_⟩
  intro hc
  obtain ⟨_, _, o3, _⟩ := framing_obs g hdr sc st hsf
  obtain ⟨w1, w2, w3, w4⟩ := writeHeader200_sane g hdr sc st hsf
  constructor
  · apply List.mem_append_right
    apply mem_handlerPairs_of_hget _ _ _ _ _ htk
    have : (hget (body0 g hdr sc st).header kTE).contains (str "chunked") = true := by
      show (hget (checkChunked g (writeHeader200 (start hdr sc st))).header kTE).contains (str "chunked") = true
      rw [o3]; exact hc
    simpa using this
  · intro p hp'
    rcases List.mem_append.mp hp' with h1 | h1
    · -- automatic fields: Content-Length only when not chunked
      unfold autoPairs at h1
      rw [hch, hc] at h1
      simp only [Bool.not_true, Bool.false_and, Bool.false_eq_true, ↓reduceIte, List.append_nil, List.nil_append,
        List.mem_append] at h1
      have hne1 : kCT ≠ kCL := by decide
      have hne2 : kConn ≠ kCL := by decide
      have hne3 : kDate ≠ kCL := by decide
      rcases h1 with (h1 | h1) | h1
      · split at h1
        · simp only [List.mem_singleton] at h1; rw [h1]; exact hne1
        · cases h1
      · split at h1
        · simp only [List.mem_singleton] at h1; rw [h1]; exact hne2
        · cases h1
      · split at h1
        · simp only [List.mem_singleton] at h1; rw [h1]; exact hne3
        · cases h1
    · exact not_mem_handlerPairs _ _ kCL (checkChunked_no_cl g _ w3 w4 hc) p h1

/-- **C09 stage 2, trailer section.** What follows the last-chunk line `0 CRLF` is the rendering of the
trailer fields — the keys declared in `Trailer` when the head was encoded, each with the value the header map
holds when the handler returns (late values included) — and the reference field parser reads it back. -/
theorem c09_stage2_trailers (r : R) (X : Bytes)
    (hk : ∀ p ∈ trailerPairs r, nameOk p.1) (hv : ∀ p ∈ trailerPairs r, noCR p.2) :
    lastChunk r = str "0\r\n" ++ (renderPairs (trailerPairs r) ++ 13 :: 10 :: []) ∧
    parseHeaders ((trailerPairs r).length + 1) (renderPairs (trailerPairs r) ++ 13 :: 10 :: X) =
      some (trailerPairs r, X) :=
  ⟨lastChunk_normal r, parseHeaders_trailers r X hk hv⟩

theorem runB_trk (g : Cfg) (h0 : Header) (ops : List BOp) (r : R) (hok : ∀ op ∈ ops, op.ok)
    (htr : ∀ op ∈ ops, op.trailerOnly h0) (hp : Pre r) (hs : SameHead h0 r.header) (h : TrK h0 r) :
    TrK h0 (runB g r ops).1 ∧ SameHead h0 (runB g r ops).1.header ∧ Pre (runB g r ops).1 := by
  induction ops generalizing r with
  | nil => exact ⟨h, hs, hp⟩
  | cons op t ih =>
    have hok' : ∀ op ∈ t, op.ok := fun o ho => hok o (List.mem_cons_of_mem _ ho)
    have htr' : ∀ op ∈ t, op.trailerOnly h0 := fun o ho => htr o (List.mem_cons_of_mem _ ho)
    have hk : hget r.header kTrailer = hget h0 kTrailer := hs.2 kTrailer (by decide)
    cases op with
    | write d =>
      simp only [runB]
      have h1 := write_trk g h0 r d hp hk h
      have hproj : (write g r d).1.header = r.header ∧ Pre (write g r d).1 := by
        by_cases hne : d = []
        · subst hne; simpa [write] using hp
        · rw [write_unfold g r d hne hp]
          obtain ⟨p1, _, _, p4, p5⟩ := writeBody_proj g { r with hasBody := true } d
          exact ⟨p5, by rw [p4]; exact hp.1, by rw [p1]; exact hp.2⟩
      generalize write g r d = p at *
      obtain ⟨r', w⟩ := p
      dsimp only at h1 hproj ⊢
      exact ih r' hok' htr' hproj.2 (by rw [hproj.1]; exact hs) h1
    | flush =>
      simp only [runB, BOp.toOp, step]
      have e := flushOp_unfold g r hp
      refine ih _ hok' htr' ?_ ?_ (flushOp_trk g h0 r hp hk h)
      · exact ⟨by rw [e]; simp [hp.1], by rw [e]; simp; exact hp.2⟩
      · rw [e]; simpa using hs
    | setH k v =>
      simp only [runB, BOp.toOp, step]
      exact ih _ hok' htr' hp (sameHead_op h0 _ (.setH k v) (htr _ (List.mem_cons_self ..)) hs) (trk_same h0 r _ rfl rfl h)
    | addH k v =>
      simp only [runB, BOp.toOp, step]
      exact ih _ hok' htr' hp (sameHead_op h0 _ (.addH k v) (htr _ (List.mem_cons_self ..)) hs) (trk_same h0 r _ rfl rfl h)
    | delH k =>
      simp only [runB, BOp.toOp, step]
      exact ih _ hok' htr' hp (sameHead_op h0 _ (.delH k) (htr _ (List.mem_cons_self ..)) hs) (trk_same h0 r _ rfl rfl h)

/-- **C09 stage 2, the trailer fields are the declared ones with the handler's final values.** For body-phase
programs whose header operations only concern declared trailers: the trailer fields flushResponse sends (the block
`c09_stage2_trailers` renders and parses back, from the state `eoncodeHead (endState)` the last chunk is built from)
have as field names EXACTLY the keys the handler declared in `Trailer` before the body phase (duplicates removed, in
order) — whenever the head was encoded, early or late — and as value of each field the first value the header map
holds for that key when the handler returns (when it holds one). -/
theorem c09_stage2_trailer_keys (g : Cfg) (hdr : Header) (sc : Nat) (st : Bytes) (ops : List BOp)
    (hok : ∀ op ∈ ops, op.ok) (htr : ∀ op ∈ ops, op.trailerOnly (body0 g hdr sc st).header) :
    (trailerPairs (eoncodeHead g (endState g hdr sc st ops))).map (·.1) =
      (hget (body0 g hdr sc st).header kTrailer).eraseDups ∧
    ∀ p ∈ trailerPairs (eoncodeHead g (endState g hdr sc st ops)), ∀ v vs,
      hget (endState g hdr sc st ops).header p.1 = v :: vs → p.2 = v := by
  have hp : Pre (body0 g hdr sc st) := pre_prelude g _
  have hf : Fresh (body0 g hdr sc st) := fresh_prelude g _ ⟨rfl, rfl, rfl, rfl⟩
  have h0 : TrK (body0 g hdr sc st).header (body0 g hdr sc st) := by
    intro he; rw [hf.henc] at he; cases he
  obtain ⟨t1, t2, _⟩ := runB_trk g _ ops (body0 g hdr sc st) hok htr hp ⟨rfl, fun _ _ => rfl⟩ h0
  have t3 := eoncodeHead_trk g _ _ (t2.2 kTrailer (by decide)) t1
  have henc : (eoncodeHead g (endState g hdr sc st ops)).headEncoded = true := by
    unfold eoncodeHead; split
    · assumption
    · rfl
  constructor
  · unfold trailerPairs
    rw [List.map_map]
    have := t3 henc
    simpa [Function.comp_def] using this
  · intro p hp' v vs hv
    unfold trailerPairs at hp'
    simp only [List.mem_map] at hp'
    obtain ⟨kv, _, hkv⟩ := hp'
    subst hkv
    simp only [eoncodeHead_header] at hv ⊢
    rw [hv]

/-- trailer split: no declared trailer key appears among the head's handler fields -/
theorem c09_stage2_split (tk : List Bytes) (h : Header) : ∀ p ∈ handlerPairs tk h, tk.contains p.1 = false := by
  intro p hp
  unfold handlerPairs at hp
  simp only [List.mem_flatten, List.mem_map] at hp
  obtain ⟨l, ⟨e, _, he⟩, hpl⟩ := hp
  subst he
  split at hpl
  · cases hpl
  · rename_i hc
    simp only [List.mem_map] at hpl
    obtain ⟨v, _, hv⟩ := hpl
    subst hv
    simpa using hc

/-! ### what is still wrong in the tree (known findings): the full statement fails, witnesses -/

section witnesses
set_option maxRecDepth 100000

/-- the concrete head encoder for HTTP/1.0 keep-alive and HTTP/1.1 -/
def cfg10 : Cfg :=
  let g : Cfg := { proto := str "HTTP/1.0", proto11 := false, reqClose := false, head := fun _ => [] }
  { g with head := headBytes g }
def cfg11 : Cfg :=
  let g : Cfg := { proto := str "HTTP/1.1", proto11 := true, reqClose := false, head := fun _ => [] }
  { g with head := headBytes g }

/-- (was finding resp-flush-identity-nocl, repaired) HTTP/1.0, no Content-Length, Write "a", Flush, Write "b": the
Flush sends a head WITHOUT Content-Length and with `Connection: close`; the body is delimited by closing the
connection, which flushResponse does. -/
theorem c09_flush_identity_example :
    (finish cfg10 (run cfg10 (start [(kDate, [str "D"])] 0 [])
        [.write (str "a"), .flush, .write (str "b")]).1).1.wire.flatten =
      str "HTTP/1.0 200 OK\r\nContent-Type: text/plain; charset=utf-8\r\nConnection: close\r\nDate: D\r\n\r\nab" ∧
    (finish cfg10 (run cfg10 (start [(kDate, [str "D"])] 0 [])
        [.write (str "a"), .flush, .write (str "b")]).1).2 = true := by
  decide

/-- **finding resp-head-body.** nbhttp.Response never reads the request method (the model has no such
input): the response to a handler that writes nothing on HTTP/1.1 is a chunked head followed by the
5-byte last chunk — also when the request was HEAD, where nothing may follow the head. -/
theorem c09_head_counterexample :
    (finish cfg11 (start [(kDate, [str "D"])] 0 [])).1.wire.flatten =
      str "HTTP/1.1 200 OK\r\nDate: D\r\nTransfer-Encoding: chunked\r\n\r\n" ++ str "0\r\n\r\n" := by
  decide

/-- (was finding resp-readfrom-nil-head, repaired) ReadFrom after a Write on a response with Content-Length: the
head has moved into the body buffer; it and the first ten bytes go out before the reader's bytes. -/
theorem c09_readfrom_after_write_example :
    (run cfg11 (start [(kDate, [str "D"]), (kCL, [str "20"])] 0 [])
        [.write (str "0123456789"), .readFrom .plain (str "abcdefghij")]).2 =
      [some (.ok 10), some (.ok 10)] ∧
    (finish cfg11 (run cfg11 (start [(kDate, [str "D"]), (kCL, [str "20"])] 0 [])
        [.write (str "0123456789"), .readFrom .plain (str "abcdefghij")]).1).1.wire.flatten =
      str "HTTP/1.1 200 OK\r\nContent-Type: text/plain; charset=utf-8\r\nDate: D\r\nContent-Length: 20\r\n\r\n0123456789abcdefghij" := by
  decide

/-- **outside `saneStatus` (handler error, not a finding).** nbhttp has no informational responses: a handler
that picks a 1xx status, or asks for trailers on a 204, gets a chunked body — `Transfer-Encoding` on a status
that must not carry it (RFC 7230 §3.3.1).  This is why `c09_framing_rfc` needs `saneStatus`. -/
theorem c09_bodiless_chunked_counterexample :
    (finish cfg11 (start [(kDate, [str "D"])] 101 (str "S"))).1.wire.flatten =
      str "HTTP/1.1 101 S\r\nDate: D\r\nTransfer-Encoding: chunked\r\n\r\n" ++ str "0\r\n\r\n" ∧
    (finish cfg11 (start [(kDate, [str "D"]), (kTrailer, [str "X"]), (str "X", [str "v"])] 204 (str "N"))).1.wire.flatten =
      str "HTTP/1.1 204 N\r\nDate: D\r\nTrailer: X\r\nTransfer-Encoding: chunked\r\n\r\n" ++ str "0\r\nX: v\r\n\r\n" := by
  decide

end witnesses

/-- **partial statement for identity framing without Content-Length.** If the handler never calls Flush
(and never touches Content-Length), the head is encoded by flushResponse on the state whose body buffer
holds the whole body: the automatic `Content-Length` of `headBytes` is computed from exactly the bytes
that follow. -/
theorem c09_identity_auto_length_partial (g : Cfg) (hg : g.failAt = 0) (hdr : Header) (sc : Nat) (st : Bytes)
    (ops : List BOp) (hok : ∀ op ∈ ops, op.ok) (hnf : ∀ op ∈ ops, op ≠ .flush)
    (hid : (body0 g hdr sc st).chunked = false)
    (hv : verdict (body0 g hdr sc st) = none ∨ verdict (body0 g hdr sc st) = some 0) :
    wireOf g hdr sc st ops = g.head (endState g hdr sc st ops) ++ (accepted g hdr sc st ops).flatten ∧
      (endState g hdr sc st ops).bodyBuffer.getD [] = (accepted g hdr sc st ops).flatten := by
  have hf : Fresh (body0 g hdr sc st) := fresh_prelude g _ ⟨rfl, rfl, rfl, rfl⟩
  have hp : Pre (body0 g hdr sc st) := pre_prelude g _
  have hw := start_winv _ hf hp
  obtain ⟨hd', i1, _, i3, _, _⟩ :=
    runB_spec g hg (verdict (body0 g hdr sc st)) ops hok (fun _ => True) (fun _ _ _ _ => trivial) _ _ _
      (body0 g hdr sc st) none [] hw ⟨rfl, rfl, rfl, trivial⟩ (by intro H hH; cases hH)
  have hne := runB_noenc g (verdict (body0 g hdr sc st)) ops hnf hok _ hp hid hf.henc hv rfl
  have hc : (runB g (body0 g hdr sc st) ops).1.chunked = false := by rw [i3]; exact hid
  obtain ⟨hi, _⟩ := i1.idn hc
  obtain ⟨f1, _, _⟩ := finish_spec g hg _ _ hd' _ i1
  have hb : (runB g (body0 g hdr sc st) ops).1.buffer = none := hi.nobuf hne
  have hwr : (runB g (body0 g hdr sc st) ops).1.wire.flatten = [] := hi.nowire hne
  have hdn : hd' = none := by
    cases hd' with
    | none => rfl
    | some x => have := hi.henc; rw [hne] at this; simp at this
  subst hdn
  have hbytes := hi.bytes []
  simp only [bufB, bodyB, hb, hwr, Option.getD_none, List.nil_append, List.append_nil] at hbytes
  rw [hid, framed_identity] at hbytes
  refine ⟨?_, hbytes⟩
  show (finish g (runB g (body0 g hdr sc st) ops).1).1.wire.flatten = _
  rw [f1, hc]
  unfold hdAfter
  simp [hne, hid, framed_identity]

/-- **C09, identity framing, automatic Content-Length.** No Content-Length from the handler, identity framing
(an HTTP/1.0 request), no Flush, body-phase header operations on declared trailers only, the real head encoder:
the reference parser reads the wire as the handler's status line, a field list that contains
`Content-Length: <decimal length of the body>` (`0` for an empty body), and EXACTLY the concatenation of the
accepted writes as the body.  (With a Flush the head announces no length and the connection is closed:
`c09_flush_close_delimited`.) -/
theorem c09_identity_auto_length (g : Cfg) (hg : g.failAt = 0) (hreal : g.head = headBytes g)
    (hdr : Header) (sc : Nat) (st : Bytes) (ops : List BOp) (hok : ∀ op ∈ ops, op.ok) (hnf : ∀ op ∈ ops, op ≠ .flush)
    (htr : ∀ op ∈ ops, op.trailerOnly (body0 g hdr sc st).header)
    (hs : SaneHeaders g (body0 g hdr sc st))
    (hid : (body0 g hdr sc st).chunked = false) (hnocl : hget (body0 g hdr sc st).header kCL = []) :
    ∃ fields : List (Bytes × Bytes),
      parseHead (wireOf g hdr sc st ops) =
        some (statusBody g (body0 g hdr sc st), fields, (accepted g hdr sc st ops).flatten) ∧
      (kCL, if (accepted g hdr sc st ops).flatten = [] then str "0"
            else fmtDec (accepted g hdr sc st ops).flatten.length) ∈ fields := by
  have hcl0 : (body0 g hdr sc st).contentLen = 0 := by
    show (checkChunked g (writeHeader200 (start hdr sc st))).contentLen = 0
    unfold checkChunked writeHeader200 writeHeader start
    dsimp only
    repeat' split
    all_goals rfl
  have hv : verdict (body0 g hdr sc st) = some 0 := by
    unfold verdict contentLength
    simp [hcl0, hfirst, hnocl]
  obtain ⟨w, hbuf⟩ := c09_identity_auto_length_partial g hg hdr sc st ops hok hnf hid (Or.inr hv)
  have hf : Fresh (body0 g hdr sc st) := fresh_prelude g _ ⟨rfl, rfl, rfl, rfl⟩
  have hp : Pre (body0 g hdr sc st) := pre_prelude g _
  have hw := start_winv _ hf hp
  obtain ⟨hd', _, _, _, ⟨l1, l2, l3, l4⟩, _⟩ :=
    runB_spec g hg (verdict (body0 g hdr sc st)) ops hok (SameHead (body0 g hdr sc st).header)
      (fun op hop h hh => sameHead_op _ h op (htr op hop) hh) _ _ _
      (body0 g hdr sc st) none [] hw ⟨rfl, rfl, rfl, ⟨rfl, fun _ _ => rfl⟩⟩ (by intro H hH; cases hH)
  have hsE : SaneHead g (endState g hdr sc st ops) := by
    refine ⟨fun c hc => (hs.proto c hc).1, by rw [l2]; exact hs.status, by rw [l1]; exact hs.code, ?_, ?_⟩
    · rw [l4.1]; exact hs.names
    · rw [l4.1]; exact hs.values
  have hsb : statusBody g (endState g hdr sc st ops) = statusBody g (body0 g hdr sc st) := by
    unfold statusBody; rw [l1, l2]
  refine ⟨_, by rw [w, hreal, parseHead_headBytes g _ _ hsE, hsb], ?_⟩
  apply List.mem_append_left
  have hch : (endState g hdr sc st ops).chunked = false := by rw [l3]; exact hid
  have hncl : hget (endState g hdr sc st ops).header kCL = [] := by
    rw [l4.2 kCL (by decide)]; exact hnocl
  have hcd : (endState g hdr sc st ops).closeDelim = false := by
    show (runB g (body0 g hdr sc st) ops).1.closeDelim = false
    rw [runB_closeDelim_noflush g ops _ hnf]
    show (checkChunked g (writeHeader200 (start hdr sc st))).closeDelim = false
    unfold writeHeader200
    simp [start]
  unfold autoPairs
  simp only [hch, hcd, hncl, Bool.not_false, Bool.true_and, beq_self_eq_true, ↓reduceIte, List.mem_append,
    List.mem_singleton]
  left; left; right
  congr 1
  have hhb := runB_hasBody g ops (body0 g hdr sc st)
  cases hbb : (endState g hdr sc st ops).bodyBuffer with
  | none =>
    rw [hbb] at hbuf
    simp only [Option.getD_none] at hbuf
    simp [← hbuf]
  | some bb =>
    rw [hbb] at hbuf
    simp only [Option.getD_some] at hbuf
    by_cases he : (accepted g hdr sc st ops).flatten = []
    · rw [he] at hbuf
      simp [hbuf, he]
    · have hb : (endState g hdr sc st ops).hasBody = true := hhb (Or.inr he)
      have hlen : bb.length > 0 := by
        rw [hbuf]
        cases hx : (accepted g hdr sc st ops).flatten with
        | nil => exact absurd hx he
        | cons a t => simp
      subst hbuf
      rw [if_neg he, hb]
      simp only [Bool.true_and]
      rw [if_pos (by simpa using hlen)]

/-- **C09, Content-Length accounting.** Identity framing on a connection that accepts the writes: after any body
phase the counter `bodyWritten` that `Write` compares with the declared Content-Length equals the number of
payload bytes accepted so far — every byte is counted exactly once on every path (direct sends of 64 KiB and
more, cache flushes, appends) — and therefore a further Write is refused with http.ErrContentLength ONLY IF
accepted + |data| exceeds the length `contentLength()` reads from the header: a handler that stays within its
declaration is never refused, so its body is never cut short. -/
theorem c09_content_length_accounting (g : Cfg) (hg : g.failAt = 0) (hdr : Header) (sc : Nat) (st : Bytes)
    (ops : List BOp) (hid : (body0 g hdr sc st).chunked = false) (d : Bytes) (hd : d ≠ []) :
    (endState g hdr sc st ops).bodyWritten = (accepted g hdr sc st ops).flatten.length ∧
    ((write g (endState g hdr sc st ops) d).2 = .errCL →
      ∃ cl, verdict (endState g hdr sc st ops) = some cl ∧ cl > 0 ∧
        (accepted g hdr sc st ops).flatten.length + d.length > cl) := by
  have hbw0 : (body0 g hdr sc st).bodyWritten = 0 := by
    show (checkChunked g (writeHeader200 (start hdr sc st))).bodyWritten = 0
    rw [checkChunked_bw]
    unfold writeHeader200
    rw [writeHeader_bw]
    rfl
  have hp : Pre (body0 g hdr sc st) := pre_prelude g _
  obtain ⟨a1, a2, a3⟩ := runB_account g hg ops (body0 g hdr sc st) hp hid
  rw [hbw0, Nat.zero_add] at a1
  refine ⟨a1, ?_⟩
  intro he
  change (write g (runB g (body0 g hdr sc st) ops).1 d).2 = .errCL at he
  rw [write_unfold g _ d hd a2] at he
  obtain ⟨cl, h1, h2, h3⟩ := writeBody_errCL g _ d (by exact a3) he
  refine ⟨cl, ?_, h2, ?_⟩
  · rw [← h1]
    exact (verdict_eq (runB g (body0 g hdr sc st) ops).1 { (runB g (body0 g hdr sc st) ops).1 with hasBody := true } rfl rfl).symm
  · rw [← a1]; exact h3

/-- **C09, ReadFrom in the `http.ServeContent` shape** (what `io.Copy(w, r)`, `http.ServeContent` and
`http.ServeFile` reach): after any header phase `pre` that leaves an explicit, valid Content-Length and no request
for chunked coding or trailers, on a connection that accepts the writes, `ReadFrom` of a reader that yields `data`
— a plain reader (io.Copy in 32 KiB conn writes), an `*os.File` or an `io.LimitedReader` (Sendfile when the conn
offers it) — returns `len(data)`, and after flushResponse the wire is the head followed by EXACTLY `data`; the
connection is closed iff the request asked for it.  (The state is the one the driver reaches: `run g {} pre`.) -/
theorem c09_readfrom_serve_content (g : Cfg) (hg : g.failAt = 0) (pre : List Op)
    (hpre : ∀ op ∈ pre, op.headerPhase = true) (k : RKind) (data : Bytes)
    (hs : saneFraming g (run g {} pre).1.header = true)
    (hte : (hget (run g {} pre).1.header kTE).contains (str "chunked") = false)
    (htr : hget (run g {} pre).1.header kTrailer = [])
    (hcl : hfirst (run g {} pre).1.header kCL ≠ []) :
    (step g (run g {} pre).1 (.readFrom k data)).2 = some (.ok data.length) ∧
    (finish g (step g (run g {} pre).1 (.readFrom k data)).1).1.wire.flatten =
      g.head { writeHeader200 (run g {} pre).1 with hasBody := true } ++ data ∧
    (finish g (step g (run g {} pre).1 (.readFrom k data)).1).2 = g.reqClose := by
  obtain ⟨h1, _⟩ := run_pre g pre [] {} hpre rfl
  unfold HeaderOnly at h1
  obtain ⟨a, b, c⟩ := readFrom_spec g hg (run g {} pre).1.header (run g {} pre).1.statusCode (run g {} pre).1.status
    k data hs hte htr hcl
  rw [← h1] at a b c
  simp only [step]
  generalize readFrom g (run g {} pre).1 k data = p at *
  obtain ⟨r', w⟩ := p
  dsimp only at a b c ⊢
  exact ⟨by rw [a], b, c⟩

/-- **C09, ReadFrom anywhere in an identity-framed body phase** (repaired code; was finding
`resp-readfrom-nil-head`). After ANY body-phase program (Writes of any size, Flushes, trailer updates) on an
identity-framed response and a connection that accepts the writes, `ReadFrom` returns the number of bytes the reader
yields, and after flushResponse the wire is the head followed by the accepted writes followed by EXACTLY the reader's
bytes — whether the head buffer is still pending, has been sent, or has moved into the body buffer. -/
theorem c09_readfrom_appends (g : Cfg) (hg : g.failAt = 0) (hdr : Header) (sc : Nat) (st : Bytes)
    (ops : List BOp) (hok : ∀ op ∈ ops, op.ok) (hid : (body0 g hdr sc st).chunked = false)
    (k : RKind) (data : Bytes) :
    ∃ rE : R,
      Line (fun _ => True) (body0 g hdr sc st).statusCode (body0 g hdr sc st).status (body0 g hdr sc st).chunked rE ∧
      (readFrom g (endState g hdr sc st ops) k data).2 = .ok data.length ∧
      (finish g (readFrom g (endState g hdr sc st ops) k data).1).1.wire.flatten =
        g.head rE ++ (accepted g hdr sc st ops).flatten ++ data ∧
      (finish g (readFrom g (endState g hdr sc st ops) k data).1).2 =
        (g.reqClose || (endState g hdr sc st ops).closeDelim) := by
  have hf : Fresh (body0 g hdr sc st) := fresh_prelude g _ ⟨rfl, rfl, rfl, rfl⟩
  have hp : Pre (body0 g hdr sc st) := pre_prelude g _
  have hw := start_winv _ hf hp
  obtain ⟨hd', i1, _, i3, i4, i5⟩ :=
    runB_spec g hg (verdict (body0 g hdr sc st)) ops hok (fun _ => True) (fun _ _ _ _ => trivial) _ _ _
      (body0 g hdr sc st) none [] hw ⟨rfl, rfl, rfl, trivial⟩ (by intro H hH; cases hH)
  have hc : (runB g (body0 g hdr sc st) ops).1.chunked = false := by rw [i3]; exact hid
  have hbase := (i1.idn hc).1.toBase
  obtain ⟨r', e, f1, f2, f3, f4, f5, f6, f7, _, f9⟩ := readFrom_appends g hg _ hd' _ hbase k data
  -- the head is the encoder's output on a state with the handler's status line and the framing flag
  have hwh : writeHeader200 (runB g (body0 g hdr sc st) ops).1 = (runB g (body0 g hdr sc st) ops).1 :=
    writeHeader200_pre _ i1.pre.2
  have hlE : Line (fun _ => True) (body0 g hdr sc st).statusCode (body0 g hdr sc st).status (body0 g hdr sc st).chunked
      { writeHeader200 (runB g (body0 g hdr sc st) ops).1 with hasBody := true } := by
    rw [hwh]; exact ⟨i4.1, i4.2.1, i4.2.2.1, trivial⟩
  have hho := headOf_after g _ _ _ _ _ hd' hlE i5
  have hsome : ∃ H, hdAfter g { writeHeader200 (runB g (body0 g hdr sc st) ops).1 with hasBody := true } hd' = some H := by
    unfold hdAfter
    split
    · rename_i he
      have := hbase.henc
      rw [hwh] at he
      have he' : (runB g (body0 g hdr sc st) ops).1.headEncoded = true := he
      rw [he'] at this
      cases hd' with
      | none => simp at this
      | some x => exact ⟨x, rfl⟩
    · exact ⟨_, rfl⟩
  obtain ⟨H, hH⟩ := hsome
  obtain ⟨rE, hrE, hlrE⟩ := hho H hH
  rw [hH] at f1
  have hpre : Pre r' := by
    refine ⟨by rw [f6]; exact i1.pre.1, ?_⟩
    rw [f5, writeHeader200_pre _ i1.pre.2]; exact i1.pre.2
  obtain ⟨g1, g2⟩ := finish_sent_pre g hg r' hpre f2 f3 f4 (by rw [f7]; exact hc)
  refine ⟨rE, hlrE, ?_, ?_, ?_⟩
  · show (readFrom g (runB g (body0 g hdr sc st) ops).1 k data).2 = _
    rw [e]
  · show (finish g (readFrom g (runB g (body0 g hdr sc st) ops).1 k data).1).1.wire.flatten = _
    rw [e, g1, f1, hid, framed_identity, ← hrE]
    simp
  · show (finish g (readFrom g (runB g (body0 g hdr sc st) ops).1 k data).1).2 = _
    rw [e]; dsimp only; rw [g2, f9]

/-- **C09, Flush on an identity-framed response without Content-Length** (an HTTP/1.0 request; repaired code, was
finding `resp-flush-identity-nocl`). The program is `ops1 ++ Flush :: ops2` with no Flush in `ops1` (so this is the
Flush that sends the head), the handler gave no Content-Length, the status allows a body. Then the reference parser
reads the wire as the handler's status line, a field list with NO `Content-Length` field, and EXACTLY the concatenation
of all accepted writes (before and after the Flush) as the rest; and flushResponse closes the connection — the body
is delimited by the end of the connection, which is how a response of unknown length is framed for a client that
cannot read chunked coding (RFC 7230 §3.3.3 rule 7). -/
theorem c09_flush_close_delimited (g : Cfg) (hg : g.failAt = 0) (hreal : g.head = headBytes g)
    (hdr : Header) (sc : Nat) (st : Bytes) (ops1 ops2 : List BOp)
    (hok1 : ∀ op ∈ ops1, op.ok) (hok2 : ∀ op ∈ ops2, op.ok) (hnf1 : ∀ op ∈ ops1, op ≠ .flush)
    (htr1 : ∀ op ∈ ops1, op.trailerOnly (body0 g hdr sc st).header)
    (htr2 : ∀ op ∈ ops2, op.trailerOnly (body0 g hdr sc st).header)
    (hs : SaneHeaders g (body0 g hdr sc st))
    (hid : (body0 g hdr sc st).chunked = false) (hnocl : ∀ e ∈ (body0 g hdr sc st).header, e.1 ≠ kCL)
    (hst : (body0 g hdr sc st).statusCode ≠ 204 ∧ (body0 g hdr sc st).statusCode ≠ 304) :
    ∃ fields : List (Bytes × Bytes),
      parseHead (wireOf g hdr sc st (ops1 ++ .flush :: ops2)) =
        some (statusBody g (body0 g hdr sc st), fields, (accepted g hdr sc st (ops1 ++ .flush :: ops2)).flatten) ∧
      (∀ p ∈ fields, p.1 ≠ kCL) ∧
      (finish g (endState g hdr sc st (ops1 ++ .flush :: ops2))).2 = true := by
  -- no Content-Length: contentLength() answers 0
  have hget0 : hget (body0 g hdr sc st).header kCL = [] := by
    unfold hget
    cases hf : (body0 g hdr sc st).header.find? (·.1 == kCL) with
    | none => rfl
    | some e =>
      have hm := List.mem_of_find?_eq_some hf
      have hk : e.1 = kCL := by simpa using List.find?_some hf
      exact absurd hk (hnocl e hm)
  have hcl0 : (body0 g hdr sc st).contentLen = 0 := by
    show (checkChunked g (writeHeader200 (start hdr sc st))).contentLen = 0
    unfold checkChunked writeHeader200 writeHeader start
    dsimp only
    repeat' split
    all_goals rfl
  have hv : verdict (body0 g hdr sc st) = some 0 := by
    unfold verdict contentLength
    simp [hcl0, hfirst, hget0]
  have hf : Fresh (body0 g hdr sc st) := fresh_prelude g _ ⟨rfl, rfl, rfl, rfl⟩
  have hp : Pre (body0 g hdr sc st) := pre_prelude g _
  have hw := start_winv _ hf hp
  -- phase 1: up to the Flush
  obtain ⟨hd1, i1, _, i3, ⟨l1, l2, l3, l4⟩, _⟩ :=
    runB_spec g hg (verdict (body0 g hdr sc st)) ops1 hok1 (SameHead (body0 g hdr sc st).header)
      (fun op hop h hh => sameHead_op _ h op (htr1 op hop) hh) _ _ _
      (body0 g hdr sc st) none [] hw ⟨rfl, rfl, rfl, ⟨rfl, fun _ _ => rfl⟩⟩ (by intro H hH; cases hH)
  have hne := runB_noenc g (verdict (body0 g hdr sc st)) ops1 hnf1 hok1 _ hp hid hf.henc (Or.inr hv) rfl
  obtain ⟨a1, a2⟩ := runB_append g ops1 (.flush :: ops2) (body0 g hdr sc st)
  generalize hE1 : (runB g (body0 g hdr sc st) ops1).1 = E1 at *
  generalize hA1 : (runB g (body0 g hdr sc st) ops1).2 = A1 at *
  have hc1 : E1.chunked = false := by rw [i3]; exact hid
  have hd1n : hd1 = none := by
    cases hd1 with
    | none => rfl
    | some x => have := (i1.idn hc1).1.henc; rw [hne] at this; simp at this
  subst hd1n
  -- the Flush decides: close-delimited
  have hcl1 : hget E1.header kCL = [] := by rw [l4.2 kCL (by decide)]; exact hget0
  have hmd : markDelim E1 = { E1 with closeDelim := true } := by
    unfold markDelim
    have h204 : (E1.statusCode != 204) = true := by rw [l1]; simpa using hst.1
    have h304 : (E1.statusCode != 304) = true := by rw [l1]; simpa using hst.2
    simp [hne, hc1, hcl1, h204, h304]
  obtain ⟨f1, f2, f3⟩ := flushOp_spec g hg _ E1 none _ i1
  have hH : hdAfter g (markDelim E1) none = some (g.head (markDelim E1)) := by
    unfold hdAfter; simp [hne]
  rw [hH] at f1
  have hlm : Line (SameHead (body0 g hdr sc st).header) (body0 g hdr sc st).statusCode (body0 g hdr sc st).status
      (body0 g hdr sc st).chunked (markDelim E1) :=
    ⟨by simp [l1], by simp [l2], by simp [l3], by simp; exact l4⟩
  have hlF : Line (SameHead (body0 g hdr sc st).header) (body0 g hdr sc st).statusCode (body0 g hdr sc st).status
      (body0 g hdr sc st).chunked (flushOp g E1) := by
    refine ⟨?_, ?_, by rw [f2]; exact l3, by rw [f3]; exact l4⟩
    · rw [flushOp_unfold g E1 i1.pre]; simp [l1]
    · rw [flushOp_unfold g E1 i1.pre]; simp [l2]
  have hFd : (flushOp g E1).closeDelim = true := by
    rw [flushOp_unfold g E1 i1.pre]
    simp [hmd]
  -- phase 2: after the Flush the head is fixed
  obtain ⟨hd2, j1, j2, j3, _, _⟩ :=
    runB_spec g hg (verdict (body0 g hdr sc st)) ops2 hok2 (SameHead (body0 g hdr sc st).header)
      (fun op hop h hh => sameHead_op _ h op (htr2 op hop) hh) _ _ _
      (flushOp g E1) (some (g.head (markDelim E1))) _ f1 hlF
      (by intro H hH'; cases hH'; exact ⟨markDelim E1, rfl, hlm⟩)
  have hd2e : hd2 = some (g.head (markDelim E1)) := j2 rfl
  subst hd2e
  have hE2 : (runB g (body0 g hdr sc st) (ops1 ++ .flush :: ops2)).1 = (runB g (flushOp g E1) ops2).1 := by
    rw [a1]; simp only [runB, BOp.toOp, step]
  have hA2 : (runB g (body0 g hdr sc st) (ops1 ++ .flush :: ops2)).2 = A1 ++ (runB g (flushOp g E1) ops2).2 := by
    rw [a2]; simp only [runB, BOp.toOp, step]
  obtain ⟨w1, w2, w3⟩ := finish_spec g hg _ _ _ _ j1
  have hc2 : (runB g (flushOp g E1) ops2).1.chunked = false := by rw [j3, f2]; exact hc1
  have henc2 : (runB g (flushOp g E1) ops2).1.headEncoded = true := by
    rw [(j1.idn hc2).1.henc]; rfl
  have hH2 : hdAfter g (runB g (flushOp g E1) ops2).1 (some (g.head (markDelim E1))) = some (g.head (markDelim E1)) := by
    unfold hdAfter; simp [henc2]
  -- the head parses back
  have hsE : SaneHead g (markDelim E1) := by
    refine ⟨fun c hc => (hs.proto c hc).1, by simp [l2]; exact hs.status, by simp [l1]; exact hs.code, ?_, ?_⟩
    · simp only [markDelim_header]; rw [l4.1]; exact hs.names
    · simp only [markDelim_header]; rw [l4.1]; exact hs.values
  have hsb : statusBody g (markDelim E1) = statusBody g (body0 g hdr sc st) := by
    unfold statusBody; simp [l1, l2]
  refine ⟨autoPairs g (markDelim E1) ++
      handlerPairs (hget (markDelim E1).header kTrailer) (markDelim E1).header, ?_, ?_, ?_⟩
  · show parseHead (finish g (runB g (body0 g hdr sc st) (ops1 ++ .flush :: ops2)).1).1.wire.flatten =
      some (_, _, (runB g (body0 g hdr sc st) (ops1 ++ .flush :: ops2)).2.flatten)
    rw [hE2, hA2, w1, hH2, hc2, f2, hc1, hid]
    simp only [Option.getD_some, Bool.false_eq_true, ↓reduceIte, List.append_nil, List.nil_append]
    rw [framed_identity, framed_identity, hreal, parseHead_headBytes g _ _ hsE, hsb]
    simp
  · intro p hp'
    rcases List.mem_append.mp hp' with h1 | h1
    · exact autoPairs_no_cl g _ (by rw [hmd]) p h1
    · simp only [markDelim_header] at h1
      rw [l4.1] at h1
      exact not_mem_handlerPairs _ _ kCL hnocl p h1
  · show (finish g (runB g (body0 g hdr sc st) (ops1 ++ .flush :: ops2)).1).2 = true
    rw [hE2, w2, runB_closeDelim_mono g ops2 _ hFd]
    simp

/-- **C09, ONE decoder, nothing left over (chunked responses).** `decodeChunked` (Lemmas/C09Decode.lean) is a single
reference decoder: status line, header fields, chunked body (RFC 7230 §4.1), trailer fields, and it answers `none` unless
the input is consumed exactly.  For every chunked response of a stage-2 program (real head encoder, body-phase header
operations on declared trailers only, printable headers and trailers, payloads within the range of the length formatter)
on a connection that accepts the writes, it decodes the WHOLE wire to: the handler's status line; the automatic fields of
the encoding state followed by exactly the handler's non-trailer fields; the concatenation of the accepted writes; the
trailer fields of `c09_stage2_trailer_keys` — and nothing is left over.  (The pieces were `c09_stage2_head`,
`c09_stage1_unframe`, `c09_stage2_trailers`; identity framing: `c09_identity_auto_length`, `c09_flush_close_delimited`,
`c09_readfrom_*`, where the body is delimited by Content-Length or by the close.)
What this does NOT say: `decodeChunked` exists in Lean only (no driver runs it; the tie to a real client decoder is the
oracle `c09-decode` with net/http); it is a decoder for CHUNKED responses and is applied under the hypothesis `hch` — it does
not choose the framing from the parsed head (that the head of a chunked response announces `Transfer-Encoding: chunked` and no
Content-Length is `c09_stage2_head_framing`); the encoding state `rE` of the automatic fields is existentially quantified
(only its framing flag is pinned here); `failAt = 0`. -/
theorem c09_decode_chunked (g : Cfg) (hg : g.failAt = 0) (hreal : g.head = headBytes g)
    (hdr : Header) (sc : Nat) (st : Bytes) (ops : List BOp) (hok : ∀ op ∈ ops, op.ok)
    (htr : ∀ op ∈ ops, op.trailerOnly (body0 g hdr sc st).header)
    (hs : SaneHeaders g (body0 g hdr sc st)) (hch : (body0 g hdr sc st).chunked = true)
    (hsz : ∀ d ∈ accepted g hdr sc st ops, d.length ≤ maxChunk)
    (hk : ∀ p ∈ trailerPairs (eoncodeHead g (endState g hdr sc st ops)), nameOk p.1)
    (hv : ∀ p ∈ trailerPairs (eoncodeHead g (endState g hdr sc st ops)), noCR p.2) :
    ∃ rE : R, rE.chunked = true ∧
      decodeChunked (wireOf g hdr sc st ops) =
        some (statusBody g (body0 g hdr sc st),
              autoPairs g rE ++ handlerPairs (hget (body0 g hdr sc st).header kTrailer) (body0 g hdr sc st).header,
              (accepted g hdr sc st ops).flatten,
              trailerPairs (eoncodeHead g (endState g hdr sc st ops))) := by
  obtain ⟨rE, F, hp, _, hc, hF⟩ := c09_stage2_head g hg hreal hdr sc st ops hok htr hs
  refine ⟨rE, by rw [hc]; exact hch, ?_⟩
  rw [← nonEmpty_flatten]
  apply decodeChunked_spec _ _ _ _ (nonEmpty (accepted g hdr sc st ops))
  · rw [hp, hF, hch, framed_chunked]
    simp only [↓reduceIte]
    rw [lastChunk_normal]
  · exact fun d hd => (nonEmpty_ne _ d hd).1
  · exact fun d hd => hsz d (nonEmpty_ne _ d hd).2
  · exact hk
  · exact hv

/-! ### non-vacuity -/

section nonvacuity
set_option maxRecDepth 100000

/-- a chunked program with a Flush in the middle and a late trailer value: the hypotheses hold and the
wire is what a client expects -/
example :
    let hdr : Header := [(kDate, [str "D"]), (kTrailer, [str "X-Sum"])]
    let ops : List BOp := [.write (str "hello "), .flush, .write (str "world"), .setH (str "X-Sum") (str "11")]
    sane cfg11 hdr ops = true ∧
    wireOf cfg11 hdr 0 [] ops =
      str ("HTTP/1.1 200 OK\r\nContent-Type: text/plain; charset=utf-8\r\nDate: D\r\nTrailer: X-Sum\r\n" ++
           "Transfer-Encoding: chunked\r\n\r\n6\r\nhello \r\n5\r\nworld\r\n0\r\nX-Sum: 11\r\n\r\n") := by
  refine ⟨by decide, by decide⟩

/-- the ONE decoder on that program's whole wire: status line, fields, body, trailer fields, nothing left over -/
example :
    let hdr : Header := [(kDate, [str "D"]), (kTrailer, [str "X-Sum"])]
    let ops : List BOp := [.write (str "hello "), .flush, .write (str "world"), .setH (str "X-Sum") (str "11")]
    (decodeChunked (wireOf cfg11 hdr 0 [] ops)).map (fun p => (p.1, p.2.2.1, p.2.2.2)) =
      some (str "HTTP/1.1 200 OK", str "hello world", [(str "X-Sum", str "11")]) := by decide

/-- the reference decoder on that wire's framing part -/
example : unchunk 3 (str "6\r\nhello \r\n5\r\nworld\r\n0\r\nX-Sum: 11\r\n\r\n") =
    some (str "hello world", str "X-Sum: 11\r\n\r\n") := by decide

/-- stage 2 on the same program: the hypotheses hold and the reference parser returns the handler's header
fields (Date, Trailer; X-Sum is a trailer and absent) after the automatic ones -/
example :
    let hdr : Header := [(kDate, [str "D"]), (kTrailer, [str "X-Sum"])]
    let ops : List BOp := [.write (str "hello "), .flush, .write (str "world"), .setH (str "X-Sum") (str "11")]
    cfg11.head = headBytes cfg11 ∧
    (parseHead (wireOf cfg11 hdr 0 [] ops)).map (fun p => (p.1, p.2.1)) =
      some (str "HTTP/1.1 200 OK",
            [(kCT, str "text/plain; charset=utf-8"), (kDate, str "D"), (kTrailer, str "X-Sum"), (kTE, str "chunked")]) ∧
    parseStatusLine (str "HTTP/1.1 200 OK") = some (str "HTTP/1.1", 200, str "OK") := by
  refine ⟨rfl, by decide, by decide⟩

end nonvacuity

end Resp
