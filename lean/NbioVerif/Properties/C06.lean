import NbioVerif.Lemmas.C06Chain
import NbioVerif.Lemmas.C08Glue
import NbioVerif.Lemmas.C06Bridge
/-! C06: HTTP/1.x parsing is independent of how the byte stream is segmented.

The generic refinement (Go-shaped index loop ≡ byte-at-a-time spec, `Scan.implParse_eq_spec`, `specFeed_append`,
`Scan.c06_segmentation_independent`, `Http.c06_http`) is in `Lemmas/C06Core.lean`. This file states the property for the
functions the model driver executes (`Scan.feedAllL`: a chain of `parseLC` = ReadLimit test + checked loop; messages via
`procCalls`), so that "model run = model proved":

* `c06_driver_bridge`   the driver's `parseLC` is `parseL` (no panic outcome, same ReadLimit test)
* `c06_http_driver`     ReadLimit disabled: any segmentation = one piece — events, error, final state and cache
* `c06_http_driver_limit` the same with a limit, whenever neither run trips the entry test (the test is segmentation
                        dependent by construction: it is the property's only hypothesis)
* `c06_messages`        the messages the handler receives, delivered call by call, are the same in any segmentation
-/
namespace Http
open Scan

/-- the function the driver calls for every `D` line is the function the theorems are about -/
theorem c06_driver_bridge (g : Cfg) (limit : Nat) (st : P) (cache data : Bytes) (acc : List Ev) :
    parseLC (machine g) limit st cache data acc = parseL (machine g) limit st cache data acc :=
  parseLC_eq (machine g) limit st cache data acc

/-- C06 for the chain the driver runs, ReadLimit disabled (server and client, any body limit, any verdicts) -/
theorem c06_http_driver (g : Cfg) (segs : List Bytes) :
    feedAllL (machine g) 0 (init g) [] segs [] = feedAllL (machine g) 0 (init g) [] [segs.flatten] [] :=
  feedAllL_segmentation_independent (machine g) (wf g) 0 (init g) segs (noTrip_zero _ _ _ _ _) (noTrip_zero _ _ _ _ _)

/-- **C06 for the driver's D lines.** The D lines call `HttpEngine.parseE` (Parse + CloseAndClean on error) once per
    read on the parser the previous line left; that chain is `feedAllL` — same events, same final (state, cache), same
    first error, closed and silent afterwards — for every list of reads, empty ones included. -/
theorem c06_dlines (g : Cfg) (limit : Nat) (segs : List Bytes) :
    HttpEngine.ChainIs (feedAllL (machine g) limit (init g) [] segs [])
      (HttpEngine.chainE (machine g) limit { st := init g, cache := [] } segs [] none) :=
  HttpEngine.chainE_eq_feedAllL (machine g) limit segs (init g) [] []

/-- … hence, ReadLimit disabled, the events of the D-line chain and its first error do not depend on the segmentation -/
theorem c06_dlines_segmentation (g : Cfg) (segs : List Bytes) :
    (HttpEngine.chainE (machine g) 0 { st := init g, cache := [] } segs [] none).2 =
      (HttpEngine.chainE (machine g) 0 { st := init g, cache := [] } [segs.flatten] [] none).2 := by
  have h1 := c06_dlines g 0 segs
  have h2 := c06_dlines g 0 [segs.flatten]
  rw [c06_http_driver g segs] at h1
  revert h1 h2
  cases feedAllL (machine g) 0 (init g) [] [segs.flatten] [] with
  | mk evs fin =>
    cases fin with
    | inl pr => intro h1 h2; simp only [HttpEngine.ChainIs] at h1 h2; rw [h1, h2]
    | inr e =>
      intro h1 h2
      simp only [HttpEngine.ChainIs] at h1 h2
      obtain ⟨_, _, e1⟩ := h1
      obtain ⟨_, _, e2⟩ := h2
      rw [e1, e2]

/-- C06 with a ReadLimit: equal results whenever neither run hits the limit test -/
theorem c06_http_driver_limit (g : Cfg) (limit : Nat) (segs : List Bytes)
    (h1 : NoTrip (machine g) limit (init g) [] segs []) (h2 : NoTrip (machine g) limit (init g) [] [segs.flatten] []) :
    feedAllL (machine g) limit (init g) [] segs [] = feedAllL (machine g) limit (init g) [] [segs.flatten] [] :=
  feedAllL_segmentation_independent (machine g) (wf g) limit (init g) segs h1 h2

/-- the messages delivered during the calls of a chain, in order -/
def messagesOf (g : Cfg) (limit : Nat) (segs : List Bytes) : Option (List Delivered) :=
  (procCalls g.isClient none (callEvents (machine g) limit (init g) [] segs)).map fun r => r.2.flatten

/-- messages delivered call by call = the processor run over all events of the chain -/
theorem messagesOf_eq (g : Cfg) (limit : Nat) (segs : List Bytes) :
    messagesOf g limit segs =
      (procRun g.isClient none (feedAllL (machine g) limit (init g) [] segs []).evs []).map (·.2) := by
  have h := procCalls_flatten g.isClient (callEvents (machine g) limit (init g) [] segs) none
  have he := feedAllL_evs (machine g) limit segs (init g) [] []
  simp only [List.nil_append] at he
  rw [he, ← h]
  simp only [messagesOf, Option.map_map]
  rfl

/-- **C06 at message level**: the sequence of requests/responses handed to the handler — delivered `Parse` call by
    `Parse` call by the real processors' logic — is the same for every segmentation as for one piece -/
theorem c06_messages (g : Cfg) (segs : List Bytes) :
    messagesOf g 0 segs = messagesOf g 0 [segs.flatten] := by
  rw [messagesOf_eq, messagesOf_eq, c06_http_driver]

/-- non-vacuity: a request cut inside its header value and inside its body -/
example :
    let g : Cfg := { isClient := false, maxBody := 0, urlOk := fun _ => true, protoOk := fun _ => true }
    let segs := [str "POST /a HTTP/1.1\r\nContent-Le", str "ngth: 3\r\n\r\nab", str "c"]
    (feedAllL (machine g) 0 (init g) [] segs []).evs.length = 7 ∧ (messagesOf g 0 segs).map List.length = some 1 := by
  decide

end Http
