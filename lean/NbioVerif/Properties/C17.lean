import NbioVerif.Properties.C01
/-!
# C17 Write-buffer bound

Same model as C01 (`ConnFull`). `s.left` is `Conn.left`, `g.maxWB` is `MaxWriteBufferSize`
(0 = no bound), `unsent` sums the unsent bytes of the queued *buffers* (queued file ranges of
`Sendfile` are not held in memory and are not counted, as in the code).
All statements hold for every op sequence and every kernel answer sequence.
-/
namespace ConnFull

/-- **C17 (accounting and bound).** In every reachable state the counter equals the unsent bytes held
    in queued buffers (while open) and, with a bound configured, never exceeds it. -/
theorem c17_inv (g : Cfg) (ops : List Op) :
    let s := run g init ops
    (s.closed = false → s.left = unsent s.wl) ∧ (g.maxWB > 0 → s.left ≤ g.maxWB) := by
  have h := (reach_inv (g := g) ⟨ops, rfl⟩).1
  exact ⟨h.acct, h.bound⟩

/-- **C17 (full budget after drain).** Once the queue is empty the counter is 0. -/
theorem c17_drained (g : Cfg) (ops : List Op) :
    let s := run g init ops
    s.closed = false → s.wl = [] → s.left = 0 := by
  intro s hc hw
  have h := (reach_inv (g := g) ⟨ops, rfl⟩).1.acct hc
  rw [hw] at h; simpa [unsent] using h

/-- does a call holding `n` more bytes fit? -/
def fits (g : Cfg) (s : S) (n : Nat) : Prop := g.maxWB = 0 ∨ s.left + n ≤ g.maxWB

theorem overflow_of_fits {g : Cfg} {s : S} {n : Nat} (h : fits g s n) : overflow g s n = false := by
  simp [overflow]; rcases h with h | h <;> omega

theorem finishCall_ret (g : Cfg) (r : S × Ret) : (finishCall g r).2 = r.2 := (finishCall_eff g r).1

/-- **C17 (fits ⇒ accepted, Write).** On an open connection a `Write` that fits (or any `Write` when no
    bound is configured) is accepted in full, whatever the kernel does short of a fatal error. -/
theorem c17_fits_accepted_write (g : Cfg) (s : S) (b : Bytes) (k : KAns) (hr : Reach g s)
    (hc : s.closed = false) (hk : k ≠ .fail) (hfit : fits g s b.length) :
    (write g s b k).2 = ⟨b.length, .none⟩ := by
  have hd := (reach_inv hr).1
  unfold write
  rw [if_neg (by simp [hd.nohang]), if_neg (by simp [hc]), finishCall_ret]
  unfold writeInner
  simp only [overflow_of_fits hfit, hk, Bool.false_eq_true, if_false]
  repeat' split
  all_goals first | rfl | simp_all

/-- **C17 (fits ⇒ accepted, Writev).** -/
theorem c17_fits_accepted_writev (g : Cfg) (s : S) (bs : List Bytes) (k : KAns) (hr : Reach g s)
    (hc : s.closed = false) (hk : k ≠ .fail) (hfit : fits g s (total bs)) :
    (writev g s bs k).2 = ⟨total bs, .none⟩ := by
  have hd := (reach_inv hr).1
  rw [writev_eq, if_neg (by simp [hd.nohang]), if_neg (by simp [hc]), finishCall_ret]
  unfold writevCore
  split
  · rename_i b
    have hfit' : fits g s b.length := by simpa [total] using hfit
    unfold writeInner
    simp only [overflow_of_fits hfit', hk, Bool.false_eq_true, if_false]
    repeat' split
    all_goals first | rfl | simp_all [total]
  · unfold writevInner
    simp only [overflow_of_fits hfit, hk, Bool.false_eq_true, if_false]
    have hle := kN_le k (total bs)
    repeat' split
    all_goals first | rfl | (simp_all; done) | (simp; omega)

/-- **C17 (Sendfile is never rejected for overflow).** File ranges are not held bytes. -/
theorem c17_sendfile_no_overflow (g : Cfg) (s : S) (off len : Nat) (ks : List KAns) :
    (sendfile g s off len ks).2.err ≠ .overflow := by
  unfold sendfile
  simp only
  repeat' split
  all_goals simp

theorem sendfileLoop_no_fail (g : Cfg) (ks : List KAns) (hk : ∀ k ∈ ks, k ≠ .fail) :
    ∀ (s : S) (off rem : Nat), (sendfileLoop g s off rem ks).2 = false := by
  induction ks with
  | nil => intro s off rem; unfold sendfileLoop; split <;> rfl
  | cons k ks ih =>
    intro s off rem
    have ih' := ih (fun k hk' => hk k (List.mem_cons_of_mem _ hk'))
    unfold sendfileLoop
    split
    · rfl
    split
    · rfl
    · exact ih' s off rem
    · exact absurd rfl (hk _ (by simp))
    · simp only
      split
      · rfl
      · exact ih' _ _ _

/-- **C17 (fits ⇒ accepted, Sendfile).** `Sendfile` holds no bytes, so it always fits: on an open
    connection it is accepted in full (the clamped range), whatever the bound and the backlog, unless the
    kernel answers with a fatal error. -/
theorem c17_fits_accepted_sendfile (g : Cfg) (s : S) (off len : Nat) (ks : List KAns) (hr : Reach g s)
    (hc : s.closed = false) (hk : ∀ k ∈ ks, k ≠ .fail) :
    (sendfile g s off len ks).2 = ⟨sendRange g off len, .none⟩ := by
  have hd := (reach_inv hr).1
  unfold sendfile
  rw [if_neg (by simp [hd.nohang]), if_neg (by simp [hc])]
  simp only
  split
  · rename_i h0; simp [h0]
  · split
    · rfl
    · rw [sendfileLoop_no_fail g ks hk]; rfl

/-! ### Writev and IOV_MAX (the other assumption behind "fits ⇒ accepted", made explicit) -/

/-- IOV_MAX of Linux -/
def iovMax : Nat := 1024

/-- the iovecs `writev(2)` is handed by `writev_linux.go`: one per non-empty slice -/
def iovCount (bs : List Bytes) : Nat := (bs.filter (fun b => !b.isEmpty)).length

/-- the kernel's rule for the vectored write: more than IOV_MAX iovecs is EINVAL, a fatal answer; otherwise the
    answer `k` the socket would give -/
def iovAns (bs : List Bytes) (k : KAns) : KAns := if iovCount bs > iovMax then .fail else k

theorem total_pos_of_iovCount : ∀ bs : List Bytes, 0 < iovCount bs → 0 < total bs := by
  intro bs
  induction bs with
  | nil => intro h; simp [iovCount] at h
  | cons b tl ih =>
    intro h
    cases b with
    | nil =>
      have : iovCount ([] :: tl) = iovCount tl := by simp [iovCount]
      rw [this] at h
      have := ih h
      simpa [total] using this
    | cons x xs => simp [total]; omega

theorem writevCore_of_many (g : Cfg) (s : S) (bs : List Bytes) (k : KAns) (h : 1 < iovCount bs) :
    writevCore g s bs k = writevInner g s bs k := by
  unfold writevCore
  cases bs with
  | nil => rfl
  | cons b tl =>
    cases tl with
    | nil =>
      exfalso
      have : iovCount [b] ≤ 1 := by
        unfold iovCount
        exact Nat.le_trans (List.length_filter_le _ _) (by simp)
      omega
    | cons c tl2 => rfl

/-- **C17 (fits ⇒ accepted, Writev, with the IOV_MAX rule of the kernel; PARTIAL above the limit).** On an open
    reachable connection, for a `Writev` that fits and a socket answer `k` that is not fatal, with the kernel
    answering EINVAL for more than IOV_MAX iovecs (`iovAns`):
    * at most IOV_MAX non-empty slices: accepted in full (this is `c17_fits_accepted_writev`);
    * more than IOV_MAX non-empty slices behind a backlog: accepted in full as well — nothing is handed to the
      kernel, the slices are queued;
    * more than IOV_MAX non-empty slices on an empty queue: NOT accepted — the call returns `(0, err)` with the
      kernel's error (not the overflow error), nothing is accepted or sent and the connection is closed.
    So the listed assumption "Writev passes ≤ IOV_MAX non-empty slices" is needed exactly in the third case.
    `iovMax`, `iovCount`, `iovAns` are definitions of this file (specification side), not of the model: the theorem is
    about `writev g s bs (iovAns bs k)`, i.e. the caller supplies the transformed answer; the driver never applies
    `iovAns`, and the Go side of the EINVAL case is not sampled (the generator uses 0–6 slices). -/
theorem c17_fits_writev_iovmax_partial (g : Cfg) (s : S) (bs : List Bytes) (k : KAns) (hr : Reach g s)
    (hc : s.closed = false) (hk : k ≠ .fail) (hfit : fits g s (total bs)) :
    let r := writev g s bs (iovAns bs k)
    (iovCount bs ≤ iovMax → r.2 = ⟨total bs, .none⟩) ∧
    (iovCount bs > iovMax → s.wl ≠ [] → r.2 = ⟨total bs, .none⟩) ∧
    (iovCount bs > iovMax → s.wl = [] →
      r.2 = ⟨0, .io⟩ ∧ r.1.closed = true ∧ r.1.accepted = s.accepted ∧ r.1.wire = s.wire) := by
  intro r
  have hd := (reach_inv hr).1
  refine ⟨fun hle => ?_, fun hgt hne => ?_, fun hgt hemp => ?_⟩
  · have e : iovAns bs k = k := by unfold iovAns; rw [if_neg (by omega)]
    show (writev g s bs (iovAns bs k)).2 = _
    rw [e]; exact c17_fits_accepted_writev g s bs k hr hc hk hfit
  · show (writev g s bs (iovAns bs k)).2 = _
    have hmany : 1 < iovCount bs := by unfold iovMax at hgt; omega
    rw [writev_eq, if_neg (by simp [hd.nohang]), if_neg (by simp [hc]), finishCall_ret, writevCore_of_many g s bs _ hmany]
    unfold writevInner
    have hq : (!s.wl.isEmpty) = true := by cases hw : s.wl <;> simp_all
    simp only [overflow_of_fits hfit, hq, Bool.false_eq_true, if_false, if_true]
  · have e : iovAns bs k = .fail := by unfold iovAns; rw [if_pos hgt]
    have hmany : 1 < iovCount bs := by unfold iovMax at hgt; omega
    have hpos : 0 < total bs := total_pos_of_iovCount bs (by omega)
    have hret : (writev g s bs (iovAns bs k)).2 = ⟨0, .io⟩ := by
      rw [e, writev_eq, if_neg (by simp [hd.nohang]), if_neg (by simp [hc]), finishCall_ret, writevCore_of_many g s bs _ hmany]
      unfold writevInner
      have hq : (!s.wl.isEmpty) = false := by simp [hemp]
      have h0 : ¬ total bs = 0 := by omega
      simp only [overflow_of_fits hfit, hq, h0, Bool.false_eq_true, if_false, if_true]
    have herr : (writev g s bs (iovAns bs k)).2.err ≠ .none := by rw [hret]; simp
    obtain ⟨a1, a2, a3⟩ := c01_error_writev_inv g s bs _ hd herr
    exact ⟨hret, a3, a1, a2⟩

theorem iovCount_replicate (n : Nat) (x : UInt8) (xs : Bytes) : iovCount (List.replicate n (x :: xs)) = n := by
  induction n with
  | zero => rfl
  | succ n ih =>
    have : iovCount ((x :: xs) :: List.replicate n (x :: xs)) = iovCount (List.replicate n (x :: xs)) + 1 := by
      simp [iovCount]
    rw [List.replicate_succ, this, ih]

/-- non-vacuity of the third case: 1025 one-byte slices on the empty queue of a freshly registered connection
    without a bound, the socket would take everything — the call fails and the connection is closed -/
example (g : Cfg) (hg : g.maxWB = 0) :
    let s := run g init [.register]
    let r := writev g s (List.replicate 1025 [1]) (iovAns (List.replicate 1025 [1]) (.wrote 1025))
    r.2 = ⟨0, .io⟩ ∧ r.1.closed = true := by
  intro s r
  have hr : Reach g s := ⟨[.register], rfl⟩
  have hc : s.closed = false := by
    show (registerOp g init).closed = false
    simp [registerOp, register, init, ghost, pAddRead, kctl]
    split <;> simp [kctl]
  have hw : s.wl = [] := by
    show (registerOp g init).wl = []
    simp [registerOp, register, init, ghost, pAddRead, kctl]
    split <;> simp [kctl]
  have hcnt : iovCount (List.replicate 1025 ([1] : Bytes)) > iovMax := by
    rw [iovCount_replicate]; decide
  have h := (c17_fits_writev_iovmax_partial g s (List.replicate 1025 [1]) (.wrote 1025) hr hc (by simp) (Or.inl hg)).2.2 hcnt hw
  exact ⟨h.1, h.2.1⟩

/-! ### Sendfile while dup(2) fails (the assumption behind "fits ⇒ accepted" for Sendfile, made explicit) -/

/-- **C17 (accounting and bound survive a failing dup).** `sendfileNoDupOp` is a stutter or an op of the alphabet
    (`sendfileNoDup_step`), so the state after it is reachable: counter = unsent held bytes, counter ≤ bound. -/
theorem c17_inv_nodup (g : Cfg) (s : S) (off len : Nat) (ks : List KAns) (hr : Reach g s) :
    let t := (sendfileNoDupOp g s off len ks).1
    (t.closed = false → t.left = unsent t.wl) ∧ (g.maxWB > 0 → t.left ≤ g.maxWB) := by
  intro t
  have h := (reach_inv (reach_sendfileNoDup hr off len ks)).1
  exact ⟨h.acct, h.bound⟩

theorem c17_sendfile_nodup_no_overflow (g : Cfg) (s : S) (off len : Nat) (ks : List KAns) :
    (sendfileNoDupOp g s off len ks).2.err ≠ .overflow := by
  unfold sendfileNoDupOp
  split
  · simp
  · exact c17_sendfile_no_overflow g s off len (denyDup ks)

/-- **C17 (fits ⇒ accepted, Sendfile, PARTIAL: dup(2) fails).** `c17_fits_accepted_sendfile` assumes that the
    descriptor can be duplicated. When it can not, a `Sendfile` that fits (it always does: file ranges are not held
    bytes) may fail — but never with the overflow error, and it consumes nothing of the budget: if the connection is
    still open afterwards the queue and the counter are exactly as before (the range was either transmitted whole,
    `(sendRange, nil)`, or nothing of it was queued, `(0, err)`); otherwise the connection is closed. Hypotheses: a
    reachable state and well-formed sendfile answers `KWF ks` (no "0 bytes, no error" for a non-empty request). -/
theorem c17_fits_sendfile_nodup_partial (g : Cfg) (s : S) (off len : Nat) (ks : List KAns) (hr : Reach g s)
    (hk : KWF ks) :
    let r := sendfileNoDupOp g s off len ks
    r.2.err ≠ .overflow ∧ (r.2.err = .none → r.2.n = sendRange g off len) ∧ (r.2.err ≠ .none → r.2.n = 0) ∧
    (r.1.closed = false → r.1.wl = s.wl ∧ r.1.left = s.left) := by
  intro r
  have h1 := c17_sendfile_nodup_no_overflow g s off len ks
  obtain ⟨hok, herr⟩ := c01_sendfile_nodup g s off len ks hr hk
  have hleft : r.1.closed = false → r.1.wl = s.wl → r.1.left = s.left := by
    intro ho hw
    have hs := (reach_inv hr).1
    have ht := (reach_inv (reach_sendfileNoDup hr off len ks)).1
    have hso : s.closed = false := by
      cases hc : s.closed
      · rfl
      · -- a closed connection stays closed
        have : r.1.closed = true := by
          show (sendfileNoDupOp g s off len ks).1.closed = true
          unfold sendfileNoDupOp
          split
          · exact hc
          · exact closed_step g s (.sendfile off len (denyDup ks)) hc
        rw [this] at ho; exact absurd ho (by simp)
    have a1 : r.1.left = unsent r.1.wl := ht.acct ho
    rw [a1, hw, ← hs.acct hso]
  refine ⟨h1, fun he => (hok he).1, fun he => (herr he).1, fun ho => ?_⟩
  by_cases he : r.2.err = .none
  · obtain ⟨_, _, hw, _⟩ := hok he
    exact ⟨hw, hleft ho hw⟩
  · rcases (herr he).2 with h | h
    · have hw : r.1.wl = s.wl := by rw [h]
      exact ⟨hw, hleft ho hw⟩
    · rw [h.1] at ho; exact absurd ho (by simp)

/-- **C17 (full budget after drain).** With the queue empty the whole bound is available again: a call
    fits iff it fits the bound alone, and then it is accepted. -/
theorem c17_full_budget_after_drain (g : Cfg) (ops : List Op) (b : Bytes) (k : KAns) :
    let s := run g init ops
    s.closed = false → s.wl = [] →
    (fits g s b.length ↔ (g.maxWB = 0 ∨ b.length ≤ g.maxWB)) ∧
    ((g.maxWB = 0 ∨ b.length ≤ g.maxWB) → k ≠ .fail → (write g s b k).2 = ⟨b.length, .none⟩) := by
  intro s hc hw
  have h0 := c17_drained g ops hc hw
  have hfit : fits g s b.length ↔ (g.maxWB = 0 ∨ b.length ≤ g.maxWB) := by
    unfold fits; rw [h0]; simp
  exact ⟨hfit, fun h hk => c17_fits_accepted_write g s b k ⟨ops, rfl⟩ hc hk (hfit.mpr h)⟩

/-- **C17 (what the bound does not cover).** Queued file ranges of `Sendfile` (and their dup'ed
    descriptors) are not held bytes: with a bound of 5 a backlog of any number of file ranges of any size
    is reachable while `left` stays within the bound. The property's "Write, Writev, Sendfile mixed" is
    therefore about the buffer bytes only (as in the code). -/
theorem c17_file_ranges_not_counted :
    let s := run ⟨.lt, 5, 1000, fun i => UInt8.ofNat i⟩ init
      [.register, .write [1, 2, 3] [.eagain], .sendfile 0 900 [], .sendfile 0 1000 [], .sendfile 10 500 []]
    s.closed = false ∧ s.left = 3 ∧ backlog s.wl = 2403 ∧ s.wl.length = 4 := by
  decide

/-- **C17 (does not fit ⇒ overflow error, closed; Write).** -/
theorem c17_overflow_closes_write (g : Cfg) (s : S) (b : Bytes) (k : KAns) (hr : Reach g s)
    (hc : s.closed = false) (hb : b.length ≠ 0) (hm : g.maxWB > 0) (hbig : s.left + b.length > g.maxWB) :
    (write g s b k).2 = ⟨-1, .overflow⟩ ∧ (write g s b k).1.closed = true := by
  have hd := (reach_inv hr).1
  have hov : overflow g s b.length = true := by simp [overflow, hm, hbig]
  simp [write, hd.nohang, hc, writeInner, hb, hov, finishCall, flip]

/-- **C17 (does not fit ⇒ overflow error, closed; Writev).** -/
theorem c17_overflow_closes_writev (g : Cfg) (s : S) (bs : List Bytes) (k : KAns) (hr : Reach g s)
    (hc : s.closed = false) (hm : g.maxWB > 0) (hbig : s.left + total bs > g.maxWB) :
    (writev g s bs k).2 = ⟨-1, .overflow⟩ ∧ (writev g s bs k).1.closed = true := by
  have hd := (reach_inv hr).1
  have hov : overflow g s (total bs) = true := by simp [overflow, hm, hbig]
  have hb : total bs ≠ 0 := by
    intro h0
    have := hd.bound hm
    omega
  rw [writev_eq, if_neg (by simp [hd.nohang]), if_neg (by simp [hc])]
  unfold writevCore
  split
  · rename_i b
    have hov' : overflow g s b.length = true := by simpa [total] using hov
    have hb' : b.length ≠ 0 := by simpa [total] using hb
    simp [writeInner, hb', hov', finishCall, flip]
  · simp [writevInner, hov, finishCall, flip]

/-- **C17 (overflow is only reported when the call does not fit).** -/
theorem c17_overflow_only_if_write (g : Cfg) (s : S) (b : Bytes) (k : KAns)
    (he : (write g s b k).2.err = .overflow) : g.maxWB > 0 ∧ s.left + b.length > g.maxWB := by
  unfold write at he
  split at he
  · simp at he
  split at he
  · simp at he
  rw [finishCall_ret] at he
  unfold writeInner at he
  split at he
  · simp at he
  split at he
  · rename_i hov; simpa [overflow] using hov
  · split at he
    · split at he
      · simp at he
      · simp only at he; split at he <;> simp at he
    · simp at he

theorem c17_overflow_only_if_writev (g : Cfg) (s : S) (bs : List Bytes) (k : KAns)
    (he : (writev g s bs k).2.err = .overflow) : g.maxWB > 0 ∧ s.left + total bs > g.maxWB := by
  rw [writev_eq] at he
  split at he
  · simp at he
  split at he
  · simp at he
  rw [finishCall_ret] at he
  unfold writevCore at he
  split at he
  · rename_i b
    unfold writeInner at he
    split at he
    · simp at he
    split at he
    · rename_i hov; simpa [overflow, total] using hov
    · split at he
      · split at he
        · simp at he
        · simp only at he; split at he <;> simp at he
      · simp at he
  · unfold writevInner at he
    simp only at he
    split at he
    · rename_i hov; simpa [overflow] using hov
    · repeat' split at he
      all_goals simp at he

/-! ### non-vacuity -/

/-- bound 5 -/
def g5 : Cfg := ⟨.lt, 5, 10, fun i => UInt8.ofNat i⟩

/-- bound 5, dup(2) fails: behind a backlog of 2 held bytes the Sendfile fails with `(0, io)`, not with overflow, and
    counter and queue stay as they were; on an empty queue a range the kernel takes whole is accepted, a refused one
    closes the conn -/
example :
    let s1 := run g5 init [.register, .write [7, 8, 9] [.wrote 1]]
    let a := sendfileNoDupOp g5 s1 0 0 [.wrote 10]
    let s0 := run g5 init [.register]
    let b := sendfileNoDupOp g5 s0 0 0 [.wrote 10]
    let c := sendfileNoDupOp g5 s0 0 0 [.wrote 4, .eagain]
    s1.left = 2 ∧ a.2 = ⟨0, .io⟩ ∧ a.1.closed = false ∧ a.1.left = 2 ∧ a.1.wl.length = 1 ∧
    b.2 = ⟨10, .none⟩ ∧ b.1.closed = false ∧ b.1.left = 0 ∧ b.1.wl.length = 0 ∧
    c.2 = ⟨0, .io⟩ ∧ c.1.closed = true := by
  decide

/-- fill / drain / fill: the counter follows the backlog and comes back to 0 -/
example :
    let s1 := run g5 init [.register, .write [1, 2, 3, 4] [.wrote 1]]
    let s2 := run g5 init [.register, .write [1, 2, 3, 4] [.wrote 1], .evTake true false false [.wrote 9]]
    let s3 := run g5 init [.register, .write [1, 2, 3, 4] [.wrote 1], .evTake true false false [.wrote 9],
      .writev [[5, 6], [7, 8, 9]] [.eagain]]
    s1.left = 3 ∧ s2.left = 0 ∧ s2.wl.length = 0 ∧ s3.left = 5 ∧ s3.closed = false := by decide

/-- exactly fitting is accepted, one more byte is rejected and closes -/
example : fits g5 (run g5 init [.register, .write [1, 2, 3] [.eagain]]) 2 := by
  right; decide
example : (write g5 (run g5 init [.register, .write [1, 2, 3] [.eagain]]) [4, 5] .eagain).2 = ⟨2, .none⟩ := by decide
example : (write g5 (run g5 init [.register, .write [1, 2, 3] [.eagain]]) [4, 5, 6] .eagain).2 = ⟨-1, .overflow⟩ := by decide
example : (writev g5 (run g5 init [.register, .write [1, 2, 3] [.eagain]]) [[4], [5, 6]] .eagain).2 = ⟨-1, .overflow⟩ := by decide
/-- ET and ONESHOT, a bounded Writev that the kernel takes partially: the remainder bookkeeping
    (`queueRest`) under a bound -/
example :
    let g : Cfg := ⟨.et, 5, 10, fun i => UInt8.ofNat i⟩
    let s := run g init [.register, .writev [[1, 2], [], [3, 4, 5]] [.wrote 3]]
    s.left = 2 ∧ s.wire = [1, 2, 3] ∧ s.closed = false ∧
    (writev g s [[6, 7], [8]] .eagain).2 = ⟨3, .none⟩ ∧ (writev g s [[6, 7], [8, 9]] .eagain).2 = ⟨-1, .overflow⟩ := by
  decide
example :
    let g : Cfg := ⟨.oneshot, 5, 10, fun i => UInt8.ofNat i⟩
    let s := run g init [.register, .writev [[1, 2, 3], [4, 5]] [.wrote 1], .evTake true false false [.wrote 9], .evEnd]
    s.left = 0 ∧ s.wl.length = 0 ∧ s.wire = [1, 2, 3, 4, 5] := by decide

/-- a queued file range does not count -/
example : (run g5 init [.register, .write [1, 2, 3] [.eagain], .sendfile 0 0 []]).left = 3 := by decide

end ConnFull
