import NbioVerif.Model.ConnFull
/-! C17 write-buffer bound (first instalment; the invariants follow) -/
namespace ConnFull

/-- a Write that does not fit fails with the overflow error and closes the connection -/
theorem c17_overflow_closes_write (g : Cfg) (s : S) (b : Bytes) (k : KAns)
    (hh : s.hung = false) (hc : s.closed = false) (hb : b.length ≠ 0) (hm : g.maxWB > 0)
    (hbig : s.left + b.length > g.maxWB) :
    (write g s b k).2 = ⟨-1, .overflow⟩ ∧ (write g s b k).1.closed = true := by
  have hov : overflow g s b.length = true := by simp [overflow, hm, hbig]
  simp [write, hh, hc, writeInner, hb, hov, finishCall, closeNow]

end ConnFull
