import NbioVerif.Lemmas.WsRfcMain
import NbioVerif.Lemmas.RfcBridge
import NbioVerif.Lemmas.WsUpProof
import NbioVerif.Lemmas.C13Table
import NbioVerif.Lemmas.WsReadLimit
/-! C13 — WebSocket frame validation follows RFC 6455.

    Specification: `Rfc.run` over `Rfc.decode` (Model/Rfc6455.lean), an independent transcription of RFC 6455 §5.1, §5.2,
    §5.4, §5.5, §7.4.1, §8.1 and RFC 7692 §6 (twin of the Go predicate in harness/cmd/hws/ref.go).
    Model: `Ws.feed` = successive `Conn.Parse` calls on any segmentation of any byte string.
    `Agree g e i0 r v` (Lemmas/WsRfcRun.lean) says what "Parse did what the RFC prescribes" means:
      v accepts            ⇒ no error, conn open, and exactly the RFC's deliveries / pong / close replies happened, in order;
      v = closed           ⇒ the close frame was answered by a close frame, the conn is closed;
      v rejects at frame i ⇒ Parse failed or the conn was closed, and before that exactly the RFC's events happened — in
                             particular nothing of the message containing the offending frame was delivered;
      a trailing incomplete frame whose header is already invalid may or may not be refused early. -/
namespace Ws

/-- the RFC predicate instantiated for an endpoint: same role, extension and limit; masking direction not enforced;
    `infl` = what RFC 7692 §7.2.2 inflation gives for a complete compressed message (parameter of the specification) -/
def rfcCfg (g : Cfg) (infl : Bytes → Rfc.TInfl) : Rfc.Cfg :=
  { server := !g.isClient, compress := g.enableCompression, limit := g.msgLimit, strict := false, infl }

/-- the codec assumption, in the specification's terms: what the endpoint's decompressor really does on a message — as
    `readAll` experiences it (output, chunking, capacities: `e.inflate`) — is what the specification's `infl` says:
    the inflated message when it is within the limit, `big` when it is not, `err` when the stream is corrupt.
    (Nothing else of `compress/flate` enters; the harness checks it per message against an independent inflate.) -/
def InflAgrees (g : Cfg) (e : Env) (infl : Bytes → Rfc.TInfl) : Prop :=
  ∀ m, infl m = match readAll g.msgLimit (m.length * 2) (e.inflate m) with
    | .ok b => .ok b
    | .tooLarge _ => .big
    | _ => .err

theorem rfcCfg_eq (g : Cfg) (e : Env) (infl : Bytes → Rfc.TInfl) (h : InflAgrees g e infl) : rfcCfg g infl = rfcOf g e := by
  unfold rfcCfg rfcOf
  congr
  funext m
  exact h m

/-- the RFC predicate with the masking direction enforced (§5.1) -/
def rfcStrict (g : Cfg) (infl : Bytes → Rfc.TInfl) : Rfc.Cfg := { rfcCfg g infl with strict := true }

/-- C13 (main theorem; masking direction aside): for every byte string, every segmentation of it into Parse calls, every
    role, limit and compression setting, mask keys and inflater behaviour, Parse accepts exactly the frame sequences the
    RFC allows, with the same deliveries and replies, and fails the connection on the others without delivering the
    offending message. The specification side (`Rfc.run`, `Rfc.decode`: Model/Rfc6455.lean) shares no definition with the
    model: its decoder, byte order, unmasking, UTF-8 and close-code rules are written from the RFCs and proved equal to
    the model's helpers in Lemmas/RfcBridge.lean. (`readLimit = 0`: the read-limit test is about segments, not frames.) -/
theorem c13_partial (g : Cfg) (e : Env) (infl : Bytes → Rfc.TInfl) (hinfl : InflAgrees g e infl) (hl : g.readLimit = 0)
    (segs : List Bytes) :
    Agree g e 0 (feed g e {} segs [])
      (Rfc.run (rfcCfg g infl) {} 0 [] (Rfc.decode (segs.flatten.length + 1) segs.flatten)) := by
  rw [rfcCfg_eq g e infl hinfl, Rfc.run_eq, Rfc.decode_eq]
  have hw : Within g {} := by intro _; simp [msgLen, K.len]
  have hnf : nextFrame g {} = .need := by simp [nextFrame, decodeHdr]
  have hobs := feed_flatten g e hl segs {} [] hw hnf
  have hrun := run_agree g e 0 segs.flatten.length { cache := [] ++ segs.flatten, k := {} } [] {} 0 []
    (by simp) hw inv_init rfl rfl
  simp only [List.nil_append] at hrun hobs
  have hk : (feed g e {} segs []).s.k = (run g e { cache := segs.flatten, k := {} } []).s.k := by
    have := congrArg (fun o => o.2.2.1) hobs; simpa [PR.obs] using this
  have ha : (feed g e {} segs []).acts = (run g e { cache := segs.flatten, k := {} } []).acts := by
    have := congrArg (fun o => o.1) hobs; simpa [PR.obs] using this
  have he : (feed g e {} segs []).err = (run g e { cache := segs.flatten, k := {} } []).err := by
    have := congrArg (fun o => o.2.1) hobs; simpa [PR.obs] using this
  unfold Agree at hrun ⊢
  rw [hk, ha, he]
  exact hrun

/-- `Agree` only looks at the observables -/
theorem agree_of_obs (g : Cfg) (e : Env) (i0 : Nat) (r1 r2 : PR) (v : Rfc.Res) (h : r1.obs = r2.obs) (ha : Agree g e i0 r2 v) :
    Agree g e i0 r1 v := by
  have hk : r1.s.k = r2.s.k := by have := congrArg (fun o => o.2.2.1) h; simpa [PR.obs] using this
  have hacts : r1.acts = r2.acts := by have := congrArg (fun o => o.1) h; simpa [PR.obs] using this
  have he : r1.err = r2.err := by have := congrArg (fun o => o.2.1) h; simpa [PR.obs] using this
  unfold Agree at ha ⊢
  rw [hk, hacts, he]
  exact ha

/-- C13 behind an upgrade hand-off: the bytes that follow a 101 response, fed through the client connection's parser in
    any segmentation (first frames in the same read as the response included), are judged exactly as the RFC prescribes -/
theorem c13_partial_handoff (g : Cfg) (e : Env) (infl : Bytes → Rfc.TInfl) (hinfl : InflAgrees g e infl) (hl : g.readLimit = 0)
    (head ws : Bytes) (hpre : (head ++ ws).take 13 = statusPrefix) (hend : headEnd head = some head.length)
    (segs : List Bytes) (hsegs : segs.flatten = head ++ ws) :
    Agree g e 0 (upFeed g e {} segs []).2 (Rfc.run (rfcCfg g infl) {} 0 [] (Rfc.decode (ws.length + 1) ws)) := by
  have h := c13_partial g e infl hinfl hl [ws]
  simp only [List.flatten_cons, List.flatten_nil, List.append_nil] at h
  exact agree_of_obs g e 0 _ _ _ (upFeed_handoff g e hl head ws hpre hend segs hsegs) h

theorem hdrCheck_strict (rg : Rfc.Cfg) (st : Rfc.St) (f : Rfc.Frame) (h : f.masked = rg.server) :
    Rfc.hdrCheck { rg with strict := true } st f = Rfc.hdrCheck { rg with strict := false } st f := by
  unfold Rfc.hdrCheck
  simp [h]

theorem run_strict (rg : Rfc.Cfg) : ∀ (fs : List Rfc.Frame) (st : Rfc.St) (i : Nat) (evs : List Rfc.Ev),
    (∀ f ∈ fs, f.masked = rg.server) →
    Rfc.run { rg with strict := true } st i evs fs = Rfc.run { rg with strict := false } st i evs fs := by
  intro fs
  induction fs with
  | nil => intro st i evs _; simp [Rfc.run]
  | cons f fs ih =>
    intro st i evs h
    have ih' := fun st i evs => ih st i evs (fun f hf => h f (List.mem_cons_of_mem _ hf))
    rw [Rfc.run, Rfc.run, hdrCheck_strict rg st f (h f (List.mem_cons_self ..))]
    simp only [ih']

/-- C13 under a read limit (`Engine.ReadLimit > 0`, the case `c13_partial` leaves out): for every segmentation, either no
    Parse call is refused by the read-limit test, and then Parse agrees with the RFC predicate on the whole input exactly as
    in `c13_partial`; or there is a first call `seg` whose data would bring the retained bytes above the limit (`OverRL`):
    that call fails the connection with `ErrTooLong` and adds no delivery or reply, and up to it — on the segments `pre` —
    the endpoint did what the RFC predicate says for the bytes of `pre`.  So a read limit adds exactly one kind of refusal,
    of a Parse call as a whole, and never changes the verdict on, or the events of, what was parsed before it.
    (`g.noRL` = `g` with `readLimit := 0`; `Agree`'s rendering of events does not look at the read limit.) -/
theorem c13_readlimit (g : Cfg) (e : Env) (infl : Bytes → Rfc.TInfl) (hinfl : InflAgrees g e infl) (segs : List Bytes) :
    Agree g.noRL e 0 (feed g e {} segs [])
      (Rfc.run (rfcCfg g infl) {} 0 [] (Rfc.decode (segs.flatten.length + 1) segs.flatten)) ∨
    ∃ pre seg post, segs = pre ++ seg :: post ∧ OverRL g (feed g.noRL e {} pre []).s seg ∧
      (feed g e {} segs []).err = some .tooLong ∧ (feed g e {} segs []).acts = (feed g.noRL e {} pre []).acts ∧
      (feed g.noRL e {} pre []).err = none ∧
      Agree g.noRL e 0 (feed g.noRL e {} pre [])
        (Rfc.run (rfcCfg g infl) {} 0 [] (Rfc.decode (pre.flatten.length + 1) pre.flatten)) := by
  have hi : InflAgrees g.noRL e infl := hinfl
  rcases feed_readLimit g e segs {} [] with h | ⟨pre, seg, post, h1, h2, h3, h4⟩
  · left; rw [h]; exact c13_partial g.noRL e infl hi rfl segs
  · right; exact ⟨pre, seg, post, h1, h3, by rw [h4], by rw [h4], h2, c13_partial g.noRL e infl hi rfl pre⟩

/-- C13 at full strength on correctly masked input: when every frame is masked the way §5.1 demands for the receiving
    role, Parse agrees with the RFC predicate that does enforce the masking direction -/
theorem c13_masked (g : Cfg) (e : Env) (infl : Bytes → Rfc.TInfl) (hinfl : InflAgrees g e infl) (hl : g.readLimit = 0)
    (segs : List Bytes)
    (hm : ∀ f ∈ Rfc.decode (segs.flatten.length + 1) segs.flatten, f.masked = !g.isClient) :
    Agree g e 0 (feed g e {} segs [])
      (Rfc.run (rfcStrict g infl) {} 0 [] (Rfc.decode (segs.flatten.length + 1) segs.flatten)) := by
  have := run_strict (rfcCfg g infl) _ {} 0 [] hm
  have e1 : rfcStrict g infl = { rfcCfg g infl with strict := true } := rfl
  have e2 : rfcCfg g infl = { rfcCfg g infl with strict := false } := rfl
  rw [e1, this, ← e2]
  exact c13_partial g e infl hinfl hl segs

/- Full statement (does NOT hold on the current tree — known finding "ws-mask-direction"):
   theorem c13 (g e) (hl : g.readLimit = 0) (segs) :
     Agree g e 0 (feed g e {} segs []) (Rfc.run (rfcStrict g infl) {} 0 [] (Rfc.decode (segs.flatten.length + 1) segs.flatten)) -/

def srvCfg : Cfg := { enableCompression := false, writeCompression := false, msgLimit := 0, readLimit := 0, maxFrame := 32768, isClient := false }
def nullEnv : Env := { keyAt := fun _ => [0, 0, 0, 0], deflate := id, inflate := fun _ => ⟨[], []⟩ }

/-- C13 counterexample (masking direction, RFC 6455 §5.1): a server endpoint is sent the unmasked text frame "a".
    The RFC says fail the connection; Parse delivers the message and keeps the connection open. -/
theorem c13_mask_counterexample :
    (Rfc.run (rfcStrict srvCfg (fun _ => .err)) {} 0 [] (Rfc.decode 4 [0x81, 1, 0x61])).verdict = .reject .mask ∧
    (feed srvCfg nullEnv {} [[0x81, 1, 0x61]] []).acts = [.deliver 1 [0x61]] ∧
    (feed srvCfg nullEnv {} [[0x81, 1, 0x61]] []).err = none ∧
    (feed srvCfg nullEnv {} [[0x81, 1, 0x61]] []).s.k.connClosed = false := by
  decide

/-- C13 (ping → pong): a ping is answered by a pong carrying the same payload … -/
theorem c13_ping_pong (g : Cfg) (e : Env) (k : K) (p : Bytes) (fin r1 : Bool) (hk : k.connClosed = false) (hp : p.length ≤ 125) :
    applyFrame g e k 9 p fin r1 =
      .next { k with nwrites := k.nwrites + 1 } [.write (encodeFrame g.isClient (e.keyAt k.nwrites) 10 true true p false)] :=
  apply_ping g e k p fin r1 hk hp

/-- … and a close frame is answered by a close frame (an echo when its payload is valid), after which the conn is closed -/
theorem c13_close_close (g : Cfg) (e : Env) (k : K) (p : Bytes) (fin r1 : Bool) (hk : k.connClosed = false) (hp : p.length ≤ 125) :
    ∃ a k', applyFrame g e k 8 p fin r1 = .next k' (a ++ [.closeConn]) ∧ k'.connClosed = true ∧ NoDeliver a ∧
      ((p.length = 0 ∨ (p.length ≥ 2 ∧ validCloseCode (WsF.beDec (p.take 2)) = true ∧ utf8Valid (p.drop 2) = true)) →
        a = [.write (encodeFrame g.isClient (e.keyAt k.nwrites) 8 true true p false)]) :=
  apply_close g e k p fin r1 hk hp

/-- C13 (decoder): on every byte string `nextFrame` is the RFC's base-framing decoder followed by the checks —
    non-minimal length encodings, 64-bit lengths with the top bit set and all flag combinations included -/
theorem c13_decoder (g : Cfg) (s : S) (hw : Within g s) : nextFrame g s = judge g s (Rfc.decode1 s.cache) := by
  rw [Rfc.decode1_eq]; exact nextFrame_eq_judge g s hw

/-- C13 (the independent pieces of the specification are the model's helpers): network byte order, §5.3 unmasking,
    RFC 3629 UTF-8 validity (decode the scalar, shortest form, no surrogates, ≤ U+10FFFF) -/
theorem c13_spec_helpers (key b : Bytes) :
    Rfc.beNat b = WsF.beDec b ∧ Rfc.unmask key 0 b = maskSpec key b ∧ Rfc.utf8Ok b = utf8Valid b :=
  ⟨Rfc.beNat_eq b, Rfc.unmask_eq key b, Rfc.utf8Ok_eq b⟩

/-- C13 (what is written back on a close frame): an echo of the payload when it is valid, a close frame with code 1002
    (with the reason "invalid UTF-8 bytes" for a bad reason text) otherwise -/
theorem c13_close_reply (g : Cfg) (e : Env) (k : K) (p : Bytes) :
    ∃ d, (handleWs g e k 8 p).1 = send g e k 8 d ++ [.closeConn] ∧
      ((p.length = 0 ∨ (p.length ≥ 2 ∧ validCloseCode (WsF.beDec (p.take 2)) = true ∧ utf8Valid (p.drop 2) = true)) → d = p) ∧
      (¬ (p.length = 0 ∨ (p.length ≥ 2 ∧ validCloseCode (WsF.beDec (p.take 2)) = true ∧ utf8Valid (p.drop 2) = true)) →
        d = be16 1002 ∨ d = be16 1002 ++ str "invalid UTF-8 bytes") :=
  close_reply g e k p

/-- C13 (the per-frame table below is the specification's header rule): `rfcFrameOk` = `Rfc.hdrCheck` accepts, over the
    whole header space, for a frame without payload -/
theorem c13_frame_table_is_hdrCheck :
    ∀ comp ∈ [true, false], ∀ op ∈ List.range 16, ∀ fin ∈ [true, false], ∀ r1 ∈ [true, false], ∀ r2 ∈ [true, false],
    ∀ r3 ∈ [true, false], ∀ ex ∈ [true, false],
      rfcFrameOk comp op fin r1 r2 r3 ex =
        (Rfc.hdrCheck { server := true, compress := comp, limit := 0, strict := false, infl := fun _ => .err }
          { inMsg := ex } { fin, r1, r2, r3, masked := true, op }).isNone := by
  decide

/-- C13 (tables, regenerated from the code on every run): nbio's `validFrame` is the model's, over all 1024 rows -/
theorem c13_validFrame_table : Gen.validFrameTable = modelFrameTable := validFrame_table

/-- C13 (per frame): over the whole header space the frame-level decision is the RFC's -/
theorem c13_frame_rfc :
    ∀ comp ∈ [true, false], ∀ op ∈ List.range 16, ∀ fin ∈ [true, false], ∀ r1 ∈ [true, false], ∀ r2 ∈ [true, false],
    ∀ r3 ∈ [true, false], ∀ ex ∈ [true, false],
      modelFrameOk comp op fin r1 r2 r3 ex = rfcFrameOk comp op fin r1 r2 r3 ex := frameOk_eq_rfc

/-- C13 (close codes): nbio's `validCloseCode` (all 65 536 codes, regenerated) is the model's, which is RFC 6455 §7.4 -/
theorem c13_closeCode_table (c : Nat) : validCloseCode c = inIntervals Gen.validCloseIntervals c := validCloseCode_table c
/-- … where the RFC side is written by exclusion (§7.4.1: 1004 reserved; 1005, 1006, 1015 must not be sent; §7.4.2 ranges) -/
theorem c13_closeCode_rfc (c : Nat) : validCloseCode c = Rfc.closeCodeOk c := by
  rw [Rfc.closeCodeOk_eq]; exact validCloseCode_rfc c

/-! non-vacuity: a fragmented text message with a ping in between, then an invalid close code -/
example : (feed srvCfg nullEnv {} [[0x01, 1, 0x61, 0x89, 0], [0x80, 1, 0x62, 0x88, 2, 0x03, 0xf7]] []).acts.length = 4 := by decide
example : (Rfc.run (rfcCfg srvCfg (fun _ => .err)) {} 0 [] (Rfc.decode 13 [0x01, 1, 0x61, 0x89, 0, 0x80, 1, 0x62, 0x88, 2, 0x03, 0xf7])).verdict
    = .reject .closeCode := by decide

end Ws
