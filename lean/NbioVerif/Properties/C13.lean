import NbioVerif.Lemmas.C13Table
/-! C13 — frame validation follows RFC 6455 (property theorems; see docs/ws.md) -/
namespace Ws

/-- C13 (tables, regenerated from the code on every run): nbio's `validFrame` is the model's, over all 1024 rows -/
theorem c13_validFrame_table : Gen.validFrameTable = modelFrameTable := validFrame_table

/-- C13 (per frame): over the whole header space the frame-level decision is the RFC's -/
theorem c13_frame_rfc :
    ∀ comp ∈ [true, false], ∀ op ∈ List.range 16, ∀ fin ∈ [true, false], ∀ r1 ∈ [true, false], ∀ r2 ∈ [true, false],
    ∀ r3 ∈ [true, false], ∀ ex ∈ [true, false],
      modelFrameOk comp op fin r1 r2 r3 ex = rfcFrameOk comp op fin r1 r2 r3 ex := frameOk_eq_rfc

/-- C13 (close codes): nbio's `validCloseCode` (all 65 536 codes, regenerated) is the model's, which is RFC 6455 §7.4 -/
theorem c13_closeCode_table (c : Nat) : validCloseCode c = inIntervals Gen.validCloseIntervals c := validCloseCode_table c
theorem c13_closeCode_rfc (c : Nat) : validCloseCode c = Rfc.closeCodeOk c := validCloseCode_rfc c

end Ws
