import NbioVerif.Lemmas.DeadlineSteps
import NbioVerif.Lemmas.DeadlineSpecAgree
/-!
# C16 — deadlines fire on time, never early, can be renewed or cleared; no stale timer

All theorems are about the Deadline model M8 (`Model/Deadline.lean`), over **every** sequence of operations, clock
ticks, runtime timer firings and callback schedulings (`run` skips actions that are not enabled, so an arbitrary
`List Op` is an arbitrary interleaving). `fixed` is the repaired tree (`flush()` stops the write timer when it
empties the queue); `pinned` is the tree as pinned, for which `c16_pinned_stale_counterexample` exhibits defect #20.

Go timer semantics (`time.AfterFunc`, `Reset`, `Stop`) are *modelled* (see the model's header), not proved.
-/
namespace Deadline

/-! ## the property theorems -/

/-- **The model's "deadline in force" is the property's.** `specRun` (Model/DeadlineSpec.lean) computes the deadline
    in force from the operation list alone, in the property's words (set/renew, clear, a write or flush that empties
    the backlog, close), knowing nothing of timer handles, runtime timers or callbacks. For every history in which no
    timer has closed the connection, the model's ghost field `f` — written by the same helpers as the code-level
    fields — coincides with it (as do clock, `closed` and, while open, the backlog). So the "in force" the other
    theorems speak about is not an artefact of the helpers. -/
theorem c16_force_is_spec (ops : List Op) :
    let s := run fixed init ops
    let t := specRun {} ops
    (∀ d, s.cause ≠ some (.timeout d)) →
      (s.t .r).f = t.fr ∧ (s.t .w).f = t.fw ∧ s.closed = t.closed ∧ s.now = t.now ∧
        (s.closed = false → s.backlog = t.backlog) := by
  intro s t hnt
  have h := agree_run ops init {} inv_init agree_init hnt
  exact ⟨h.fr, h.fw, h.closed, h.now, h.backlog⟩

/-- **Never early, and only for the deadline in force.** Whatever the interleaving of Set*Deadline calls, writes,
    flushes, closes, ticks, timer firings and callbacks: if the connection was closed with the read (write) timeout
    error, then the closing callback belongs to a timer of that direction that the runtime fired at a tick
    `tFire` with `deadline in force = when ≤ tFire` — the timer was armed for exactly the deadline the property
    considers in force at that moment (not a cleared, superseded or drained one), and that deadline had been reached. -/
theorem c16_never_early (ops : List Op) (d : Dir) :
    let s := run fixed init ops
    s.cause = some (.timeout d) →
      ∃ r, s.closedBy = some r ∧ r.dir = d ∧ r.inForce = some r.when ∧ r.when ≤ r.tFire ∧ r.tFire ≤ s.now := by
  intro s hc
  have hi : Inv s := inv_run ops inv_init
  obtain ⟨r, hr, hd⟩ := hi.cause_to d hc
  obtain ⟨ok, _⟩ := hi.by_ r hr
  exact ⟨r, hr, hd, ok.force, ok.due, ok.past⟩

/-- **A started callback always stems from an expired deadline in force** (so "no callback of `d` is pending",
    the hypothesis of the next two theorems, holds in particular as long as no deadline in force for `d` has been
    reached without being renewed). -/
theorem c16_pending_only_after_expiry (ops : List Op) :
    let s := run fixed init ops
    s.closed = false → ∀ r ∈ s.pend, r.inForce = some r.when ∧ r.when ≤ r.tFire ∧ r.tFire ≤ s.now := by
  intro s hc r hr
  have ok := (inv_run (s := init) ops inv_init).pend hc r hr
  exact ⟨ok.force, ok.due, ok.past⟩

/-- **Renewal postpones.** Take any reachable open state in which no callback of direction `d` has been started
    (true whenever the renewal happens before the old deadline, by `c16_pending_only_after_expiry`), renew the
    deadline to `t'` (`arm` is what `Set*Deadline(t')`, `SetDeadline(t')` per direction, and the keep-alive renewals
    execute on an open connection), and continue with any interleaving that does not set `d`'s deadline again: a
    close with `d`'s timeout error can only come from a timer armed for `t'` that fired at a tick `≥ t'`. -/
theorem c16_renew_postpones (pre post : List Op) (d : Dir) (t' : Nat) :
    let s₁ := run fixed init pre
    s₁.closed = false → (∀ r ∈ s₁.pend, r.dir ≠ d) → (∀ o ∈ post, arms d o = false) →
    let s₃ := run fixed (arm s₁ d t') post
    s₃.cause = some (.timeout d) →
      ∃ r, s₃.closedBy = some r ∧ r.dir = d ∧ r.when = t' ∧ t' ≤ r.tFire ∧ r.tFire ≤ s₃.now := by
  intro s₁ hc hp ho s₃ hcause
  have hi₁ : Inv s₁ := inv_run pre inv_init
  have hi₂ : Inv (arm s₁ d t') := inv_arm hi₁ hc d t'
  have hi₃ : Inv s₃ := inv_run post hi₂
  obtain ⟨r, hr, hd⟩ := hi₃.cause_to d hcause
  obtain ⟨ok, _⟩ := hi₃.by_ r hr
  have hby₁ : s₁.closedBy = none := by
    cases hq : s₁.closedBy with
    | none => rfl
    | some r =>
      have := (hi₁.by_ r hq).2
      have hcl := hi₁.closed_cause.mpr (by simp [this])
      simp [hc] at hcl
  have h₂ : Only d t' (arm s₁ d t') :=
    ⟨by right; simp [arm],
     by intro r' hr' hd'; exact absurd hd' (hp r' (by simpa [arm] using hr')),
     by intro r' hr'; simp [arm, hby₁] at hr'⟩
  have hw : r.when = t' := (only_run post h₂ hi₂ ho).by_ r hr hd
  exact ⟨r, hr, hd, hw, by rw [← hw]; exact ok.due, ok.past⟩

/-- **No stale timer.** From any reachable state in which direction `d` has no deadline in force (never set, or
    ended by a clear, by a write or a flush that emptied the backlog (write direction), see the `*_ends_force`
    lemmas) and no callback of `d` has been started, every continuation that does not set `d`'s deadline again
    never closes the connection with `d`'s timeout error. -/
theorem c16_no_stale (pre post : List Op) (d : Dir) :
    let s₁ := run fixed init pre
    (s₁.t d).f = none → (∀ r ∈ s₁.pend, r.dir ≠ d) → s₁.cause ≠ some (.timeout d) →
    (∀ o ∈ post, arms d o = false) →
    (run fixed s₁ post).cause ≠ some (.timeout d) := by
  intro s₁ hf hp hcause ho
  have hi₁ : Inv s₁ := inv_run pre inv_init
  cases hc : s₁.closed with
  | true =>
    rw [(run_closed_stable post hc).2]; exact hcause
  | false =>
    have ha : (s₁.t d).a = none := by
      cases hq : (s₁.t d).a with
      | none => rfl
      | some w => have := hi₁.armed hc d w hq; rw [hf] at this; cases this
    exact (quiet_run post ⟨ha, hp, hcause⟩ ho).cause

/-- clearing ends the deadline in force -/
theorem c16_clear_ends_force (s : St) (d : Dir) (hc : s.closed = false) :
    ∀ s', step fixed s (.clear d) = some s' → (s'.t d).f = none := by
  intro s' hs; simp [step, hc] at hs; cases hs; simp [stop]

/-- `SetDeadline(zero)` ends both -/
theorem c16_clearBoth_ends_force (s : St) (d : Dir) (hc : s.closed = false) :
    ∀ s', step fixed s .clearBoth = some s' → (s'.t d).f = none := by
  intro s' hs; simp [step, hc] at hs; cases hs; cases d <;> simp [stop, St.setT, St.t]

/-- **Dial timeout.** The dial timer of `DialAsyncTimeout` is the write timer; the connect-success wrapper
    (`connected` = `SetWriteDeadline(time.Time{})`) ends it and stops the timer, so by `c16_no_stale` an established
    connection is never closed later by the dial timeout. (A wrapper that clears the *read* deadline instead leaves
    the hypothesis of `c16_no_stale` unmet: that is the stale close the harness looks for.) -/
theorem c16_connected_ends_dial_timer (s : St) (hc : s.closed = false) :
    ∀ s', step fixed s .connected = some s' → (s'.t .w).f = none ∧ (s'.t .w).a = none := by
  intro s' hs; simp [step, hc] at hs; cases hs; simp [stop]

/-- a `Write`/`Writev` that ends with an empty queue ends the write deadline in force -/
theorem c16_write_drain_ends_force (s : St) (hc : s.closed = false) (hb : s.backlog = false) :
    ∀ s', step fixed s (.write .full) = some s' → (s'.t .w).f = none ∧ s'.backlog = false := by
  intro s' hs; simp [step, stepWrite, hc, hb] at hs; cases hs; simp [stop, hb]

/-- the poller's `flush` that empties the backlog ends the write deadline in force **and stops the timer**
    (on the repaired tree; this is exactly what the pinned tree lacks) -/
theorem c16_flush_drain_ends_force (s : St) (hc : s.closed = false) (hb : s.backlog = true) :
    ∀ s', step fixed s (.flush .full) = some s' → (s'.t .w).f = none ∧ (s'.t .w).a = none ∧ s'.backlog = false := by
  intro s' hs; simp [step, stepFlush, hc, hb, fixed] at hs; cases hs; simp [stop]

/-- closing (by the user, the poller, an I/O error or a timeout) ends both deadlines in force, for good -/
theorem c16_closed_no_force (ops : List Op) (d : Dir) :
    let s := run fixed init ops
    s.closed = true → (s.t d).f = none := by
  intro s hc
  exact (inv_run (s := init) ops inv_init).closed_f hc d

/-- **First cause wins / nothing after close.** Once the connection is closed, no later timer, callback or call
    changes the recorded cause (a timer left over can at most find the connection closed). -/
theorem c16_cause_stable (g : Cfg) (pre post : List Op) :
    let s₁ := run g init pre
    s₁.closed = true → (run g s₁ post).closed = true ∧ (run g s₁ post).cause = s₁.cause := by
  intro s₁ hc
  exact run_closed_stable post hc

/-- **It fires (enabledness form).** In every reachable open state in which the deadline in force for `d` has been
    reached, either the runtime may fire `d`'s timer now, or a callback of `d` is already started, and running it
    closes the connection with `d`'s timeout error. (That the runtime and the scheduler then do so within a bounded
    real time is Go's timer contract — measured by the harness, not proved.) -/
theorem c16_due_is_enabled (ops : List Op) (d : Dir) (w : Nat) :
    let s := run fixed init ops
    s.closed = false → (s.t d).f = some w → w ≤ s.now →
      (∃ s', step fixed s (.fire d) = some s') ∨
      (∃ i s', step fixed s (.cb i) = some s' ∧ s'.closed = true ∧ s'.cause = some (.timeout d)) := by
  intro s hc hf hw
  have hi : Inv s := inv_run ops inv_init
  rcases hi.inforce hc d w hf with ha | ⟨r, hr, hrd, _⟩
  · left
    simp [step, stepFire, ha, hw]
  · right
    obtain ⟨i, hi', hget⟩ := List.mem_iff_getElem.mp hr
    refine ⟨i, closeWith (s.withPend (s.pend.eraseIdx i)) (.timeout r.dir) (some r), ?_, ?_, ?_⟩
    · simp only [step, stepCb]
      rw [List.getElem?_eq_getElem hi', hget]
    · simp [closeWith, hc, stop]
    · simp [closeWith, hc, stop, hrd]

/-- **A deadline that is not renewed closes the connection with its timeout error.** In every reachable open state
    in which `d`'s timer is armed for a deadline that has been reached: the runtime's `fire` is enabled, and the
    callback it starts — run before anything else touches the connection — closes it with `d`'s timeout error.
    (That both happen within a bounded real time is Go's timer contract, measured by `c16-missed`.) -/
theorem c16_fire_then_cb_closes (ops : List Op) (d : Dir) (w : Nat) :
    let s := run fixed init ops
    s.closed = false → (s.t d).a = some w → w ≤ s.now →
      ∃ s₁ s₂, step fixed s (.fire d) = some s₁ ∧ step fixed s₁ (.cb s.pend.length) = some s₂ ∧
        s₂.closed = true ∧ s₂.cause = some (.timeout d) := by
  intro s hc ha hw
  let r : Rec := { dir := d, when := w, tFire := s.now, inForce := (s.t d).f }
  let s₁ : St := (s.setT d { s.t d with a := none }).withPend (s.pend ++ [r])
  have h1 : step fixed s (.fire d) = some s₁ := by simp [step, stepFire, ha, hw, s₁, r]
  have hget : s₁.pend[s.pend.length]? = some r := by
    simp only [s₁, withPend_pend]
    rw [List.getElem?_append_right (Nat.le_refl _)]
    simp
  have hc₁ : s₁.closed = false := by simp [s₁, hc]
  refine ⟨s₁, closeWith (s₁.withPend (s₁.pend.eraseIdx s.pend.length)) (.timeout r.dir) (some r), h1, ?_, ?_, ?_⟩
  · simp only [step, stepCb, hget]
  · simp [closeWith, hc₁, stop]
  · simp [closeWith, hc₁, stop, r]

/-- "the deadline in force for `d` has not been reached": hypothesis of the next lemma, per prefix of the history -/
def notDue (d : Dir) (s : St) : Prop := ∀ w, (s.t d).f = some w → s.now < w

/-- along `os` from `s`, after every step the deadline in force for `d` is still ahead -/
def NeverDue (d : Dir) : St → List Op → Prop
  | _, [] => True
  | s, o :: os => match step fixed s o with
    | some s' => notDue d s' ∧ NeverDue d s' os
    | none => NeverDue d s os

/-- **No callback before the first expiry.** If along a history the deadline in force for `d` was never reached (each
    renewal or clear came before expiry) and the connection is still open, no callback of `d` has been started — the
    hypothesis of `c16_renew_postpones` and `c16_no_stale`, derived instead of assumed. -/
theorem c16_no_callback_before_first_expiry (d : Dir) (os : List Op) :
    ∀ (s : St), Inv s → notDue d s → (∀ r ∈ s.pend, r.dir ≠ d) → NeverDue d s os →
      (run fixed s os).closed = false → ∀ r ∈ (run fixed s os).pend, r.dir ≠ d := by
  induction os with
  | nil => intro s _ _ hp _ _; exact hp
  | cons o os ih =>
    intro s hi hnd hp hnev hopen
    simp only [run] at hopen ⊢
    simp only [NeverDue] at hnev
    cases hs : step fixed s o with
    | none => simp only [hs] at hnev hopen ⊢; exact ih s hi hnd hp hnev hopen
    | some s' =>
      simp only [hs] at hnev hopen ⊢
      have hi' := inv_step hi hs
      -- the connection was open before the step too (closed is final)
      have hc : s.closed = false := by
        cases hq : s.closed with
        | false => rfl
        | true =>
          have h1 := (step_closed_stable hs hq).1
          have h2 := (run_closed_stable (g := fixed) os h1).1
          rw [h2] at hopen; cases hopen
      refine ih s' hi' hnev.1 ?_ hnev.2 hopen
      -- the step adds no record of `d`: only `fire d` could, and `d`'s timer is not due
      intro r hr
      cases o with
      | fire d' =>
        simp only [step, stepFire] at hs
        split at hs
        · rename_i w ha
          split at hs
          · rename_i hw
            cases hs
            simp only [withPend_pend] at hr
            rcases List.mem_append.mp hr with hr | hr
            · exact hp r hr
            · have := List.mem_singleton.mp hr
              subst this
              intro he
              simp only at he
              subst he
              have hf := hi.armed hc d' w ha
              have := hnd w hf
              omega
          · cases hs
        · cases hs
      | cb i =>
        simp only [step, stepCb] at hs
        split at hs
        · cases hs
          have hsub : r ∈ s.pend := by
            unfold closeWith at hr
            split at hr
            · exact List.mem_of_mem_eraseIdx (by simpa using hr)
            · exact List.mem_of_mem_eraseIdx (by simpa [stop] using hr)
          exact hp r hsub
        · cases hs
      | set d' t => simp only [step] at hs; cases hs; split at hr <;> first | exact hp r hr | exact hp r (by simpa [arm] using hr)
      | clear d' => simp only [step] at hs; cases hs; split at hr <;> first | exact hp r hr | exact hp r (by simpa [stop] using hr)
      | setBoth t => simp only [step] at hs; cases hs; split at hr <;> first | exact hp r hr | exact hp r (by simpa [arm] using hr)
      | clearBoth => simp only [step] at hs; cases hs; split at hr <;> first | exact hp r hr | exact hp r (by simpa [stop] using hr)
      | ka n => simp only [step] at hs; cases hs; split at hr <;> first | exact hp r hr | exact hp r (by simpa [arm] using hr)
      | wto n => simp only [step] at hs; cases hs; split at hr <;> first | exact hp r hr | exact hp r (by simpa [arm] using hr)
      | dial n => simp only [step] at hs; cases hs; split at hr <;> first | exact hp r hr | exact hp r (by simpa [arm] using hr)
      | connected => simp only [step] at hs; cases hs; split at hr <;> first | exact hp r hr | exact hp r (by simpa [stop] using hr)
      | tick n => simp only [step] at hs; cases hs; exact hp r (by simpa using hr)
      | close =>
        simp only [step] at hs; cases hs
        unfold closeWith at hr
        split at hr
        · exact hp r hr
        · exact hp r (by simpa [stop] using hr)
      | write k =>
        simp only [step] at hs; cases hs
        have : (stepWrite s k).pend = s.pend := by
          unfold stepWrite
          split
          · rfl
          · split
            · cases k <;> simp [errClose, unforce]
            · cases k <;> simp [errClose, unforce, stop]
        rw [this] at hr; exact hp r hr
      | flush k =>
        simp only [step] at hs; cases hs
        have : (stepFlush fixed s k).pend = s.pend := by
          unfold stepFlush
          split
          · rfl
          · split
            · rfl
            · cases k <;> simp [errClose, unforce, stop, fixed]
        rw [this] at hr; exact hp r hr

/-- **Defect #20 on the pinned tree** (`flush()` does not stop the write timer): write deadline 10, a write that
    leaves a backlog, the poller drains it, nothing else happens — at tick 10 the stale timer closes the idle,
    fully flushed connection with the write-timeout error although no write deadline is in force. -/
theorem c16_pinned_stale_counterexample :
    let s := run pinned init [.set .w 10, .write .short, .flush .full, .tick 10, .fire .w, .cb 0]
    s.cause = some (.timeout .w) ∧ s.backlog = false ∧
      (∃ r, s.closedBy = some r ∧ r.inForce = none) := by
  refine ⟨by decide, by decide, ?_⟩
  exact ⟨{ dir := .w, when := 10, tFire := 10, inForce := none }, by decide⟩

/-- the same schedule on the repaired tree: the timer is gone after the flush, nothing fires -/
example :
    (run fixed init [.set .w 10, .write .short, .flush .full, .tick 10, .fire .w, .cb 0]).closed = false := by
  decide

/-! ## non-vacuity -/

/-- a read deadline that is not renewed closes with the read-timeout error at its tick -/
example : (run fixed init [.set .r 5, .tick 5, .fire .r, .cb 0]).cause = some (.timeout .r) := by decide
/-- the independent fold on the defect-#20 history: after the draining flush no write deadline is in force -/
example : (specRun {} [.set .w 10, .write .short, .flush .full, .tick 10]).fw = none := by decide
/-- it cannot fire a tick earlier (`fire` is skipped as disabled) -/
example : (run fixed init [.set .r 5, .tick 4, .fire .r, .cb 0]).closed = false := by decide
/-- renewal before expiry postpones; the renewed deadline then fires -/
example : (run fixed init [.set .r 5, .tick 3, .set .r 9, .tick 2, .fire .r, .cb 0]).closed = false := by decide
example : (run fixed init [.set .r 5, .tick 3, .set .r 9, .tick 6, .fire .r, .cb 0]).cause = some (.timeout .r) := by
  decide
/-- a renewal racing a started callback loses: the callback still closes (two-step fire) -/
example : (run fixed init [.set .r 5, .tick 5, .fire .r, .set .r 50, .cb 0]).cause = some (.timeout .r) := by decide
/-- clear, then nothing fires; hypotheses of `c16_no_stale` are met after the clear -/
example : let s := run fixed init [.set .w 5, .tick 1, .clear .w]
    (s.t .w).f = none ∧ s.pend = [] ∧ s.cause = none := by decide
/-- keep-alive: each `ka` renewal postpones; silence closes -/
example : (run fixed init [.ka 10, .tick 8, .ka 10, .tick 8, .fire .r, .cb 0]).closed = false := by decide
example : (run fixed init [.ka 10, .tick 8, .ka 10, .tick 10, .fire .r, .cb 0]).cause = some (.timeout .r) := by decide
/-- dial timeout: a connection established before the timeout is not closed by it; an unanswered dial is -/
example : (run fixed init [.dial 10, .tick 2, .connected, .tick 20, .fire .w, .cb 0]).closed = false := by decide
example : (run fixed init [.dial 10, .tick 10, .fire .w, .cb 0]).cause = some (.timeout .w) := by decide
/-- user close first: a timer firing later finds the connection closed -/
example : (run fixed init [.setBoth 5, .close, .tick 9, .fire .r, .cb 0]).cause = some .user := by decide
/-- an I/O error close leaves the timers running, their callbacks do nothing -/
example : (run fixed init [.setBoth 5, .write .err, .tick 9, .fire .r, .cb 0]).cause = some .ioerr := by decide

end Deadline
