import NbioVerif.Lemmas.WsRoundTrip
import NbioVerif.Lemmas.WsMaskProof
import NbioVerif.Lemmas.WsTrunc
/-! C12 — WebSocket message round trip: framing, masking, fragmentation, compression.

    Sender: `Ws.writeMessage` (WriteMessage / writeFrame) on an endpoint with configuration `gs` and environment `es`
    (mask key per frame, deflate); `Ws.wireOf gs es 0 ms` is everything it writes for the message list `ms`.
    Receiver: `Ws.feed gr er {} segs []` = successive Parse calls on any segmentation `segs` of those bytes. -/
namespace Ws

/-- C12 (main theorem): any list of text/binary messages (with ping/pong messages in between) written by one endpoint is
    delivered to the other endpoint's message handler exactly once, in order, with the same type and payload and without
    error — for both roles (`gs.isClient`), every 4-byte mask key per frame (the bytes are those of `appWrites`: the sequence of `appWrite` calls the
    model driver runs, proved equal to `wireOf`), every frame-size limit `gs.maxFrame > 0`
    (any fragmentation), with or without per-message compression for every codec that satisfies the round-trip law
    (`MsgOK.codec`), every message limit that admits the messages, and every segmentation of the byte stream into reads.
    `MsgOK`: text payloads are valid UTF-8, control payloads are at most 125 bytes, sizes below 2^63 and within the limit. -/
theorem c12_roundtrip (gs gr : Cfg) (es er : Env) (hkeys : ∀ i, (es.keyAt i).length = 4) (hmf : gs.maxFrame > 0)
    (hcomp : gs.writeCompression = true → gr.enableCompression = true) (hrl : gr.readLimit = 0)
    (ms : List (Nat × Bytes)) (hok : ∀ m ∈ ms, MsgOK gs gr es er m.1 m.2)
    (segs : List Bytes) (hsegs : segs.flatten = appWrites gs es {} ms) :
    delivs (feed gr er {} segs []).acts = dataOf ms ∧ (feed gr er {} segs []).err = none := by
  rw [appWrites_eq_wireOf gs es ms {} rfl] at hsegs
  have hw : Within gr {} := by intro _; simp [msgLen, K.len]
  have hnf : nextFrame gr {} = .need := by simp [nextFrame, decodeHdr]
  have hobs := feed_flatten gr er hrl segs {} [] hw hnf
  obtain ⟨k', a, _, hd, hrun⟩ := recv_messages gr gs er es hkeys hmf hcomp ms 0 {} [] ⟨rfl, rfl, rfl, rfl⟩ hok
  simp only [List.nil_append] at hobs hrun
  rw [hsegs] at hobs
  have hrun' : run gr er { cache := wireOf gs es 0 ms, k := ({} : S).k } [] = ⟨{ cache := [], k := k' }, a, none⟩ := hrun
  rw [hrun'] at hobs
  have ha : (feed gr er {} segs []).acts = a := by
    have := congrArg (fun o => o.1) hobs; simpa [PR.obs] using this
  have he : (feed gr er {} segs []).err = none := by
    have := congrArg (fun o => o.2.1) hobs; simpa [PR.obs] using this
  exact ⟨by rw [ha, hd], he⟩

/-- C12 (content restriction made explicit): a text message whose (inflated) payload is not valid UTF-8 is NOT delivered:
    the receiver answers with a close frame (1002 "invalid UTF-8 bytes") and closes the conn. `c12_roundtrip` therefore
    speaks about valid UTF-8 text and arbitrary binary payloads (`MsgOK.text`), as RFC 6455 §5.6/§8.1 demands. -/
theorem c12_invalid_text_not_delivered (g : Cfg) (e : Env) (k1 : K) (out : Bytes) (hr : inflOf g e k1 = .ok out)
    (hk : k1.connClosed = false) (h1 : k1.msgType = 1) (hu : utf8Valid out = false) :
    ∃ a k', finishMsg g e k1 = .next k' (a ++ [.closeConn]) ∧ k'.connClosed = true ∧ NoDeliver a :=
  finish_badutf8 g e k1 out hr hk h1 hu

/-- C12 (truncWriter and flateReaderTail are inverse): what the receiver hands to the inflater is the sender's raw deflate
    stream followed by a final empty stored block, for every chunking of a stream that ends with the sync-flush marker
    (`flateReaderTail` is the constant regenerated from the code) -/
theorem c12_trunc_tail (cs : List Bytes) (body : Bytes) (h : cs.flatten = body ++ [0, 0, 255, 255]) :
    (twWrites [] cs).1 ++ Gen.flateReaderTail = cs.flatten ++ [1, 0, 0, 255, 255] := trunc_tail cs body h

/-- C12 (masking): the strided `maskXOR` (64-byte blocks of 8-byte words, 8-byte words, byte tail) is the bytewise
    `b[i] ^= key[i % 4]`, for every length and key … -/
theorem c12_mask_fast (key b : Bytes) (hk : key.length = 4) : maskFast key b = maskSpec key b := maskFast_eq_spec key b hk

/-- … and unmasking what was masked with the same key gives the payload back -/
theorem c12_mask_involutive (key b : Bytes) (hk : key.length = 4) : maskFast key (maskFast key b) = b := maskFast_involutive key b hk

/-- C12 (header): the three length encodings (7 bit, 16 bit, 64 bit) decode to the encoded header, whatever follows -/
theorem c12_header (h : WsF.Hdr) (tail : Bytes) (hop : h.opcode < 16) (hlen : h.len < 2 ^ 63) :
    WsF.decHdr (WsF.encHdr h ++ tail) = some (h, (WsF.encHdr h).length) := WsF.dec_enc h tail hop hlen

/-- C12 (one frame): whatever follows in the receiver's cache, `nextFrame` hands out exactly the frame `writeFrame`
    wrote (opcode, FIN, RSV1, payload, bytes consumed) for either role, any mask key, any length class -/
theorem c12_frame (gr : Cfg) (isClient : Bool) (key : Bytes) (hk : key.length = 4) (s : S) (opcode : Nat) (so fin : Bool)
    (data : Bytes) (rsv1 : Bool) (tail : Bytes)
    (hcache : s.cache = encodeFrame isClient key opcode so fin data rsv1 ++ tail)
    (hop : opcode < 16) (hlen : data.length < 2 ^ 63)
    (hsz : sizeCheck gr (msgLen s) (infoOf isClient opcode so fin data rsv1) = none)
    (hv : validFrame gr (infoOf isClient opcode so fin data rsv1).opcode fin rsv1 false false s.k.expecting = none) :
    nextFrame gr s = .frame (encodeFrame isClient key opcode so fin data rsv1).length
      (infoOf isClient opcode so fin data rsv1).opcode data fin rsv1 :=
  nextFrame_encodeFrame gr isClient key hk s opcode so fin data rsv1 tail hcache hop hlen hsz hv

/-- C12 (truncWriter): however `flate.Writer` chunks its output into `Write` calls, `truncWriter` passes on the stream
    without its last four bytes (the `00 00 ff ff` of the sync flush that permessage-deflate omits and the reader's
    `flateReaderTail` puts back): passed on ++ held back = stream, |held back| = min 4 |stream| -/
theorem c12_truncWriter (cs : List Bytes) :
    (twWrites [] cs).1 ++ (twWrites [] cs).2 = cs.flatten ∧ (twWrites [] cs).2.length = min 4 cs.flatten.length := by
  have := twWrites_spec cs [] (by simp)
  simpa using this

/-- C12 (segmentation): any segmentation of any input gives the same callbacks, replies, error and final state as one
    Parse call on the whole input -/
theorem c12_segmentation (g : Cfg) (e : Env) (hl : g.readLimit = 0) (segs : List Bytes) :
    (feed g e {} segs []).obs = (feed g e {} [segs.flatten] []).obs :=
  feed_segmentation g e hl segs {} (by intro _; simp [msgLen, K.len]) (by simp [nextFrame, decodeHdr])

/-! non-vacuity: a client (masking) sends an empty text message, a ping and a 5-byte binary message in 2-byte fragments;
    the server receives the bytes one at a time -/
def cliCfg : Cfg := { enableCompression := false, writeCompression := false, msgLimit := 0, readLimit := 0, maxFrame := 2, isClient := true }
def srvCfg' : Cfg := { cliCfg with isClient := false }
def keyEnv : Env := { keyAt := fun i => [UInt8.ofNat i, 7, 9, 11], deflate := id, inflate := fun _ => ⟨[], []⟩ }
def demoMsgs : List (Nat × Bytes) := [(1, []), (9, [1]), (2, [1, 2, 3, 4, 5])]

/-- non-vacuity of the compression branch: a codec that satisfies `MsgOK.codec` (stored, one read, EOF with the data),
    both endpoints compressing, limit 16 -/
def zCli : Cfg := { enableCompression := true, writeCompression := true, msgLimit := 16, readLimit := 0, maxFrame := 3, isClient := true }
def zSrv : Cfg := { zCli with isClient := false }
def zEnv : Env := { keyAt := fun i => [UInt8.ofNat i, 7, 9, 11], deflate := fun x => 42 :: x,
                    inflate := fun m => ⟨m.drop 1, [⟨64, m.length - 1, 1⟩]⟩ }
example : readAll zSrv.msgLimit ((zEnv.deflate [1, 2, 3]).length * 2) (zEnv.inflate (zEnv.deflate [1, 2, 3])) = .ok [1, 2, 3] := by decide
example : delivs (feed zSrv zEnv {} ((appWrites zCli zEnv {} [(2, [1, 2, 3]), (1, [0x61])]).map fun b => [b]) []).acts = [(2, [1, 2, 3]), (1, [0x61])] := by
  decide

example : (wireOf cliCfg keyEnv 0 demoMsgs).length = 6 + 7 + 3 * 6 + 2 + 2 + 1 := by decide
example : delivs (feed srvCfg' keyEnv {} ((wireOf cliCfg keyEnv 0 demoMsgs).map fun b => [b]) []).acts = [(1, []), (2, [1, 2, 3, 4, 5])] := by
  decide

end Ws
