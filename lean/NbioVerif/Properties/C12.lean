import NbioVerif.Lemmas.C12Frame
/-! C12 — WebSocket message round trip (property theorems; see docs/ws.md) -/
namespace Ws

/-- C12 (masking): unmasking what was masked with the same key gives the payload back -/
theorem c12_mask_involutive (key b : Bytes) : maskSpec key (maskSpec key b) = b := maskSpec_involutive key b

/-- C12 (one frame): whatever follows in the receiver's cache, `nextFrame` hands out exactly the frame `writeFrame`
    wrote (opcode, FIN, RSV1, payload, bytes consumed) for either role, any mask key, any length class -/
theorem c12_frame (gr : Cfg) (isClient : Bool) (key : Bytes) (hk : key.length = 4) (s : S) (opcode : Nat) (so fin : Bool)
    (data : Bytes) (rsv1 : Bool) (tail : Bytes)
    (hcache : s.cache = encodeFrame isClient key opcode so fin data rsv1 ++ tail)
    (hop : opcode < 16) (hlen : data.length < 2 ^ 63)
    (hsz : sizeCheck gr (msgLen s) (infoOf isClient opcode so fin data rsv1) = none)
    (hv : validFrame gr (infoOf isClient opcode so fin data rsv1).opcode fin rsv1 false false s.expecting = none) :
    nextFrame gr s = .frame (encodeFrame isClient key opcode so fin data rsv1).length
      (infoOf isClient opcode so fin data rsv1).opcode data fin rsv1 :=
  nextFrame_encodeFrame gr isClient key hk s opcode so fin data rsv1 tail hcache hop hlen hsz hv

end Ws
