import NbioVerif.Lemmas.WsRoundTrip
import NbioVerif.Lemmas.WsMaskProof
import NbioVerif.Lemmas.WsTrunc
import NbioVerif.Lemmas.WsHandshake
import NbioVerif.Lemmas.WsUpProof
import NbioVerif.Lemmas.WsSendQ
/-! C12 — WebSocket message round trip: framing, masking, fragmentation, compression.

    Sender: `Ws.writeMessage` (WriteMessage / writeFrame) on an endpoint with configuration `gs` and environment `es`
    (mask key per frame, deflate); `Ws.wireOf gs es 0 ms` is everything it writes for the message list `ms`.
    Receiver: `Ws.feed gr er {} segs []` = successive Parse calls on any segmentation `segs` of those bytes. -/
namespace Ws

/-- C12 (main theorem): any list of text/binary messages (with ping/pong messages in between) written by one endpoint is
    delivered to the other endpoint's message handler exactly once, in order, with the same type and payload and without
    error — for both roles (`gs.isClient`), every 4-byte mask key per frame (the bytes are those of `appWrites`: the sequence of `appWrite` calls the
    model driver runs, proved equal to `wireOf`), every frame-size limit `gs.maxFrame > 0`
    (any fragmentation), with or without per-message compression for every codec that satisfies the round-trip law
    (`MsgOK.codec`), every message limit that admits the messages, and every segmentation of the byte stream into reads.
    `MsgOK`: text payloads are valid UTF-8, control payloads are at most 125 bytes, sizes below 2^63 and within the limit. -/
theorem c12_roundtrip (gs gr : Cfg) (es er : Env) (hkeys : ∀ i, (es.keyAt i).length = 4) (hmf : gs.maxFrame > 0)
    (hcomp : gs.writeCompression = true → gr.enableCompression = true) (hrl : gr.readLimit = 0)
    (ms : List (Nat × Bytes)) (hok : ∀ m ∈ ms, MsgOK gs gr es er m.1 m.2)
    (segs : List Bytes) (hsegs : segs.flatten = appWrites gs es {} ms) :
    delivs (feed gr er {} segs []).acts = dataOf ms ∧ (feed gr er {} segs []).err = none := by
  rw [appWrites_eq_wireOf gs es ms {} rfl] at hsegs
  have hw : Within gr {} := by intro _; simp [msgLen, K.len]
  have hnf : nextFrame gr {} = .need := by simp [nextFrame, decodeHdr]
  have hobs := feed_flatten gr er hrl segs {} [] hw hnf
  obtain ⟨k', a, _, hd, hrun⟩ := recv_messages gr gs er es hkeys hmf hcomp ms 0 {} [] ⟨rfl, rfl, rfl, rfl⟩ hok
  simp only [List.nil_append] at hobs hrun
  rw [hsegs] at hobs
  have hrun' : run gr er { cache := wireOf gs es 0 ms, k := ({} : S).k } [] = ⟨{ cache := [], k := k' }, a, none⟩ := hrun
  rw [hrun'] at hobs
  have ha : (feed gr er {} segs []).acts = a := by
    have := congrArg (fun o => o.1) hobs; simpa [PR.obs] using this
  have he : (feed gr er {} segs []).err = none := by
    have := congrArg (fun o => o.2.1) hobs; simpa [PR.obs] using this
  exact ⟨by rw [ha, hd], he⟩

/-- C12 (bounded send queue, asynchronous writes): a `WriteMessage` through a send queue of `size` slots with `qlen` taken is
    all or nothing — accepted: it is exactly the `appWrite` of the main theorem (same frames, same state; so `c12_roundtrip`
    speaks about the accepted messages) and each of its frames had a slot; refused: not one frame was queued and the state,
    frame counter included, is untouched — the stream stays intact and the next accepted message is delivered as if the
    refused one had never been written. -/
theorem c12_sendq_all_or_nothing (g : Cfg) (e : Env) (k : K) (size qlen op : Nat) (data : Bytes) (hmf : g.maxFrame > 0) :
    ((appWriteQ g e k size qlen op data).err = none ∧
      appWrite g e k op data = ((appWriteQ g e k size qlen op data).k, .ok (appWriteQ g e k size qlen op data).wrote) ∧
      (appWriteQ g e k size qlen op data).qlen = qlen + (appWriteQ g e k size qlen op data).wrote.length ∧
      (appWriteQ g e k size qlen op data).qlen ≤ size) ∨
    ((appWriteQ g e k size qlen op data).err ≠ none ∧ (appWriteQ g e k size qlen op data).wrote = [] ∧
      (appWriteQ g e k size qlen op data).k = k ∧ (appWriteQ g e k size qlen op data).qlen = qlen) :=
  appWriteQ_all_or_nothing g e k size qlen op data hmf

/-- C12 (a batch through the send queue, the clause the `sendq=` oracle judges): whatever the queue size, its fill and the
    batch, if nothing drains the queue meanwhile the receiver is handed exactly the data messages whose `WriteMessage` was
    accepted (`(appWritesQ …).2`, a sub-list of the batch) — each once, in order, type and payload unchanged, no error — for
    every segmentation: a refused message delivers nothing and does not disturb the ones around it. -/
theorem c12_sendq_batch (gs gr : Cfg) (es er : Env) (hkeys : ∀ i, (es.keyAt i).length = 4) (hmf : gs.maxFrame > 0)
    (hcomp : gs.writeCompression = true → gr.enableCompression = true) (hrl : gr.readLimit = 0)
    (size qlen : Nat) (ms : List (Nat × Bytes)) (hok : ∀ m ∈ ms, MsgOK gs gr es er m.1 m.2)
    (segs : List Bytes) (hsegs : segs.flatten = (appWritesQ gs es size {} qlen ms).1) :
    delivs (feed gr er {} segs []).acts = dataOf (appWritesQ gs es size {} qlen ms).2 ∧ (feed gr er {} segs []).err = none := by
  obtain ⟨hw, hsub⟩ := appWritesQ_eq gs es size hmf ms {} qlen
  exact c12_roundtrip gs gr es er hkeys hmf hcomp hrl _ (fun m hm => hok m (hsub m hm)) segs (by rw [hsegs, hw])

/-- C12 (the same about the function the model driver runs on a `B` line of a `sendq=` case, `Ws.batchQ`): the deflater is
    observed per message (`defls`, the `defl=` annotation: the i-th compressible message of the batch gets the i-th reported
    output).  If those outputs are the outputs of a function of the payload (`DeflTable`: no more is assumed about
    `compress/flate` here; the round-trip law is in `MsgOK.codec`), then for every queue size and fill the receiver is handed
    exactly the data messages of the batch whose call returned 0 (`acceptedOf`), each once, in order, unchanged, without
    error, in every segmentation of the bytes `batchQ` says were handed to the conn writer.
    What this does NOT say: the driver calls `batchQ` only for the sending side named by `from=` of a `sendq=` case — for
    direct-write batches it runs a hand-written fold over `appWrite` that no lemma relates to `appWrites`; `DeflTable` is a
    hypothesis on observed data (equal payloads, equal outputs) that nothing checks; both endpoints start fresh (`{}`), with
    one `Env` each, and the receiver has `readLimit = 0`, as in `c12_roundtrip`; the writer goroutine's draining is not modelled. -/
theorem c12_sendq_batch_driver (gs gr : Cfg) (base er : Env) (defl : Bytes → Bytes) (defls : List Bytes)
    (hkeys : ∀ i, (base.keyAt i).length = 4) (hmf : gs.maxFrame > 0)
    (hcomp : gs.writeCompression = true → gr.enableCompression = true) (hrl : gr.readLimit = 0)
    (size qlen : Nat) (ms : List (Nat × Bytes)) (htab : DeflTable gs defl defls 0 ms)
    (hok : ∀ m ∈ ms, MsgOK gs gr { base with deflate := defl } er m.1 m.2)
    (segs : List Bytes) (hsegs : segs.flatten = (batchQ gs base defls size {} 0 qlen ms).wire) :
    delivs (feed gr er {} segs []).acts = dataOf (acceptedOf ms (batchQ gs base defls size {} 0 qlen ms).codes) ∧
    (feed gr er {} segs []).err = none := by
  obtain ⟨hw, ha⟩ := batchQ_eq gs base defl defls size ms {} 0 qlen htab
  rw [ha]
  exact c12_sendq_batch gs gr { base with deflate := defl } er hkeys hmf hcomp hrl size qlen ms hok segs (by rw [hsegs, hw])

/-- … because the admission check counts what the fragmentation loop will write: `⌈n / maxFrame⌉` frames for the `n` bytes of
    the payload AFTER compression (one frame for an empty payload) -/
theorem c12_sendq_frames (g : Cfg) (e : Env) (i op : Nat) (data : Bytes) (ws : List Bytes) (hmf : g.maxFrame > 0)
    (hop : isControl op = false) (h : writeMessage g e i op data = .ok ws) :
    ws.length = nFrames g (wirePayload g e op data).length := writeMessage_frames g e i op data ws hmf hop h

/-- … and counting the frames of the payload BEFORE compression is not the same thing: a 2-byte message that deflates to 3
    bytes (frames of 2) is admitted to the last free slot, its second frame is refused, the first one is on the wire -/
theorem c12_sendq_precompress_counterexample :
    (appWriteQPre sqCfg sqEnv {} 1 0 2 [7, 7]).err = some .queueFull ∧ (appWriteQPre sqCfg sqEnv {} 1 0 2 [7, 7]).wrote ≠ [] :=
  precompress_count_breaks_stream

/-- C12 (content restriction made explicit): a text message whose (inflated) payload is not valid UTF-8 is NOT delivered:
    the receiver answers with a close frame (1002 "invalid UTF-8 bytes") and closes the conn. `c12_roundtrip` therefore
    speaks about valid UTF-8 text and arbitrary binary payloads (`MsgOK.text`), as RFC 6455 §5.6/§8.1 demands. -/
theorem c12_invalid_text_not_delivered (g : Cfg) (e : Env) (k1 : K) (out : Bytes) (hr : inflOf g e k1 = .ok out)
    (hk : k1.connClosed = false) (h1 : k1.msgType = 1) (hu : utf8Valid out = false) :
    ∃ a k', finishMsg g e k1 = .next k' (a ++ [.closeConn]) ∧ k'.connClosed = true ∧ NoDeliver a :=
  finish_badutf8 g e k1 out hr hk h1 hu

/-- C12 (truncWriter and flateReaderTail are inverse): what the receiver hands to the inflater is the sender's raw deflate
    stream followed by a final empty stored block, for every chunking of a stream that ends with the sync-flush marker
    (`flateReaderTail` is the constant regenerated from the code) -/
theorem c12_trunc_tail (cs : List Bytes) (body : Bytes) (h : cs.flatten = body ++ [0, 0, 255, 255]) :
    (twWrites [] cs).1 ++ Gen.flateReaderTail = cs.flatten ++ [1, 0, 0, 255, 255] := trunc_tail cs body h

/-- C12 (masking): the strided `maskXOR` (64-byte blocks of 8-byte words, 8-byte words, byte tail) is the bytewise
    `b[i] ^= key[i % 4]`, for every length and key … -/
theorem c12_mask_fast (key b : Bytes) (hk : key.length = 4) : maskFast key b = maskSpec key b := maskFast_eq_spec key b hk

/-- … and unmasking what was masked with the same key gives the payload back -/
theorem c12_mask_involutive (key b : Bytes) (hk : key.length = 4) : maskFast key (maskFast key b) = b := maskFast_involutive key b hk

/-- C12 (header): the three length encodings (7 bit, 16 bit, 64 bit) decode to the encoded header, whatever follows -/
theorem c12_header (h : WsF.Hdr) (tail : Bytes) (hop : h.opcode < 16) (hlen : h.len < 2 ^ 63) :
    WsF.decHdr (WsF.encHdr h ++ tail) = some (h, (WsF.encHdr h).length) := WsF.dec_enc h tail hop hlen

/-- C12 (one frame): whatever follows in the receiver's cache, `nextFrame` hands out exactly the frame `writeFrame`
    wrote (opcode, FIN, RSV1, payload, bytes consumed) for either role, any mask key, any length class -/
theorem c12_frame (gr : Cfg) (isClient : Bool) (key : Bytes) (hk : key.length = 4) (s : S) (opcode : Nat) (so fin : Bool)
    (data : Bytes) (rsv1 : Bool) (tail : Bytes)
    (hcache : s.cache = encodeFrame isClient key opcode so fin data rsv1 ++ tail)
    (hop : opcode < 16) (hlen : data.length < 2 ^ 63)
    (hsz : sizeCheck gr (msgLen s) (infoOf isClient opcode so fin data rsv1) = none)
    (hv : validFrame gr (infoOf isClient opcode so fin data rsv1).opcode fin rsv1 false false s.k.expecting = none) :
    nextFrame gr s = .frame (encodeFrame isClient key opcode so fin data rsv1).length
      (infoOf isClient opcode so fin data rsv1).opcode data fin rsv1 :=
  nextFrame_encodeFrame gr isClient key hk s opcode so fin data rsv1 tail hcache hop hlen hsz hv

/-- C12 (truncWriter): however `flate.Writer` chunks its output into `Write` calls, `truncWriter` passes on the stream
    without its last four bytes (the `00 00 ff ff` of the sync flush that permessage-deflate omits and the reader's
    `flateReaderTail` puts back): passed on ++ held back = stream, |held back| = min 4 |stream| -/
theorem c12_truncWriter (cs : List Bytes) :
    (twWrites [] cs).1 ++ (twWrites [] cs).2 = cs.flatten ∧ (twWrites [] cs).2.length = min 4 cs.flatten.length := by
  have := twWrites_spec cs [] (by simp)
  simpa using this

/-- C12 (segmentation): any segmentation of any input gives the same callbacks, replies, error and final state as one
    Parse call on the whole input -/
theorem c12_segmentation (g : Cfg) (e : Env) (hl : g.readLimit = 0) (segs : List Bytes) :
    (feed g e {} segs []).obs = (feed g e {} [segs.flatten] []).obs :=
  feed_segmentation g e hl segs {} (by intro _; simp [msgLen, K.len]) (by simp [nextFrame, decodeHdr])

/-- C12 (upgrade hand-off, client side): for every 101 response `head` (it starts with `HTTP/1.1 101 ` and ends with its first
    CR LF CR LF) and every websocket byte string `ws` behind it, feeding `head ++ ws` to the client connection's parser
    (`Model/WsUp.lean: upFeed`, what the driver runs on `H` lines) in ANY segmentation — the end of the response and the
    first frames in the same read, a cut inside the final CR LF CR LF, byte by byte — gives the same callbacks, replies,
    error and final state as one `Conn.Parse` call on `ws`; so every theorem about `feed` applies behind a hand-off -/
theorem c12_handoff (g : Cfg) (e : Env) (hl : g.readLimit = 0) (head ws : Bytes)
    (hpre : (head ++ ws).take 13 = statusPrefix) (hend : headEnd head = some head.length)
    (segs : List Bytes) (hsegs : segs.flatten = head ++ ws) :
    (upFeed g e {} segs []).2.obs = (feed g e {} [ws] []).obs :=
  upFeed_handoff g e hl head ws hpre hend segs hsegs

/-! ### the opening handshake decides the configuration (Model/WsHandshake.lean) -/

/-- the frame-level configuration of an endpoint after the handshake (`newConn`), given its limits -/
def cfgOfConn (c : WsH.ConnCfg) (isClient : Bool) (msgLimit readLimit maxFrame : Nat) : Cfg :=
  { enableCompression := c.enableCompression, writeCompression := c.writeCompression, msgLimit, readLimit, maxFrame, isClient }

/-- C12 (handshake round trip): for every request the Dialer renders (any options, any non-empty challenge key) and
    every Upgrader configuration that lets it pass the origin hook and adds no extension header of its own, the Upgrader
    answers 101, the Dialer accepts that response (status, Upgrade/Connection tokens, Sec-WebSocket-Accept, extension
    parameters), and BOTH ends derive the same compression setting: receive and send compression are on at both ends iff
    both sides enabled it. (Header keys are canonical as the HTTP parsers deliver them; SHA-1 is any function.) -/
theorem c12_handshake_roundtrip (sha1 : WsH.Bytes → WsH.Bytes) (u : WsH.UCfg) (d : WsH.DCfg) (key : WsH.Bytes)
    (hkey : key.isEmpty = false) (ho : u.originOk = true)
    (hx : WsH.values u.respHeader (WsH.s "Sec-Websocket-Extensions") = []) (hne : WsH.NoExtHeader u) :
    ∃ hd srv cli, WsH.upgradeDecision sha1 u (WsH.dialRequest d key) = .ok (hd, srv) ∧
      WsH.dialerAccepts sha1 d key 101 (WsH.canonHeader hd) = .ok cli ∧
      srv.enableCompression = (u.enableCompression && d.enableCompression) ∧ srv.writeCompression = (u.enableCompression && d.enableCompression) ∧
      cli.enableCompression = (u.enableCompression && d.enableCompression) ∧ cli.writeCompression = (u.enableCompression && d.enableCompression) := by
  have hc := WsH.commCheck_dial u d key hkey ho hx
  have hd := WsH.dialer_accepts sha1 u d
    { key, subprotocol := WsH.selectSubprotocol u (WsH.dialRequest d key), compress := u.enableCompression && d.enableCompression } hne
  refine ⟨_, _, _, by unfold WsH.upgradeDecision; rw [hc], hd, ?_, rfl, ?_, rfl⟩
  · cases u.enableCompression <;> cases d.enableCompression <;> rfl
  · cases u.enableCompression <;> cases d.enableCompression <;> rfl

/-- C12 (handshake ∘ round trip): the configurations the two ends derive from a successful handshake satisfy the
    compression precondition of `c12_roundtrip` in both directions, so every message list written by either end after the
    handshake is delivered unchanged by the other (stated for the server as sender; the other direction is symmetric) -/
theorem c12_handshake_then_roundtrip (sha1 : WsH.Bytes → WsH.Bytes) (u : WsH.UCfg) (d : WsH.DCfg) (key : WsH.Bytes)
    (hkey : key.isEmpty = false) (ho : u.originOk = true)
    (hx : WsH.values u.respHeader (WsH.s "Sec-Websocket-Extensions") = []) (hne : WsH.NoExtHeader u)
    (hd : WsH.Header) (srv cli : WsH.ConnCfg)
    (hup : WsH.upgradeDecision sha1 u (WsH.dialRequest d key) = .ok (hd, srv))
    (hdial : WsH.dialerAccepts sha1 d key 101 (WsH.canonHeader hd) = .ok cli)
    (ls lc mf : Nat) (hmf : mf > 0) (es er : Env) (hkeys : ∀ i, (es.keyAt i).length = 4)
    (ms : List (Nat × Bytes)) (hok : ∀ m ∈ ms, MsgOK (cfgOfConn srv false ls 0 mf) (cfgOfConn cli true lc 0 mf) es er m.1 m.2)
    (segs : List Bytes) (hsegs : segs.flatten = appWrites (cfgOfConn srv false ls 0 mf) es {} ms) :
    delivs (feed (cfgOfConn cli true lc 0 mf) er {} segs []).acts = dataOf ms ∧ (feed (cfgOfConn cli true lc 0 mf) er {} segs []).err = none := by
  obtain ⟨hd', srv', cli', h1, h2, h3, h4, h5, h6⟩ := c12_handshake_roundtrip sha1 u d key hkey ho hx hne
  rw [hup] at h1
  cases h1
  rw [hdial] at h2
  cases h2
  refine c12_roundtrip (cfgOfConn srv false ls 0 mf) (cfgOfConn cli true lc 0 mf) es er hkeys hmf ?_ rfl ms hok segs hsegs
  intro hw
  show cli.enableCompression = true
  have : srv.writeCompression = true := hw
  rw [h5, ← h4, this]

/-- C12 (handshake, refusals): whenever the Upgrader answers 101 the request had method GET, an `upgrade` token in
    Connection, a `websocket` token in Upgrade, the token 13 in Sec-WebSocket-Version (a list containing 13 is tolerated),
    a non-empty Sec-WebSocket-Key (leniency of the code: the key is NOT required to be the base64 form of 16 bytes, as
    §4.2.1 asks; no clause of C12/C13/C15 depends on it), passed the origin hook, and the caller did not smuggle in an
    extension header: every request violating one of the other MUSTs of RFC 6455 §4.2.1 is refused with a 4xx/5xx status
    and never sees 101. (Token lists are scanned by the model's `headerContains`; the harness compares that
    with an independent split-and-trim reading on every generated request.) -/
theorem c12_handshake_musts (sha1 : WsH.Bytes → WsH.Bytes) (u : WsH.UCfg) (r : WsH.Req) (hd : WsH.Header) (c : WsH.ConnCfg)
    (h : WsH.upgradeDecision sha1 u r = .ok (hd, c)) :
    r.method = WsH.s "GET" ∧ WsH.headerContains r.header (WsH.s "Connection") (WsH.s "upgrade") = true ∧
    WsH.headerContains r.header (WsH.s "Upgrade") (WsH.s "websocket") = true ∧
    WsH.headerContains r.header (WsH.s "Sec-Websocket-Version") (WsH.s "13") = true ∧
    (WsH.get r.header (WsH.s "Sec-Websocket-Key")).isEmpty = false ∧ u.originOk = true := by
  unfold WsH.upgradeDecision at h
  cases hc : WsH.commCheck u r with
  | error e => rw [hc] at h; cases h
  | ok n =>
    unfold WsH.commCheck at hc
    repeat' split at hc
    all_goals first | (cases hc; done) | skip
    rename_i h1 h2 h3 h4 h5 h6 h7
    refine ⟨by simpa using h3, by simpa using h1, by simpa using h2, by simpa using h4, by simpa using h7, by simpa using h6⟩

/-- C12 (Accept key): `Sec-WebSocket-Accept` is base64(SHA-1(key ++ GUID)) with the GUID constant of the code (regenerated) -/
theorem c12_accept_key (sha1 : WsH.Bytes → WsH.Bytes) (key : WsH.Bytes) :
    WsH.acceptKey sha1 key = WsH.b64enc (sha1 (key ++ Gen.keyGUID)) := by
  rw [WsH.keyGUID_table]; rfl

/-- C12 (handshake tables, regenerated): the token-octet table of the code is the model's `isTokenOctet` -/
theorem c12_token_table : Gen.tokenOctets = (List.range 256).map (fun n => WsH.isTokenOctet (UInt8.ofNat n)) := WsH.tokenOctets_table

/-- the key leniency, as a fact about the model of the code: a malformed (but non-empty) key is answered with 101 -/
example : (WsH.upgradeDecision (fun _ => []) { enableCompression := false, subprotocols := none, originOk := true, respHeader := [] }
    (WsH.dialRequest { enableCompression := false, subprotocols := [], host := [] } (WsH.s "x"))).isOk = true := by
  decide

/-! non-vacuity of the handshake theorems: a conforming key, and a refused request -/
example : WsH.validKey (WsH.s "dGhlIHNhbXBsZSBub25jZQ==") = true := by decide
example : (WsH.upgradeDecision (fun _ => []) { enableCompression := true, subprotocols := none, originOk := true, respHeader := [] }
    { method := WsH.s "POST", header := (WsH.dialRequest { enableCompression := true, subprotocols := [], host := [] } (WsH.s "dGhlIHNhbXBsZSBub25jZQ==")).header }).isOk = false := by
  decide

/-! non-vacuity: a client (masking) sends an empty text message, a ping and a 5-byte binary message in 2-byte fragments;
    the server receives the bytes one at a time -/
def cliCfg : Cfg := { enableCompression := false, writeCompression := false, msgLimit := 0, readLimit := 0, maxFrame := 2, isClient := true }
def srvCfg' : Cfg := { cliCfg with isClient := false }
def keyEnv : Env := { keyAt := fun i => [UInt8.ofNat i, 7, 9, 11], deflate := id, inflate := fun _ => ⟨[], []⟩ }
def demoMsgs : List (Nat × Bytes) := [(1, []), (9, [1]), (2, [1, 2, 3, 4, 5])]

/-- non-vacuity of the compression branch: a codec that satisfies `MsgOK.codec` (stored, one read, EOF with the data),
    both endpoints compressing, limit 16 -/
def zCli : Cfg := { enableCompression := true, writeCompression := true, msgLimit := 16, readLimit := 0, maxFrame := 3, isClient := true }
def zSrv : Cfg := { zCli with isClient := false }
def zEnv : Env := { keyAt := fun i => [UInt8.ofNat i, 7, 9, 11], deflate := fun x => 42 :: x,
                    inflate := fun m => ⟨m.drop 1, [⟨64, m.length - 1, 1⟩]⟩ }
example : readAll zSrv.msgLimit ((zEnv.deflate [1, 2, 3]).length * 2) (zEnv.inflate (zEnv.deflate [1, 2, 3])) = .ok [1, 2, 3] := by decide
example : delivs (feed zSrv zEnv {} ((appWrites zCli zEnv {} [(2, [1, 2, 3]), (1, [0x61])]).map fun b => [b]) []).acts = [(2, [1, 2, 3]), (1, [0x61])] := by
  decide

example : (wireOf cliCfg keyEnv 0 demoMsgs).length = 6 + 7 + 3 * 6 + 2 + 2 + 1 := by decide
example : delivs (feed srvCfg' keyEnv {} ((wireOf cliCfg keyEnv 0 demoMsgs).map fun b => [b]) []).acts = [(1, []), (2, [1, 2, 3, 4, 5])] := by
  decide

end Ws
