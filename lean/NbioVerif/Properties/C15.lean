import NbioVerif.Lemmas.C15
import NbioVerif.Lemmas.WsTables
/-! C15 — size limits (property theorems; see docs/ws.md) -/
namespace Ws

/-- C15: a data frame accepted by `nextFrame` fits into the limit together with what is already assembled -/
theorem c15_frame_fits (g : Cfg) (s : S) (hl : g.msgLimit > 0) (total op : Nat) (body : Bytes) (fin r1 : Bool)
    (h : nextFrame g s = .frame total op body fin r1) (hop : isControl op = false) :
    msgLen s + body.length ≤ g.msgLimit := nextFrame_fits g s hl total op body fin r1 h hop

/-- C15: a control frame accepted by `nextFrame` carries at most 125 bytes -/
theorem c15_control_recv (g : Cfg) (s : S) (total op : Nat) (body : Bytes) (fin r1 : Bool)
    (h : nextFrame g s = .frame total op body fin r1) (hop : isControl op = true) : body.length ≤ 125 :=
  nextFrame_control_le g s total op body fin r1 h hop

/-- C15: `WriteMessage` refuses control payloads over 125 bytes (and the constant is the code's) -/
theorem c15_control_send (g : Cfg) (e : Env) (i op : Nat) (data : Bytes) (hop : isControl op = true)
    (hl : data.length > Gen.maxControlFramePayloadSize) : writeMessage g e i op data = .error .controlTooBig := by
  have : data.length > 125 := hl
  simp [writeMessage, hop, this]

end Ws
