import NbioVerif.Lemmas.WsLimits
import NbioVerif.Lemmas.WsTables
import NbioVerif.Lemmas.WsUpProof
/-! C15 — WebSocket size limits hold, including against decompression bombs.

    Model: `Ws.parse` (Conn.Parse / nextFrame / readAll) fed by `Ws.feed` with any list of segments, from the initial
    state; `g.msgLimit` = MessageLengthLimit (0 = unlimited), `g.readLimit` = Engine.ReadLimit.  The inflater's
    answers (`e.inflate`: output, chunking, allocator capacities) and the mask keys are arbitrary. -/
namespace Ws

def demoCfgRL : Cfg := { enableCompression := false, writeCompression := false, msgLimit := 0, readLimit := 0, maxFrame := 100, isClient := false }
def demoEnvRL : Env := { keyAt := fun _ => [0, 0, 0, 0], deflate := id, inflate := fun _ => ⟨[], []⟩ }

/-- C15 (delivered): whatever bytes arrive in whatever segmentation, whatever the inflater and the allocator do,
    no message longer than the limit reaches the message handler — in one frame, in fragments, or inflated -/
theorem c15_delivered_within (g : Cfg) (e : Env) (segs : List Bytes) (hL : g.msgLimit > 0) (t : Nat) (p : Bytes)
    (h : Act.deliver t p ∈ (feed g e {} segs []).acts) : p.length ≤ g.msgLimit := by
  have hB := length_le_sum segs
  have := feed_limits g e _ segs {} [] hB (by intro _; simp [msgLen, K.len]) (by intro _; simp) (by intro _ t p hp; cases hp)
  exact this.1 hL t p h

/-- C15 (buffered): in every reachable state — alive or failed — the message under assembly is within the limit -/
theorem c15_buffered_within (g : Cfg) (e : Env) (segs : List Bytes) (hL : g.msgLimit > 0) :
    msgLen (feed g e {} segs []).s ≤ g.msgLimit := by
  have hB := length_le_sum segs
  have := feed_limits g e _ segs {} [] hB (by intro _; simp [msgLen, K.len]) (by intro _; simp) (by intro _ t p hp; cases hp)
  exact this.2.1 hL

/-- C15 (inflate): `readAll` never returns (nor keeps) more than the limit, for every inflater output, chunking and
    allocator capacity script; in particular a bomb cannot get through -/
theorem c15_readAll_bound (L size : Nat) (o : InflObs) (b : Bytes) (hL : L > 0) (h : readAll L size o = .ok b) : b.length ≤ L :=
  readAll_bound L size o b hL h

/-- C15 (inflate, every outcome): also when the message is refused as too large (the bomb itself) or the inflater
    fails, the inflate buffer never held more than the limit -/
theorem c15_inflate_held (L size : Nat) (o : InflObs) (hL : L > 0) : (readAll L size o).held ≤ L := readAll_held L size o hL

/-- C15 (inflate loop progress): a full buffer below the limit grows by at least one byte and never past the limit;
    a reader step that returns nothing without an error on a non-empty buffer is outside the model (`stuck`),
    every other step consumes one `Read` — the loop is structurally recursive on the reader's answers -/
theorem c15_readAll_grows (L l : Nat) (hl : l > 0) : (L = 0 ∨ l + 1 ≤ L → growBy L l > 0) ∧ (L > 0 → l ≤ L → l + growBy L l ≤ L) :=
  ⟨growBy_pos L l hl, growBy_le L l⟩

/-- C15 (refusal): a data frame whose declared length does not fit with what is already assembled fails Parse with
    the too-large error as soon as the header is there (declared length only: no payload needs to follow) -/
theorem c15_oversize_refused (g : Cfg) (s : S) (h : HdrInfo) (hd : decodeHdr s.cache = some (.ok h)) (hc : isControl h.opcode = false)
    (hL : g.msgLimit > 0) (hbig : (msgLen s : Int) + h.bodyLen > g.msgLimit) : nextFrame g s = .err .tooLarge :=
  oversize_refused g s h hd hc hL hbig

/-- C15 (1009): a Parse call that fails with the too-large or the control-too-big error has written a close frame
    with code 1009 (as long as the conn could still be written to) -/
theorem c15_1009 (g : Cfg) (e : Env) (s : S) (data : Bytes) (er : Err)
    (h : (parse g e s data).err = some er) (her : er = .tooLarge ∨ er = .controlTooBig)
    (hk : (parse g e s data).s.k.connClosed = false) :
    ∃ key, Act.write (encodeFrame g.isClient key 8 true true (be16 1009 ++ tooBigReason er) false) ∈ (parse g e s data).acts := by
  rcases parse_cases g e s data with hp | hp | ⟨hp, _⟩
  · rw [hp] at h; cases h
  · rw [hp] at h; cases h; rcases her with h' | h' <;> cases h'
  · rw [hp] at h hk ⊢; exact run_1009 g e _ [] er h her hk

/-- C15 (control, receive): a control frame handed to the handlers carries at most 125 bytes … -/
theorem c15_control_recv (g : Cfg) (s : S) (total op : Nat) (body : Bytes) (fin r1 : Bool)
    (h : nextFrame g s = .frame total op body fin r1) (hop : isControl op = true) : body.length ≤ 125 :=
  nextFrame_control_le g s total op body fin r1 h hop

/-- … and one that declares more is refused as soon as its header is complete -/
theorem c15_control_refused (g : Cfg) (s : S) (h : HdrInfo) (hd : decodeHdr s.cache = some (.ok h)) (hc : isControl h.opcode = true)
    (hbig : h.bodyLen > 125) : nextFrame g s = .err .controlTooBig :=
  control_oversize_refused g s h hd hc hbig

/-- C15 (control, send): `WriteMessage` refuses control payloads over 125 bytes (the constant is the code's) and writes nothing -/
theorem c15_control_send (g : Cfg) (e : Env) (i op : Nat) (data : Bytes) (hop : isControl op = true)
    (hl : data.length > Gen.maxControlFramePayloadSize) : writeMessage g e i op data = .error .controlTooBig := by
  have : data.length > 125 := hl
  simp [writeMessage, hop, this]

/-- C15 (control, send, `WriteFrame`): the entry point that writes one frame as given refuses a control payload over 125
    bytes as well — nothing is written, the state is unchanged … -/
theorem c15_control_send_frame (g : Cfg) (e : Env) (k : K) (op : Nat) (so fin : Bool) (data : Bytes) (hop : isControl op = true)
    (hl : data.length > Gen.maxControlFramePayloadSize) : appWriteFrame g e k op so fin data = (k, .error .controlTooBig) := by
  have : data.length > 125 := hl
  simp [appWriteFrame, hop, this]

/-- … and `WriteClose(code, reason)`: the limit is on the whole payload, the 2-byte status code included — a reason of more
    than 123 bytes is refused -/
theorem c15_control_send_close (g : Cfg) (e : Env) (k : K) (code : Nat) (reason : Bytes)
    (hl : reason.length + 2 > Gen.maxControlFramePayloadSize) : appWriteClose g e k code reason = (k, .error .controlTooBig) := by
  have h2 : (be16 code ++ reason).length > 125 := by
    have : reason.length + 2 > 125 := hl
    simp [be16, WsF.beEnc_length]; omega
  have hw : writeMessage g e k.nwrites 8 (be16 code ++ reason) = .error .controlTooBig := by
    unfold writeMessage; rw [if_pos (by decide), if_pos h2]
  unfold appWriteClose appWrite; rw [hw]

/-- every frame a send entry point writes for a control opcode carries at most 125 payload bytes: a successful call had such a payload -/
theorem c15_control_send_ok (g : Cfg) (e : Env) (k k' : K) (op : Nat) (so fin : Bool) (data : Bytes) (ws : List Bytes) (hop : isControl op = true) :
    (appWriteFrame g e k op so fin data = (k', .ok ws) → data.length ≤ 125) ∧ (appWrite g e k op data = (k', .ok ws) → data.length ≤ 125) := by
  constructor
  · intro h
    apply Nat.le_of_not_lt; intro hb
    simp [appWriteFrame, hop, hb] at h
  · intro h
    apply Nat.le_of_not_lt; intro hb
    simp [appWrite, writeMessage, hop, hb] at h

/-- C15 (cache, by the message limit): while the connection lives, the unparsed input kept between Parse calls is an
    incomplete header or an incomplete frame that passed the size checks: fewer than 14 + max 125 (limit − assembled) bytes,
    whatever ReadLimit is -/
theorem c15_cache_bound_by_limit (g : Cfg) (e : Env) (segs : List Bytes) (hL : g.msgLimit > 0)
    (he : (feed g e {} segs []).err = none) :
    (feed g e {} segs []).s.cache.length < 14 + max 125 (g.msgLimit - msgLen (feed g e {} segs []).s) := by
  have hn := feed_need g e segs {} [] (by intro _; simp [msgLen, K.len]) (by simp [nextFrame, decodeHdr]) he
  exact need_cache_lt g _ hL hn

/- Full statement of the read-limit clause (does NOT hold on the current tree — known finding "ws-readlimit-first-read"):
   theorem c15_cache_bound (g e segs) (hr : g.readLimit > 0) : (feed g e {} segs []).s.cache.length ≤ g.readLimit -/

/-- C15 (cache, read limit) counterexample: ReadLimit = 4; one 7-byte read that ends inside a frame is kept whole,
    because Parse applies the ReadLimit test only when something is cached already -/
theorem c15_cache_bound_counterexample :
    (feed { demoCfgRL with readLimit := 4 } demoEnvRL {} [[0x82, 10, 1, 2, 3, 4, 5]] []).s.cache.length = 7 ∧
    (feed { demoCfgRL with readLimit := 4 } demoEnvRL {} [[0x82, 10, 1, 2, 3, 4, 5]] []).err = none := by
  decide

/-- C15 (cache, read limit; partial): the unparsed input kept between Parse calls never exceeds the read limit, except
    that a single read into an empty cache may be kept whole: `|bytesCached| ≤ max ReadLimit (longest read)` in every
    reachable state. Extra term with respect to the statement: `B`, the longest single read. -/
theorem c15_cache_bound_partial (g : Cfg) (e : Env) (segs : List Bytes) (B : Nat) (hB : ∀ seg ∈ segs, seg.length ≤ B) (hr : g.readLimit > 0) :
    (feed g e {} segs []).s.cache.length ≤ max g.readLimit B := by
  have := feed_limits g e B segs {} [] hB (by intro _; simp [msgLen, K.len]) (by intro _; simp) (by intro _ t p hp; cases hp)
  exact this.2.2 hr

/-- C15 behind an upgrade hand-off: whatever follows a 101 response through the client connection's parser, in any
    segmentation, no delivered message exceeds the limit -/
theorem c15_delivered_within_handoff (g : Cfg) (e : Env) (hl : g.readLimit = 0) (head ws : Bytes)
    (hpre : (head ++ ws).take 13 = statusPrefix) (hend : headEnd head = some head.length)
    (segs : List Bytes) (hsegs : segs.flatten = head ++ ws) (hL : g.msgLimit > 0) (t : Nat) (p : Bytes)
    (h : Act.deliver t p ∈ (upFeed g e {} segs []).2.acts) : p.length ≤ g.msgLimit := by
  have hobs := upFeed_handoff g e hl head ws hpre hend segs hsegs
  have ha : (upFeed g e {} segs []).2.acts = (feed g e {} [ws] []).acts := by
    have := congrArg (fun o => o.1) hobs; simpa [PR.obs] using this
  rw [ha] at h
  exact c15_delivered_within g e [ws] hL t p h

/-! non-vacuity -/

def demoCfg : Cfg := { enableCompression := true, writeCompression := true, msgLimit := 3, readLimit := 8, maxFrame := 100, isClient := false }
def demoEnv : Env := { keyAt := fun _ => [0, 0, 0, 0], deflate := id, inflate := fun _ => ⟨[], []⟩ }

/-- a 3-byte binary message passes a limit of 3, a 4-byte one is refused with 1009 -/
example : (feed demoCfg demoEnv {} [[0x82, 3, 1, 2, 3]] []).acts = [.deliver 2 [1, 2, 3]] := by decide
example : (feed demoCfg demoEnv {} [[0x82, 4, 1, 2, 3, 4]] []).err = some .tooLarge := by decide
example : (feed demoCfg demoEnv {} [[0x82, 4]] []).acts.map (fun a => match a with | .write b => b.take 4 | _ => []) = [[0x88, 38, 0x03, 0xf1]] := by
  decide
/-- an inflater that hands out 4 bytes against a limit of 3 is stopped -/
example : readAll 3 10 ⟨[1, 2, 3, 4], [⟨1024, 3, 0⟩, ⟨1, 1, 0⟩]⟩ = .tooLarge 3 := by decide
example : readAll 3 10 ⟨[1, 2, 3], [⟨1024, 3, 0⟩, ⟨1, 0, 1⟩]⟩ = .ok [1, 2, 3] := by decide

end Ws
