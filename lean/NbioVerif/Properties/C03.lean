import NbioVerif.Lemmas.LifeInv
/-! C03 Connection lifecycle (model level, `Model/Life.lean`, invariant in `Lemmas/LifeInv.lean`).

All theorems quantify over every kind of conn (added by the user, accepted, dialed, UDP session, UDP listener) and
every sequence of `Life.step` actions from `Life.mk kind` — `addConn`'s closed test and four statements, the dial
start (in progress / at once / failed before anybody saw the conn), the separate arming of the dial timeout, the
kernel's verdict on the connect (chosen once, by `kconnect`), the poller's `dialed`, flips of the closed flag with any
cause from any goroutine that can reach the conn (user `Close`/`CloseWithError`, timers, poller, write error
branches), the flipper's teardown, deadline changes, user operations — i.e. every history and every interleaving at
critical-section granularity (§5.1 of DESIGN.md). The driver (`Driver/LifeMain.lean`) changes a conn's state through
`Life.step` only (`runAll_run` below: such a state is a `run` state), so the theorems are about the states that are
compared with the code.

The user who calls `Engine.AddConn` holds the `*Conn` and can close it at any time, also while `addConn` runs
(`flip` is enabled from the start for `kind = add`, except inside the critical section in which `addConn` tests the
flag and assigns `c.p`). After `c.p = p` / Unlock and before the open notification that is a genuine race (ghost
`raced`): exactly-one still holds, the ORDER (never before open) and the wait group do not — the theorems that need
`raced = false` say so, and `c03_raced_close_before_open` is the counterexample. -/
namespace Life

theorem runAll_run : ∀ (as : List Act) (c c' : Conn), runAll c as = some c' → run c as = c' := by
  intro as
  induction as with
  | nil => intro c c' h; simp only [runAll, Option.some.injEq] at h; exact h
  | cons a as ih =>
    intro c c' h
    simp only [runAll] at h
    split at h
    · next c1 hs => simp only [run, hs]; exact ih c1 c' h
    · cases h

theorem li_reach (k : Kind) (as : List Act) : LI (run (mk k) as) := li_run as (mk k) (li_init k)

/-- no step changes the kind of a conn -/
theorem run_kind (as : List Act) : ∀ (c : Conn), (run c as).kind = c.kind := by
  induction as with
  | nil => intro c; rfl
  | cons a as ih =>
    intro c
    simp only [run]
    split
    · next c' hs =>
      rw [ih c']
      cases a <;> simp only [step] at hs <;> split at hs <;> cases hs <;>
        simp only [addCheck, addP, addOpen, addTable, addReg, sessOpen, udpListen, dialStart, dialStartFail, dialNow,
          armDial, dialed, flip, teardown, timerW, userOp] <;> (repeat' split) <;> rfl
    · exact ih c

/-- the race exists only for a conn the user adds: nobody else can reach an accepted conn, a session or a dialing
    conn before it was announced / registered -/
theorem c03_raced_only_addconn (k : Kind) (as : List Act) : (run (mk k) as).raced = true → k = .add := by
  intro h
  have := (li_reach k as).racedK h
  rw [run_kind] at this
  exact this

/-- C03 exactly one close notification: never more than one; none while the flag is clear or the teardown still
    runs; none for a conn no poller ever owned (and none for a UDP listener); exactly one for every conn a poller owns
    (`c.p` set) once its teardown is complete — in every interleaving, the `AddConn`/`Close` race included (the closed
    test and `c.p = p` are one critical section: a teardown either runs before it and `AddConn` is refused, or after
    it and finds the poller). -/
theorem c03_close_once (k : Kind) (as : List Act) :
    let c := run (mk k) as
    c.closeN ≤ 1 ∧
    (c.closeN = 1 → c.closed = true ∧ c.td = none ∧ c.pSet = true ∧ c.kind ≠ .udp) ∧
    (c.closed = true → c.td = none → c.pSet = true → c.kind ≠ .udp → c.closeN = 1) := by
  intro c
  have h : LI c := li_reach k as
  refine ⟨h.closeLe, fun h1 => ?_, fun h1 h2 h3 h4 => ?_⟩
  · have hp := h.closeP (by omega)
    cases hc : c.closed
    · have := (h.openFlag hc).2.2.1; omega
    · refine ⟨rfl, ?_, hp.1, hp.2⟩
      cases ht : c.td with
      | none => rfl
      | some e => have := (h.tdOk e ht).2.2.1; omega
  · refine (h.doneOk h1 h2).2.2.2.1 h4 ?_
    cases hu : c.unmanaged
    · rfl
    · have := h.unmanagedOk hu; rw [h3] at this; cases this

/-- every conn that was announced gets its close notification once it is torn down: "opened, never closed" is
    unreachable (it was reachable as long as `addConn` did not test the flag: `Close`, then `AddConn` — repaired) -/
theorem c03_no_open_without_close (k : Kind) (as : List Act) :
    let c := run (mk k) as
    c.opens = 1 → c.closed = true → c.td = none → c.closeN = 1 := by
  intro c ho h1 h2
  have h : LI c := li_reach k as
  have hp := h.openP (by omega)
  exact (c03_close_once k as).2.2 h1 h2 hp.1 hp.2.1

/-- the race that remains: `Close` by the holder of the `*Conn` after `addConn`'s `c.p = p` / Unlock and before its
    open notification — the close notification comes first, the wait group goes negative (`sync: negative WaitGroup
    counter` if the close handler's `Done` overtakes the `Add`) -/
theorem c03_raced_close_before_open :
    let c := run (mk .add) [.addCheck, .addP, .flip .nil true, .teardown]
    c.opens = 0 ∧ c.closeN = 1 ∧ c.early = true ∧ c.wg = -1 ∧ c.raced = true := by
  decide

/-- C03 never before open: a close notification of an added / accepted / UDP-session conn is never issued before
    its open notification, and there is at most one open notification (same proviso). `early` is set by a teardown
    that notifies while no open notification was issued: `addConn` assigns `c.p` and announces in two statements, so
    this is a statement about interleavings, not about one assignment. -/
theorem c03_close_after_open (k : Kind) (as : List Act) :
    let c := run (mk k) as
    c.opens ≤ 1 ∧ (c.raced = false → c.early = false) ∧
    (c.raced = false → c.closeN = 1 → (c.kind = .add ∨ c.kind = .acc ∨ c.kind = .sess) → c.opens = 1) := by
  intro c
  have h : LI c := li_reach k as
  refine ⟨h.open1, fun hr => ?_, fun hr h1 hk => ?_⟩
  · cases he : c.early
    · rfl
    · have := h.early he; rw [hr] at this; cases this
  · have hp := (h.closeP (by omega)).1
    have ho := h.open1
    rcases hk with hk | hk | hk
    · by_cases h2 : c.add = 2
      · have hcl : c.closed = true := by
          cases hc : c.closed
          · have := (h.openFlag hc).2.2.1; omega
          · rfl
        have := h.phase1 h2 hcl; rw [hr] at this; cases this
      · have := h.pOpen hp (Or.inl hk) h2; omega
    · by_cases h2 : c.add = 2
      · have hcl : c.closed = true := by
          cases hc : c.closed
          · have := (h.openFlag hc).2.2.1; omega
          · rfl
        have := h.phase1 h2 hcl; rw [hr] at this; cases this
      · have := h.pOpen hp (Or.inr hk) h2; omega
    · have := h.pOpenS hp hk; omega

/-- C03 wait group: the conn's contribution to the engine's connection wait group is 1 from its open notification
    (dialing conn: from its registration) to its close notification, never negative, and 0 again once the teardown is
    complete — so `Stop`, which waits for the group after closing what is in the fd table, returns. The failure paths of
    `DialAsync` (`dialStartFail`) release what they took. Same proviso. -/
theorem c03_wg (k : Kind) (as : List Act) :
    let c := run (mk k) as
    c.wg = (if c.opens ≥ 1 ∨ (c.kind = .dial ∧ c.pSet = true) then 1 else 0) - (c.closeN : Int) ∧
    (c.raced = false → c.wg ≥ 0) ∧
    (c.raced = false → c.closed = true → c.td = none → c.wg = 0) := by
  intro c
  have h : LI c := li_reach k as
  have hw := h.wgOk
  have hle := h.closeLe
  -- a close notification implies that the conn was counted
  have counted : c.raced = false → c.closeN = 1 → (c.opens ≥ 1 ∨ (c.kind = .dial ∧ c.pSet = true)) := by
    intro hr h1
    have hp := h.closeP (by omega)
    have hcl : c.closed = true := by
      cases hc : c.closed
      · have := (h.openFlag hc).2.2.1; omega
      · rfl
    have n2 : c.add ≠ 2 := fun h2 => by have := h.phase1 h2 hcl; rw [hr] at this; cases this
    cases hk : c.kind with
    | add => exact Or.inl (h.pOpen hp.1 (Or.inl hk) n2)
    | acc => exact Or.inl (h.pOpen hp.1 (Or.inr hk) n2)
    | sess => exact Or.inl (h.pOpenS hp.1 hk)
    | udp => exact absurd hk hp.2
    | dial => exact Or.inr ⟨rfl, hp.1⟩
  refine ⟨hw, fun hr => ?_, fun hr h1 h2 => ?_⟩
  · by_cases h1 : c.closeN = 1
    · rw [hw, if_pos (counted hr h1), h1]; decide
    · have : c.closeN = 0 := by omega
      rw [hw, this]; split <;> decide
  · obtain ⟨_, _, _, hd4, _⟩ := h.doneOk h1 h2
    by_cases hcnt : c.opens ≥ 1 ∨ (c.kind = .dial ∧ c.pSet = true)
    · -- counted: a poller owns it, it is no UDP listener, so it was notified
      have hp : c.pSet = true := by
        rcases hcnt with ho | ⟨_, hp⟩
        · exact (h.openP ho).1
        · exact hp
      have hu : c.kind ≠ .udp := by
        rcases hcnt with ho | ⟨hk, _⟩
        · exact (h.openP ho).2.1
        · rw [hk]; decide
      have hun : c.unmanaged = false := by
        cases hu' : c.unmanaged
        · rfl
        · have := h.unmanagedOk hu'; rw [hp] at this; cases this
      have := hd4 hu hun
      rw [hw, if_pos hcnt, this]; decide
    · have : c.closeN = 0 := by
        cases hn : c.closeN with
        | zero => rfl
        | succ n => exact absurd (counted hr (by omega)) hcnt
      rw [hw, if_neg hcnt, this]; decide

/-- first cause wins, step level: once the flag is flipped, no step changes the recorded cause -/
theorem cause_stable (c c' : Conn) (a : Act) (e : Err) (h : LI c) (hc : c.cause = some e) (hs : step c a = some c') :
    c'.cause = some e := by
  have hcl : c.closed = true := by
    cases hcc : c.closed
    · have := (h.openFlag hcc).1; rw [hc] at this; cases this
    · rfl
  cases a <;> simp only [step] at hs <;> split at hs <;> cases hs <;>
    simp only [addCheck, addP, addOpen, addTable, addReg, sessOpen, udpListen, dialStart, dialStartFail, dialNow,
      armDial, dialed, flip, teardown, timerW, userOp, hcl] <;> (repeat' split) <;> first | exact hc | simp_all

theorem cause_stable_run (as : List Act) : ∀ c e, LI c → c.cause = some e → (run c as).cause = some e := by
  induction as with
  | nil => intro c e _ h; exact h
  | cons a as ih =>
    intro c e hl hc
    simp only [run]
    split
    · next c' hs => exact ih c' e (li_step c c' a hl hs) (cause_stable c c' a e hl hc hs)
    · exact ih c e hl hc

theorem run_append (xs ys : List Act) (c0 : Conn) : run c0 (xs ++ ys) = run (run c0 xs) ys := by
  induction xs generalizing c0 with
  | nil => rfl
  | cons x xs ih => simp only [List.cons_append, run]; split <;> exact ih _

/-- C03 first cause: the error a torn-down conn reports (`c.closeErr`, handed to the close notification) is the
    argument of the step that flipped the flag; and whatever is attempted afterwards (more closes with other errors,
    timers, error events, failing writes, a failing connect) never changes it. -/
theorem c03_first_cause (k : Kind) (as bs : List Act) (e : Err) :
    let c := run (mk k) as
    (c.closed = true → c.td = none → c.cause = some c.cerr) ∧
    (c.cause = some e → (run (mk k) (as ++ bs)).cause = some e) := by
  intro c
  have h : LI c := li_reach k as
  refine ⟨fun h1 h2 => (h.doneOk h1 h2).1, fun hc => ?_⟩
  rw [run_append]
  exact cause_stable_run bs c e h hc

/-- C03 closed operations, the part that holds by the definition of the model's `op` and `flip` steps (they test the
    flag under the mutex; that the code does is what `log=` in the correspondence and the `*_atomic` /
    `close_test_and_set` predicates check): on a closed conn a user operation and a further close change nothing at
    all — no syscall on the descriptor, no second teardown, no changed cause. -/
theorem c03_closed_ops (c c' : Conn) (sys : Nat) (e : Err) (st : Bool) (h : c.closed = true) :
    (step c (.op sys) = some c' → c' = c) ∧ (step c (.flip e st) = some c' → c' = c) := by
  refine ⟨fun hs => ?_, fun hs => ?_⟩
  · simp only [step] at hs; split at hs <;> cases hs; simp [userOp, h]
  · simp only [step] at hs; split at hs <;> cases hs; simp [flip, h]

/-- C03 closed operations, the part that needs the invariant: once the teardown is complete (the descriptor is closed
    and its number may be reused by the kernel) NO step of anybody — user, poller, timer, the rest of `addConn` — issues
    a syscall on the descriptor any more. -/
theorem c03_fd_quiet (k : Kind) (as : List Act) (a : Act) (c' : Conn) :
    let c := run (mk k) as
    c.closed = true → c.td = none → step c a = some c' → c'.log = c.log ∧ c'.fdOpen = false := by
  intro c h1 h2 hs
  have h : LI c := li_reach k as
  obtain ⟨_, hfd, hdp, _, _⟩ := h.doneOk h1 h2
  have hsec := h.phase1a
  cases a <;> simp only [step] at hs <;> split at hs <;> cases hs <;>
    simp only [addCheck, addP, addOpen, addTable, addReg, sessOpen, udpListen, dialStart, dialStartFail, dialNow,
      armDial, dialed, flip, teardown, timerW, userOp, h1, h2, hfd] <;> (repeat' split) <;> simp_all

/-- C03 fd table, as far as a single-conn model can say it: a conn whose teardown is complete has its OWN in-table flag
    clear (so the poller never dispatches an event to it and `Stop` does not close it again), because `addConn` tests the
    closed flag, stores and registers in one critical section. That `addConn` of a conn closed by its open callback never
    touches the table entry of the descriptor NUMBER's new owner is not expressible here: it rests on the two-conn driver
    composition (`addcr`), the oracle `c03-close-once` and the critical-section predicate. `addReg` always succeeds in the
    model: the branch "EPOLL_CTL_ADD fails on an open conn ⇒ clear the entry, closeWithError" is not a model step. -/
theorem c03_table (k : Kind) (as : List Act) :
    let c := run (mk k) as
    c.closed = true → c.td = none → c.inTable = false := by
  intro c h1 h2
  exact ((li_reach k as).doneOk h1 h2).2.2.2.2

/-- the kernel decides once: after `kconnect r` no step changes the verdict -/
theorem kres_stable (c c' : Conn) (a : Act) (r : Option Err) (h : LI c) (hk : c.kres = some r) (hs : step c a = some c') :
    c'.kres = some r := by
  have hd : c.dial ≠ .none := fun hd => by have := h.kresNone hd; rw [hk] at this; cases this
  cases a <;> simp only [step] at hs <;> split at hs <;> cases hs <;>
    simp only [addCheck, addP, addOpen, addTable, addReg, sessOpen, udpListen, dialStart, dialStartFail, dialNow,
      armDial, dialed, flip, teardown, timerW, userOp] <;> (repeat' split) <;> simp_all

/-- C03 dial: the outcome of an asynchronous dial is reported at most once, exactly once as soon as the dial is
    over — by success, by the error return of `DialAsync`, or by the end of the teardown, whatever closed the conn
    (refused, error-only event, dial timeout, user close, Stop) — and "connected" is only reported when the kernel's
    verdict (chosen once, independently of what the poller later does) is "connected"; a close notification of a
    dialing conn implies that its dial was reported (the teardown reports first). -/
theorem c03_dial (as : List Act) :
    let c := run (mk .dial) as
    c.dialN ≤ 1 ∧ (c.dial = .done → c.dialN = 1) ∧ (c.closed = true → c.td = none → c.dial ≠ .pending) ∧
    c.dialOk ≤ c.dialN ∧ (c.dialOk ≥ 1 → c.kres = some none) ∧ (∀ e, c.kres = some (some e) → c.dialOk = 0) ∧
    (c.closeN = 1 → c.dialN = 1) := by
  intro c
  have h : LI c := li_reach .dial as
  refine ⟨?_, h.dialD, fun h1 h2 => (h.doneOk h1 h2).2.2.1, h.dialOk.1, h.dialOk.2, fun e he => ?_, fun h1 => ?_⟩
  · cases hd : c.dial
    · rw [h.dial0 hd]; omega
    · rw [h.dialP hd]; omega
    · rw [h.dialD hd]; omega
  · cases hn : c.dialOk with
    | zero => rfl
    | succ n => have := h.dialOk.2 (by omega); rw [he] at this; cases this
  · -- a close notification is issued by a completed teardown of a registered dialing conn: the dial was reported
    have hp := (h.closeP (by omega)).1
    have hcl : c.closed = true := by
      cases hc : c.closed
      · have := (h.openFlag hc).2.2.1; omega
      · rfl
    have htd : c.td = none := by
      cases ht : c.td with
      | none => rfl
      | some e => have := (h.tdOk e ht).2.2.1; omega
    have hk : c.kind = .dial := run_kind as (mk .dial)
    cases hd : c.dial with
    | none => have := h.dialNoneP hk hd; rw [hp] at this; cases this
    | pending => exact absurd hd (h.doneOk hcl htd).2.2.1
    | done => exact h.dialD hd

/-- C03 dial timeout: the dial timeout never closes a conn whose dial was reported as connected (it is armed in a
    separate step of `DialAsync`, after the registration: only while the dial is still pending, and the success path
    drops it) -/
theorem c03_dial_timer (as : List Act) :
    let c := run (mk .dial) as
    c.byDialTimer = true → c.dialOk = 0 ∧ c.closed = true := by
  intro c
  exact (li_reach .dial as).byDial

/-! non-vacuity: concrete histories, one per kind of conn -/

/-- two racing closers and a write error: one notification, the first cause -/
example : let c := run (mk .add) [.addCheck, .addP, .addOpen, .addTable, .addReg, .flip (.user 1) true, .flip (.user 2) true,
                                  .flip .epipe false, .op 1, .teardown, .flip .eof true, .teardown]
    c.closeN = 1 ∧ c.cerr = .user 1 ∧ c.opens = 1 ∧ c.fdOpen = false ∧ c.log = 2 ∧ c.wg = 0 := by decide

/-- `Close` before `AddConn`: refused, never announced, nothing leaks -/
example : let c := run (mk .add) [.flip .nil true, .teardown, .addCheck, .addP, .addOpen]
    c.add = 6 ∧ c.opens = 0 ∧ c.closeN = 0 ∧ c.wg = 0 ∧ c.raced = false := by decide

/-- `Close` from inside the open notification: `addConn` is refused after it, table and epoll are not touched (the only
    syscall on the descriptor is its close) -/
example : let c := run (mk .acc) [.addCheck, .addP, .addOpen, .flip .nil true, .teardown, .addTable, .addReg]
    c.closeN = 1 ∧ c.opens = 1 ∧ c.inTable = false ∧ c.reg = false ∧ c.wg = 0 ∧ c.log = 1 := by decide

/-- inside `addConn`'s critical section nobody flips the flag -/
example : step (run (mk .add) [.addCheck]) (.flip .nil true) = none := by decide

/-- nobody but the accepting poller can reach an accepted conn before it is announced -/
example : step (run (mk .acc) [.addCheck]) (.flip .nil true) = none := by decide

/-- refused connect: one report, not "connected"; the verdict cannot be changed afterwards -/
example : let c := run (mk .dial) [.dialStart, .armDial, .kconnect (some .refused), .kconnect none, .dialed, .teardown, .dialed]
    c.dialN = 1 ∧ c.dialOk = 0 ∧ c.cerr = .refused ∧ c.closeN = 1 ∧ c.wg = 0 := by decide

/-- dial timeout racing the completion event: the close path reports, the late event does not -/
example : let c := run (mk .dial) [.dialStart, .armDial, .timerW, .kconnect none, .dialed, .teardown]
    c.dialN = 1 ∧ c.dialOk = 0 ∧ c.cerr = .dtimeout ∧ c.byDialTimer = true := by decide

/-- the completion event overtakes the arming of the dial timeout: nothing is armed on the established conn -/
example : let c := run (mk .dial) [.dialStart, .kconnect none, .dialed, .armDial, .timerW]
    c.dialN = 1 ∧ c.dialOk = 1 ∧ c.closed = false ∧ c.wT = false := by decide

/-- `DialAsync` fails before anybody saw the conn: the error return is the report, no notification, nothing leaks -/
example : let c := run (mk .dial) [.dialStartFail .eexist, .flip .nil true, .dialed]
    c.dialN = 1 ∧ c.dialOk = 0 ∧ c.closeN = 0 ∧ c.wg = 0 ∧ c.fdOpen = false := by decide

/-- a UDP listener is registered, never notified; a UDP session is opened and closed like a stream conn -/
example : let c := run (mk .udp) [.udpListen, .flip .nil true, .teardown]
    c.visible = true ∧ c.closed = true ∧ c.closeN = 0 ∧ c.wg = 0 ∧ c.inTable = false := by decide
example : let c := run (mk .sess) [.sessOpen, .setDl true false, .timerR, .teardown, .flip .nil true]
    c.opens = 1 ∧ c.closeN = 1 ∧ c.cerr = .rtimeout ∧ c.wg = 0 := by decide

end Life
