import NbioVerif.Model.Life
/-! C03 Connection lifecycle (model level, `Model/Life.lean`).

All theorems quantify over every kind of conn (added, accepted, dialed, UDP session, UDP listener) and every
sequence of steps — `addConn`'s three statements, dial start / completion events with any SO_ERROR, flips of the
closed flag with any cause from any goroutine (user `Close`/`CloseWithError`, timers, poller, write error
branches), the flipper's teardown, user operations — i.e. every history and every interleaving at
critical-section granularity (§5.1 of DESIGN.md). -/
namespace Life

def mk (k : Kind) : Conn := { kind := k }

structure LI (c : Conn) : Prop where
  closeLe : c.closeN ≤ 1
  open1 : c.opens ≤ 1
  addPhase : c.add = 0 → c.opens = 0
  openFlag : c.closed = false → c.cause = none ∧ c.td = none ∧ c.closeN = 0 ∧ c.fdOpen = true
  tdOk : ∀ e, c.td = some e → c.closed = true ∧ c.cause = some e ∧ c.closeN = 0 ∧ c.fdOpen = true
  doneOk : c.closed = true → c.td = none →
    c.cause = some c.cerr ∧ c.fdOpen = false ∧ (c.pSet = true → c.kind ≠ .udp → c.closeN = 1) ∧ c.dial ≠ .pending
  pOpen : c.pSet = true → (c.kind = .add ∨ c.kind = .acc ∨ c.kind = .sess) → c.opens ≥ 1
  early : c.early = false
  dial0 : c.dial = .none → c.dialN = 0
  dialP : c.dial = .pending → c.dialN = 0
  dialD : c.dial = .done → c.dialN = 1
  dialOk : c.dialOk ≤ c.dialN ∧ (c.dialOk ≥ 1 → c.connected = true)
  vis : c.visible = false → c.closed = false ∧ c.inTable = false
  visAdd : c.visible = true → c.kind = .dial ∨ c.add ≥ 1
  addVis : c.add ≥ 1 → c.visible = true

theorem li_init (k : Kind) : LI (mk k) := by
  constructor <;> simp [mk]

theorem li_flip (c : Conn) (e : Err) (st : Bool) (h : LI c) (hv : c.visible = true) : LI (flip c e st) := by
  unfold flip
  split
  · exact h
  · next hc =>
    have hc' : c.closed = false := by simpa using hc
    obtain ⟨o1, o2, o3, o4⟩ := h.openFlag hc'
    exact ⟨h.closeLe, h.open1, h.addPhase, fun h' => by simp at h', fun e' he => by simp at he; subst he; exact ⟨rfl, rfl, o3, o4⟩,
      fun _ h' => by simp at h', h.pOpen, h.early, h.dial0, h.dialP, h.dialD, h.dialOk,
      fun h' => (by rw [hv] at h'; cases h'), h.visAdd, h.addVis⟩

theorem li_teardown (c : Conn) (h : LI c) : LI (teardown c) := by
  unfold teardown
  split
  · exact h
  · next e he =>
    obtain ⟨t1, t2, t3, t4⟩ := h.tdOk e he
    refine ⟨?_, h.open1, h.addPhase, fun h' => by simp [t1] at h', fun e' he' => by simp at he', ?_, h.pOpen, ?_, ?_, ?_, ?_, ?_,
      fun hv => (by have := (h.vis hv).1; rw [t1] at this; cases this), h.visAdd, h.addVis⟩
    · show (if c.pSet = true ∧ c.kind ≠ .udp then c.closeN + 1 else c.closeN) ≤ 1
      split <;> omega
    · intro _ _
      refine ⟨t2, rfl, fun hp hk => ?_, ?_⟩
      · show (if c.pSet = true ∧ c.kind ≠ .udp then c.closeN + 1 else c.closeN) = 1
        rw [if_pos ⟨hp, hk⟩, t3]
      · show (if c.dial = .pending then DialSt.done else c.dial) ≠ .pending
        split
        · simp
        · next hp => exact hp
    · -- a close notification is never issued before the open notification
      show (c.early || decide (c.pSet = true ∧ c.kind ≠ .udp ∧ c.opens = 0 ∧ c.kind ≠ .dial)) = false
      rw [h.early, Bool.false_or, decide_eq_false_iff_not]
      intro ⟨hp, hu, ho, hd⟩
      have : c.opens ≥ 1 := h.pOpen hp (by cases hkk : c.kind <;> simp_all)
      omega
    · show (if c.dial = .pending then DialSt.done else c.dial) = .none → (if c.dial = .pending then c.dialN + 1 else c.dialN) = 0
      intro h'
      split at h'
      · cases h'
      · next hp => rw [if_neg hp]; exact h.dial0 h'
    · show (if c.dial = .pending then DialSt.done else c.dial) = .pending → (if c.dial = .pending then c.dialN + 1 else c.dialN) = 0
      intro h'
      split at h'
      · cases h'
      · next hp => exact absurd h' hp
    · show (if c.dial = .pending then DialSt.done else c.dial) = .done → (if c.dial = .pending then c.dialN + 1 else c.dialN) = 1
      intro h'
      split
      · next hp => rw [h.dialP hp]
      · next hp => rw [if_neg hp] at h'; exact h.dialD h'
    · show c.dialOk ≤ (if c.dial = .pending then c.dialN + 1 else c.dialN) ∧ (c.dialOk ≥ 1 → c.connected = true)
      refine ⟨?_, h.dialOk.2⟩
      have := h.dialOk.1
      split <;> omega

/-- a change that touches none of the fields the invariant talks about (the `addConn` phase may advance) -/
theorem li_frame (c c' : Conn) (h : LI c)
    (e1 : c'.closeN = c.closeN) (e2 : c'.opens = c.opens) (e3 : c'.add = c.add ∨ (c.add ≥ 1 ∧ c'.add ≥ 1)) (e4 : c'.closed = c.closed)
    (e5 : c'.cause = c.cause) (e6 : c'.td = c.td) (e7 : c'.fdOpen = c.fdOpen) (e8 : c'.cerr = c.cerr) (e9 : c'.pSet = c.pSet)
    (e10 : c'.kind = c.kind) (e11 : c'.dial = c.dial) (e12 : c'.early = c.early) (e13 : c'.dialN = c.dialN)
    (e14 : c'.dialOk = c.dialOk) (e15 : c'.connected = c.connected) (e16 : c'.visible = c.visible)
    (e17 : c'.inTable = c.inTable ∨ c.visible = true) : LI c' := by
  refine ⟨by rw [e1]; exact h.closeLe, by rw [e2]; exact h.open1, ?_, by rw [e4, e5, e6, e1, e7]; exact h.openFlag,
    by rw [e6, e4, e5, e1, e7]; exact h.tdOk, by rw [e4, e6, e5, e8, e7, e9, e10, e1, e11]; exact h.doneOk,
    by rw [e9, e10, e2]; exact h.pOpen, by rw [e12]; exact h.early, by rw [e11, e13]; exact h.dial0,
    by rw [e11, e13]; exact h.dialP, by rw [e11, e13]; exact h.dialD, by rw [e14, e13, e15]; exact h.dialOk, ?_, ?_, ?_⟩
  · intro h0
    rcases e3 with e3 | ⟨_, e3⟩
    · rw [e2]; exact h.addPhase (by rw [← e3]; exact h0)
    · omega
  · intro hv; rw [e16] at hv
    refine ⟨by rw [e4]; exact (h.vis hv).1, ?_⟩
    rcases e17 with e17 | e17
    · rw [e17]; exact (h.vis hv).2
    · rw [hv] at e17; cases e17
  · intro hv; rw [e16] at hv; rw [e10]
    rcases h.visAdd hv with h' | h'
    · exact Or.inl h'
    · rcases e3 with e3 | ⟨_, e3⟩
      · exact Or.inr (by rw [e3]; exact h')
      · exact Or.inr e3
  · intro ha; rw [e16]
    rcases e3 with e3 | ⟨e3, _⟩
    · exact h.addVis (by rw [← e3]; exact ha)
    · exact h.addVis e3

theorem li_step (c c' : Conn) (a : Act) (h : LI c) (hs : step c a = some c') : LI c' := by
  cases a with
  | addOpen =>
    simp only [step] at hs
    split at hs
    · next hc =>
      cases hs
      simp only [Bool.and_eq_true, beq_iff_eq, Bool.or_eq_true] at hc
      have h0 := h.addPhase hc.2
      have hnv : c.visible = false := by
        cases hv : c.visible
        · rfl
        · rcases h.visAdd hv with h' | h'
          · rcases hc.1 with (h'' | h'') | h'' <;> rw [h'] at h'' <;> cases h''
          · omega
      have hncl := (h.vis hnv).1
      refine ⟨h.closeLe, ?_, fun h' => by simp at h', h.openFlag, h.tdOk, fun h1 _ => ?_, fun _ _ => ?_, h.early, h.dial0, h.dialP,
        h.dialD, h.dialOk, fun h' => by simp [addOpen] at h', fun _ => Or.inr (by simp), fun _ => rfl⟩
      · show c.opens + 1 ≤ 1
        omega
      · have : c.closed = true := h1
        rw [hncl] at this; cases this
      · show c.opens + 1 ≥ 1
        omega
    · cases hs
  | addTable =>
    simp only [step] at hs
    split at hs
    · next hc =>
      cases hs
      simp only [Bool.and_eq_true, beq_iff_eq] at hc
      have hv : c.visible = true := h.addVis (by omega)
      exact li_frame c _ h rfl rfl (Or.inr ⟨by omega, by simp⟩) rfl rfl rfl rfl rfl rfl rfl rfl rfl rfl rfl rfl rfl (Or.inr hv)
    · cases hs
  | addReg =>
    simp only [step] at hs
    split at hs
    · next hc =>
      cases hs
      simp only [Bool.and_eq_true, beq_iff_eq] at hc
      have hv : c.visible = true := h.addVis (by omega)
      unfold addReg
      split
      · exact li_frame c _ h rfl rfl (Or.inr ⟨by omega, by simp⟩) rfl rfl rfl rfl rfl rfl rfl rfl rfl rfl rfl rfl rfl (Or.inr hv)
      · exact li_frame c _ h rfl rfl (Or.inr ⟨by omega, by simp⟩) rfl rfl rfl rfl rfl rfl rfl rfl rfl rfl rfl rfl rfl (Or.inr hv)
    · cases hs
  | dialStart t =>
    simp only [step] at hs
    split at hs
    · next hc =>
      cases hs
      simp only [Bool.and_eq_true, beq_iff_eq, Bool.not_eq_true'] at hc
      obtain ⟨⟨hk, hd⟩, hcl⟩ := hc
      have hdn := h.dial0 hd
      have k1 : ∀ (h1 : c.closed = true), False := fun h1 => by rw [hcl] at h1; cases h1
      have k2 : (c.kind = .add ∨ c.kind = .acc ∨ c.kind = .sess) → False := fun hkk => by
        rcases hkk with h' | h' | h' <;> rw [hk] at h' <;> cases h'
      exact ⟨h.closeLe, h.open1, h.addPhase, h.openFlag, h.tdOk, fun h1 _ => (k1 h1).elim,
        fun _ hkk => (k2 hkk).elim,
        h.early, fun h' => (by simp [dialStart] at h'), fun _ => hdn, fun h' => (by simp [dialStart] at h'),
        h.dialOk, fun h' => (by simp [dialStart] at h'), fun _ => Or.inl hk, fun _ => rfl⟩
    · cases hs
  | dialNow =>
    simp only [step] at hs
    split at hs
    · next hc =>
      cases hs
      simp only [Bool.and_eq_true, beq_iff_eq, Bool.not_eq_true'] at hc
      obtain ⟨⟨hk, hd⟩, hcl⟩ := hc
      have hdn := h.dial0 hd
      have hok := h.dialOk.1
      have k1 : ∀ (h1 : c.closed = true), False := fun h1 => by rw [hcl] at h1; cases h1
      have k2 : (c.kind = .add ∨ c.kind = .acc ∨ c.kind = .sess) → False := fun hkk => by
        rcases hkk with h' | h' | h' <;> rw [hk] at h' <;> cases h'
      have k3 : c.dialN + 1 = 1 := by omega
      have k4 : c.dialOk + 1 ≤ c.dialN + 1 := by omega
      exact ⟨h.closeLe, h.open1, h.addPhase, h.openFlag, h.tdOk, fun h1 _ => (k1 h1).elim,
        fun _ hkk => (k2 hkk).elim,
        h.early, fun h' => (by simp [dialNow] at h'), fun h' => (by simp [dialNow] at h'), fun _ => k3,
        ⟨k4, fun _ => rfl⟩, fun h' => (by simp [dialNow] at h'), fun _ => Or.inl hk, fun _ => rfl⟩
    · cases hs
  | dialed so =>
    simp only [step] at hs
    split at hs
    · next hc =>
      cases hs
      simp only [Bool.and_eq_true, beq_iff_eq] at hc
      have hv : c.visible = true := by
        cases hv : c.visible
        · have := (h.vis hv).2; rw [hc.2] at this; cases this
        · rfl
      unfold dialed
      split
      · exact h
      · next hp =>
        have hp' : c.dial = .pending := by simpa using hp
        have hlog : LI { c with log := c.log + 1 } :=
          li_frame c _ h rfl rfl (Or.inl rfl) rfl rfl rfl rfl rfl rfl rfl rfl rfl rfl rfl rfl rfl (Or.inl rfl)
        cases so with
        | some e => exact li_flip _ e true hlog hv
        | none =>
          simp only
          split
          · exact hlog
          · next hcl =>
            have hdn := h.dialP hp'
            have hok := h.dialOk.1
            have k1 : ∀ (h1 : c.closed = true), False := fun h1 => hcl h1
            have k3 : c.dialN + 1 = 1 := by omega
            have k4 : c.dialOk + 1 ≤ c.dialN + 1 := by omega
            exact ⟨h.closeLe, h.open1, h.addPhase, h.openFlag, h.tdOk,
              fun h1 _ => (k1 h1).elim,
              h.pOpen, h.early, fun h' => (by simp at h'), fun h' => (by simp at h'), fun _ => k3,
              ⟨k4, fun _ => rfl⟩, h.vis, h.visAdd, h.addVis⟩
    · cases hs
  | flip e st =>
    simp only [step] at hs
    split at hs
    · next hv => cases hs; exact li_flip c e st h hv
    · cases hs
  | teardown =>
    simp only [step] at hs
    split at hs
    · cases hs; exact li_teardown c h
    · cases hs
  | op sys =>
    simp only [step] at hs
    split at hs
    · cases hs
      unfold userOp
      split
      · exact h
      · exact li_frame c _ h rfl rfl (Or.inl rfl) rfl rfl rfl rfl rfl rfl rfl rfl rfl rfl rfl rfl rfl (Or.inl rfl)
    · cases hs

theorem li_run (as : List Act) : ∀ c, LI c → LI (run c as) := by
  induction as with
  | nil => intro c h; exact h
  | cons a as ih =>
    intro c h
    simp only [run]
    split
    · next c' hs => exact ih c' (li_step c c' a h hs)
    · exact ih c h

/-- C03 exactly one close notification: never more than one; exactly one for every conn the engine manages
    (`c.p` set; a UDP listener itself gets none) once its teardown is complete; and none before the teardown. -/
theorem c03_close_once (k : Kind) (as : List Act) :
    let c := run (mk k) as
    c.closeN ≤ 1 ∧ (c.closed = true → c.td = none → c.pSet = true → c.kind ≠ .udp → c.closeN = 1) ∧
    (c.closeN = 1 → c.closed = true ∧ c.td = none) := by
  intro c
  have h : LI c := li_run as (mk k) (li_init k)
  refine ⟨h.closeLe, fun h1 h2 h3 h4 => (h.doneOk h1 h2).2.2.1 h3 h4, fun h1 => ?_⟩
  cases hc : c.closed
  · have := (h.openFlag hc).2.2.1; omega
  · refine ⟨rfl, ?_⟩
    cases ht : c.td with
    | none => rfl
    | some e => have := (h.tdOk e ht).2.2.1; omega

/-- C03 never before open: a close notification of an added / accepted / UDP-session conn is never issued before
    its open notification (that is why `addConn` notifies first and registers last), and there is at most one open
    notification. Assumption (enabling condition of `flip`): nobody can reach a conn before it was announced. -/
theorem c03_close_after_open (k : Kind) (as : List Act) :
    let c := run (mk k) as
    c.early = false ∧ c.opens ≤ 1 ∧
    (c.closeN = 1 → (c.kind = .add ∨ c.kind = .acc ∨ c.kind = .sess) → c.pSet = true → c.opens = 1) := by
  intro c
  have h : LI c := li_run as (mk k) (li_init k)
  refine ⟨h.early, h.open1, fun _ hk hp => ?_⟩
  have := h.pOpen hp hk
  have := h.open1
  omega

/-- first cause wins, step level: once the flag is flipped, no step changes the recorded cause -/
theorem cause_stable (c c' : Conn) (a : Act) (e : Err) (h : LI c) (hc : c.cause = some e) (hs : step c a = some c') :
    c'.cause = some e := by
  have hcl : c.closed = true := by
    cases hcc : c.closed
    · have := (h.openFlag hcc).1; rw [hc] at this; cases this
    · rfl
  cases a with
  | addOpen => simp only [step] at hs; split at hs <;> cases hs; exact hc
  | addTable => simp only [step] at hs; split at hs <;> cases hs; exact hc
  | addReg => simp only [step] at hs; split at hs <;> cases hs; unfold addReg; split <;> exact hc
  | dialStart t => simp only [step] at hs; split at hs <;> cases hs; exact hc
  | dialNow => simp only [step] at hs; split at hs <;> cases hs; exact hc
  | dialed so =>
    simp only [step] at hs; split at hs <;> cases hs
    unfold dialed
    split
    · exact hc
    · cases so with
      | some e' => simp only [flip, hcl, ↓reduceIte]; exact hc
      | none => simp only; split <;> exact hc
  | flip e' st => simp only [step] at hs; split at hs <;> cases hs; simp only [flip, hcl, ↓reduceIte]; exact hc
  | teardown => simp only [step] at hs; split at hs <;> cases hs; unfold teardown; split <;> exact hc
  | op sys => simp only [step] at hs; split at hs <;> cases hs; unfold userOp; split <;> exact hc

theorem cause_stable_run (as : List Act) : ∀ c e, LI c → c.cause = some e → (run c as).cause = some e := by
  induction as with
  | nil => intro c e _ h; exact h
  | cons a as ih =>
    intro c e hl hc
    simp only [run]
    split
    · next c' hs => exact ih c' e (li_step c c' a hl hs) (cause_stable c c' a e hl hc hs)
    · exact ih c e hl hc

/-- C03 first cause: the error a torn-down conn reports (`c.closeErr`, handed to the close notification) is the
    argument of the step that flipped the flag; and whatever is attempted afterwards (more closes with other errors,
    timers, error events, failing writes) never changes it. -/
theorem c03_first_cause (k : Kind) (as bs : List Act) (e : Err) :
    let c := run (mk k) as
    (c.closed = true → c.td = none → c.cause = some c.cerr) ∧
    (c.cause = some e → (run (mk k) (as ++ bs)).cause = some e) := by
  intro c
  have h : LI c := li_run as (mk k) (li_init k)
  refine ⟨fun h1 h2 => (h.doneOk h1 h2).1, fun hc => ?_⟩
  have hrun : ∀ (xs ys : List Act) (c0 : Conn), run c0 (xs ++ ys) = run (run c0 xs) ys := by
    intro xs
    induction xs with
    | nil => intro ys c0; rfl
    | cons x xs ih => intro ys c0; simp only [List.cons_append, run]; split <;> exact ih _ _
  rw [hrun]
  exact cause_stable_run bs c e h hc

/-- C03 closed operations: once the flag is set, `Write`, `Writev`, `Sendfile`, `Execute` (and `Read`) answer
    with the closed indication and issue no syscall on the descriptor — the conn is left exactly as it was. -/
theorem c03_closed_ops (c : Conn) (sys : Nat) (h : c.closed = true) : userOp c sys = (c, false) := by
  simp [userOp, h]

/-- … in every run: after the flip, a user operation is a no-op on the whole state, in particular on the syscall log -/
theorem c03_closed_ops_run (k : Kind) (as : List Act) (sys : Nat) :
    let c := run (mk k) as
    c.closed = true → run c [.op sys] = c := by
  intro c h
  simp only [run, step]
  split
  · next c' hs =>
    split at hs
    · simp only [Option.some.injEq] at hs; rw [← hs, c03_closed_ops c sys h]
    · cases hs
  · rfl

/-- C03 `Close` is idempotent: a second `Close`/`CloseWithError` (any error) changes nothing at all -/
theorem c03_close_idempotent (c : Conn) (e e' : Err) : closeNow (closeNow c e) e' = closeNow c e := by
  unfold closeNow
  by_cases h : c.closed = true
  · simp [h]
  · have hf : (flip c e true).closed = true := by simp [flip, h]
    have ht : (teardown (flip c e true)).closed = true := by
      unfold teardown; split
      · exact hf
      · exact hf
    simp [h, ht]

/-- C03 dial: the outcome of an asynchronous dial is reported at most once, exactly once as soon as the dial is
    over — by success or by the end of the teardown, whatever closed the conn (refused, error-only event, dial
    timeout, user close, Stop) — and "connected" is only ever reported when the kernel completed the connect. -/
theorem c03_dial (as : List Act) :
    let c := run (mk .dial) as
    c.dialN ≤ 1 ∧ (c.dial = .done → c.dialN = 1) ∧ (c.closed = true → c.td = none → c.dial ≠ .pending) ∧
    c.dialOk ≤ c.dialN ∧ (c.dialOk ≥ 1 → c.connected = true) := by
  intro c
  have h : LI c := li_run as (mk .dial) (li_init .dial)
  refine ⟨?_, h.dialD, fun h1 h2 => (h.doneOk h1 h2).2.2.2, h.dialOk.1, h.dialOk.2⟩
  cases hd : c.dial
  · rw [h.dial0 hd]; omega
  · rw [h.dialP hd]; omega
  · rw [h.dialD hd]; omega

/-! non-vacuity: concrete histories -/

/-- two racing closers and a write error: one notification, the first cause -/
example : let c := run (mk .add) [.addOpen, .addTable, .addReg, .flip (.user 1) true, .flip (.user 2) true, .flip .epipe false,
                                  .op 1, .teardown, .flip .eof true, .teardown]
    c.closeN = 1 ∧ c.cerr = .user 1 ∧ c.opens = 1 ∧ c.fdOpen = false ∧ c.log = 2 := by decide

/-- refused connect: one report, not "connected" -/
example : let c := run (mk .dial) [.dialStart false, .dialed (some .refused), .teardown, .dialed none]
    c.dialN = 1 ∧ c.dialOk = 0 ∧ c.cerr = .refused ∧ c.closeN = 1 := by decide

/-- dial timeout racing the completion event: the close path reports, the late event does not -/
example : let c := run (mk .dial) [.dialStart true, .flip .dtimeout true, .dialed none, .teardown]
    c.dialN = 1 ∧ c.dialOk = 0 ∧ c.cerr = .dtimeout := by decide

/-- success, later closed -/
example : let c := run (mk .dial) [.dialStart true, .dialed none, .flip .nil true, .teardown]
    c.dialN = 1 ∧ c.dialOk = 1 ∧ c.connected = true ∧ c.closeN = 1 := by decide

/-- `Close` from inside the open notification: `addConn` carries on, the registration fails on the closed descriptor -/
example : let c := run (mk .acc) [.addOpen, .flip .nil true, .teardown, .addTable, .addReg]
    c.closeN = 1 ∧ c.opens = 1 ∧ c.inTable = false ∧ c.reg = false := by decide

end Life
