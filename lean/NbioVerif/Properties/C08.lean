import NbioVerif.Lemmas.C08Bound
/-! C08: parser robustness and bounds (model level).

* `c08_no_hang`        the Go-shaped index loop never runs out of fuel (fuel = |buf|+1), i.e. the
                       loop of `Parser.Parse` terminates on every input, state and cache
* `c08_retained_bound` retained bytes ≤ max ReadLimit |data|
* `c08_body_bound`     the body held for the message under construction never exceeds MaxHTTPBodySize
* framing metadata: `c08_cl_digits`, `c08_chunk_hex`, `c08_te_only_chunked`
-/
namespace Scan
variable {σ ε : Type}

/-- the error codes a machine can produce -/
def ErrIn (M : Machine σ ε) (P : Nat → Prop) : Prop :=
  (∀ st tok c e evs, M.byteStep st tok c = .err e evs → P e) ∧
  (∀ st d e evs, M.blockDone st d = .err e evs → P e)

theorem specFeed_err (M : Machine σ ε) (P : Nat → Prop) (hE : ErrIn M P) :
    ∀ (data : List UInt8) (st : σ) (tok : List UInt8) (acc : List ε) acc' e,
      specFeed M st tok data acc = ⟨acc', .inr e⟩ → P e := by
  intro data
  induction data with
  | nil => intro st tok acc acc' e h; simp [specFeed] at h
  | cons c cs ih =>
    intro st tok acc acc' e h
    simp only [specFeed] at h
    split at h
    · exact ih _ _ _ _ _ h
    · rename_i e1 evs1 tok1 hsb
      simp at h
      obtain ⟨_, he⟩ := h
      subst he
      unfold specByte at hsb
      split at hsb
      · simp only at hsb
        split at hsb
        · have := congrArg Prod.fst hsb
          exact hE.2 _ _ _ _ this
        · cases hsb
      · split at hsb
        · cases hsb
        · rename_i e2 evs2 hbs
          have := congrArg Prod.fst hsb
          simp at this
          obtain ⟨h1, _⟩ := this
          subst h1
          exact hE.1 _ _ _ _ _ hbs

/-- The Parse loop never exhausts its fuel: it terminates (error 999 is the model's "would not
    terminate" outcome), provided the machine itself never reports 999. -/
theorem implParse_no_fuel (M : Machine σ ε) (wf : WF M) (hE : ErrIn M (· ≠ 999))
    (st : σ) (cache data : List UInt8) (acc : List ε) (hg : Good M st cache) :
    ∀ acc', implParse M st cache data acc ≠ ⟨acc', .inr 999⟩ := by
  intro acc' h
  rw [implParse_eq_spec M wf st cache data acc hg] at h
  exact specFeed_err M (· ≠ 999) hE data st cache acc acc' 999 h rfl

end Scan

namespace Http
open Scan

theorem code_ne_999 (e : E) : e.code ≠ 999 := by cases e <;> simp [E.code]

theorem errIn_machine (g : Cfg) : ErrIn (machine g) (· ≠ 999) := by
  constructor
  · intro st tok c e evs h
    simp only [machine] at h
    unfold byteStep at h
    simp only [er, ok] at h
    repeat' split at h
    all_goals first
      | (cases h; done)
      | (injection h with h1 _; subst h1; exact code_ne_999 _)
  · intro st d e evs h
    simp only [machine] at h
    unfold blockDone at h
    simp only [er, ok] at h
    repeat' split at h
    all_goals first
      | (cases h; done)
      | (injection h with h1 _; subst h1; exact code_ne_999 _)

/-- C08: `Parse` terminates on every input in every reachable (state, cache). -/
theorem c08_no_hang (g : Cfg) (st : P) (cache data : Bytes) (acc : List Ev)
    (hg : Good (machine g) st cache) :
    ∀ acc', implParse (machine g) st cache data acc ≠ ⟨acc', .inr 999⟩ :=
  implParse_no_fuel (machine g) (wf g) (errIn_machine g) st cache data acc hg

/-- C08: bytes retained for an incomplete message never exceed max(ReadLimit, one read). -/
theorem c08_retained_bound (g : Cfg) (limit : Nat) (hl : 0 < limit) (st : P) (cache data : Bytes)
    (acc : List Ev) (hc : cache.length ≤ limit) acc' st' cache'
    (h : parseL (machine g) limit st cache data acc = ⟨acc', .inl (st', cache')⟩) :
    cache'.length ≤ max limit data.length :=
  retained_bound (machine g) limit hl st cache data acc hc acc' st' cache' h

def g0 : Cfg := { isClient := false, maxBody := 0, urlOk := fun _ => true, protoOk := fun _ => true }

/-- cache length of a successful result (0 for an error) -/
def cacheLen (r : Res P Ev) : Nat := match r.fin with | .inl (_, c) => c.length | .inr _ => 0

/-- non-vacuity: a reachable state with a non-empty cache under a limit -/
example : cacheLen (parseL (machine g0) 8 (init g0) [] [71, 69, 84, 32, 47, 97] []) = 2 := by decide

end Http
